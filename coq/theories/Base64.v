(* Base64.v — model of header.go: EncodeBinaryHeader (base64.RawStdEncoding)
   and DecodeBinaryHeader (RawStd when len%4 <> 0, else Std), following Go's
   encoding/base64 decoder: CR/LF are skipped, the alphabet is strict, padding
   is mandatory for Std and forbidden for RawStd, trailing bits are ignored. *)
From Coq Require Import List NArith Lia Bool.
From Coq.Strings Require Import Byte.
From Connect Require Import Bytes.
Import ListNotations.
Local Open Scope N_scope.

Definition b64_char (v : N) : byte :=
  if v <? 26 then Nb (65 + v)
  else if v <? 52 then Nb (71 + v)
  else if v <? 62 then Nb (v - 4)
  else if v =? 62 then x2b else x2f.

Definition b64_val (b : byte) : option N :=
  let v := bN b in
  if (65 <=? v) && (v <=? 90) then Some (v - 65)
  else if (97 <=? v) && (v <=? 122) then Some (v - 71)
  else if (48 <=? v) && (v <=? 57) then Some (v + 4)
  else if v =? 43 then Some 62
  else if v =? 47 then Some 63
  else None.

Definition is_pad (b : byte) : bool := byte_eqb b x3d.
Definition is_crlf (b : byte) : bool := byte_eqb b x0a || byte_eqb b x0d.

Definition enc3 (a b c : byte) : bytes :=
  [b64_char (bN a / 4); b64_char ((bN a mod 4) * 16 + bN b / 16);
   b64_char ((bN b mod 16) * 4 + bN c / 64); b64_char (bN c mod 64)].
Definition enc2 (a b : byte) : bytes :=
  [b64_char (bN a / 4); b64_char ((bN a mod 4) * 16 + bN b / 16);
   b64_char ((bN b mod 16) * 4)].
Definition enc1 (a : byte) : bytes :=
  [b64_char (bN a / 4); b64_char ((bN a mod 4) * 16)].

(* base64.RawStdEncoding.EncodeToString *)
Fixpoint b64_encode (s : bytes) : bytes :=
  match s with
  | a :: b :: c :: r => enc3 a b c ++ b64_encode r
  | [a; b] => enc2 a b
  | [a] => enc1 a
  | [] => []
  end.

Definition dec_b1 (v0 v1 : N) : byte := Nb (v0 * 4 + v1 / 16).
Definition dec_b2 (v1 v2 : N) : byte := Nb ((v1 mod 16) * 16 + v2 / 4).
Definition dec_b3 (v2 v3 : N) : byte := Nb ((v2 mod 4) * 64 + v3).

(* decoder on input from which CR/LF were removed *)
Fixpoint b64_decode (pad : bool) (s : bytes) : option bytes :=
  match s with
  | [] => Some []
  | [_] => None
  | [a; b] =>
    if pad then None else
    match b64_val a, b64_val b with
    | Some v0, Some v1 => Some [dec_b1 v0 v1]
    | _, _ => None
    end
  | [a; b; c] =>
    if pad then None else
    match b64_val a, b64_val b, b64_val c with
    | Some v0, Some v1, Some v2 => Some [dec_b1 v0 v1; dec_b2 v1 v2]
    | _, _, _ => None
    end
  | a :: b :: c :: d :: r =>
    match b64_val a, b64_val b with
    | Some v0, Some v1 =>
      match b64_val c with
      | Some v2 =>
        match b64_val d with
        | Some v3 =>
          match b64_decode pad r with
          | Some t => Some (dec_b1 v0 v1 :: dec_b2 v1 v2 :: dec_b3 v2 v3 :: t)
          | None => None
          end
        | None =>
          if pad && is_pad d then
            match r with [] => Some [dec_b1 v0 v1; dec_b2 v1 v2] | _ => None end
          else None
        end
      | None =>
        if pad && is_pad c && is_pad d then
          match r with [] => Some [dec_b1 v0 v1] | _ => None end
        else None
      end
    | _, _ => None
    end
  end.

Definition strip_crlf (s : bytes) : bytes := filter (fun b => negb (is_crlf b)) s.

(* EncodeBinaryHeader / DecodeBinaryHeader (header.go:26-46) *)
Definition encode_binary_header (s : bytes) : bytes := b64_encode s.
Definition decode_binary_header (data : bytes) : option bytes :=
  if negb (N.of_nat (length data) mod 4 =? 0)
  then b64_decode false (strip_crlf data)
  else b64_decode true (strip_crlf data).

(* padded form of an unpadded encoding *)
Definition pad_to_4 (s : bytes) : bytes :=
  match N.of_nat (length s) mod 4 with
  | 2 => s ++ [x3d; x3d]
  | 3 => s ++ [x3d]
  | _ => s
  end.

(* ---------------- finite facts *)

Fixpoint range_from (a : N) (n : nat) : list N :=
  match n with O => [] | S k => a :: range_from (a + 1) k end.

Lemma range_from_In a n x : a <= x < a + N.of_nat n -> In x (range_from a n).
Proof.
  revert a. induction n as [|n IH]; intros a H; simpl range_from.
  - lia.
  - destruct (N.eq_dec a x); [left; assumption | right; apply IH; lia].
Qed.

Lemma sextet_sweep (P : N -> bool) :
  forallb P (range_from 0 64) = true -> forall v, v < 64 -> P v = true.
Proof.
  intros H v Hv. rewrite forallb_forall in H. apply H. apply range_from_In. simpl. lia.
Qed.

Lemma val_char v : v < 64 ->
  (match b64_val (b64_char v) with Some w => w =? v | None => false end
   && negb (is_pad (b64_char v)) && negb (is_crlf (b64_char v))) = true.
Proof. revert v. apply sextet_sweep. vm_compute. reflexivity. Qed.

Lemma b64_val_char v : v < 64 -> b64_val (b64_char v) = Some v.
Proof.
  intro H. pose proof (val_char v H) as K.
  apply andb_true_iff in K. destruct K as [K _]. apply andb_true_iff in K. destruct K as [K _].
  destruct (b64_val (b64_char v)); [|discriminate]. apply N.eqb_eq in K. subst. reflexivity.
Qed.

Lemma b64_char_not_crlf v : v < 64 -> is_crlf (b64_char v) = false.
Proof.
  intro H. pose proof (val_char v H) as K.
  apply andb_true_iff in K. destruct K as [_ K]. apply negb_true_iff in K. exact K.
Qed.

Lemma pad_not_val : b64_val x3d = None.
Proof. reflexivity. Qed.

(* sextet ranges *)
Lemma s0_lt a : bN a / 4 < 64.
Proof. pose proof (bN_lt a). apply N.div_lt_upper_bound; lia. Qed.
Lemma s1_lt a b : (bN a mod 4) * 16 + bN b / 16 < 64.
Proof.
  pose proof (bN_lt b). pose proof (N.mod_lt (bN a) 4 ltac:(lia)).
  assert (bN b / 16 < 16) by (apply N.div_lt_upper_bound; lia). lia.
Qed.
Lemma s2_lt b c : (bN b mod 16) * 4 + bN c / 64 < 64.
Proof.
  pose proof (bN_lt c). pose proof (N.mod_lt (bN b) 16 ltac:(lia)).
  assert (bN c / 64 < 4) by (apply N.div_lt_upper_bound; lia). lia.
Qed.
Lemma s3_lt c : bN c mod 64 < 64.
Proof. apply N.mod_lt. lia. Qed.
Lemma s1'_lt a : (bN a mod 4) * 16 < 64.
Proof. pose proof (N.mod_lt (bN a) 4 ltac:(lia)). lia. Qed.
Lemma s2'_lt b : (bN b mod 16) * 4 < 64.
Proof. pose proof (N.mod_lt (bN b) 16 ltac:(lia)). lia. Qed.

(* byte reconstruction, by sweeps over byte pairs *)
Lemma rec_b1 : forall a b, byte_eqb (dec_b1 (bN a / 4) ((bN a mod 4) * 16 + bN b / 16)) a = true.
Proof. apply byte_sweep2. vm_compute. reflexivity. Qed.
Lemma rec_b1' : forall a, byte_eqb (dec_b1 (bN a / 4) ((bN a mod 4) * 16)) a = true.
Proof. apply byte_sweep. vm_compute. reflexivity. Qed.
Lemma rec_b2_l : forall a b, ((bN a mod 4) * 16 + bN b / 16) mod 16 =? bN b / 16 = true.
Proof. apply byte_sweep2. vm_compute. reflexivity. Qed.
Lemma rec_b2_r : forall b c, ((bN b mod 16) * 4 + bN c / 64) / 4 =? bN b mod 16 = true.
Proof. apply byte_sweep2. vm_compute. reflexivity. Qed.
Lemma rec_b2_r' : forall b, ((bN b mod 16) * 4) / 4 =? bN b mod 16 = true.
Proof. apply byte_sweep. vm_compute. reflexivity. Qed.
Lemma rec_b2_fin : forall b, byte_eqb (Nb ((bN b / 16) * 16 + bN b mod 16)) b = true.
Proof. apply byte_sweep. vm_compute. reflexivity. Qed.
Lemma rec_b3_l : forall b c, ((bN b mod 16) * 4 + bN c / 64) mod 4 =? bN c / 64 = true.
Proof. apply byte_sweep2. vm_compute. reflexivity. Qed.
Lemma rec_b3_fin : forall c, byte_eqb (Nb ((bN c / 64) * 64 + bN c mod 64)) c = true.
Proof. apply byte_sweep. vm_compute. reflexivity. Qed.

Lemma dec_b2_ok a b c :
  dec_b2 ((bN a mod 4) * 16 + bN b / 16) ((bN b mod 16) * 4 + bN c / 64) = b.
Proof.
  unfold dec_b2. pose proof (rec_b2_l a b) as H1. pose proof (rec_b2_r b c) as H2.
  apply N.eqb_eq in H1. apply N.eqb_eq in H2. rewrite H1, H2.
  apply byte_eqb_eq. apply rec_b2_fin.
Qed.
Lemma dec_b2_ok' a b :
  dec_b2 ((bN a mod 4) * 16 + bN b / 16) ((bN b mod 16) * 4) = b.
Proof.
  unfold dec_b2. pose proof (rec_b2_l a b) as H1. pose proof (rec_b2_r' b) as H2.
  apply N.eqb_eq in H1. apply N.eqb_eq in H2. rewrite H1, H2.
  apply byte_eqb_eq. apply rec_b2_fin.
Qed.
Lemma dec_b3_ok b c : dec_b3 ((bN b mod 16) * 4 + bN c / 64) (bN c mod 64) = c.
Proof.
  unfold dec_b3. pose proof (rec_b3_l b c) as H1. apply N.eqb_eq in H1. rewrite H1.
  apply byte_eqb_eq. apply rec_b3_fin.
Qed.
Lemma dec_b1_ok a b : dec_b1 (bN a / 4) ((bN a mod 4) * 16 + bN b / 16) = a.
Proof. apply byte_eqb_eq. apply rec_b1. Qed.
Lemma dec_b1_ok' a : dec_b1 (bN a / 4) ((bN a mod 4) * 16) = a.
Proof. apply byte_eqb_eq. apply rec_b1'. Qed.

(* ---------------- full groups *)

Lemma decode_enc3 pad a b c r t :
  b64_decode pad r = Some t ->
  b64_decode pad (enc3 a b c ++ r) = Some (a :: b :: c :: t).
Proof.
  intro H. unfold enc3. cbn [app b64_decode].
  rewrite (b64_val_char _ (s0_lt a)), (b64_val_char _ (s1_lt a b)),
          (b64_val_char _ (s2_lt b c)), (b64_val_char _ (s3_lt c)), H.
  rewrite dec_b1_ok, dec_b2_ok, dec_b3_ok. reflexivity.
Qed.

Lemma enc3_no_crlf a b c : strip_crlf (enc3 a b c) = enc3 a b c.
Proof.
  unfold enc3, strip_crlf. cbn [filter].
  rewrite (b64_char_not_crlf _ (s0_lt a)), (b64_char_not_crlf _ (s1_lt a b)),
          (b64_char_not_crlf _ (s2_lt b c)), (b64_char_not_crlf _ (s3_lt c)). reflexivity.
Qed.

Lemma strip_crlf_app x y : strip_crlf (x ++ y) = strip_crlf x ++ strip_crlf y.
Proof. unfold strip_crlf. apply filter_app. Qed.

Lemma encode_no_crlf : forall s, strip_crlf (b64_encode s) = b64_encode s.
Proof.
  fix IH 1. intro s. destruct s as [|a [|b [|c r]]]; cbn [b64_encode].
  - reflexivity.
  - unfold enc1, strip_crlf. cbn [filter].
    rewrite (b64_char_not_crlf _ (s0_lt a)), (b64_char_not_crlf _ (s1'_lt a)). reflexivity.
  - unfold enc2, strip_crlf. cbn [filter].
    rewrite (b64_char_not_crlf _ (s0_lt a)), (b64_char_not_crlf _ (s1_lt a b)),
            (b64_char_not_crlf _ (s2'_lt b)). reflexivity.
  - rewrite strip_crlf_app, enc3_no_crlf, IH. reflexivity.
Qed.

(* length of the encoding modulo 4 *)
Lemma encode_length_mod : forall s,
  N.of_nat (length (b64_encode s)) mod 4 =
  match N.of_nat (length s) mod 3 with 0 => 0 | 1 => 2 | _ => 3 end.
Proof.
  fix IH 1. intro s. destruct s as [|a [|b [|c r]]]; cbn [b64_encode]; try reflexivity.
  rewrite app_length. cbn [length enc3].
  specialize (IH r).
  replace (N.of_nat (4 + length (b64_encode r))) with (N.of_nat (length (b64_encode r)) + 1 * 4) by lia.
  rewrite N.mod_add by lia. rewrite IH.
  replace (N.of_nat (S (S (S (length r))))) with (N.of_nat (length r) + 1 * 3) by lia.
  rewrite N.mod_add by lia. reflexivity.
Qed.

(* raw decoder on an unpadded encoding *)
Lemma raw_decode_encode : forall s, b64_decode false (b64_encode s) = Some s.
Proof.
  fix IH 1. intro s. destruct s as [|a [|b [|c r]]]; cbn [b64_encode].
  - reflexivity.
  - unfold enc1. cbn [b64_decode].
    rewrite (b64_val_char _ (s0_lt a)), (b64_val_char _ (s1'_lt a)), dec_b1_ok'. reflexivity.
  - unfold enc2. cbn [b64_decode].
    rewrite (b64_val_char _ (s0_lt a)), (b64_val_char _ (s1_lt a b)), (b64_val_char _ (s2'_lt b)).
    rewrite dec_b1_ok, dec_b2_ok'. reflexivity.
  - apply decode_enc3. apply IH.
Qed.

(* padded decoder on the padded form of an encoding *)
Lemma std_decode_padded : forall s, b64_decode true (pad_to_4 (b64_encode s)) = Some s.
Proof.
  fix IH 1. intro s. destruct s as [|a [|b [|c r]]].
  - reflexivity.
  - change (pad_to_4 (b64_encode [a])) with (enc1 a ++ [x3d; x3d]).
    unfold enc1. cbn [app b64_decode].
    rewrite (b64_val_char _ (s0_lt a)), (b64_val_char _ (s1'_lt a)), pad_not_val.
    change (is_pad x3d) with true. cbn [andb]. rewrite dec_b1_ok'. reflexivity.
  - change (pad_to_4 (b64_encode [a; b])) with (enc2 a b ++ [x3d]).
    unfold enc2. cbn [app b64_decode].
    rewrite (b64_val_char _ (s0_lt a)), (b64_val_char _ (s1_lt a b)), (b64_val_char _ (s2'_lt b)), pad_not_val.
    change (is_pad x3d) with true. cbn [andb].
    rewrite dec_b1_ok, dec_b2_ok'. reflexivity.
  - specialize (IH r). cbn [b64_encode].
    assert (E : pad_to_4 (enc3 a b c ++ b64_encode r) = enc3 a b c ++ pad_to_4 (b64_encode r)).
    { unfold pad_to_4. rewrite app_length. cbn [length enc3].
      replace (N.of_nat (4 + length (b64_encode r))) with (N.of_nat (length (b64_encode r)) + 1 * 4) by lia.
      rewrite N.mod_add by lia.
      destruct (N.of_nat (length (b64_encode r)) mod 4) as [|[[q|q|]|[q|q|]|]]; try reflexivity;
        rewrite <- app_assoc; reflexivity. }
    rewrite E. apply decode_enc3. exact IH.
Qed.

Lemma pad_to_4_length_mod s :
  N.of_nat (length (b64_encode s)) mod 4 <> 1 ->
  N.of_nat (length (pad_to_4 (b64_encode s))) mod 4 = 0.
Proof.
  intro H. unfold pad_to_4.
  pose proof (N.mod_lt (N.of_nat (length (b64_encode s))) 4 ltac:(lia)) as Hlt.
  pose proof (N.div_mod (N.of_nat (length (b64_encode s))) 4 ltac:(lia)) as Hdm.
  destruct (N.of_nat (length (b64_encode s)) mod 4) as [|[[q|q|]|[q|q|]|]] eqn:E; try lia;
    try exact E; rewrite app_length; cbn [length].
  - replace (N.of_nat (length (b64_encode s) + 1)) with (N.of_nat (length (b64_encode s)) + 1) by lia.
    rewrite Hdm. replace (4 * (N.of_nat (length (b64_encode s)) / 4) + 3 + 1)
      with (0 + (N.of_nat (length (b64_encode s)) / 4 + 1) * 4) by lia.
    rewrite N.mod_add by lia. reflexivity.
  - replace (N.of_nat (length (b64_encode s) + 2)) with (N.of_nat (length (b64_encode s)) + 2) by lia.
    rewrite Hdm. replace (4 * (N.of_nat (length (b64_encode s)) / 4) + 2 + 2)
      with (0 + (N.of_nat (length (b64_encode s)) / 4 + 1) * 4) by lia.
    rewrite N.mod_add by lia. reflexivity.
Qed.

Lemma pad_no_crlf s : strip_crlf (pad_to_4 (b64_encode s)) = pad_to_4 (b64_encode s).
Proof.
  unfold pad_to_4.
  destruct (N.of_nat (length (b64_encode s)) mod 4) as [|[[q|q|]|[q|q|]|]];
    try apply encode_no_crlf; rewrite strip_crlf_app, encode_no_crlf; reflexivity.
Qed.

(* the padded decoder also accepts an encoding that needed no padding *)
Lemma std_decode_unpadded_full s :
  N.of_nat (length (b64_encode s)) mod 4 = 0 ->
  b64_decode true (b64_encode s) = Some s.
Proof.
  intro H. pose proof (std_decode_padded s) as K. unfold pad_to_4 in K. rewrite H in K. exact K.
Qed.

(* C11/C18: DecodeBinaryHeader (EncodeBinaryHeader s) = s for every byte string *)
Lemma bin_roundtrip_lemma : forall s,
  decode_binary_header (encode_binary_header s) = Some s.
Proof.
  intro s. unfold decode_binary_header, encode_binary_header.
  rewrite encode_no_crlf.
  destruct (N.of_nat (length (b64_encode s)) mod 4 =? 0) eqn:E; cbn [negb].
  - apply N.eqb_eq in E. apply std_decode_unpadded_full. exact E.
  - apply raw_decode_encode.
Qed.

(* ... and the padded form is accepted too *)
Lemma bin_accepts_padded_lemma : forall s,
  decode_binary_header (pad_to_4 (encode_binary_header s)) = Some s.
Proof.
  intro s. unfold decode_binary_header, encode_binary_header.
  rewrite pad_no_crlf.
  assert (Hne : N.of_nat (length (b64_encode s)) mod 4 <> 1).
  { rewrite encode_length_mod. destruct (N.of_nat (length s) mod 3) as [|[p|p|]]; lia. }
  rewrite (pad_to_4_length_mod s Hne). cbn [N.eqb negb].
  apply std_decode_padded.
Qed.
