(* Bytes.v — byte strings, exhaustive byte sweeps, big-endian u32, decimal codec.
   Go `string` / `[]byte` are modelled as `list byte` (all 256 values, no
   well-formedness side condition). *)
From Coq Require Import List NArith ZArith Lia Bool.
From Coq.Strings Require Import Byte.
Import ListNotations.
Local Open Scope N_scope.

(* keep [simpl] from unfolding binary arithmetic (lia then finds no witness) *)
Global Arguments N.mul : simpl never.
Global Arguments N.add : simpl never.
Global Arguments N.sub : simpl never.
Global Arguments N.div : simpl never.
Global Arguments N.modulo : simpl never.
Global Arguments N.ltb : simpl never.
Global Arguments N.leb : simpl never.
Global Arguments N.eqb : simpl never.

Definition bytes := list byte.

(* ---------- exhaustive sweeps over the 256 bytes ---------- *)

Definition all_bytes : list byte :=
  Eval vm_compute in
    (fix go (n : nat) (acc : list byte) : list byte :=
       match n with
       | O => acc
       | S k => match Byte.of_N (N.of_nat k) with
                | Some b => go k (b :: acc)
                | None => go k acc
                end
       end) 256%nat [].

Lemma all_bytes_nth : forall b, nth_error all_bytes (N.to_nat (Byte.to_N b)) = Some b.
Proof. destruct b; reflexivity. Qed.

Lemma all_bytes_In : forall b, In b all_bytes.
Proof. intro b. eapply nth_error_In. apply all_bytes_nth. Qed.

Lemma byte_sweep (P : byte -> bool) :
  forallb P all_bytes = true -> forall b, P b = true.
Proof. intros H b. rewrite forallb_forall in H. apply H, all_bytes_In. Qed.

Lemma byte_sweep2 (P : byte -> byte -> bool) :
  forallb (fun a => forallb (P a) all_bytes) all_bytes = true ->
  forall a b, P a b = true.
Proof.
  intros H a b. rewrite forallb_forall in H.
  specialize (H a (all_bytes_In a)). rewrite forallb_forall in H.
  apply H, all_bytes_In.
Qed.

Definition byte_eqb (a b : byte) : bool := Byte.eqb a b.

Lemma byte_eqb_eq a b : byte_eqb a b = true <-> a = b.
Proof.
  unfold byte_eqb. split.
  - intro H. apply Byte.byte_dec_bl. exact H.
  - intro H. apply Byte.byte_dec_lb. exact H.
Qed.

Lemma byte_eqb_refl a : byte_eqb a a = true.
Proof. apply byte_eqb_eq. reflexivity. Qed.

Lemma byte_eqb_neq a b : byte_eqb a b = false <-> a <> b.
Proof.
  split.
  - intros H E. apply byte_eqb_eq in E. congruence.
  - intro H. destruct (byte_eqb a b) eqn:E; [apply byte_eqb_eq in E; contradiction | reflexivity].
Qed.

Definition bN (b : byte) : N := Byte.to_N b.

Lemma bN_lt b : bN b < 256.
Proof. unfold bN. pose proof (Byte.to_N_bounded b). lia. Qed.

(* total conversion N -> byte (mod 256) *)
Definition Nb (n : N) : byte :=
  match Byte.of_N (n mod 256) with Some b => b | None => x00 end.

Lemma Nb_bN b : Nb (bN b) = b.
Proof.
  unfold Nb, bN. pose proof (Byte.to_N_bounded b).
  rewrite N.mod_small by lia.
  rewrite Byte.of_to_N. reflexivity.
Qed.

Lemma bN_Nb n : n < 256 -> bN (Nb n) = n.
Proof.
  intro H. unfold Nb, bN. rewrite N.mod_small by exact H.
  destruct (Byte.of_N n) eqn:E.
  - apply Byte.to_of_N in E. exact E.
  - apply Byte.of_N_None_iff in E. lia.
Qed.

(* ---------- byte-string equality / prefixes ---------- *)

Fixpoint bs_eqb (a b : bytes) : bool :=
  match a, b with
  | [], [] => true
  | x :: a', y :: b' => byte_eqb x y && bs_eqb a' b'
  | _, _ => false
  end.

Lemma bs_eqb_eq a b : bs_eqb a b = true <-> a = b.
Proof.
  revert b. induction a as [|x a IH]; intros [|y b]; simpl; split; intro H;
    try reflexivity; try discriminate.
  - apply andb_true_iff in H. destruct H as [H1 H2].
    apply byte_eqb_eq in H1. apply IH in H2. subst. reflexivity.
  - inversion H; subst. rewrite byte_eqb_refl. simpl. apply IH. reflexivity.
Qed.

Lemma bs_eqb_refl a : bs_eqb a a = true.
Proof. apply bs_eqb_eq. reflexivity. Qed.

Lemma bs_eqb_neq a b : bs_eqb a b = false <-> a <> b.
Proof.
  split.
  - intros H E. apply bs_eqb_eq in E. congruence.
  - intro H. destruct (bs_eqb a b) eqn:E; [apply bs_eqb_eq in E; contradiction | reflexivity].
Qed.

(* strip_prefix p s = Some r  iff  s = p ++ r   (strings.HasPrefix + TrimPrefix) *)
Fixpoint strip_prefix (p s : bytes) : option bytes :=
  match p with
  | [] => Some s
  | x :: p' => match s with
               | y :: s' => if byte_eqb x y then strip_prefix p' s' else None
               | [] => None
               end
  end.

Lemma strip_prefix_app p r : strip_prefix p (p ++ r) = Some r.
Proof. induction p as [|x p IH]; simpl; [reflexivity|]. rewrite byte_eqb_refl. exact IH. Qed.

Lemma strip_prefix_Some p s r : strip_prefix p s = Some r -> s = p ++ r.
Proof.
  revert s. induction p as [|x p IH]; intros s H; simpl in *.
  - inversion H. reflexivity.
  - destruct s as [|y s]; [discriminate|].
    destruct (byte_eqb x y) eqn:E; [|discriminate].
    apply byte_eqb_eq in E. subst. f_equal. apply IH. exact H.
Qed.

(* ---------- big-endian uint32 ---------- *)

Definition be32 (n : N) : bytes :=
  [Nb (n / 16777216); Nb (n / 65536); Nb (n / 256); Nb n].

Definition be32_dec (a b c d : byte) : N :=
  bN a * 16777216 + bN b * 65536 + bN c * 256 + bN d.

Lemma be32_length n : length (be32 n) = 4%nat.
Proof. reflexivity. Qed.

Lemma be32_dec_lt a b c d : be32_dec a b c d < 4294967296.
Proof.
  unfold be32_dec. pose proof (bN_lt a). pose proof (bN_lt b).
  pose proof (bN_lt c). pose proof (bN_lt d). lia.
Qed.

Lemma Nb_mod n : bN (Nb n) = n mod 256.
Proof.
  unfold Nb. destruct (Byte.of_N (n mod 256)) eqn:E.
  - apply Byte.to_of_N in E. exact E.
  - apply Byte.of_N_None_iff in E.
    pose proof (N.mod_lt n 256). lia.
Qed.

Lemma be32_roundtrip n : n < 4294967296 ->
  match be32 n with
  | [a; b; c; d] => be32_dec a b c d = n
  | _ => False
  end.
Proof.
  intro H. unfold be32, be32_dec. rewrite !Nb_mod.
  pose proof (N.div_mod n 256 ltac:(lia)).
  pose proof (N.div_mod (n / 256) 256 ltac:(lia)).
  pose proof (N.div_mod (n / 65536) 256 ltac:(lia)).
  assert (n / 65536 = n / 256 / 256) by (rewrite N.div_div by lia; reflexivity).
  assert (n / 16777216 = n / 65536 / 256) by (rewrite N.div_div by lia; reflexivity).
  assert (n / 16777216 < 256) by (apply N.div_lt_upper_bound; lia).
  rewrite (N.mod_small (n / 16777216)) by assumption.
  pose proof (N.mod_lt n 256 ltac:(lia)).
  pose proof (N.mod_lt (n/256) 256 ltac:(lia)).
  pose proof (N.mod_lt (n/65536) 256 ltac:(lia)).
  lia.
Qed.

Lemma be32_dec_be32 a b c d : be32 (be32_dec a b c d) = [a; b; c; d].
Proof.
  unfold be32, be32_dec.
  pose proof (bN_lt a) as Ha. pose proof (bN_lt b) as Hb.
  pose proof (bN_lt c) as Hc. pose proof (bN_lt d) as Hd.
  set (n := bN a * 16777216 + bN b * 65536 + bN c * 256 + bN d).
  assert (E1 : n / 16777216 = bN a).
  { subst n. symmetry. apply (N.div_unique _ _ _ (bN b * 65536 + bN c * 256 + bN d)); lia. }
  assert (E2 : n / 65536 = bN a * 256 + bN b).
  { subst n. symmetry. apply (N.div_unique _ _ _ (bN c * 256 + bN d)); lia. }
  assert (E3 : n / 256 = bN a * 65536 + bN b * 256 + bN c).
  { subst n. symmetry. apply (N.div_unique _ _ _ (bN d)); lia. }
  rewrite E1, E2, E3.
  assert (forall x y, y < 256 -> Nb (x * 256 + y) = Nb y) as Hm.
  { intros x y Hy. unfold Nb. replace ((x * 256 + y) mod 256) with (y mod 256); [reflexivity|].
    rewrite N.add_comm, N.mod_add by lia. reflexivity. }
  rewrite Nb_bN.
  rewrite (Hm (bN a) (bN b) Hb), Nb_bN.
  replace (bN a * 65536 + bN b * 256 + bN c) with ((bN a * 256 + bN b) * 256 + bN c) by lia.
  rewrite (Hm _ (bN c) Hc), Nb_bN.
  subst n.
  replace (bN a * 16777216 + bN b * 65536 + bN c * 256 + bN d)
    with ((bN a * 65536 + bN b * 256 + bN c) * 256 + bN d) by lia.
  rewrite (Hm _ (bN d) Hd), Nb_bN. reflexivity.
Qed.

(* ---------- decimal digits ---------- *)

Definition digit_byte (d : N) : byte := Nb (48 + d).

Definition is_digit (b : byte) : bool := (48 <=? bN b) && (bN b <=? 57).

Definition digit_val (b : byte) : N := bN b - 48.

Lemma digit_val_byte d : d < 10 -> digit_val (digit_byte d) = d.
Proof. intro H. unfold digit_val, digit_byte. rewrite bN_Nb by lia. lia. Qed.

Lemma is_digit_byte d : d < 10 -> is_digit (digit_byte d) = true.
Proof.
  intro H. unfold is_digit, digit_byte. rewrite bN_Nb by lia.
  apply andb_true_iff. split; apply N.leb_le; lia.
Qed.

(* strconv.FormatUint(n, 10): fuel-driven, most significant digit first *)
Fixpoint print_dec_aux (fuel : nat) (n : N) (acc : bytes) : bytes :=
  match fuel with
  | O => acc
  | S f => let acc' := digit_byte (n mod 10) :: acc in
           if n <? 10 then acc' else print_dec_aux f (n / 10) acc'
  end.

(* 64 decimal digits are enough for every N below 10^64; all uses are < 2^64 *)
Definition print_dec (n : N) : bytes := print_dec_aux 64 n [].

(* digits-only parse: fold 10*a+d; None on a non-digit or on the empty string *)
Fixpoint parse_dec_aux (s : bytes) (acc : N) : option N :=
  match s with
  | [] => Some acc
  | b :: r => if is_digit b then parse_dec_aux r (10 * acc + digit_val b) else None
  end.

Definition parse_dec (s : bytes) : option N :=
  match s with [] => None | _ => parse_dec_aux s 0 end.

Fixpoint all_digits (s : bytes) : bool :=
  match s with [] => true | b :: r => is_digit b && all_digits r end.

Fixpoint pow10 (k : nat) : N := match k with O => 1 | S j => 10 * pow10 j end.

Lemma pow10_pos k : 0 < pow10 k.
Proof. induction k; simpl; lia. Qed.

(* value denoted by a digit string followed by an accumulator suffix *)
Lemma parse_dec_aux_app s t acc :
  parse_dec_aux (s ++ t) acc =
  match parse_dec_aux s acc with Some a => parse_dec_aux t a | None => None end.
Proof.
  revert acc. induction s as [|b s IH]; intro acc; simpl; [reflexivity|].
  destruct (is_digit b); [apply IH | reflexivity].
Qed.

Lemma print_dec_aux_spec fuel : forall n acc,
  n < pow10 fuel ->
  exists ds, print_dec_aux fuel n acc = ds ++ acc /\
             (fuel <> O -> ds <> []) /\
             all_digits ds = true /\
             (length ds <= fuel)%nat /\
             (forall a, parse_dec_aux ds a = Some (a * pow10 (length ds) + n)) /\
             (n <> 0 -> match ds with b :: _ => b <> x30 | [] => True end) /\
             (forall k, (k <= fuel)%nat -> n < pow10 k -> (length ds <= Nat.max k 1)%nat) /\
             (forall k, (0 < k)%nat -> pow10 k <= n -> (k < length ds)%nat).
Proof.
  induction fuel as [|f IH]; intros n acc Hn.
  - simpl in Hn. exists []. simpl. repeat split; try lia; try congruence.
    + intro a. f_equal. lia.
    + intros k Hk Hp. pose proof (pow10_pos k). lia.
  - simpl print_dec_aux. destruct (n <? 10) eqn:E.
    + apply N.ltb_lt in E. exists [digit_byte (n mod 10)].
      rewrite N.mod_small by lia.
      repeat split.
      * congruence.
      * simpl. rewrite is_digit_byte by lia. reflexivity.
      * simpl. lia.
      * intro a. simpl. rewrite is_digit_byte by lia. rewrite digit_val_byte by lia.
        f_equal. lia.
      * intros Hnz Hb. unfold digit_byte in Hb.
        assert (bN (Nb (48 + n)) = bN x30) by (rewrite Hb; reflexivity).
        rewrite bN_Nb in H by lia.
        change (bN x30) with 48 in H. lia.
      * intros k _ _. simpl. lia.
      * intros k Hk Hp. simpl.
        assert (10 <= pow10 k).
        { destruct k; [lia|]. simpl. pose proof (pow10_pos k). lia. }
        lia.
    + apply N.ltb_ge in E.
      assert (Hq : n / 10 < pow10 f).
      { apply N.div_lt_upper_bound; [lia|]. simpl in Hn. lia. }
      destruct (IH (n / 10) (digit_byte (n mod 10) :: acc) Hq)
        as (ds & Heq & Hne & Hdig & Hlen & Hparse & Hlead & Hub & Hlb).
      exists (ds ++ [digit_byte (n mod 10)]).
      pose proof (N.mod_lt n 10 ltac:(lia)) as Hm.
      pose proof (N.div_mod n 10 ltac:(lia)) as Hdm.
      repeat split.
      * rewrite Heq. rewrite <- app_assoc. reflexivity.
      * intros _ H. apply app_eq_nil in H. destruct H; discriminate.
      * clear - Hdig Hm. induction ds as [|b ds IHd]; simpl in *.
        -- rewrite is_digit_byte by lia. reflexivity.
        -- apply andb_true_iff in Hdig. destruct Hdig as [H1 H2].
           rewrite H1. simpl. apply IHd. exact H2.
      * rewrite app_length. simpl. lia.
      * intro a. rewrite parse_dec_aux_app, Hparse. simpl.
        rewrite is_digit_byte by lia. rewrite digit_val_byte by lia.
        f_equal. rewrite app_length. simpl.
        replace (length ds + 1)%nat with (S (length ds)) by lia. simpl. lia.
      * intro Hnz. assert (n / 10 <> 0).
        { intro Hz. rewrite Hz in Hdm. lia. }
        specialize (Hlead H). destruct ds as [|b ds]; simpl.
        -- exfalso. specialize (Hparse 0). simpl in Hparse. inversion Hparse. lia.
        -- exact Hlead.
      * intros k Hk Hp. rewrite app_length. simpl.
        destruct k as [|k].
        { simpl in Hp. lia. }
        assert (n / 10 < pow10 k).
        { apply N.div_lt_upper_bound; [lia|]. simpl in Hp. lia. }
        specialize (Hub k ltac:(lia) H).
        destruct k as [|k].
        { simpl in H. assert (n / 10 = 0) by lia. rewrite H0 in Hdm. lia. }
        lia.
      * intros k Hk Hp. rewrite app_length. simpl.
        destruct k as [|k]; [lia|].
        destruct k as [|k].
        { assert (ds <> []).
          { intro Hd. subst ds. specialize (Hparse 0). simpl in Hparse.
            inversion Hparse. lia. }
          destruct ds; [congruence|]. simpl. lia. }
        assert (pow10 (S k) <= n / 10).
        { apply N.div_le_lower_bound; [lia|]. simpl in Hp. simpl. lia. }
        specialize (Hlb (S k) ltac:(lia) H). lia.
Qed.

Lemma pow10_64_big n : n < 18446744073709551616 -> n < pow10 64.
Proof.
  intro H. let v := eval vm_compute in (pow10 64) in change (pow10 64) with v. lia.
Qed.

(* the facts about print_dec used by the codecs, for every n < 2^64 *)
Lemma print_dec_spec n : n < 18446744073709551616 ->
  print_dec n <> [] /\
  all_digits (print_dec n) = true /\
  parse_dec (print_dec n) = Some n /\
  (n <> 0 -> match print_dec n with b :: _ => b <> x30 | [] => True end) /\
  (forall k, (1 <= k <= 64)%nat -> n < pow10 k -> (length (print_dec n) <= k)%nat) /\
  (forall k, (0 < k)%nat -> pow10 k <= n -> (k < length (print_dec n))%nat).
Proof.
  intro H. unfold print_dec.
  destruct (print_dec_aux_spec 64 n [] (pow10_64_big n H))
    as (ds & Heq & Hne & Hdig & Hlen & Hparse & Hlead & Hub & Hlb).
  rewrite app_nil_r in Heq. rewrite Heq.
  repeat split.
  - apply Hne. discriminate.
  - exact Hdig.
  - unfold parse_dec. destruct ds as [|b ds'] eqn:Eds.
    + exfalso. apply Hne; [discriminate | reflexivity].
    + rewrite Hparse. f_equal; try lia.
  - exact Hlead.
  - intros k Hk Hp. specialize (Hub k ltac:(lia) Hp). lia.
  - exact Hlb.
Qed.

(* parse_dec accepts exactly non-empty digit strings *)
Lemma parse_dec_aux_digits s : forall acc,
  all_digits s = true -> exists v, parse_dec_aux s acc = Some v.
Proof.
  induction s as [|b s IH]; intros acc H; simpl in *.
  - eauto.
  - apply andb_true_iff in H. destruct H as [H1 H2]. rewrite H1. apply IH. exact H2.
Qed.

Lemma parse_dec_aux_nondigit s : forall acc,
  all_digits s = false -> parse_dec_aux s acc = None.
Proof.
  induction s as [|b s IH]; intros acc H; simpl in *; [discriminate|].
  destruct (is_digit b); simpl in H; [apply IH; exact H | reflexivity].
Qed.

Lemma parse_dec_None_iff s : parse_dec s = None <-> (s = [] \/ all_digits s = false).
Proof.
  unfold parse_dec. destruct s as [|b s]; [split; auto|].
  split.
  - intro H. right. destruct (all_digits (b :: s)) eqn:E; [|reflexivity].
    destruct (parse_dec_aux_digits (b :: s) 0 E) as [v Hv]. congruence.
  - intros [H|H]; [discriminate|]. apply parse_dec_aux_nondigit. exact H.
Qed.

(* upper bound of the parsed value by length *)
Lemma parse_dec_aux_bound s : forall acc v,
  parse_dec_aux s acc = Some v -> v < (acc + 1) * pow10 (length s).
Proof.
  induction s as [|b s IH]; intros acc v H; simpl in *.
  - inversion H; subst. lia.
  - destruct (is_digit b) eqn:E; [|discriminate].
    apply IH in H. unfold is_digit in E. apply andb_true_iff in E.
    destruct E as [E1 E2]. apply N.leb_le in E1. apply N.leb_le in E2.
    unfold digit_val in H.
    assert (10 * acc + (bN b - 48) + 1 <= 10 * (acc + 1)) by lia.
    pose proof (pow10_pos (length s)).
    nia.
Qed.
