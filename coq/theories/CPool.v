(* CPool.v — the pooled compressors / decompressors (compression.go:59-160).

   [decompress_trace] / [compress_trace]: what compressionPool.Decompress and
   Compress do to the pool and to the pooled object on each of their exit
   branches: Get, Reset(source), then — unless Reset failed, in which case the
   object is dropped — exactly one release (Close, parking Reset, Put).

   The pool itself is modelled as the multiset of object identities it holds;
   Get takes any one of them (whichever the runtime hands out: the choice is a
   parameter) or makes a fresh one. The theorem: whatever the interleaving of
   any number of calls that each follow such a trace, and whatever objects the
   pool chooses to hand out, no object is ever held by two calls at once and the
   pool never holds an object twice. One release too many refutes it. *)
From Coq Require Import List Arith Lia Bool PeanoNat Permutation.
Import ListNotations.

(* ---- the traces of the two functions ---- *)
Inductive pev := PGet | PReset | PClose | PPark | PPut.

Inductive doutcome :=
| DResetFails            (* getDecompressor: Reset(src) returns an error *)
| DReadFails             (* dst.ReadFrom fails: corrupt stream *)
| DTooLarge (discard_ok : bool)   (* decompressed size beyond the limit *)
| DOk (recycle_ok : bool).        (* success; putDecompressor may fail in Close *)

Definition release (close_ok : bool) : list pev :=
  if close_ok then [PClose; PPark; PPut] else [PClose].   (* a failing Close returns before Put *)

Definition decompress_trace (o : doutcome) : list pev :=
  match o with
  | DResetFails => [PGet; PReset]
  | DReadFails => [PGet; PReset] ++ release true
  | DTooLarge _ => [PGet; PReset] ++ release true
  | DOk r => [PGet; PReset] ++ release r
  end.

Inductive coutcome := CWriteFails | COk (recycle_ok : bool).

Definition compress_trace (o : coutcome) : list pev :=
  match o with
  | CWriteFails => [PGet; PReset] ++ release true
  | COk r => [PGet; PReset] ++ release r
  end.

Definition count (e : pev) (l : list pev) : nat :=
  length (filter (fun x => match x, e with
                           | PGet, PGet | PReset, PReset | PClose, PClose | PPark, PPark | PPut, PPut => true
                           | _, _ => false end) l).

(* every branch: one Get, at most one Put, and a Put only after Close and the parking Reset *)
Lemma decompress_balanced_lemma : forall o,
  count PGet (decompress_trace o) = 1 /\ count PPut (decompress_trace o) <= 1 /\
  (count PPut (decompress_trace o) = 1 -> count PClose (decompress_trace o) = 1 /\ count PPark (decompress_trace o) = 1).
Proof. intros [| |d|[|]]; cbn; repeat split; auto; try lia; intro H; try discriminate; auto. Qed.

Lemma compress_balanced_lemma : forall o,
  count PGet (compress_trace o) = 1 /\ count PPut (compress_trace o) <= 1.
Proof. intros [|[|]]; cbn; split; auto. Qed.

(* ---- the pool under arbitrary interleavings ---- *)

(* one step of some call: take an object (the runtime picks which pooled object,
   or makes a new one), or give back the object held *)
Inductive pstep :=
| SGet (call : nat) (pick : nat)     (* pick < length pool: that pooled object; otherwise a fresh one *)
| SPut (call : nat).                 (* the call releases what it holds *)

Record pool := mkPool {
  avail : list nat;                  (* identities in the pool *)
  held : list (nat * nat);           (* (call, identity) *)
  next : nat                         (* next fresh identity *)
}.

Definition pinit : pool := mkPool [] [] 0.

Fixpoint remove_nth {A} (n : nat) (l : list A) : list A :=
  match n, l with
  | _, [] => []
  | 0, _ :: t => t
  | S k, h :: t => h :: remove_nth k t
  end.

Fixpoint drop_call (c : nat) (l : list (nat * nat)) : list (nat * nat) :=
  match l with
  | [] => []
  | (c', i) :: t => if Nat.eqb c c' then t else (c', i) :: drop_call c t
  end.

Fixpoint find_call (c : nat) (l : list (nat * nat)) : option nat :=
  match l with
  | [] => None
  | (c', i) :: t => if Nat.eqb c c' then Some i else find_call c t
  end.

(* a disciplined call releases only what it holds, once: SPut of a call that
   holds nothing is not a step such a call can take *)
Definition pool_step (p : pool) (s : pstep) : pool :=
  match s with
  | SGet c k =>
    match find_call c (held p) with
    | Some _ => p                                  (* a call holds at most one object at a time *)
    | None =>
      match nth_error (avail p) k with
      | Some i => mkPool (remove_nth k (avail p)) ((c, i) :: held p) (next p)
      | None => mkPool (avail p) ((c, next p) :: held p) (S (next p))
      end
    end
  | SPut c =>
    match find_call c (held p) with
    | Some i => mkPool (i :: avail p) (drop_call c (held p)) (next p)
    | None => p
    end
  end.

Definition ids (p : pool) : list nat := avail p ++ map snd (held p).

Definition pool_inv (p : pool) : Prop :=
  NoDup (ids p) /\ (forall i, In i (ids p) -> i < next p).

Lemma remove_nth_in {A} : forall k (l : list A) x, In x (remove_nth k l) -> In x l.
Proof.
  induction k as [|k IH]; intros [|h t] x H; cbn in *; auto.
  destruct H as [H|H]; auto.
Qed.

Lemma nth_error_split_perm : forall k (l : list nat) i,
  nth_error l k = Some i -> exists a b, l = a ++ i :: b /\ remove_nth k l = a ++ b.
Proof.
  induction k as [|k IH]; intros [|h t] i H; cbn in H; try discriminate.
  - injection H as ->. exists [], t. split; reflexivity.
  - destruct (IH t i H) as (a & b & E1 & E2). exists (h :: a), b. cbn. rewrite E1 at 1. rewrite E2. split; reflexivity.
Qed.

Lemma find_drop : forall c l i,
  find_call c l = Some i -> exists a b, l = a ++ (c, i) :: b /\ drop_call c l = a ++ b.
Proof.
  intros c. induction l as [|[c' j] t IH]; intros i H; cbn in H; [discriminate|].
  cbn. destruct (Nat.eqb c c') eqn:E.
  - injection H as ->. apply Nat.eqb_eq in E. subst c'. exists [], t. split; reflexivity.
  - destruct (IH i H) as (a & b & E1 & E2). exists ((c', j) :: a), b. cbn. rewrite E1 at 1. rewrite E2. split; reflexivity.
Qed.

Lemma pool_inv_init : pool_inv pinit.
Proof. split; cbn; [constructor | intros i []]. Qed.

Lemma inv_of_perm : forall (l l' : list nat) n,
  Permutation l l' -> NoDup l -> (forall i, In i l -> i < n) ->
  NoDup l' /\ (forall i, In i l' -> i < n).
Proof.
  intros l l' n P ND LT. split.
  - exact (Permutation_NoDup P ND).
  - intros i H. apply LT. exact (Permutation_in i (Permutation_sym P) H).
Qed.

Lemma pool_inv_step : forall p s, pool_inv p -> pool_inv (pool_step p s).
Proof.
  intros [av hd nx] s [ND LT]. unfold ids in *. cbn in *.
  destruct s as [c k|c]; cbn.
  - destruct (find_call c hd) eqn:F; [split; assumption|].
    destruct (nth_error av k) as [i|] eqn:N; unfold pool_inv, ids; cbn.
    + destruct (nth_error_split_perm k av i N) as (a & b & E1 & E2). rewrite E2. subst av.
      apply inv_of_perm with (l := (a ++ i :: b) ++ map snd hd); try assumption.
      rewrite <- !app_assoc. cbn.
      apply Permutation_app_head.
      (* i :: b ++ H  ~  b ++ i :: H *)
      apply Permutation_middle.
    + split.
      * apply Permutation_NoDup with (l := nx :: av ++ map snd hd).
        -- apply Permutation_middle.
        -- constructor; [|exact ND]. intro H. specialize (LT nx H). lia.
      * intros j H. apply in_app_or in H. destruct H as [H|H].
        -- specialize (LT j (in_or_app _ _ _ (or_introl H))). lia.
        -- cbn in H. destruct H as [H|H]; [subst; lia|].
           specialize (LT j (in_or_app _ _ _ (or_intror H))). lia.
  - destruct (find_call c hd) as [i|] eqn:F; [|split; assumption].
    destruct (find_drop c hd i F) as (a & b & E1 & E2). unfold pool_inv, ids; cbn. rewrite E2. subst hd.
    rewrite map_app in *. cbn in *.
    apply inv_of_perm with (l := av ++ map snd a ++ i :: map snd b); try assumption.
    (* av ++ A ++ i :: B  ~  i :: av ++ A ++ B *)
    rewrite !app_assoc. apply Permutation_sym. apply Permutation_middle.
Qed.

Fixpoint pool_run (p : pool) (ss : list pstep) : pool :=
  match ss with [] => p | s :: r => pool_run (pool_step p s) r end.

Lemma pool_inv_run : forall ss p, pool_inv p -> pool_inv (pool_run p ss).
Proof. induction ss as [|s r IH]; intros p H; cbn; [exact H | apply IH, pool_inv_step, H]. Qed.

Lemma nodup_app_parts : forall (a b : list nat),
  NoDup (a ++ b) -> NoDup a /\ NoDup b /\ (forall x, In x a -> ~ In x b).
Proof.
  induction a as [|h t IH]; intros b H; cbn in *.
  - repeat split; [constructor | exact H | intros x []].
  - inversion H as [|? ? NI ND]; subst. destruct (IH b ND) as (Na & Nb & D).
    repeat split.
    + constructor; [|exact Na]. intro X. apply NI, in_or_app. left. exact X.
    + exact Nb.
    + intros x [->|X] Y; [apply NI, in_or_app; right; exact Y | exact (D x X Y)].
Qed.

(* C08 / C13: under every interleaving of calls that release what they hold
   exactly once, and whatever objects the pool hands out, no object is ever held
   by two calls at the same time, and the pool never contains an object twice *)
Lemma no_sharing_lemma : forall ss,
  let p := pool_run pinit ss in
  NoDup (map snd (held p)) /\ NoDup (avail p) /\
  (forall c i, In (c, i) (held p) -> ~ In i (avail p)).
Proof.
  intros ss p. destruct (pool_inv_run ss pinit pool_inv_init) as [ND _]. fold p in ND. unfold ids in ND.
  destruct (nodup_app_parts _ _ ND) as (Na & Nh & D).
  split; [exact Nh|]. split; [exact Na|].
  intros c i H Hin. apply (D i Hin). apply in_map_iff. exists (c, i). auto.
Qed.

(* what the discipline excludes: a second release of the same object puts it
   into the pool twice, and two calls can then hold it at once *)
Definition double_put (p : pool) (c : nat) : pool :=
  match find_call c (held p) with
  | Some i => mkPool (i :: i :: avail p) (drop_call c (held p)) (next p)
  | None => p
  end.

Lemma double_release_shares :
  let p := double_put (pool_step pinit (SGet 0 0)) 0 in
  let q := pool_step (pool_step p (SGet 1 0)) (SGet 2 0) in
  map snd (held q) = [0; 0].
Proof. reflexivity. Qed.
