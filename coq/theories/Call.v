(* Call.v — the streaming client connection (protocol_connect.go /
   protocol_grpc.go: Send, CloseRequest, Receive, CloseResponse wrapped by
   errorTranslatingClientConn) as compositions of the duplex call's events, and
   the C14 / C15 statements at that level: what the user of a client stream
   observes, for every sequence of operations, goroutine steps and
   cancellations.

   Response bodies are scripts: each Receive meets the next [item]. What the
   envelope reader / writer do with an error coming out of the duplex call is
   [recv_map] / [cls_of_err] (envelope.go: coded errors pass through; an
   uncoded error at the prefix is invalid_argument, inside a payload unknown). *)
From Coq Require Import List NArith Lia Bool.
From Connect Require Import Bytes Generated Duplex.
Import ListNotations.
Local Open Scope N_scope.

Inductive proto := PConnect | PGrpc | PGrpcWeb.

Inductive item :=
| IMsg                          (* a complete data envelope *)
| IEndOk                        (* the terminator / trailers of a successful call *)
| IEndErr (c : N)               (* the terminator / trailers carrying error code c (non-zero) *)
| ITrunc                        (* the body ends cleanly with no terminator *)
| IFail (e : errv) (mid : bool). (* the body read fails (inside a payload when [mid]) *)

Inductive cls := COk | CEof | CCode (c : N) | CBlocked | CNone.

Definition cls_of_err (e : errv) : cls :=
  match wrap_uncoded e with
  | Coded c => CCode c
  | EOFv => CEof
  | _ => CCode code_unknown'
  end.

Definition cls_of (o : outcome) : cls :=
  match o with OOk => COk | OErr e => cls_of_err e | OBlocked => CBlocked | ONone => CNone end.

(* the code a client reports for a response that ends without terminator *)
Definition trunc_code (p : proto) : N := 13. (* internal, all three protocols *)

(* envelopeReader.Read on an error from the duplex call's Read *)
Definition recv_map (p : proto) (mid : bool) (x : errv) : errv :=
  match x with
  | Coded c => Coded c
  | CtxErr k => Coded (ctx_code k)
  | Plain => if mid then Coded 2 else Coded 3
  | EOFv => Coded (trunc_code p)
  end.

Definition body_of (i : item) : body_read :=
  match i with
  | IMsg | IEndOk | IEndErr _ => BData
  | ITrunc => BEnd
  | IFail e _ => BFail e
  end.

Definition is_mid (i : item) : bool := match i with IFail _ m => m | _ => false end.

Inductive aop :=
| ASend (mid : option ctxkind)     (* prefix write, payload write; optionally the context ends in between *)
| ASendBlocked (k : ctxkind)       (* the write is blocked on the pipe when the context ends *)
| ACloseReq
| ARecv (i : item)
| ARecvCancel (k : ctxkind)        (* Receive is blocked in the body read when the context ends *)
| ACloseResp (rest : option errv)
| ACancel (k : ctxkind)
| AGateDo (r : do_result)
| AGateReady
| AWatch                           (* the context watcher runs *)
| ABodyClosed.                     (* the transport closes the request body *)

Definition set_err (s : dstate) (e : errv) : dstate := fst (step s (USetError e)).

Definition api_step (p : proto) (s : dstate) (op : aop) : dstate * cls :=
  match op with
  | ASend mid =>
    let '(s1, o1) := step s UWrite in
    match o1 with
    | OOk =>
      let s1' := match mid with Some k => fst (step s1 (XCtx k)) | None => s1 end in
      let '(s2, o2) := step s1' UWrite in (s2, cls_of o2)
    | _ => (s1, cls_of o1)
    end
  | ASendBlocked k =>
    let '(s1, o1) := step s UWrite in
    match o1 with
    | OOk => (fst (step (fst (step s1 (XCtx k))) GWatchCtx), CEof)   (* io.ErrClosedPipe -> io.EOF *)
    | _ => (s1, cls_of o1)
    end
  | ACloseReq => let '(s1, o) := step s UCloseWrite in (s1, cls_of o)
  | ARecv i =>
    if negb (ready s) then (s, CBlocked)
    else match derr s with
         | Some x => (set_err s x, cls_of_err x)        (* the recorded error, again *)
         | None =>
           let '(s1, o) := step s (URead (body_of i)) in
           match o with
           | OOk =>
             match i with
             | IMsg => (s1, COk)
             | IEndOk => (set_err s1 EOFv, CEof)
             | IEndErr c => (set_err s1 (Coded c), CCode c)
             | _ => (s1, CNone)
             end
           | OErr x => let y := recv_map p (is_mid i) x in (set_err s1 y, cls_of_err y)
           | _ => (s1, CNone)
           end
         end
  | ARecvCancel k =>
    if negb (ready s) then (s, CBlocked)
    else match derr s with
         | Some x => (set_err s x, cls_of_err x)
         | None =>
           match ctx s with
           | Some k0 => let '(s1, o) := step s (URead BData) in (s1, cls_of o)
           | None =>
             if negb (has_resp s) then (set_err s (Coded code_unknown'), CCode code_unknown')
             else
               let s1 := fst (step s (XCtx k)) in
               let y := recv_map p false (wrap_done (ctx s1) (CtxErr k)) in
               (set_err s1 y, cls_of_err y)
           end
         end
  | ACloseResp rest => let '(s1, o) := step s (UCloseRead rest) in (s1, cls_of o)
  | ACancel k => (fst (step s (XCtx k)), CNone)
  | AGateDo r => (fst (step s (GDo r)), CNone)
  | AGateReady => (fst (step s GReady), CNone)
  | AWatch => (fst (step s GWatchCtx), CNone)
  | ABodyClosed => (fst (step s XReqBodyClosed), CNone)
  end.

Fixpoint api_run (p : proto) (s : dstate) (ops : list aop) : dstate * list cls :=
  match ops with
  | [] => (s, [])
  | o :: r => let '(s1, c) := api_step p s o in let '(s2, cs) := api_run p s1 r in (s2, c :: cs)
  end.

(* ---- every API operation is a sequence of duplex events ---- *)
Definition events_of (p : proto) (s : dstate) (op : aop) : list ev :=
  match op with
  | ASend mid =>
    match snd (step s UWrite) with
    | OOk => match mid with Some k => [UWrite; XCtx k; UWrite] | None => [UWrite; UWrite] end
    | _ => [UWrite]
    end
  | ASendBlocked k =>
    match snd (step s UWrite) with OOk => [UWrite; XCtx k; GWatchCtx] | _ => [UWrite] end
  | ACloseReq => [UCloseWrite]
  | ARecv i =>
    if negb (ready s) then []
    else match derr s with
         | Some x => [USetError x]
         | None =>
           match snd (step s (URead (body_of i))) with
           | OOk => match i with IEndOk => [URead (body_of i); USetError EOFv]
                               | IEndErr c => [URead (body_of i); USetError (Coded c)]
                               | _ => [URead (body_of i)] end
           | OErr x => [URead (body_of i); USetError (recv_map p (is_mid i) x)]
           | _ => [URead (body_of i)]
           end
         end
  | ARecvCancel k =>
    if negb (ready s) then []
    else match derr s with
         | Some x => [USetError x]
         | None =>
           match ctx s with
           | Some _ => [URead BData]
           | None => if negb (has_resp s) then [USetError (Coded code_unknown')]
                     else [XCtx k; USetError (recv_map p false (wrap_done (Some k) (CtxErr k)))]
           end
         end
  | ACloseResp rest => [UCloseRead rest]
  | ACancel k => [XCtx k]
  | AGateDo r => [GDo r]
  | AGateReady => [GReady]
  | AWatch => [GWatchCtx]
  | ABodyClosed => [XReqBodyClosed]
  end.

Ltac crush_state s :=
  destruct s as [st wt rt rd de hr pr pw bc cx];
  cbn in *.

Lemma api_refines : forall p s op, fst (api_step p s op) = fst (run s (events_of p s op)).
Proof.
  intros p s op. crush_state s.
  destruct op as [mid|k| |i|k|rest|k|r| | |]; cbn.
  - destruct cx as [k0|]; cbn; [reflexivity|]. destruct pr; cbn; [reflexivity|]. destruct pw; cbn; [reflexivity|].
    destruct mid as [k|]; cbn; reflexivity.
  - destruct cx as [k0|]; cbn; [reflexivity|]. destruct pr; cbn; [reflexivity|]. destruct pw; cbn; [reflexivity|].
    destruct st, wt; cbn; reflexivity.
  - reflexivity.
  - destruct rd; cbn; [|reflexivity]. destruct de as [x|]; cbn; [reflexivity|].
    destruct cx as [k0|]; cbn; [reflexivity|]. destruct hr; cbn; [|reflexivity].
    destruct i as [| |c| |e m]; cbn; reflexivity.
  - destruct rd; cbn; [|reflexivity]. destruct de as [x|]; cbn; [reflexivity|].
    destruct cx as [k0|]; cbn; [reflexivity|]. destruct hr; cbn; reflexivity.
  - destruct rd; cbn; [|reflexivity]. destruct hr; cbn; reflexivity.
  - reflexivity.
  - destruct st; cbn; [|reflexivity]. destruct rt; cbn; [reflexivity|].
    destruct r as [e|[e|] b1]; cbn; try reflexivity; try (destruct b1; reflexivity).
  - destruct rt; cbn; [|reflexivity]. destruct rd; reflexivity.
  - destruct wt; cbn; [destruct cx; reflexivity|reflexivity].
  - reflexivity.
Qed.

Lemma api_run_refines : forall p ops s, exists evs, fst (api_run p s ops) = fst (run s evs).
Proof.
  induction ops as [|o r IH]; intro s; cbn [api_run]; [exists []; reflexivity|].
  pose proof (api_refines p s o) as H1. destruct (api_step p s o) as [s1 c]. cbn [fst] in H1.
  destruct (IH s1) as (e2 & H2). destruct (api_run p s1 r) as [s2 cs]. cbn [fst] in *.
  exists (events_of p s o ++ e2). rewrite run_app. subst s1. destruct (run s (events_of p s o)) as [t o1]. cbn [fst] in *.
  destruct (run t e2). cbn [fst] in *. exact H2.
Qed.

(* so every invariant of the duplex call holds in every state a client can reach *)
Lemma api_lift (P : dstate -> Prop) p :
  (forall s e, P s -> P (fst (step s e))) -> forall ops s, P s -> P (fst (api_run p s ops)).
Proof.
  intros Hs ops s H. destruct (api_run_refines p ops s) as (evs & E). rewrite E.
  exact (lift_run P Hs evs s H).
Qed.

Definition failed (c : cls) : Prop := match c with CEof | CCode _ => True | _ => False end.

(* a failing Receive records what it reported *)
Lemma recv_failure_records : forall p s i,
  failed (snd (api_step p s (ARecv i))) ->
  ready s = true /\
  exists x, derr (fst (api_step p s (ARecv i))) = Some x /\ cls_of_err x = snd (api_step p s (ARecv i)).
Proof.
  intros p s i. crush_state s.
  destruct rd; cbn; [|intros []]. intro F. split; [reflexivity|].
  destruct de as [x|]; cbn in *; [exists x; auto|].
  destruct cx as [k0|]; cbn in *; [destruct k0; cbn; eauto|].
  destruct hr; cbn in *; [|destruct (is_mid i); cbn; eauto].
  destruct i as [| |c| |e m]; cbn in *; try contradiction; eauto.
  destruct e as [c|k| |]; destruct m; cbn; try destruct k; eauto.
Qed.

(* ... and a recorded error is what every later Receive reports *)
Lemma recorded_error_reported : forall p s x i,
  ready s = true -> derr s = Some x -> snd (api_step p s (ARecv i)) = cls_of_err x.
Proof. intros p s x i R D. cbn [api_step]. rewrite R, D. reflexivity. Qed.

(* C14: once Receive has reported an error it keeps reporting that error,
   whatever the client, the request goroutine and the environment do in between *)
Lemma receive_error_sticky_api_lemma : forall p s i ops j,
  failed (snd (api_step p s (ARecv i))) ->
  snd (api_step p (fst (api_run p (fst (api_step p s (ARecv i))) ops)) (ARecv j))
  = snd (api_step p s (ARecv i)).
Proof.
  intros p s i ops j F. destruct (recv_failure_records p s i F) as (R & x & D & C).
  set (s1 := fst (api_step p s (ARecv i))) in *.
  assert (R1 : ready s1 = true).
  { subst s1. rewrite api_refines. apply ready_persistent. exact R. }
  rewrite (recorded_error_reported p _ x j).
  - exact C.
  - exact (api_lift (fun s => ready s = true) p ready_step ops s1 R1).
  - exact (api_lift (fun s => derr s = Some x) p (fun s e => err_sticky_step s e x) ops s1 D).
Qed.

(* C14: ... and from then on a Send returns the error wrapping io.EOF at once,
   as long as the context is live (else it reports the context's code) *)
Lemma send_after_receive_error_eof_api_lemma : forall p s i ops mid,
  inv s -> failed (snd (api_step p s (ARecv i))) ->
  let s' := fst (api_run p (fst (api_step p s (ARecv i))) ops) in
  ctx s' = None -> snd (api_step p s' (ASend mid)) = CEof.
Proof.
  intros p s i ops mid I F s' C. destruct (recv_failure_records p s i F) as (R & x & D & _).
  set (s1 := fst (api_step p s (ARecv i))) in *.
  assert (I1 : inv s1) by (subst s1; rewrite api_refines; apply inv_run; exact I).
  pose proof (api_lift inv p inv_step ops s1 I1) as (_ & _ & _ & I4). fold s' in I4.
  pose proof (api_lift (fun s => derr s = Some x) p (fun s e => err_sticky_step s e x) ops s1 D) as D'.
  fold s' in D'. cbn beta in D'.
  assert (P : pipe_r_closed s' = true) by (apply I4; rewrite D'; discriminate).
  clearbody s'. clear - C P. crush_state s'. subst. reflexivity.
Qed.

(* C14: the Receive that meets the handler's terminator reports the handler's outcome *)
Lemma receive_reports_outcome_lemma : forall p s,
  ready s = true -> derr s = None -> ctx s = None -> has_resp s = true ->
  (forall c, snd (api_step p s (ARecv (IEndErr c))) = CCode c) /\
  snd (api_step p s (ARecv IEndOk)) = CEof /\
  snd (api_step p s (ARecv IMsg)) = COk /\
  snd (api_step p s (ARecv ITrunc)) = CCode (trunc_code p).
Proof. intros p s R D C H. crush_state s. subst. repeat split; reflexivity. Qed.

(* ---------------- C15 ---------------- *)

(* the call after its context ended with kind k, before anything else went wrong *)
Definition cancelled (k : ctxkind) (s : dstate) : Prop :=
  ctx s = Some k /\ (derr s = None \/ derr s = Some (Coded (ctx_code k))).

(* what the environment may do after the cancellation: the transport reports
   the context's error (or a response that passes validation); it does not
   deliver an unrelated failure of its own *)
Definition do_ok (k : ctxkind) (r : do_result) : bool :=
  match r with
  | DoErr (CtxErr k') => N.eqb (ctx_code k') (ctx_code k)
  | DoErr (Coded c) => N.eqb c (ctx_code k)      (* an HTTPClient that returns a coded *connect.Error of its own *)
  | DoErr _ => true                               (* any other failure (the context's cause, a closed connection, ...): makeRequest asks the context *)
  | DoResp None false => true
  | DoResp _ _ => false
  end.

Definition op_ok (k : ctxkind) (op : aop) : bool :=
  match op with
  | AGateDo r => do_ok k r
  | ACloseResp (Some (Coded _)) => false
  | ACloseResp (Some (CtxErr k')) => N.eqb (ctx_code k') (ctx_code k)
  | _ => true
  end.

Definition cls_ok (k : ctxkind) (op : aop) (c : cls) : Prop :=
  match op with
  | ASend _ | ASendBlocked _ | ARecv _ | ARecvCancel _ => c = CCode (ctx_code k) \/ c = CBlocked
  | ACloseReq => c = COk
  | ACloseResp _ => c = COk \/ c = CBlocked \/ c = CCode (ctx_code k)
  | _ => True
  end.

Lemma cancelled_step : forall p k s op,
  cancelled k s -> op_ok k op = true ->
  cancelled k (fst (api_step p s op)) /\ cls_ok k op (snd (api_step p s op)).
Proof.
  intros p k s op [C D] O. unfold cancelled. crush_state s. subst cx.
  destruct op as [mid|k1| |i|k1|rest|k1|r| | |]; cbn in *.
  - destruct D as [-> | ->]; cbn; auto.
  - destruct D as [-> | ->]; cbn; auto.
  - auto.
  - destruct rd; cbn; [|auto]. destruct D as [-> | ->]; cbn; auto; destruct k; cbn; auto.
  - destruct rd; cbn; [|auto]. destruct D as [-> | ->]; cbn; auto; destruct k; cbn; auto.
  - destruct rd; cbn; [|auto]. destruct hr; cbn; [|auto].
    destruct rest as [[c|k2| |]|]; cbn in *; try discriminate; auto 6.
    apply N.eqb_eq in O. rewrite O. auto 6.
  - auto.
  - destruct st; cbn; [|auto]. destruct rt; cbn; [auto|].
    destruct r as [[c|k2| |]|[e|] [|]]; cbn in *; try discriminate.
    + apply N.eqb_eq in O. subst c. destruct D as [-> | ->]; auto.
    + assert (ctx_code k2 = ctx_code k) as E by (apply N.eqb_eq; exact O). rewrite E.
      destruct D as [-> | ->]; auto.
    + destruct D as [-> | ->]; cbn; auto.
    + destruct D as [-> | ->]; cbn; auto.
    + auto.
  - destruct rt; cbn; [|auto]. destruct rd; cbn; auto.
  - destruct wt; cbn; [|auto]. destruct D as [-> | ->]; cbn; auto.
  - auto.
Qed.

(* C15: after the context ended, for EVERY continuation — client operations,
   goroutine steps, further cancellations — every Send and Receive that returns
   fails with the context's code: never success, never another code *)
Lemma after_cancel_api_lemma : forall p k ops s,
  cancelled k s -> forallb (op_ok k) ops = true ->
  forall n op c, nth_error ops n = Some op -> nth_error (snd (api_run p s ops)) n = Some c -> cls_ok k op c.
Proof.
  induction ops as [|o r IH]; intros s Cn F n op c Hn Hc; [destruct n; discriminate|].
  cbn [forallb] in F. apply andb_true_iff in F. destruct F as [F1 F2].
  destruct (cancelled_step p k s o Cn F1) as [Cn1 K1].
  cbn [api_run] in Hc. destruct (api_step p s o) as [s1 c1]. cbn [fst snd] in *.
  specialize (IH s1 Cn1 F2). destruct (api_run p s1 r) as [s2 cs]. cbn [snd] in *.
  destruct n as [|n]; cbn in Hn, Hc.
  - injection Hn as <-. injection Hc as <-. exact K1.
  - exact (IH n op c Hn Hc).
Qed.

(* the ways a live call becomes a cancelled one, with the class of the
   interrupted operation *)
Lemma cancel_entry_lemma : forall p k s,
  ctx s = None -> derr s = None ->
  cancelled k (fst (api_step p s (ACancel k))) /\
  (ready s = true -> has_resp s = true ->
     cancelled k (fst (api_step p s (ARecvCancel k))) /\
     snd (api_step p s (ARecvCancel k)) = CCode (ctx_code k)) /\
  (pipe_r_closed s = false -> pipe_w_closed s = false ->
     cancelled k (fst (api_step p s (ASend (Some k)))) /\
     snd (api_step p s (ASend (Some k))) = CCode (ctx_code k)) /\
  (pipe_r_closed s = false -> pipe_w_closed s = false ->
     cancelled k (fst (api_step p s (ASendBlocked k))) /\
     snd (api_step p s (ASendBlocked k)) = CEof).
Proof.
  intros p k s C D. unfold cancelled. crush_state s. subst. repeat split; intros; subst; cbn; auto;
  destruct k; cbn; auto; destruct st, wt; cbn; auto.
Qed.

(* a handler returning its context's error reports the same classification *)
Lemma handler_ctx_error_lemma : forall k, cls_of_err (wrap_ctx (CtxErr k)) = CCode (ctx_code k).
Proof. intro k. destruct k; reflexivity. Qed.
