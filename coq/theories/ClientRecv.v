(* ClientRecv.v — how a client turns the envelope reader's results into the
   outcome of a call: connectStreamingClientConn.Receive (protocol_connect.go:445-469),
   grpcClientConn.Receive (protocol_grpc.go:323-360) and the typed wrappers
   that stop at the first non-message.

   The three protocols differ only in three hooks:
     on_special fl data  what a special envelope means (Connect end-of-stream
                         JSON, gRPC-Web trailer block, "invalid flags" for gRPC)
     on_eof              what a clean end of the body means (gRPC: the HTTP
                         trailers decide; Connect and gRPC-Web: a protocol error)
     on_error c          what a failed read means (gRPC may prefer an explicit
                         error found in the trailers) — never success. *)
From Coq Require Import List Arith NArith Lia Bool.
From Coq.Strings Require Import Byte.
From Connect Require Import Bytes Generated GoIO Envelope Cut.
Import ListNotations.
Local Open Scope N_scope.

Inductive outcome := Clean | Failed (code : N).

Section ClientRecv.
Variable M : Type.
Variable on_special : N -> bytes -> outcome.
Variable on_eof : outcome.
Variable on_error : N -> outcome.

(* messages delivered, then the outcome reported by the first Receive that does
   not yield a message (None: the caller stopped before that) *)
Fixpoint client_outcome (rs : list (uresult M)) : list M * option outcome :=
  match rs with
  | [] => ([], None)
  | UMsg m :: rest => let '(ms, o) := client_outcome rest in (m :: ms, o)
  | UErr REOF :: _ => ([], Some on_eof)
  | UErr (RErr c) :: _ => ([], Some (on_error c))
  | USpecial fl d :: _ => ([], Some (on_special fl d))
  end.

Lemma client_outcome_msgs ms rest :
  client_outcome (map UMsg ms ++ rest) =
  let '(ms', o) := client_outcome rest in (ms ++ ms', o).
Proof.
  induction ms as [|m ms IH]; cbn [map app client_outcome].
  - destruct (client_outcome rest). reflexivity.
  - rewrite IH. destruct (client_outcome rest). reflexivity.
Qed.

Hypothesis on_error_fails : forall c, on_error c <> Clean.

(* C04: the call is reported complete only if the protocol's terminator was
   seen: a special envelope that the protocol accepted as a successful end, or —
   where the terminator is out of band — a clean end of the body that the
   protocol's own end-of-body rule (status trailers) accepted. *)
Lemma success_needs_terminator_lemma : forall rs ms,
  client_outcome rs = (ms, Some Clean) ->
  (exists fl d, In (USpecial fl d) rs /\ on_special fl d = Clean) \/
  (In (UErr REOF) rs /\ on_eof = Clean).
Proof.
  induction rs as [|r rs IH]; intros ms H; cbn [client_outcome] in H; [discriminate|].
  destruct r as [m|[|c]|fl d].
  - destruct (client_outcome rs) as [ms' o] eqn:E. inversion H; subst.
    destruct (IH ms' eq_refl) as [(fl & d & Hin & Hs)|(Hin & He)].
    + left. exists fl, d. split; [right; exact Hin | exact Hs].
    + right. split; [right; exact Hin | exact He].
  - inversion H. right. split; [left; reflexivity | congruence].
  - inversion H. exfalso. apply (on_error_fails c). congruence.
  - inversion H. left. exists fl, d. split; [left; reflexivity | congruence].
Qed.

(* ---- unary calls: receiveUnaryResponse (connect.go) on the conn's first two Receive results ----
   one message, then a second Receive that must report the clean end of the
   response (it is what reads the trailers / the end-of-stream block). A failure
   of either Receive is returned with the code it carries; only a SECOND MESSAGE
   is re-coded (unknown). *)
Inductive ures := UOk (m : M) | UFail (code : N).

Definition single (r : uresult M) : M + outcome :=
  match r with
  | UMsg m => inl m
  | UErr REOF => inr on_eof
  | UErr (RErr c) => inr (on_error c)
  | USpecial fl d => inr (on_special fl d)
  end.

Definition unary_outcome (rs : list (uresult M)) : ures :=
  match rs with
  | r1 :: r2 :: _ =>
    match single r1 with
    | inr Clean => UFail 2            (* the stream ended before any message: unknown *)
    | inr (Failed c) => UFail c
    | inl m =>
      match single r2 with
      | inr Clean => UOk m
      | inr (Failed c) => UFail c     (* a failure after the message keeps its code *)
      | inl _ => UFail 2              (* a second message: unknown *)
      end
    end
  | _ => UFail 2
  end.

(* C04 for unary calls: success only if the second Receive saw the terminator *)
Lemma unary_success_needs_terminator_lemma : forall rs m,
  unary_outcome rs = UOk m ->
  exists r2 rest, rs = UMsg m :: r2 :: rest /\
    ((exists fl d, r2 = USpecial fl d /\ on_special fl d = Clean) \/ (r2 = UErr REOF /\ on_eof = Clean)).
Proof.
  intros rs m H. destruct rs as [|r1 [|r2 rest]]; try discriminate.
  unfold unary_outcome in H.
  destruct r1 as [m1|[|c1]|fl1 d1]; cbn [single] in H.
  - destruct r2 as [m2|[|c2]|fl2 d2]; cbn [single] in H.
    + discriminate.
    + destruct on_eof eqn:E; [|discriminate]. inversion H; subst. exists (UErr REOF), rest. split; [reflexivity|]. right. split; reflexivity.
    + specialize (on_error_fails c2). destruct (on_error c2); [congruence|discriminate].
    + destruct (on_special fl2 d2) eqn:E; [|discriminate]. inversion H; subst. exists (USpecial fl2 d2), rest. split; [reflexivity|]. left. exists fl2, d2. split; [reflexivity|exact E].
  - destruct on_eof; discriminate.
  - destruct (on_error c1); discriminate.
  - destruct (on_special fl1 d1); discriminate.
Qed.

(* C15 / C02 for unary calls: whatever code a failed Receive carries — the peer's
   status, the end of the context — is the code of the call, before or after the message *)
Lemma unary_failure_keeps_code_lemma : forall r1 r2 rest c,
  (single r1 = inr (Failed c) \/ (exists m, single r1 = inl m /\ single r2 = inr (Failed c))) ->
  unary_outcome (r1 :: r2 :: rest) = UFail c.
Proof.
  intros r1 r2 rest c [H|[m [H1 H2]]]; unfold unary_outcome.
  - rewrite H. reflexivity.
  - rewrite H1, H2. reflexivity.
Qed.

End ClientRecv.

Arguments UOk {M}.
Arguments UFail {M}.

(* ------------------------------------------------------------------ *)
Section CutOutcome.
Variable M : Type.
Variable marshal : M -> bytes.
Variable unmarshal_into : bytes -> M -> option M.
Variable compress : bytes -> bytes.
Variable decompress : bytes -> option bytes.
Variable zero : M.
Hypothesis codec_roundtrip : forall m h, unmarshal_into (marshal m) h = Some m.
Hypothesis empty_is_zero : forall m, marshal m = [] -> m = zero.
Hypothesis compress_roundtrip : forall x, decompress (compress x) = Some x.
Hypothesis compress_nonempty : forall x, compress x = [] -> x = [].

Variable on_special : N -> bytes -> outcome.
Variable on_eof : outcome.
Variable on_error : N -> outcome.
(* a failed read stays a failure with a non-zero code *)
Hypothesis on_error_code : forall c, c <> 0 -> exists c', on_error c = Failed c' /\ c' <> 0.

Notation send_all := (send_all M marshal compress).
Notation fits := (fits M marshal compress).
Notation recv := (recv_n_f M unmarshal_into decompress zero).
Notation outcome_of := (client_outcome M on_special on_eof on_error).

Lemma recv_n_more : forall a b max pool s,
  exists more, recv (a + b) max pool s = recv a max pool s ++ more.
Proof.
  induction a as [|a IH]; intros b max pool s.
  - exists (recv b max pool s). reflexivity.
  - unfold recv_n_f in *. cbn [Nat.add recv_n].
    destruct (env_unmarshal fstream fpull f_end M unmarshal_into decompress max pool zero s) as [r s'].
    destruct (IH b max pool s') as [more Hm]. exists more. rewrite Hm. reflexivity.
Qed.

Lemma outcome_after_failure ms (r : uresult M) f more :
  is_failure M f r -> fin_ok f ->
  exists c, outcome_of (map UMsg ms ++ [r] ++ more) = (ms, Some (Failed c)) /\ c <> 0.
Proof.
  intros (c & -> & Hfc) Hf. rewrite client_outcome_msgs. cbn [app client_outcome].
  destruct (on_error_code c (failure_code_nonzero f c Hf Hfc)) as (c' & Hc' & Hnz).
  exists c'. rewrite Hc', app_nil_r. auto.
Qed.

(* C04, client side: a response body [frames(msgs) ++ terminator frame] cut at
   ANY offset k strictly before its end, the transport then ending cleanly,
   unexpectedly or with an error: the messages delivered are a prefix of those
   sent and the call's outcome is the protocol's end-of-body verdict (when the
   cut fell on a frame boundary and the body ended cleanly) or a failure with a
   non-zero code — never the terminator's success. *)
Lemma cut_response_lemma : forall spool smin rpool rmax msgs tf td k f,
  (spool = true -> rpool = true) ->
  Forall (fits spool smin rmax) msgs ->
  tf < 256 -> len td < two32 -> fin_ok f ->
  (k < length (send_all spool smin msgs ++ frame tf td))%nat ->
  exists j o,
    (j <= length msgs)%nat /\
    outcome_of (recv (length msgs + 1) rmax rpool
                  (firstn k (send_all spool smin msgs ++ frame tf td), f))
      = (firstn j msgs, Some o) /\
    (o = on_eof \/ exists c, o = Failed c /\ c <> 0).
Proof.
  intros spool smin rpool rmax msgs tf td k f Hpool Hfits Htf Htd Hf Hk.
  destruct (Nat.le_gt_cases k (length (send_all spool smin msgs))) as [Hin|Hout].
  - (* cut within the messages *)
    destruct (cut_stream_lemma M marshal unmarshal_into compress decompress zero
                codec_roundtrip empty_is_zero compress_roundtrip compress_nonempty
                spool smin rpool rmax msgs (frame tf td) k f Hpool Hfits Hin)
      as (j & r & Hj & Hrecv & Hcase).
    replace (length msgs + 1)%nat with ((j + 1) + (length msgs - j))%nat by lia.
    destruct (recv_n_more (j + 1) (length msgs - j) rmax rpool
                (firstn k (send_all spool smin msgs ++ frame tf td), f)) as [more Hm].
    rewrite Hm, Hrecv.
    destruct Hcase as [(Hr & _ & _)|Hfail].
    + subst r. exists j, on_eof. split; [exact Hj|]. split; [|left; reflexivity].
      rewrite <- app_assoc, client_outcome_msgs. cbn [app client_outcome]. rewrite app_nil_r. reflexivity.
    + destruct (outcome_after_failure (firstn j msgs) r f more Hfail Hf) as (c & Hc & Hnz).
      exists j, (Failed c). split; [exact Hj|]. rewrite <- app_assoc. split; [exact Hc|].
      right. exists c. auto.
  - (* cut inside the terminator frame *)
    rewrite app_length in Hk.
    rewrite firstn_app, firstn_all2 by lia.
    set (k' := (k - length (send_all spool smin msgs))%nat).
    assert (Hk' : (0 < k')%nat) by (subst k'; lia).
    assert (Hk'' : N.of_nat k' < len (frame tf td)) by (subst k'; unfold len; lia).
    destruct (cut_terminator_lemma M marshal unmarshal_into compress decompress zero
                codec_roundtrip empty_is_zero compress_roundtrip compress_nonempty
                spool smin rpool rmax msgs tf td k' f Hpool Hfits Htf Htd Hk' Hk'')
      as (r & Hrecv & Hfail).
    rewrite Hrecv.
    destruct (outcome_after_failure msgs r f [] Hfail Hf) as (c & Hc & Hnz).
    exists (length msgs), (Failed c). split; [lia|]. rewrite firstn_all.
    cbn [app] in Hc. split; [exact Hc|]. right. exists c. auto.
Qed.

End CutOutcome.

(* ------------------------------------------------------------------ *)
(* The hooks of the three protocols. What the end-of-stream payloads and the
   trailers say is abstracted into these summaries. *)

Definition code_of_internal : N := 13.

(* verdict carried by a terminator: malformed, success, or an explicit error *)
Inductive verdict := VMalformed | VOk | VErr (c : N).

Definition verdict_outcome (v : verdict) : outcome :=
  match v with
  | VMalformed => Failed code_of_internal
  | VOk => Clean
  | VErr c => Failed c
  end.

(* Connect streaming (after the fix: a body that ends without the end-of-stream
   envelope is a protocol error) *)
Definition connect_on_special (parse_end : bytes -> verdict) (fl : N) (d : bytes) : outcome :=
  if has_flag fl connect_flag_end_stream then verdict_outcome (parse_end d) else Failed code_of_internal.
Definition connect_on_eof : outcome := Failed code_of_internal.
Definition connect_on_error (c : N) : outcome := Failed c.

(* gRPC-Web: trailers travel in the 0x80 envelope *)
Definition grpcweb_on_special (parse_trailers : bytes -> verdict) (fl : N) (d : bytes) : outcome :=
  if has_flag fl grpc_flag_trailer then verdict_outcome (parse_trailers d) else Failed code_of_internal.
Definition grpcweb_on_eof : outcome := Failed code_of_internal.   (* no grpc-status trailer *)
Definition grpcweb_on_error (c : N) : outcome := Failed c.

(* gRPC: HTTP trailers decide at the end of the body; [tr] summarises them
   (VMalformed = no grpc-status) *)
Definition grpc_on_special (tr : verdict) (fl : N) (d : bytes) : outcome :=
  match tr with VErr c => Failed c | _ => Failed code_of_internal end.
Definition grpc_on_eof (tr : verdict) : outcome := verdict_outcome tr.
Definition grpc_on_error (tr : verdict) (c : N) : outcome :=
  match tr with VErr c' => Failed c' | _ => Failed c end.

Lemma connect_on_error_code c : c <> 0 -> exists c', connect_on_error c = Failed c' /\ c' <> 0.
Proof. intro H. exists c. auto. Qed.
Lemma grpcweb_on_error_code c : c <> 0 -> exists c', grpcweb_on_error c = Failed c' /\ c' <> 0.
Proof. intro H. exists c. auto. Qed.
Lemma grpc_on_error_code tr c : (forall c', tr = VErr c' -> c' <> 0) -> c <> 0 ->
  exists c', grpc_on_error tr c = Failed c' /\ c' <> 0.
Proof.
  intros Htr H. destruct tr as [| |c'].
  - exists c. auto.
  - exists c. auto.
  - exists c'. split; [reflexivity | apply Htr; reflexivity].
Qed.

(* On the pinned tree the Connect client treated a bare end of body as a clean
   end of stream: a response cut after its last message "succeeded". *)
Definition connect_on_eof_pinned : outcome := Clean.
Lemma connect_stream_no_terminator_refuted :
  exists body,
    client_outcome bytes (connect_on_special (fun _ => VOk)) connect_on_eof_pinned connect_on_error
      (recv_n_f bytes (fun d _ => Some d) (fun _ => None) [] 2 0 false (body, CleanEOF))
    = ([[x08; x09]], Some Clean).
Proof. exists [x00; x00; x00; x00; x02; x08; x09]. reflexivity. Qed.
