(* ClientResp.v — how a client classifies what a server sent: the validateResponse
   functions (protocol_connect.go:371-412, 489-503; protocol_grpc.go:566-611),
   connectWireError.UnmarshalJSON (825-848), grpcErrorFromTrailer (631-673) and
   the metadata key handling of the in-body carriers.

   JSON / Protobuf parsing is not modelled: each function takes the parse
   RESULT as an argument (any value at all), so the theorems hold whatever the
   parsers return for whatever bytes the server sent. *)
From Coq Require Import List NArith ZArith Lia Bool.
From Coq.Strings Require Import Byte.
From Connect Require Import Bytes Generated Codes GoIO Envelope Cut ClientRecv Dispatch.
Import ListNotations.
Local Open Scope N_scope.

(* ---- Connect: JSON error object ---- *)
(* result of protojson-unmarshalling the body into connect.error.v1.Error *)
Inductive jwire := JInvalid | JWire (code : bytes).

(* connectWireError.UnmarshalJSON: None = it returned an error *)
Definition connect_wire_decode (j : jwire) : option N :=
  match j with
  | JInvalid => None
  | JWire code =>
    if is_nil_b code then None                 (* an error object must carry a code *)
    else match code_unmarshal code with
         | Some c => if c =? 0 then None else Some c   (* the zero code never describes an error *)
         | None => None
         end
  end.

(* connectUnaryClientConn.validateResponse: Some c = the call fails with code c *)
Definition connect_unary_validate (status : N) (encoding_known : bool) (j : jwire) : option N :=
  if negb encoding_known then
    (* a body the client cannot read: internal for a 200, else the HTTP status decides *)
    if status =? 200 then Some code_internal else Some (connect_http_to_code status)
  else if status =? 200 then None
  else match connect_wire_decode j with
       | Some c => Some c
       | None => Some (connect_http_to_code status)
       end.

(* duplexHTTPCall.makeRequest: the body of a 101 response is the connection itself (no context
   governs it); it is closed and an empty body is published in its place - and an empty body
   is not a JSON error *)
Definition body_as_published (status : N) (j : jwire) : jwire :=
  if status =? 101 then JInvalid else j.

Lemma switching_protocols_code_from_status_lemma : forall enc j,
  connect_unary_validate 101 enc (body_as_published 101 j) = Some (connect_http_to_code 101).
Proof. intros enc j. unfold connect_unary_validate, body_as_published. destruct enc; reflexivity. Qed.

(* connectStreamingClientConn.validateResponse *)
Definition connect_stream_validate (status : N) (encoding_known : bool) : option N :=
  if negb (status =? 200) then Some (connect_http_to_code status)
  else if negb encoding_known then Some code_internal
  else None.

(* end-of-stream envelope payload: JSON parse result of connectEndStreamMessage *)
Inductive jend := JEndInvalid | JEnd (error : option jwire).

Definition connect_end_verdict (j : jend) : verdict :=
  match j with
  | JEndInvalid => VMalformed
  | JEnd None => VOk
  | JEnd (Some w) =>
    match connect_wire_decode w with
    | Some c => VErr c
    | None => VMalformed        (* json.Unmarshal fails: "unmarshal end stream message" *)
    end
  end.

(* ---- gRPC: status in headers or trailers ---- *)
(* grpc-status-details-bin: absent, undecodable (base64 or protobuf), or a Status with this code *)
Inductive dsum := DAbsent | DInvalid | DStatus (code : N).

Inductive tstatus := TOk | TMissing | TErr (c : N).

Definition zero_digit : bytes := [x30].

(* grpcErrorFromTrailer *)
Definition grpc_error_from_trailer (status : bytes) (d : dsum) : tstatus :=
  if is_nil_b status then TMissing
  else if bs_eqb status zero_digit then TOk
  else match go_parse_uint32 status with
       | None => TErr code_internal
       | Some c =>
         if c =? 0 then TOk                       (* "00": the grammar is 1*DIGIT *)
         else match d with
              | DAbsent => TErr c
              | DInvalid => TErr code_internal
              | DStatus pc => if pc =? 0 then TErr c else TErr pc
              end
       end.

Definition tstatus_verdict (t : tstatus) : verdict :=
  match t with TOk => VOk | TMissing => VMalformed | TErr c => VErr c end.

(* grpcValidateResponse: a trailers-only response carries the status in the headers *)
Definition grpc_validate (status : N) (encoding_known : bool) (hdr_status : bytes) (d : dsum) : option N :=
  if negb (status =? 200) then Some (grpc_http_to_code status)
  else if negb encoding_known then Some code_internal
  else match grpc_error_from_trailer hdr_status d with
       | TErr c => Some c
       | _ => None
       end.

(* ---- metadata keys of the in-body carriers ---- *)
(* textproto.CanonicalMIMEHeaderKey on keys made of letters, digits and '-' :
   upper-case the first letter and every letter after '-', lower-case the rest *)
Definition upper_b (b : byte) : byte := if (97 <=? bN b) && (bN b <=? 122) then Nb (bN b - 32) else b.
Definition lower_b (b : byte) : byte := if (65 <=? bN b) && (bN b <=? 90) then Nb (bN b + 32) else b.

Fixpoint canon_go (s : bytes) (up : bool) : bytes :=
  match s with
  | [] => []
  | b :: r => (if up then upper_b b else lower_b b) :: canon_go r (byte_eqb b x2d)
  end.
Definition canonical_key (s : bytes) : bytes := canon_go s true.

(* keys that differ only in case have the same canonical form, hence the same lookup *)
Fixpoint eq_fold (a b : bytes) : bool :=
  match a, b with
  | [], [] => true
  | x :: a', y :: b' => byte_eqb (lower_b x) (lower_b y) && eq_fold a' b'
  | _, _ => false
  end.

Lemma upper_lower_same : forall x y, byte_eqb (lower_b x) (lower_b y) = true ->
  upper_b x = upper_b y /\ lower_b x = lower_b y /\ byte_eqb x x2d = byte_eqb y x2d.
Proof.
  assert (H : forall x y, (negb (byte_eqb (lower_b x) (lower_b y)) ||
              (byte_eqb (upper_b x) (upper_b y) && byte_eqb (lower_b x) (lower_b y)
               && Bool.eqb (byte_eqb x x2d) (byte_eqb y x2d))) = true).
  { apply byte_sweep2. vm_compute. reflexivity. }
  intros x y E. specialize (H x y). rewrite E in H. cbn [negb orb] in H.
  apply andb_true_iff in H. destruct H as [H H3]. apply andb_true_iff in H. destruct H as [H1 _].
  apply byte_eqb_eq in H1. apply byte_eqb_eq in E. apply Bool.eqb_prop in H3. auto.
Qed.

Lemma canon_go_case_insensitive : forall a l2 up, eq_fold a l2 = true -> canon_go a up = canon_go l2 up.
Proof.
  induction a as [|x a IH]; intros l2 up H; destruct l2 as [|y l2]; cbn [eq_fold] in H; try discriminate.
  - reflexivity.
  - apply andb_true_iff in H. destruct H as [H1 H2].
    destruct (upper_lower_same x y H1) as (Hu & Hl & Hd).
    cbn [canon_go]. rewrite Hu, Hl, Hd. f_equal. apply IH. exact H2.
Qed.

Lemma canonical_case_insensitive : forall a b, eq_fold a b = true -> canonical_key a = canonical_key b.
Proof. intros a b H. apply canon_go_case_insensitive. exact H. Qed.

(* ================================================================== *)
(* C06: no non-nil error with the zero code *)

Lemma connect_wire_decode_nonzero j c : connect_wire_decode j = Some c -> c <> 0.
Proof.
  destruct j as [|code]; cbn [connect_wire_decode]; [discriminate|].
  destruct (is_nil_b code); [discriminate|].
  destruct (code_unmarshal code) as [c'|]; [|discriminate].
  destruct (c' =? 0) eqn:E; [discriminate|]. intro H. inversion H; subst. apply N.eqb_neq. exact E.
Qed.

Lemma connect_unary_validate_nonzero status enc j c :
  connect_unary_validate status enc j = Some c -> c <> 0.
Proof.
  unfold connect_unary_validate. destruct (negb enc).
  { destruct (status =? 200); intro H; inversion H; [discriminate | apply connect_http_to_code_nonzero]. }
  destruct (status =? 200); [discriminate|].
  destruct (connect_wire_decode j) as [c'|] eqn:E.
  - intro H. inversion H; subst. eapply connect_wire_decode_nonzero. exact E.
  - intro H. inversion H. apply connect_http_to_code_nonzero.
Qed.

(* a non-200 unary response that carries no valid protocol-level error: the
   code is derived from the HTTP status *)
Lemma connect_unary_status_code status enc j :
  status <> 200 -> (enc = false \/ connect_wire_decode j = None) ->
  connect_unary_validate status enc j = Some (connect_http_to_code status).
Proof.
  intros Hs H. unfold connect_unary_validate. apply N.eqb_neq in Hs. rewrite Hs.
  destruct enc; cbn [negb]; [|reflexivity].
  destruct H as [H|H]; [discriminate | rewrite H; reflexivity].
Qed.

Lemma connect_stream_validate_nonzero status enc c :
  connect_stream_validate status enc = Some c -> c <> 0.
Proof.
  unfold connect_stream_validate. destruct (negb (status =? 200)).
  - intro H. inversion H. apply connect_http_to_code_nonzero.
  - destruct (negb enc); [intro H; inversion H; discriminate | discriminate].
Qed.

Lemma connect_end_verdict_nonzero j c : connect_end_verdict j = VErr c -> c <> 0.
Proof.
  destruct j as [|[w|]]; cbn [connect_end_verdict]; try discriminate.
  destruct (connect_wire_decode w) as [c'|] eqn:E; [|discriminate].
  intro H. inversion H; subst. eapply connect_wire_decode_nonzero. exact E.
Qed.

Lemma grpc_error_from_trailer_nonzero status d c :
  grpc_error_from_trailer status d = TErr c -> c <> 0.
Proof.
  unfold grpc_error_from_trailer. destruct (is_nil_b status); [discriminate|].
  destruct (bs_eqb status zero_digit); [discriminate|].
  destruct (go_parse_uint32 status) as [p|]; [|intro H; inversion H; discriminate].
  destruct (p =? 0) eqn:E; [discriminate|]. apply N.eqb_neq in E.
  destruct d as [| |pc].
  - intro H. inversion H; subst. exact E.
  - intro H. inversion H. discriminate.
  - destruct (pc =? 0) eqn:E2; intro H; inversion H; subst; [exact E | apply N.eqb_neq; exact E2].
Qed.

Lemma grpc_validate_nonzero status enc hs d c : grpc_validate status enc hs d = Some c -> c <> 0.
Proof.
  unfold grpc_validate. destruct (negb (status =? 200)).
  - intro H. inversion H. apply grpc_http_to_code_nonzero.
  - destruct (negb enc); [intro H; inversion H; discriminate|].
    destruct (grpc_error_from_trailer hs d) as [| |c'] eqn:E; try discriminate.
    intro H. inversion H; subst. eapply grpc_error_from_trailer_nonzero. exact E.
Qed.

Lemma grpc_status_code status enc hs d :
  status <> 200 -> grpc_validate status enc hs d = Some (grpc_http_to_code status).
Proof. intro Hs. unfold grpc_validate. apply N.eqb_neq in Hs. rewrite Hs. reflexivity. Qed.

(* the receive loop: whatever the reader produced, whatever the hooks' verdicts
   say, a failed call carries a non-zero code *)
Definition verdict_ok (v : verdict) : Prop := forall c, v = VErr c -> c <> 0.

Lemma verdict_outcome_nonzero v c : verdict_ok v -> verdict_outcome v = Failed c -> c <> 0.
Proof.
  intros Hv. destruct v as [| |c']; cbn [verdict_outcome]; try discriminate.
  - intro H. inversion H. discriminate.
  - intro H. inversion H; subst. apply Hv. reflexivity.
Qed.

Definition results_ok {M} (rs : list (uresult M)) : Prop :=
  forall c, In (UErr (RErr c)) rs -> c <> 0.

Section Outcome.
Variable M : Type.
Variable on_special : N -> bytes -> outcome.
Variable on_eof : outcome.
Variable on_error : N -> outcome.
Hypothesis special_ok : forall fl d c, on_special fl d = Failed c -> c <> 0.
Hypothesis eof_ok : forall c, on_eof = Failed c -> c <> 0.
Hypothesis error_ok : forall c c', c <> 0 -> on_error c = Failed c' -> c' <> 0.

Lemma client_outcome_nonzero : forall (rs : list (uresult M)) ms c,
  results_ok rs ->
  client_outcome M on_special on_eof on_error rs = (ms, Some (Failed c)) -> c <> 0.
Proof.
  induction rs as [|r rs IH]; intros ms c Hok H; cbn [client_outcome] in H; [discriminate|].
  destruct r as [m|[|c0]|fl d].
  - destruct (client_outcome M on_special on_eof on_error rs) as [ms' o] eqn:E.
    inversion H; subst. apply (IH ms' c); [|reflexivity].
    intros c1 Hin. apply Hok. right. exact Hin.
  - inversion H. eapply eof_ok. eauto.
  - inversion H. eapply (error_ok c0); [apply Hok; left; reflexivity | eauto].
  - inversion H. eapply special_ok. eauto.
Qed.
End Outcome.

(* the three protocols' hooks satisfy those hypotheses *)
Lemma connect_hooks_ok parse_end :
  (forall d, verdict_ok (parse_end d)) ->
  (forall fl d c, connect_on_special parse_end fl d = Failed c -> c <> 0) /\
  (forall c, connect_on_eof = Failed c -> c <> 0) /\
  (forall c c', c <> 0 -> connect_on_error c = Failed c' -> c' <> 0).
Proof.
  intro Hp. repeat split.
  - intros fl d c. unfold connect_on_special. destruct (has_flag fl connect_flag_end_stream).
    + apply verdict_outcome_nonzero. apply Hp.
    + intro H. inversion H. discriminate.
  - intros c H. inversion H. discriminate.
  - intros c c' Hc H. inversion H; subst. exact Hc.
Qed.

Lemma grpcweb_hooks_ok parse_trailers :
  (forall d, verdict_ok (parse_trailers d)) ->
  (forall fl d c, grpcweb_on_special parse_trailers fl d = Failed c -> c <> 0) /\
  (forall c, grpcweb_on_eof = Failed c -> c <> 0) /\
  (forall c c', c <> 0 -> grpcweb_on_error c = Failed c' -> c' <> 0).
Proof.
  intro Hp. repeat split.
  - intros fl d c. unfold grpcweb_on_special. destruct (has_flag fl grpc_flag_trailer).
    + apply verdict_outcome_nonzero. apply Hp.
    + intro H. inversion H. discriminate.
  - intros c H. inversion H. discriminate.
  - intros c c' Hc H. inversion H; subst. exact Hc.
Qed.

Lemma grpc_hooks_ok tr :
  verdict_ok tr ->
  (forall fl d c, grpc_on_special tr fl d = Failed c -> c <> 0) /\
  (forall c, grpc_on_eof tr = Failed c -> c <> 0) /\
  (forall c c', c <> 0 -> grpc_on_error tr c = Failed c' -> c' <> 0).
Proof.
  intro Hv. repeat split.
  - intros fl d c. unfold grpc_on_special. destruct tr as [| |c0]; intro H; inversion H; subst; try discriminate.
    apply Hv. reflexivity.
  - intros c. unfold grpc_on_eof. apply verdict_outcome_nonzero. exact Hv.
  - intros c c' Hc. unfold grpc_on_error. destruct tr as [| |c0]; intro H; inversion H; subst; auto.
Qed.

Lemma tstatus_verdict_ok status d : verdict_ok (tstatus_verdict (grpc_error_from_trailer status d)).
Proof.
  intros c H. destruct (grpc_error_from_trailer status d) as [| |c'] eqn:E; cbn in H; try discriminate.
  inversion H; subst. eapply grpc_error_from_trailer_nonzero. exact E.
Qed.

Lemma connect_end_verdict_ok j : verdict_ok (connect_end_verdict j).
Proof. intros c H. eapply connect_end_verdict_nonzero. exact H. Qed.

(* ---- the pinned tree: the witnesses of the six code-0 findings ---- *)
Definition connect_wire_decode_pinned (j : jwire) : option N :=
  match j with
  | JInvalid => None
  | JWire code => if is_nil_b code then Some 0 else code_unmarshal code
  end.
Lemma unary_403_message_only_refuted : connect_wire_decode_pinned (JWire []) = Some 0.
Proof. reflexivity. Qed.
Lemma code_0_text_refuted : connect_wire_decode_pinned (JWire [x63; x6f; x64; x65; x5f; x30]) = Some 0.
Proof. reflexivity. Qed.
Definition grpc_error_from_trailer_pinned (status : bytes) (d : dsum) : tstatus :=
  if is_nil_b status then TMissing
  else if bs_eqb status zero_digit then TOk
  else match go_parse_uint32 status with
       | None => TErr code_internal
       | Some c => match d with DAbsent => TErr c | DInvalid => TErr code_internal | DStatus pc => TErr pc end
       end.
Lemma grpc_status_00_refuted : grpc_error_from_trailer_pinned [x30; x30] DAbsent = TErr 0.
Proof. reflexivity. Qed.
Lemma grpc_details_code_0_refuted : grpc_error_from_trailer_pinned [x35] (DStatus 0) = TErr 0.
Proof. reflexivity. Qed.
