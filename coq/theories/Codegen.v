(* Codegen.v — model of cmd/protoc-gen-connect-go/main.go: procedureName,
   reflectionName, unexport (with keyword escaping), newNames, the choice of
   constructors by streaming kind, and the routing skeleton the generator emits
   for each method (mux path, handler procedure, handler constructor, client
   URL suffix, client call, struct field). The keyword list and the procedure
   format come from Generated.v. *)
From Coq Require Import List NArith Lia Bool.
From Coq.Strings Require Import Byte.
From Connect Require Import Bytes Generated Dispatch.
Import ListNotations.
Local Open Scope N_scope.

Record gmethod := mkM {
  m_name : bytes;        (* proto name of the rpc *)
  m_goname : bytes;      (* protogen's GoName (camel-cased, exported) *)
  m_client_streaming : bool;
  m_server_streaming : bool
}.

Record gservice := mkS {
  s_name : bytes;
  s_goname : bytes;
  s_methods : list gmethod
}.

Definition dot : byte := x2e.

(* protoreflect FullName of a top-level service: package "." name, or just the
   name when the file declares no package *)
Definition full_service_name (pkg : bytes) (s : gservice) : bytes :=
  match pkg with [] => s_name s | _ => pkg ++ dot :: s_name s end.

(* reflectionName / procedureName; the format "/%s/%s" is checked against the source *)
Definition reflection_name (pkg : bytes) (s : gservice) : bytes := full_service_name pkg s.
Definition procedure_name (pkg : bytes) (s : gservice) (m : gmethod) : bytes :=
  slash :: reflection_name pkg s ++ slash :: m_name m.

Lemma procedure_format_ok : gen_procedure_format = [x2f; x25; x73; x2f; x25; x73].
Proof. reflexivity. Qed.

(* strings.ToLower on the first byte (ASCII) *)
Definition lower_byte (b : byte) : byte :=
  if (65 <=? bN b) && (bN b <=? 90) then Nb (bN b + 32) else b.

(* unexport *)
Definition unexport (s : bytes) : bytes :=
  match s with
  | [] => []
  | b :: r =>
    let l := lower_byte b :: r in
    if mem l gen_keywords then gen_keyword_prefix ++ l else l
  end.

Inductive rpc_kind := KUnary | KClientStream | KServerStream | KBidi.

Definition kind_of (m : gmethod) : rpc_kind :=
  match m_client_streaming m, m_server_streaming m with
  | true, false => KClientStream
  | false, true => KServerStream
  | true, true => KBidi
  | false, false => KUnary
  end.

(* what the generator emits for one method *)
Record skeleton := mkSk {
  sk_mux_path : bytes;          (* mux.Handle("<path>", ...) *)
  sk_handler_procedure : bytes; (* connect.New*Handler("<procedure>", ...) *)
  sk_handler_kind : rpc_kind;   (* which New*Handler *)
  sk_client_suffix : bytes;     (* baseURL + "<suffix>" *)
  sk_client_kind : rpc_kind;    (* which Call* *)
  sk_field : bytes              (* struct field holding the client *)
}.

Definition method_skeleton (pkg : bytes) (s : gservice) (m : gmethod) : skeleton :=
  mkSk (procedure_name pkg s m) (procedure_name pkg s m) (kind_of m)
       (procedure_name pkg s m) (kind_of m) (unexport (m_goname m)).

Definition mount_prefix (pkg : bytes) (s : gservice) : bytes := slash :: reflection_name pkg s ++ [slash].

Definition generate (pkg : bytes) (s : gservice) : list skeleton * bytes :=
  (map (method_skeleton pkg s) (s_methods s), mount_prefix pkg s).

(* ---------------- Go identifiers and keywords (the language spec) ---------------- *)

Definition kw (l : list N) : bytes := map Nb l.
Definition go_keywords : list bytes :=
  [ kw [98;114;101;97;107]; kw [100;101;102;97;117;108;116]; kw [102;117;110;99];
    kw [105;110;116;101;114;102;97;99;101]; kw [115;101;108;101;99;116];
    kw [99;97;115;101]; kw [100;101;102;101;114]; kw [103;111]; kw [109;97;112];
    kw [115;116;114;117;99;116]; kw [99;104;97;110]; kw [101;108;115;101];
    kw [103;111;116;111]; kw [112;97;99;107;97;103;101]; kw [115;119;105;116;99;104];
    kw [99;111;110;115;116]; kw [102;97;108;108;116;104;114;111;117;103;104]; kw [105;102];
    kw [114;97;110;103;101]; kw [116;121;112;101]; kw [99;111;110;116;105;110;117;101];
    kw [102;111;114]; kw [105;109;112;111;114;116]; kw [114;101;116;117;114;110]; kw [118;97;114] ].

Definition is_letter (b : byte) : bool :=
  ((65 <=? bN b) && (bN b <=? 90)) || ((97 <=? bN b) && (bN b <=? 122)) || (bN b =? 95).
Definition is_ident_char (b : byte) : bool := is_letter b || ((48 <=? bN b) && (bN b <=? 57)).

Definition is_go_identifier (s : bytes) : bool :=
  match s with [] => false | b :: r => is_letter b && forallb is_ident_char r end.

(* what protogen's GoName looks like: an exported identifier *)
Definition is_exported_name (s : bytes) : bool :=
  match s with [] => false | b :: r => (65 <=? bN b) && (bN b <=? 90) && forallb is_ident_char r end.

(* facts about the generated list, by computation *)
Lemma gen_keywords_cover_spec : forallb (fun k => mem k gen_keywords) go_keywords = true.
Proof. vm_compute. reflexivity. Qed.

Lemma no_keyword_after_prefix :
  forallb (fun k => match strip_prefix gen_keyword_prefix k with Some _ => false | None => true end) go_keywords = true.
Proof. vm_compute. reflexivity. Qed.

Lemma prefix_is_ident : gen_keyword_prefix <> [] /\ is_go_identifier gen_keyword_prefix = true.
Proof. split; [discriminate | reflexivity]. Qed.

Lemma lower_byte_letter : forall b, ((65 <=? bN b) && (bN b <=? 90)) = true -> is_letter (lower_byte b) = true.
Proof.
  assert (H : forall b, (negb ((65 <=? bN b) && (bN b <=? 90)) || is_letter (lower_byte b)) = true).
  { apply byte_sweep. vm_compute. reflexivity. }
  intros b Hb. specialize (H b). rewrite Hb in H. exact H.
Qed.

Lemma is_letter_ident b : is_letter b = true -> is_ident_char b = true.
Proof. intro H. unfold is_ident_char. rewrite H. reflexivity. Qed.

(* C17: the struct field is a valid Go identifier and never a keyword *)
Lemma field_idents_valid_lemma : forall g,
  is_exported_name g = true ->
  is_go_identifier (unexport g) = true /\ mem (unexport g) go_keywords = false.
Proof.
  intros g Hg. destruct g as [|b r]; [discriminate|]. cbn [is_exported_name] in Hg.
  apply andb_true_iff in Hg. destruct Hg as [Hb Hr].
  pose proof (lower_byte_letter b Hb) as Hl.
  cbn [unexport]. destruct (mem (lower_byte b :: r) gen_keywords) eqn:E.
  - split.
    + (* "_" ++ identifier characters *)
      change gen_keyword_prefix with [x5f]. cbn [app is_go_identifier forallb].
      change (is_letter x5f) with true. cbn [andb].
      rewrite (is_letter_ident _ Hl). exact Hr.
    + destruct (mem (gen_keyword_prefix ++ lower_byte b :: r) go_keywords) eqn:F; [|reflexivity].
      apply mem_In in F. pose proof no_keyword_after_prefix as K. rewrite forallb_forall in K.
      specialize (K _ F). rewrite strip_prefix_app in K. discriminate.
  - split.
    + cbn [is_go_identifier]. rewrite Hl. exact Hr.
    + destruct (mem (lower_byte b :: r) go_keywords) eqn:F; [|reflexivity].
      apply mem_In in F. pose proof gen_keywords_cover_spec as K. rewrite forallb_forall in K.
      specialize (K _ F). congruence.
Qed.

(* C17: handler registration, Spec label and client URL carry the same canonical path *)
Lemma canonical_paths_lemma : forall pkg s m,
  In m (s_methods s) ->
  let sk := method_skeleton pkg s m in
  sk_mux_path sk = slash :: full_service_name pkg s ++ slash :: m_name m /\
  sk_handler_procedure sk = sk_mux_path sk /\
  sk_client_suffix sk = sk_mux_path sk /\
  In sk (fst (generate pkg s)) /\
  snd (generate pkg s) = slash :: full_service_name pkg s ++ [slash].
Proof.
  intros pkg s m Hin. cbn. repeat split; try reflexivity.
  apply in_map. exact Hin.
Qed.

Lemma constructor_matches_kind_lemma : forall pkg s m,
  sk_handler_kind (method_skeleton pkg s m) = kind_of m /\
  sk_client_kind (method_skeleton pkg s m) = kind_of m.
Proof. intros. split; reflexivity. Qed.

(* the client's URL (base with trailing slashes trimmed ++ suffix) is mapped by
   extractProtoPath to the same canonical procedure, so both Specs agree *)
Lemma client_url_procedure : forall pkg s m base,
  no_slash (full_service_name pkg s) = true -> no_slash (m_name m) = true ->
  full_service_name pkg s <> [] -> m_name m <> [] ->
  extract_proto_path (base ++ sk_client_suffix (method_skeleton pkg s m))
  = sk_handler_procedure (method_skeleton pkg s m).
Proof.
  intros pkg s m base H1 H2 H3 H4. cbn [method_skeleton sk_client_suffix sk_handler_procedure].
  unfold procedure_name, reflection_name. apply extract_proto_path_spec; assumption.
Qed.

(* On the pinned tree the path was built as "/" pkg "." svc "/" m even for an
   empty package: "/.Svc/Do". *)
Definition procedure_name_pinned (pkg : bytes) (s : gservice) (m : gmethod) : bytes :=
  slash :: pkg ++ dot :: s_name s ++ slash :: m_name m.
Lemma canonical_paths_refuted_on_pinned_tree :
  exists s m, procedure_name_pinned [] s m <> slash :: full_service_name [] s ++ slash :: m_name m.
Proof.
  exists (mkS [x53] [x53] []), (mkM [x44] [x44] false false). vm_compute. discriminate.
Qed.
