(* Codes.v — model of code.go: Code.String / MarshalText / UnmarshalText,
   and of the status tables (connectCodeToHTTP, connectHTTPToCode, grpcHTTPToCode).
   Tables and constants come from Generated.v (regenerated from /repo). *)
From Coq Require Import List NArith ZArith Lia Bool.
From Coq.Strings Require Import Byte.
From Connect Require Import Bytes Generated.
Import ListNotations.
Local Open Scope N_scope.

Definition two32 : N := 4294967296.
Definition two63 : N := 9223372036854775808.

(* association lists *)
Fixpoint assocN {A} (k : N) (l : list (N * A)) : option A :=
  match l with
  | [] => None
  | (k', v) :: r => if k =? k' then Some v else assocN k r
  end.

Fixpoint assocB {A} (k : bytes) (l : list (bytes * A)) : option A :=
  match l with
  | [] => None
  | (k', v) :: r => if bs_eqb k k' then Some v else assocB k r
  end.

(* strconv.ParseInt(s, 10, 64): optional sign, then one or more decimal
   digits, value in [-2^63, 2^63-1]; anything else is an error. *)
Definition go_parse_int64 (s : bytes) : option Z :=
  match s with
  | [] => None
  | b :: r =>
    let '(neg, ds) :=
      if byte_eqb b x2b then (false, r)
      else if byte_eqb b x2d then (true, r)
      else (false, s) in
    match parse_dec ds with
    | None => None
    | Some n =>
      if neg then (if n <=? two63 then Some (- Z.of_N n)%Z else None)
      else (if n <? two63 then Some (Z.of_N n) else None)
    end
  end.

(* strconv.ParseUint(s, 10, 32): digits only (no sign), value < 2^32 *)
Definition go_parse_uint32 (s : bytes) : option N :=
  match parse_dec s with
  | Some n => if n <? two32 then Some n else None
  | None => None
  end.

(* Code.String (code.go:107): table lookup, else "code_" ++ decimal *)
Definition code_string (c : N) : bytes :=
  match assocN c code_names with
  | Some s => s
  | None => code_string_prefix ++ print_dec c
  end.

(* Code.UnmarshalText (code.go:151): names first; then "code_<int64>" accepted
   only outside [minCode, maxCode]; Code(code) truncates to uint32. *)
Definition code_unmarshal (s : bytes) : option N :=
  match assocB s code_parse_names with
  | Some c => Some c
  | None =>
    match strip_prefix code_parse_prefix s with
    | Some r =>
      match go_parse_int64 r with
      | Some z =>
        if (z <? Z.of_N min_code)%Z || (Z.of_N max_code <? z)%Z
        then Some (Z.to_N (z mod Z.of_N two32))
        else None
      | None => None
      end
    | None => None
    end
  end.

(* status tables *)
Definition connect_code_to_http (c : N) : N :=
  match assocN c connect_code_to_http_table with Some h => h | None => connect_code_to_http_default end.
Definition connect_http_to_code (h : N) : N :=
  match assocN h connect_http_to_code_table with Some c => c | None => connect_http_to_code_default end.
Definition grpc_http_to_code (h : N) : N :=
  match assocN h grpc_http_to_code_table with Some c => c | None => grpc_http_to_code_default end.

(* ------------------------------------------------------------------ *)
(* Facts about the generated tables, by computation (re-checked whenever
   Generated.v changes). *)

Definition names_consistent : bool :=
  forallb (fun p => match assocB (snd p) code_parse_names with
                    | Some c => c =? fst p | None => false end) code_names.

Definition no_name_has_prefix : bool :=
  forallb (fun p => match strip_prefix code_parse_prefix (fst p) with
                    | Some _ => false | None => true end) code_parse_names.

Fixpoint range_from (a : N) (n : nat) : list N :=
  match n with O => [] | S k => a :: range_from (a + 1) k end.

Definition names_cover_range : bool :=
  forallb (fun c => match assocN c code_names with Some _ => true | None => false end)
          (range_from min_code (N.to_nat (max_code + 1 - min_code)))
  && forallb (fun p => (min_code <=? fst p) && (fst p <=? max_code)) code_names.

Lemma names_consistent_ok : names_consistent = true.
Proof. vm_compute. reflexivity. Qed.
Lemma no_name_has_prefix_ok : no_name_has_prefix = true.
Proof. vm_compute. reflexivity. Qed.
Lemma names_cover_range_ok : names_cover_range = true.
Proof. vm_compute. reflexivity. Qed.
Lemma prefixes_agree : code_string_prefix = code_parse_prefix.
Proof. reflexivity. Qed.
Lemma max_code_small : max_code < two32 /\ min_code <= max_code.
Proof. vm_compute. split; [reflexivity | discriminate]. Qed.

Lemma assocN_In {A} k (l : list (N * A)) v : assocN k l = Some v -> In (k, v) l.
Proof.
  induction l as [|[k' v'] l IH]; simpl; [discriminate|].
  destruct (k =? k') eqn:E.
  - intro H. inversion H; subst. apply N.eqb_eq in E. subst. left. reflexivity.
  - intro H. right. apply IH. exact H.
Qed.

Lemma assocB_None_not_key {A} k (l : list (bytes * A)) :
  assocB k l = None -> forall v, ~ In (k, v) l.
Proof.
  induction l as [|[k' v'] l IH]; simpl; intros H v; [tauto|].
  destruct (bs_eqb k k') eqn:E; [discriminate|].
  intros [Hin|Hin].
  - inversion Hin; subst. rewrite bs_eqb_refl in E. discriminate.
  - eapply IH; eauto.
Qed.

Lemma assocB_prefixed_None r :
  assocB (code_parse_prefix ++ r) code_parse_names = None.
Proof.
  pose proof no_name_has_prefix_ok as H. unfold no_name_has_prefix in H.
  rewrite forallb_forall in H.
  assert (G : forall l : list (bytes * N), (forall p, In p l -> match strip_prefix code_parse_prefix (fst p) with
                                              | Some _ => false | None => true end = true) ->
                        assocB (code_parse_prefix ++ r) l = None).
  { induction l as [|[k v] l IH]; intro Hl; cbn [assocB]; [reflexivity|].
    destruct (bs_eqb (code_parse_prefix ++ r) k) eqn:E.
    - apply bs_eqb_eq in E. specialize (Hl (k, v) (or_introl eq_refl)). cbn [fst] in Hl.
      rewrite <- E in Hl. rewrite strip_prefix_app in Hl. discriminate.
    - apply IH. intros p Hp. apply Hl. right. exact Hp. }
  apply G. exact H.
Qed.

(* codes outside the name table are exactly those outside [min_code,max_code] *)
Lemma range_from_In a n x : In x (range_from a n) <-> a <= x < a + N.of_nat n.
Proof.
  revert a. induction n as [|n IH]; intro a; simpl range_from.
  - simpl. lia.
  - simpl In. rewrite IH. lia.
Qed.

Lemma unnamed_outside c : assocN c code_names = None -> c < min_code \/ max_code < c.
Proof.
  intro H. pose proof names_cover_range_ok as K. unfold names_cover_range in K.
  apply andb_true_iff in K. destruct K as [K _]. rewrite forallb_forall in K.
  destruct (N.lt_ge_cases c min_code) as [|H1]; [left; assumption|].
  destruct (N.lt_ge_cases max_code c) as [|H2]; [right; assumption|].
  exfalso. specialize (K c). rewrite H in K.
  assert (In c (range_from min_code (N.to_nat (max_code + 1 - min_code)))).
  { apply range_from_In. rewrite N2Nat.id. lia. }
  specialize (K H0). discriminate.
Qed.

Lemma go_parse_int64_print n : n < two63 ->
  go_parse_int64 (print_dec n) = Some (Z.of_N n).
Proof.
  intro H.
  assert (H64 : n < 18446744073709551616) by (unfold two63 in H; lia).
  destruct (print_dec_spec n H64) as (Hne & Hdig & Hparse & _).
  unfold go_parse_int64. destruct (print_dec n) as [|b r] eqn:E; [congruence|].
  assert (Hb : is_digit b = true).
  { simpl in Hdig. apply andb_true_iff in Hdig. tauto. }
  assert (byte_eqb b x2b = false).
  { apply byte_eqb_neq. intro; subst. vm_compute in Hb. discriminate Hb. }
  assert (byte_eqb b x2d = false).
  { apply byte_eqb_neq. intro; subst. vm_compute in Hb. discriminate Hb. }
  rewrite H0, H1. rewrite Hparse.
  apply N.ltb_lt in H. rewrite H. reflexivity.
Qed.

(* ------------------------------------------------------------------ *)
(* C18: the text form round-trips for every 32-bit code value *)
Lemma code_text_roundtrip_lemma : forall c, c < two32 ->
  code_unmarshal (code_string c) = Some c.
Proof.
  intros c Hc. unfold code_string.
  destruct (assocN c code_names) as [s|] eqn:E.
  - (* named *)
    pose proof names_consistent_ok as K. unfold names_consistent in K.
    rewrite forallb_forall in K. specialize (K (c, s) (assocN_In _ _ _ E)). cbn [fst snd] in K.
    unfold code_unmarshal. destruct (assocB s code_parse_names) as [c'|]; [|discriminate K].
    apply N.eqb_eq in K. subst. reflexivity.
  - (* numeric fallback *)
    unfold code_unmarshal. rewrite prefixes_agree.
    rewrite assocB_prefixed_None, strip_prefix_app.
    assert (c < two63) by (unfold two32, two63 in *; lia).
    rewrite go_parse_int64_print by assumption.
    apply unnamed_outside in E.
    assert (((Z.of_N c <? Z.of_N min_code)%Z || (Z.of_N max_code <? Z.of_N c)%Z) = true) as G.
    { apply orb_true_iff. destruct E; [left; apply Z.ltb_lt | right; apply Z.ltb_lt]; lia. }
    rewrite G. f_equal.
    rewrite Z.mod_small by (unfold two32 in *; lia). apply N2Z.id.
Qed.

(* text that is neither a defined name nor code_<number> is rejected *)
Lemma code_text_rejects_lemma : forall s,
  assocB s code_parse_names = None ->
  (forall r, s = code_parse_prefix ++ r -> go_parse_int64 r = None) ->
  code_unmarshal s = None.
Proof.
  intros s Hn Hp. unfold code_unmarshal. rewrite Hn.
  destruct (strip_prefix code_parse_prefix s) as [r|] eqn:E; [|reflexivity].
  apply strip_prefix_Some in E. rewrite (Hp r E). reflexivity.
Qed.

(* every text the parser knows as a name is the text Code.String gives to that
   code: the parser accepts no spelling that the printer does not produce *)
Definition parse_names_are_names : bool :=
  forallb (fun p => match assocN (snd p) code_names with
                    | Some n => bs_eqb n (fst p)
                    | None => false end) code_parse_names.

Lemma parse_names_are_names_ok : parse_names_are_names = true.
Proof. vm_compute. reflexivity. Qed.

Lemma assocB_Some_in {A} k (l : list (bytes * A)) v :
  assocB k l = Some v -> exists k', In (k', v) l /\ bs_eqb k k' = true.
Proof.
  induction l as [|[k' v'] l IH]; simpl; intro H; [discriminate|].
  destruct (bs_eqb k k') eqn:E.
  - inversion H; subst. exists k'. split; [left; reflexivity | exact E].
  - destruct (IH H) as (k2 & Hin & E2). exists k2. split; [right; exact Hin | exact E2].
Qed.

(* text that is not the name Code.String gives to some code, and not of the
   code_<number> form, is rejected — "defined name" taken from the PRINTER's table *)
Lemma code_text_rejects_undefined_lemma : forall s,
  (forall c, assocN c code_names <> Some s) ->
  (forall r, s = code_parse_prefix ++ r -> go_parse_int64 r = None) ->
  code_unmarshal s = None.
Proof.
  intros s Hn Hp. apply code_text_rejects_lemma; [|exact Hp].
  destruct (assocB s code_parse_names) as [c|] eqn:E; [|reflexivity].
  exfalso. destruct (assocB_Some_in _ _ _ E) as (k' & Hin & Ek).
  pose proof parse_names_are_names_ok as H. unfold parse_names_are_names in H.
  rewrite forallb_forall in H. specialize (H (k', c) Hin). cbn [fst snd] in H.
  destruct (assocN c code_names) as [n|] eqn:En; [|discriminate].
  apply bs_eqb_eq in H. apply bs_eqb_eq in Ek. subst. exact (Hn c En).
Qed.

(* code_<n> with n inside the named range is rejected as well *)
Lemma code_text_rejects_named_number : forall r z,
  go_parse_int64 r = Some z -> (Z.of_N min_code <= z <= Z.of_N max_code)%Z ->
  code_unmarshal (code_parse_prefix ++ r) = None.
Proof.
  intros r z Hz Hr. unfold code_unmarshal.
  rewrite assocB_prefixed_None, strip_prefix_app, Hz.
  assert ((z <? Z.of_N min_code)%Z = false) by (apply Z.ltb_ge; lia).
  assert ((Z.of_N max_code <? z)%Z = false) by (apply Z.ltb_ge; lia).
  rewrite H, H0. reflexivity.
Qed.

(* every code maps to a 4xx or 5xx HTTP status *)
Definition http_table_4xx5xx : bool :=
  forallb (fun p => (400 <=? snd p) && (snd p <? 600)) connect_code_to_http_table
  && (400 <=? connect_code_to_http_default) && (connect_code_to_http_default <? 600).

Lemma http_table_4xx5xx_ok : http_table_4xx5xx = true.
Proof. vm_compute. reflexivity. Qed.

Lemma code_http_4xx5xx_lemma : forall c, 400 <= connect_code_to_http c < 600.
Proof.
  intro c. pose proof http_table_4xx5xx_ok as K. unfold http_table_4xx5xx in K.
  apply andb_true_iff in K. destruct K as [K K3].
  apply andb_true_iff in K. destruct K as [K1 K2].
  unfold connect_code_to_http.
  destruct (assocN c connect_code_to_http_table) as [h|] eqn:E.
  - rewrite forallb_forall in K1. specialize (K1 (c, h) (assocN_In _ _ _ E)). simpl in K1.
    apply andb_true_iff in K1. destruct K1 as [A B].
    apply N.leb_le in A. apply N.ltb_lt in B. lia.
  - apply N.leb_le in K2. apply N.ltb_lt in K3. lia.
Qed.

(* HTTP -> code tables never produce the zero code (used by C06) *)
Definition tbl_nonzero (l : list (N * N)) (d : N) : bool :=
  forallb (fun p => negb (snd p =? 0)) l && negb (d =? 0).

Lemma tbl_nonzero_sound l d k :
  tbl_nonzero l d = true ->
  match assocN k l with Some c => c | None => d end <> 0.
Proof.
  unfold tbl_nonzero. intro K. apply andb_true_iff in K. destruct K as [K1 K2].
  destruct (assocN k l) as [c|] eqn:E.
  - rewrite forallb_forall in K1. specialize (K1 (k, c) (assocN_In _ _ _ E)).
    cbn [snd] in K1. apply negb_true_iff, N.eqb_neq in K1. exact K1.
  - apply negb_true_iff, N.eqb_neq in K2. exact K2.
Qed.

Lemma connect_http_to_code_nonzero h : connect_http_to_code h <> 0.
Proof. apply tbl_nonzero_sound. vm_compute. reflexivity. Qed.

Lemma grpc_http_to_code_nonzero h : grpc_http_to_code h <> 0.
Proof. apply tbl_nonzero_sound. vm_compute. reflexivity. Qed.
