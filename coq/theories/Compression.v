(* Compression.v — model of negotiateCompression (protocol.go:244-284),
   newReadOnlyCompressionPools' name ordering (compression.go:171-191), the
   client-side validation of the server's choice, and the decompressor pool as
   a state machine (compression.go:59-160). *)
From Coq Require Import List Arith NArith Lia Bool.
From Coq.Strings Require Import Byte.
From Connect Require Import Bytes Generated Dispatch.
Import ListNotations.
Local Open Scope N_scope.

(* ---- names ---- *)
(* iterate the registration list from the end, keep the first occurrence *)
Fixpoint keep_first (l : list bytes) (seen : list bytes) : list bytes :=
  match l with
  | [] => []
  | x :: r => if mem x seen then keep_first r seen else x :: keep_first r (x :: seen)
  end.

Definition pool_names (registered : list bytes) : list bytes := keep_first (rev registered) [].

Definition comma : bytes := [x2c].
Definition comma_separated_names (registered : list bytes) : bytes := join comma (pool_names registered).

(* namedCompressionPools.Contains: a key of the name -> pool map *)
Definition contains (registered : list bytes) (name : bytes) : bool := mem name registered.

(* namedCompressionPools.Get: nil for "" and identity *)
Definition get_pool (registered : list bytes) (name : bytes) : option bytes :=
  if is_nil_b name || bs_eqb name compression_identity then None
  else if mem name registered then Some name else None.

(* strings.FieldsFunc(accept, isCommaOrSpace) *)
Definition is_comma_or_space (b : byte) : bool := byte_eqb b x2c || byte_eqb b x20.

Fixpoint fields_go (s : bytes) (cur : bytes) : list bytes :=
  match s with
  | [] => match cur with [] => [] | _ => [rev cur] end
  | c :: r => if is_comma_or_space c
              then match cur with [] => fields_go r [] | _ => rev cur :: fields_go r [] end
              else fields_go r (c :: cur)
  end.
Definition fields (s : bytes) : list bytes := fields_go s [].

Fixpoint first_supported (registered : list bytes) (names : list bytes) : option bytes :=
  match names with
  | [] => None
  | n :: r => if contains registered n then Some n else first_supported registered r
  end.

Inductive negotiated :=
| NegOk (request_compression response_compression : bytes)
| NegUnimplemented (supported : bytes).   (* CodeUnimplemented, message lists CommaSeparatedNames *)

Definition negotiate (registered : list bytes) (sent accept : bytes) : negotiated :=
  let unknown := negb (is_nil_b sent) && negb (bs_eqb sent compression_identity)
                 && negb (contains registered sent) in
  if unknown then NegUnimplemented (comma_separated_names registered)
  else
    let req := if negb (is_nil_b sent) && negb (bs_eqb sent compression_identity) then sent
               else compression_identity in
    let resp :=
      if bs_eqb req compression_identity && negb (is_nil_b accept) then
        match first_supported registered (fields accept) with Some n => n | None => req end
      else req in
    NegOk req resp.

(* client side: the server named an encoding the client does not have *)
Definition client_accepts (registered : list bytes) (enc : bytes) : bool :=
  is_nil_b enc || bs_eqb enc compression_identity || contains registered enc.

(* ---------------- proofs ---------------- *)

Lemma first_supported_sound registered names n :
  first_supported registered names = Some n ->
  In n names /\ contains registered n = true /\
  exists pre post, names = pre ++ n :: post /\ forall x, In x pre -> contains registered x = false.
Proof.
  induction names as [|y r IH]; cbn [first_supported]; [discriminate|].
  destruct (contains registered y) eqn:E.
  - intro H. inversion H; subst. split; [left; reflexivity|]. split; [exact E|].
    exists [], r. split; [reflexivity | intros x []].
  - intro H. destruct (IH H) as (Hin & Hc & pre & post & Heq & Hpre).
    split; [right; exact Hin|]. split; [exact Hc|].
    exists (y :: pre), post. split; [rewrite Heq; reflexivity|].
    intros x [Hx|Hx]; [subst; exact E | apply Hpre; exact Hx].
Qed.

Lemma first_supported_None registered names :
  first_supported registered names = None -> forall x, In x names -> contains registered x = false.
Proof.
  induction names as [|y r IH]; cbn [first_supported]; intros H x Hx; [destruct Hx|].
  destruct (contains registered y) eqn:E; [discriminate|].
  destruct Hx as [Hx|Hx]; [subst; exact E | apply IH; assumption].
Qed.

(* C08: the response algorithm is one the handler supports and that the client
   either used for its request or advertised; for an uncompressed request it is
   the client's most-preferred (first listed) mutually supported one. *)
Lemma response_alg_sound_lemma : forall registered sent accept req resp,
  negotiate registered sent accept = NegOk req resp ->
  (resp = compression_identity \/ contains registered resp = true) /\
  (resp = req \/ In resp (fields accept)) /\
  (req = compression_identity \/ (req = sent /\ contains registered sent = true)) /\
  (req = compression_identity -> accept <> [] ->
     match first_supported registered (fields accept) with
     | Some n => resp = n /\
                 exists pre post, fields accept = pre ++ n :: post /\
                                  forall x, In x pre -> contains registered x = false
     | None => resp = compression_identity
     end).
Proof.
  intros registered sent accept req resp H. unfold negotiate in H.
  destruct (negb (is_nil_b sent) && negb (bs_eqb sent compression_identity)) eqn:Es; cbn [andb] in H.
  - (* the client compressed its request *)
    destruct (negb (contains registered sent)) eqn:Ec; [discriminate|].
    apply negb_false_iff in Ec.
    apply andb_true_iff in Es. destruct Es as [_ Ei]. apply negb_true_iff in Ei.
    rewrite Ei in H. cbn [andb] in H. inversion H; subst req resp.
    split; [right; exact Ec|]. split; [left; reflexivity|]. split; [right; auto|].
    intro Hid. apply bs_eqb_neq in Ei. contradiction.
  - rewrite bs_eqb_refl in H. cbn [andb] in H.
    destruct (negb (is_nil_b accept)) eqn:Ea.
    + destruct (first_supported registered (fields accept)) as [n|] eqn:F; inversion H; subst req resp.
      * destruct (first_supported_sound _ _ _ F) as (Hin & Hc & pre & post & Heq & Hpre).
        split; [right; exact Hc|]. split; [right; exact Hin|]. split; [left; reflexivity|].
        intros _ _. split; [reflexivity|]. exists pre, post. auto.
      * split; [left; reflexivity|]. split; [left; reflexivity|]. split; [left; reflexivity|].
        intros _ _. reflexivity.
    + inversion H; subst req resp.
      split; [left; reflexivity|]. split; [left; reflexivity|]. split; [left; reflexivity|].
      intros _ Hne. destruct accept; [congruence | discriminate Ea].
Qed.

(* a request compressed with an algorithm the handler lacks is rejected as
   unimplemented, listing the supported algorithms *)
Lemma unknown_request_alg_lemma : forall registered sent accept,
  sent <> [] -> sent <> compression_identity -> contains registered sent = false ->
  negotiate registered sent accept = NegUnimplemented (comma_separated_names registered).
Proof.
  intros registered sent accept H1 H2 H3. unfold negotiate.
  destruct sent; [congruence|]. cbn [is_nil_b negb andb].
  apply bs_eqb_neq in H2. rewrite H2, H3. reflexivity.
Qed.

(* the name list: every registered name exactly once, most recently registered first *)
Lemma keep_first_In l : forall seen x, In x (keep_first l seen) <-> In x l /\ ~ In x seen.
Proof.
  induction l as [|y r IH]; intros seen x; cbn [keep_first].
  - cbn [In]. tauto.
  - destruct (mem y seen) eqn:E.
    + rewrite IH. apply mem_In in E. cbn [In]. split.
      * intros [H1 H2]. auto.
      * intros [[H1|H1] H2]; [subst; contradiction | auto].
    + cbn [In]. rewrite IH. cbn [In].
      assert (~ In y seen) by (intro G; apply mem_In in G; congruence).
      split.
      * intros [H1|[H1 H2]]; [subst; auto | split; [auto | intro G; apply H2; auto]].
      * intros [[H1|H1] H2]; [auto|].
        destruct (list_eq_dec Byte.byte_eq_dec y x) as [->|Hne]; [auto|].
        right. split; [exact H1|]. intros [G|G]; [contradiction | contradiction].
Qed.

Lemma pool_names_In registered x : In x (pool_names registered) <-> In x registered.
Proof. unfold pool_names. rewrite keep_first_In, <- in_rev. cbn [In]. tauto. Qed.

Lemma keep_first_NoDup l : forall seen, NoDup (keep_first l seen).
Proof.
  induction l as [|y r IH]; intro seen; cbn [keep_first]; [constructor|].
  destruct (mem y seen); [apply IH|]. constructor; [|apply IH].
  rewrite keep_first_In. cbn [In]. tauto.
Qed.

Lemma pool_names_NoDup registered : NoDup (pool_names registered).
Proof. apply keep_first_NoDup. Qed.

(* the last registered name comes first *)
Lemma pool_names_last_first registered x :
  pool_names (registered ++ [x]) = x :: keep_first (rev registered) [x].
Proof. unfold pool_names. rewrite rev_app_distr. reflexivity. Qed.

(* the client refuses an encoding it does not have *)
Lemma client_rejects_unknown registered enc :
  enc <> [] -> enc <> compression_identity -> contains registered enc = false ->
  client_accepts registered enc = false.
Proof.
  intros H1 H2 H3. unfold client_accepts. destruct enc; [congruence|]. cbn [is_nil_b orb].
  apply bs_eqb_neq in H2. rewrite H2, H3. reflexivity.
Qed.

(* ---- the decompressor pool as a state machine ---- *)
(* The encoding header of the response a handler writes: the response algorithm unless it is
   identity. When the request's compression is refused negotiateCompression reports identity
   for both directions (the refusal is an uncompressed response): no header. *)
Definition response_encoding_header (n : negotiated) : option bytes :=
  match n with
  | NegOk _ resp => if bs_eqb resp compression_identity then None else Some resp
  | NegUnimplemented _ => None
  end.

Lemma fields_go_nonempty : forall s cur x, In x (fields_go s cur) -> x <> [] \/ (x = rev cur /\ cur <> []).
Proof.
  induction s as [|c r IH]; intros cur x Hin; cbn [fields_go] in Hin.
  - destruct cur as [|a cur']; [destruct Hin|]. destruct Hin as [Hx|[]]. right. split; [symmetry; exact Hx | discriminate].
  - destruct (is_comma_or_space c).
    + destruct cur as [|a cur'].
      * destruct (IH [] x Hin) as [H|[_ H]]; [left; exact H | exfalso; apply H; reflexivity].
      * destruct Hin as [Hx|Hin]; [right; split; [symmetry; exact Hx | discriminate]|].
        destruct (IH [] x Hin) as [H|[_ H]]; [left; exact H | exfalso; apply H; reflexivity].
    + destruct (IH (c :: cur) x Hin) as [H|[Hx _]]; [left; exact H|].
      left. subst x. cbn [rev]. intro E. apply app_eq_nil in E. destruct E as [_ E]. discriminate.
Qed.

Lemma fields_nonempty : forall s x, In x (fields s) -> x <> [].
Proof.
  intros s x Hin. destruct (fields_go_nonempty s [] x Hin) as [H|[_ H]]; [exact H | exfalso; apply H; reflexivity].
Qed.

(* C05 / C07: whatever the request's headers say, the encoding header of the response - when
   there is one - holds a non-empty name *)
Lemma response_encoding_header_nonempty_lemma : forall registered sent accept e,
  response_encoding_header (negotiate registered sent accept) = Some e -> e <> [].
Proof.
  intros registered sent accept e. unfold negotiate.
  destruct (negb (is_nil_b sent) && negb (bs_eqb sent compression_identity) && negb (contains registered sent)) eqn:U;
    cbn [response_encoding_header]; [discriminate|].
  destruct (negb (is_nil_b sent) && negb (bs_eqb sent compression_identity)) eqn:S1.
  - (* the request names an algorithm: it is the response's too *)
    assert (bs_eqb sent compression_identity = false) as NI.
    { destruct (bs_eqb sent compression_identity); [rewrite andb_false_r in S1; discriminate | reflexivity]. }
    rewrite NI. cbn [andb]. rewrite NI. intro H. inversion H; subst e.
    destruct sent; [cbn in S1; discriminate | discriminate].
  - rewrite bs_eqb_refl. cbn [andb].
    destruct (negb (is_nil_b accept)); cbn [andb].
    + destruct (first_supported registered (fields accept)) as [n|] eqn:F.
      * destruct (bs_eqb n compression_identity); [discriminate|]. intro H. inversion H; subst e.
        destruct (first_supported_sound _ _ _ F) as (Hin & _). exact (fields_nonempty _ _ Hin).
      * rewrite bs_eqb_refl. discriminate.
    + rewrite bs_eqb_refl. discriminate.
Qed.

Section Pool.
Variable D : Type.                       (* a Decompressor object (e.g. *gzip.Reader) *)
Variable reset : D -> bytes -> D.        (* Reset(source) *)
Variable run : D -> option bytes.        (* read to the end: the data, or an error *)
Variable fresh : D.                      (* what the pool's New returns *)

(* Reset discards every trace of earlier use (documented contract of
   Decompressor.Reset; true of gzip.Reader) *)
Hypothesis reset_reinitialises : forall d src, run (reset d src) = run (reset fresh src).

(* Decompress: getDecompressor (take any pooled object, Reset to the source),
   read, putDecompressor (Close, Reset(""), Put) — on every path *)
Definition pool_call (pool : list D) (src : bytes) : option bytes * list D :=
  let d := match pool with [] => fresh | d :: _ => d end in
  let d' := reset d src in
  (run d', reset d' [] :: tl pool).

Fixpoint pool_history (pool : list D) (srcs : list bytes) : list (option bytes) :=
  match srcs with
  | [] => []
  | s :: r => let '(res, pool') := pool_call pool s in res :: pool_history pool' r
  end.

(* C08: whatever calls came before — corrupt or valid — each call's outcome is
   its outcome on a fresh decompressor *)
Lemma corrupt_isolated_lemma : forall srcs pool,
  pool_history pool srcs = map (fun s => run (reset fresh s)) srcs.
Proof.
  induction srcs as [|s r IH]; intro pool; cbn [pool_history map]; [reflexivity|].
  unfold pool_call. rewrite reset_reinitialises. f_equal. apply IH.
Qed.
End Pool.
