(* Cut.v — truncated and failing streams (C04), read limits (C09).
   What the envelope reader yields when a well-formed stream is cut at an
   arbitrary byte offset and then ends cleanly, unexpectedly or with a
   transport error; and what it yields for frames beyond the read limit. *)
From Coq Require Import List Arith NArith Lia Bool.
From Coq.Strings Require Import Byte.
From Connect Require Import Bytes Generated GoIO Envelope.
Import ListNotations.
Local Open Scope N_scope.

(* errors already coded by the transport layer never carry the zero code *)
Definition fin_ok (f : fin) : Prop := forall c, f = Fail (ECoded c) -> c <> 0.

Definition clean (f : fin) : Prop := f = CleanEOF \/ f = EOFWithData.

Lemma fpull_short n b f : len b < n -> fpull n (b, f) = (b, ([], f), false).
Proof.
  intro H. unfold fpull. assert ((n <=? len b) = false) as E by (apply N.leb_gt; exact H).
  rewrite E. reflexivity.
Qed.

Lemma len_firstn k (b : bytes) : (k <= length b)%nat -> len (firstn k b) = N.of_nat k.
Proof. intro H. unfold len. rewrite firstn_length. lia. Qed.

Lemma len_frame fl data : len (frame fl data) = 5 + len data.
Proof. unfold frame. unfold len. cbn [length]. rewrite app_length. cbn [be32 length]. lia. Qed.

(* a coded failure *)
Definition failure_code (f : fin) (c : N) : Prop :=
  c = code_unknown \/ c = code_invalid_argument \/ f = Fail (ECoded c).

Lemma failure_code_nonzero f c : fin_ok f -> failure_code f c -> c <> 0.
Proof.
  intros Hf [->|[->|H]]; [discriminate | discriminate | apply Hf; exact H].
Qed.

(* nothing left on the stream *)
Lemma env_read_empty max f :
  fst (env_read_f max ([], f)) =
  match f with
  | CleanEOF | EOFWithData => inr REOF
  | Fail (ECoded c) => inr (RErr c)
  | Fail _ => inr (RErr code_invalid_argument)
  end.
Proof. unfold env_read_f, env_read. cbn. destruct f as [| |[| |c]]; reflexivity. Qed.

(* a frame cut strictly inside (after at least one byte) is an error, never a message or a clean end *)
Lemma env_read_truncated : forall max fl data k f,
  fl < 256 -> len data < two32 ->
  (0 < k)%nat -> N.of_nat k < len (frame fl data) ->
  exists c, fst (env_read_f max (firstn k (frame fl data), f)) = inr (RErr c) /\ failure_code f c.
Proof.
  intros max fl data k f Hfl Hlen Hk0 Hk. rewrite len_frame in Hk.
  unfold env_read_f, env_read.
  destruct (Nat.lt_ge_cases k 5) as [Hlt|Hge].
  - (* inside the prefix *)
    assert (Hl : len (firstn k (frame fl data)) = N.of_nat k).
    { apply len_firstn. unfold frame. cbn [length]. rewrite app_length. cbn [be32 length]. lia. }
    rewrite fpull_short by (rewrite Hl; lia).
    destruct (firstn k (frame fl data)) as [|b0 bs] eqn:E.
    { unfold len in Hl. cbn in Hl. lia. }
    unfold f_end. cbn [snd fst].
    destruct f as [| |[| |c]]; eexists; (split; [reflexivity|]); unfold failure_code; auto.
  - (* prefix complete, payload short *)
    assert (Hsplit : firstn k (frame fl data) = (Nb fl :: be32 (len data)) ++ firstn (k - 5) data).
    { assert (Hk5 : k = (length (Nb fl :: be32 (len data)) + (k - 5))%nat) by (cbn [length be32]; lia).
      rewrite Hk5 at 1. unfold frame.
      change (Nb fl :: be32 (len data) ++ data) with ((Nb fl :: be32 (len data)) ++ data).
      apply firstn_app_2. }
    rewrite Hsplit. rewrite (fpull_app 5 _ _ f) by reflexivity.
    unfold be32. cbn [app].
    pose proof (be32_roundtrip (len data) Hlen) as Hrt. unfold be32 in Hrt. rewrite Hrt.
    assert (Hshort : len (firstn (k - 5) data) < len data).
    { rewrite len_firstn by (unfold len in Hk; lia). unfold len in *. lia. }
    destruct ((0 <? max) && (max <? len data)).
    + rewrite fpull_short by exact Hshort. unfold f_end. cbn [snd fst].
      destruct f as [| |[| |cc]]; eexists; (split; [reflexivity|]); unfold failure_code; auto.
    + assert ((len data =? 0) = false) as E0 by (apply N.eqb_neq; lia). rewrite E0.
      rewrite fpull_short by exact Hshort. unfold f_end. cbn [snd fst].
      destruct f as [| |[| |cc]]; eexists; (split; [reflexivity|]); unfold failure_code; auto.
Qed.

Section CutStream.
Variable M : Type.
Variable marshal : M -> bytes.
Variable unmarshal_into : bytes -> M -> option M.
Variable compress : bytes -> bytes.
Variable decompress : bytes -> option bytes.
Variable zero : M.
Hypothesis codec_roundtrip : forall m h, unmarshal_into (marshal m) h = Some m.
Hypothesis empty_is_zero : forall m, marshal m = [] -> m = zero.
Hypothesis compress_roundtrip : forall x, decompress (compress x) = Some x.
Hypothesis compress_nonempty : forall x, compress x = [] -> x = [].

Notation send_msg := (send_msg M marshal compress).
Notation send_all := (send_all M marshal compress).
Notation fits := (fits M marshal compress).
Notation recv := (recv_n_f M unmarshal_into decompress zero).
Notation unm := (env_unmarshal_f M unmarshal_into decompress).

(* a result that is a coded, non-OK failure *)
Definition is_failure (f : fin) (r : uresult M) : Prop :=
  exists c, r = UErr (RErr c) /\ failure_code f c.

Lemma send_msg_is_frame spool smin rmax m : fits spool smin rmax m ->
  exists fl data, send_msg spool smin m = frame fl data /\ fl < 256 /\ len data < two32.
Proof.
  intros (H1 & H2 & _). unfold Envelope.send_msg, env_write.
  destruct (has_flag 0 flag_compressed || negb spool || (len (marshal m) <? smin)).
  - exists 0, (marshal m). split; [reflexivity|]. split; [lia | exact H1].
  - exists (N.lor 0 flag_compressed), (compress (marshal m)). split; [reflexivity|]. split; [reflexivity | exact H2].
Qed.

Lemma unm_of_read_err max pool h s e s' :
  env_read_f max s = (inr e, s') -> unm max pool h s = (UErr e, s').
Proof.
  intro H. unfold env_unmarshal_f, env_unmarshal. fold (env_read_f max s). rewrite H. reflexivity.
Qed.

Lemma recv_one max pool s :
  recv 1 max pool s = [fst (unm max pool zero s)].
Proof.
  unfold recv_n_f. cbn [recv_n].
  fold (env_unmarshal_f M unmarshal_into decompress max pool zero s).
  destruct (unm max pool zero s). reflexivity.
Qed.

Lemma fst_unm_read_err max pool h s e :
  fst (env_read_f max s) = inr e -> fst (unm max pool h s) = UErr e.
Proof.
  intro H. destruct (env_read_f max s) as [r s'] eqn:E. cbn [fst] in H. subst r.
  rewrite (unm_of_read_err _ _ _ _ _ _ E). reflexivity.
Qed.

(* C04, reading side: a stream of sent messages cut at ANY offset k, then
   ending in any way: the receiver gets a prefix of the messages, and then
   either a clean end-of-stream — only if the cut fell exactly on a frame
   boundary and the transport ended cleanly — or a coded failure. *)
Lemma cut_stream_lemma : forall spool smin rpool rmax msgs tail k f,
  (spool = true -> rpool = true) ->
  Forall (fits spool smin rmax) msgs ->
  (k <= length (send_all spool smin msgs))%nat ->
  exists j r,
    (j <= length msgs)%nat /\
    recv (j + 1) rmax rpool (firstn k (send_all spool smin msgs ++ tail), f)
      = map UMsg (firstn j msgs) ++ [r] /\
    ((r = UErr REOF /\ firstn k (send_all spool smin msgs ++ tail) = send_all spool smin (firstn j msgs) /\ clean f)
     \/ is_failure f r).
Proof.
  intros spool smin rpool rmax msgs tail k f Hpool Hfits. revert k.
  induction Hfits as [|m msgs Hm Hms IH]; intros k Hk.
  - (* no messages: k = 0 *)
    cbn [Envelope.send_all map concat length] in Hk. assert (k = 0%nat) by lia. subst k.
    exists 0%nat. cbn [firstn map app Nat.add]. rewrite recv_one.
    pose proof (env_read_empty rmax f) as He.
    destruct f as [| |[| |c]].
    + eexists. split; [lia|]. split; [rewrite (fst_unm_read_err _ _ _ _ _ He); reflexivity|].
      left. unfold clean. auto.
    + eexists. split; [lia|]. split; [rewrite (fst_unm_read_err _ _ _ _ _ He); reflexivity|].
      left. unfold clean. auto.
    + eexists. split; [lia|]. split; [rewrite (fst_unm_read_err _ _ _ _ _ He); reflexivity|].
      right. eexists. split; [reflexivity|]. unfold failure_code. auto.
    + eexists. split; [lia|]. split; [rewrite (fst_unm_read_err _ _ _ _ _ He); reflexivity|].
      right. eexists. split; [reflexivity|]. unfold failure_code. auto.
    + eexists. split; [lia|]. split; [rewrite (fst_unm_read_err _ _ _ _ _ He); reflexivity|].
      right. eexists. split; [reflexivity|]. unfold failure_code. auto.
  - rewrite send_all_cons in *. rewrite <- app_assoc.
    destruct (send_msg_is_frame spool smin rmax m Hm) as (fl & data & Hfr & Hfl & Hdl).
    destruct (Nat.lt_ge_cases k (length (send_msg spool smin m))) as [Hin|Hout].
    + (* the cut falls inside the first frame *)
      exists 0%nat. cbn [firstn map app Nat.add]. rewrite recv_one.
      rewrite firstn_app. replace (k - length (send_msg spool smin m))%nat with 0%nat by lia.
      cbn [firstn]. rewrite app_nil_r.
      destruct k as [|k'].
      * cbn [firstn]. pose proof (env_read_empty rmax f) as He.
        destruct f as [| |[| |c]]; eexists; (split; [lia|]);
          (split; [rewrite (fst_unm_read_err _ _ _ _ _ He); reflexivity|]);
          try (left; unfold clean; auto; fail);
          right; eexists; (split; [reflexivity|]); unfold failure_code; auto.
      * rewrite Hfr in *.
        destruct (env_read_truncated rmax fl data (Datatypes.S k') f Hfl Hdl ltac:(lia)) as (c & Hc & Hfc).
        { unfold len. lia. }
        eexists. split; [lia|]. split; [rewrite (fst_unm_read_err _ _ _ _ _ Hc); reflexivity|].
        right. exists c. auto.
    + (* the first message arrives whole *)
      rewrite app_length in Hk.
      destruct (IH (k - length (send_msg spool smin m))%nat ltac:(lia)) as (j & r & Hj & Hrecv & Hcase).
      exists (Datatypes.S j), r. split; [cbn [length]; lia|].
      rewrite firstn_app, firstn_all2 by lia.
      split.
      * cbn [Nat.add firstn map app]. unfold recv_n_f in *. cbn [recv_n].
        fold (env_unmarshal_f M unmarshal_into decompress rmax rpool zero
                (send_msg spool smin m ++
                 firstn (k - length (send_msg spool smin m)) (send_all spool smin msgs ++ tail), f)).
        rewrite (unmarshal_sent M marshal unmarshal_into compress decompress zero
                   codec_roundtrip empty_is_zero compress_roundtrip compress_nonempty
                   spool smin rpool rmax m zero _ f Hpool Hm (fun _ => eq_refl)).
        f_equal. exact Hrecv.
      * destruct Hcase as [(Hr & Heq & Hcl)|Hfail]; [left | right; exact Hfail].
        split; [exact Hr|]. split; [|exact Hcl].
        cbn [firstn]. rewrite send_all_cons. f_equal. exact Heq.
Qed.

(* ... and a special (terminator) envelope cut strictly inside is a failure too *)
Lemma cut_terminator_lemma : forall spool smin rpool rmax msgs tf td k f,
  (spool = true -> rpool = true) ->
  Forall (fits spool smin rmax) msgs ->
  tf < 256 -> len td < two32 ->
  (0 < k)%nat -> N.of_nat k < len (frame tf td) ->
  exists r,
    recv (length msgs + 1) rmax rpool (send_all spool smin msgs ++ firstn k (frame tf td), f)
      = map UMsg msgs ++ [r] /\ is_failure f r.
Proof.
  intros spool smin rpool rmax msgs tf td k f Hpool Hfits Htf Htd Hk0 Hk.
  rewrite (stream_roundtrip_lemma M marshal unmarshal_into compress decompress zero
             codec_roundtrip empty_is_zero compress_roundtrip compress_nonempty
             spool smin rpool rmax msgs 1 _ f Hpool Hfits).
  rewrite recv_one.
  destruct (env_read_truncated rmax tf td k f Htf Htd Hk0 Hk) as (c & Hc & Hfc).
  eexists. split; [rewrite (fst_unm_read_err _ _ _ _ _ Hc); reflexivity|].
  exists c. auto.
Qed.

(* ---------------- read limits (C09) ---------------- *)

(* an over-limit frame at any position i of a stream: the i messages before it
   are delivered, that Receive fails with invalid_argument, whatever follows *)
Lemma limit_wire_lemma : forall spool smin rpool rmax msgs fl big rest f,
  (spool = true -> rpool = true) ->
  Forall (fits spool smin rmax) msgs ->
  len big < two32 -> 0 < rmax -> rmax < len big ->
  recv (length msgs + 1) rmax rpool (send_all spool smin msgs ++ frame fl big ++ rest, f)
  = map UMsg msgs ++ [UErr (RErr code_invalid_argument)].
Proof.
  intros spool smin rpool rmax msgs fl big rest f Hpool Hfits Hb Hpos Hbig.
  rewrite (stream_roundtrip_lemma M marshal unmarshal_into compress decompress zero
             codec_roundtrip empty_is_zero compress_roundtrip compress_nonempty
             spool smin rpool rmax msgs 1 _ f Hpool Hfits).
  rewrite recv_one.
  rewrite (fst_unm_read_err _ _ _ _ _ (env_read_oversize rmax fl big rest f Hb Hpos Hbig)).
  reflexivity.
Qed.

(* a compressed frame that is small on the wire but decompresses beyond the
   limit: invalid_argument as well, and the decompressed bytes are not delivered *)
Lemma limit_decompressed_lemma : forall rmax payload x rest f,
  len payload < two32 -> payload <> [] ->
  0 < rmax -> len payload <= rmax ->
  decompress payload = Some x -> rmax < len x ->
  fst (unm rmax true zero (frame flag_compressed payload ++ rest, f)) = UErr (RErr code_invalid_argument).
Proof.
  intros rmax payload x rest f Hl Hne Hpos Hwire Hd Hbig.
  unfold env_unmarshal_f, env_unmarshal. fold (env_read_f rmax).
  rewrite env_read_frame by (try reflexivity; auto).
  change (flag_compressed =? 0) with false.
  change (flag_compressed =? flag_compressed) with true. cbn [orb andb].
  destruct payload as [|p0 ps]; [congruence|].
  cbn [is_nil negb andb]. change (has_flag flag_compressed flag_compressed) with true. cbn [andb].
  unfold decompress_limited. rewrite Hd.
  assert (((0 <? rmax) && (rmax <? len x)) = true) as E.
  { apply andb_true_iff. split; apply N.ltb_lt; assumption. }
  rewrite E. reflexivity.
Qed.

End CutStream.

(* unary Connect body beyond the limit *)
Lemma limit_unary_lemma : forall (M : Type) (u : bytes -> M -> option M) (d : bytes -> option bytes)
    max pool h body f,
  0 < max -> max < len body ->
  unary_unmarshal_f M u d max pool h (body, f) = inr (RErr code_invalid_argument).
Proof.
  intros M u d max pool h body f Hpos Hbig. unfold unary_unmarshal_f.
  assert (((0 <? max) && (max <? len body)) = true) as E.
  { apply andb_true_iff. split; apply N.ltb_lt; assumption. }
  rewrite E. reflexivity.
Qed.

(* bytes the reader keeps in its buffer for the next frame: nothing when the
   declared size exceeds the limit (the bytes go to io.Discard), at most the
   declared size otherwise — never more than the limit when one is set,
   whatever length the prefix declares and however many bytes follow *)
Definition buffered_for_next_frame (max : N) (s : fstream) : N :=
  let '(pfx, s1, ok) := fpull 5 s in
  if ok then
    match pfx with
    | [_; a; b; c; d] =>
      let size := be32_dec a b c d in
      if (0 <? max) && (max <? size) then 0
      else let '(payload, _, _) := fpull size s1 in len payload
    | _ => 0
    end
  else 0.

Lemma fpull_len n s : let '(g, _, _) := fpull n s in len g <= n.
Proof.
  destruct s as [b f]. unfold fpull. destruct (n <=? len b) eqn:E.
  - apply N.leb_le in E. unfold len in *. rewrite firstn_length. lia.
  - apply N.leb_gt in E. lia.
Qed.

Lemma buffer_bound_lemma : forall max s, 0 < max -> buffered_for_next_frame max s <= max.
Proof.
  intros max s Hpos. unfold buffered_for_next_frame.
  destruct (fpull 5 s) as [[pfx s1] ok]. destruct ok; [|lia].
  destruct pfx as [|x0 [|a [|b [|c [|d [|y r]]]]]]; try lia.
  destruct ((0 <? max) && (max <? be32_dec a b c d)) eqn:E; [lia|].
  pose proof (fpull_len (be32_dec a b c d) s1) as Hl.
  destruct (fpull (be32_dec a b c d) s1) as [[payload s2] ok2].
  apply andb_false_iff in E. destruct E as [E|E].
  - apply N.ltb_ge in E. lia.
  - apply N.ltb_ge in E. lia.
Qed.

(* the decompressor is read through LimitReader(max+1): at most max+1 bytes
   are ever taken from it; the model keeps the output only when it fits *)
Lemma decompress_bound_lemma : forall (d : bytes -> option bytes) max data out,
  0 < max -> decompress_limited d max data = inl out -> len out <= max.
Proof.
  intros d max data out Hpos H. unfold decompress_limited in H.
  destruct (d data) as [x|]; [|discriminate].
  destruct ((0 <? max) && (max <? len x)) eqn:E; [discriminate|].
  inversion H; subst. apply andb_false_iff in E. destruct E as [E|E]; apply N.ltb_ge in E; lia.
Qed.
