(* Dispatch.v — model of Handler.ServeHTTP's guards (handler.go:156-211), the
   content-type sets of the three protocols (protocol_connect.go:52-65,
   protocol_grpc.go:81-98), sortedAcceptPostValue (protocol.go:194-207), the
   codec lookup from the content type, and extractProtoPath (protobuf_util.go). *)
From Coq Require Import List Arith NArith Lia Bool.
From Coq.Strings Require Import Byte.
From Connect Require Import Bytes Generated.
Import ListNotations.
Local Open Scope N_scope.

Inductive stream_type := STUnary | STClient | STServer | STBidi.

Definition is_bidi (st : stream_type) : bool := match st with STBidi => true | _ => false end.

Record hcfg := mkH {
  codec_names : list bytes;     (* registered codec names (map keys: any order) *)
  handle_grpc : bool;
  handle_grpc_web : bool;
  stype : stream_type
}.

Fixpoint mem (x : bytes) (l : list bytes) : bool :=
  match l with [] => false | y :: r => bs_eqb x y || mem x r end.

Lemma mem_In x l : mem x l = true <-> In x l.
Proof.
  induction l as [|y r IH]; cbn [mem In]; [split; [discriminate | tauto]|].
  rewrite orb_true_iff, IH, bs_eqb_eq. split; intros [H|H]; auto.
Qed.

Inductive protocol := PrConnect | PrGrpc | PrGrpcWeb.

Definition connect_prefix (st : stream_type) : bytes :=
  match st with STUnary => ct_connect_unary_prefix | _ => ct_connect_stream_prefix end.

(* ContentTypes() of each protocol handler *)
Definition content_types (cfg : hcfg) (p : protocol) : list bytes :=
  match p with
  | PrConnect => map (fun n => connect_prefix (stype cfg) ++ n) (codec_names cfg)
  | PrGrpc => map (fun n => ct_grpc_prefix ++ n) (codec_names cfg)
              ++ (if mem codec_name_proto (codec_names cfg) then [ct_grpc] else [])
  | PrGrpcWeb => map (fun n => ct_grpc_web_prefix ++ n) (codec_names cfg)
                 ++ (if mem codec_name_proto (codec_names cfg) then [ct_grpc_web] else [])
  end.

(* newProtocolHandlers: Connect always, then gRPC, then gRPC-Web *)
Definition protocols (cfg : hcfg) : list protocol :=
  PrConnect :: (if handle_grpc cfg then [PrGrpc] else []) ++ (if handle_grpc_web cfg then [PrGrpcWeb] else []).

Definition advertised (cfg : hcfg) : list bytes := flat_map (content_types cfg) (protocols cfg).

(* --- sorting and joining (sort.Strings + strings.Join(", ")) --- *)
Fixpoint bs_leb (a b : bytes) : bool :=
  match a, b with
  | [], _ => true
  | _ :: _, [] => false
  | x :: a', y :: b' => if bN x <? bN y then true else if bN y <? bN x then false else bs_leb a' b'
  end.

Fixpoint insert (x : bytes) (l : list bytes) : list bytes :=
  match l with
  | [] => [x]
  | y :: r => if bs_leb x y then x :: l else y :: insert x r
  end.

Fixpoint isort (l : list bytes) : list bytes :=
  match l with [] => [] | x :: r => insert x (isort r) end.

Fixpoint dedup (l : list bytes) : list bytes :=
  match l with [] => [] | x :: r => if mem x r then dedup r else x :: dedup r end.

Definition comma_space : bytes := [x2c; x20].

Fixpoint join (sep : bytes) (l : list bytes) : bytes :=
  match l with
  | [] => []
  | [x] => x
  | x :: r => x ++ sep ++ join sep r
  end.

Definition accept_list (cfg : hcfg) : list bytes := isort (dedup (advertised cfg)).
Definition accept_post (cfg : hcfg) : bytes := join comma_space (accept_list cfg).

(* --- codec lookup from the content type --- *)
Definition trim_prefix (p s : bytes) : bytes :=
  match strip_prefix p s with Some r => r | None => s end.

Definition codec_from_content_type (cfg : hcfg) (p : protocol) (ct : bytes) : bytes :=
  match p with
  | PrConnect => trim_prefix (connect_prefix (stype cfg)) ct
  | PrGrpc => if bs_eqb ct ct_grpc then codec_name_proto else trim_prefix ct_grpc_prefix ct
  | PrGrpcWeb => if bs_eqb ct ct_grpc_web then codec_name_proto else trim_prefix ct_grpc_web_prefix ct
  end.

(* --- ServeHTTP guards --- *)
Definition method_post : bytes := [x50; x4f; x53; x54].

Inductive dispatched :=
| D505
| D405                                   (* with Allow: POST *)
| D415 (accept : bytes)                  (* with Accept-Post *)
| DServe (p : protocol) (codec : bytes). (* user code runs exactly once, unless the request is rejected later *)

Fixpoint find_protocol (cfg : hcfg) (ps : list protocol) (ct : bytes) : option protocol :=
  match ps with
  | [] => None
  | p :: r => if mem ct (content_types cfg p) then Some p else find_protocol cfg r ct
  end.

Definition dispatch (cfg : hcfg) (proto_major : N) (method ct : bytes) : dispatched :=
  if is_bidi (stype cfg) && (proto_major <? 2) then D505
  else if negb (bs_eqb method method_post) then D405
  else match find_protocol cfg (protocols cfg) ct with
       | Some p => DServe p (codec_from_content_type cfg p ct)
       | None => D415 (accept_post cfg)
       end.

(* number of times user code and interceptors run *)
Definition invocations (d : dispatched) : nat := match d with DServe _ _ => 1 | _ => 0 end.

(* ---------------- proofs ---------------- *)

Lemma insert_In x y l : In y (insert x l) <-> y = x \/ In y l.
Proof.
  induction l as [|z r IH]; cbn [insert In]; [intuition congruence|].
  destruct (bs_leb x z); cbn [In]; [intuition congruence|]. rewrite IH. intuition congruence.
Qed.

Lemma isort_In y l : In y (isort l) <-> In y l.
Proof.
  induction l as [|x r IH]; cbn [isort In]; [tauto|]. rewrite insert_In, IH. intuition congruence.
Qed.

Lemma dedup_In y l : In y (dedup l) <-> In y l.
Proof.
  induction l as [|x r IH]; cbn [dedup In]; [tauto|].
  destruct (mem x r) eqn:E.
  - rewrite IH. split; [auto|]. intros [H|H]; [subst; apply mem_In; exact E | exact H].
  - cbn [In]. rewrite IH. tauto.
Qed.

Lemma accept_list_In cfg ct : In ct (accept_list cfg) <-> In ct (advertised cfg).
Proof. unfold accept_list. rewrite isort_In, dedup_In. tauto. Qed.

Lemma find_protocol_Some cfg ps ct p :
  find_protocol cfg ps ct = Some p -> In p ps /\ In ct (content_types cfg p).
Proof.
  induction ps as [|q r IH]; cbn [find_protocol]; [discriminate|].
  destruct (mem ct (content_types cfg q)) eqn:E.
  - intro H. inversion H; subst. split; [left; reflexivity | apply mem_In; exact E].
  - intro H. destruct (IH H). split; [right|]; assumption.
Qed.

Lemma find_protocol_None cfg ps ct :
  find_protocol cfg ps ct = None <-> ~ In ct (flat_map (content_types cfg) ps).
Proof.
  induction ps as [|q r IH]; cbn [find_protocol flat_map]; [split; [intros _ []|reflexivity]|].
  destruct (mem ct (content_types cfg q)) eqn:E.
  - split; [discriminate|]. intro H. exfalso. apply H. apply in_or_app. left. apply mem_In. exact E.
  - rewrite IH. split; intros H G.
    + apply in_app_or in G. destruct G as [G|G]; [apply mem_In in G; congruence | contradiction].
    + apply H. apply in_or_app. right. exact G.
Qed.

(* C12: the three guards, in order *)
Lemma dispatch_505 cfg major method ct :
  stype cfg = STBidi -> major < 2 -> dispatch cfg major method ct = D505.
Proof.
  intros Hb Hm. unfold dispatch. rewrite Hb. cbn [is_bidi].
  apply N.ltb_lt in Hm. rewrite Hm. reflexivity.
Qed.

Lemma dispatch_405 cfg major method ct :
  (stype cfg <> STBidi \/ 2 <= major) -> method <> method_post ->
  dispatch cfg major method ct = D405.
Proof.
  intros Hv Hm. unfold dispatch.
  assert (is_bidi (stype cfg) && (major <? 2) = false) as E.
  { destruct Hv as [H|H].
    - destruct (stype cfg); try reflexivity. congruence.
    - apply andb_false_iff. right. apply N.ltb_ge. exact H. }
  rewrite E. apply bs_eqb_neq in Hm. rewrite Hm. reflexivity.
Qed.

(* a POST on an admissible HTTP version is served iff its Content-Type is
   advertised; otherwise 415 with Accept-Post *)
Lemma dispatch_post cfg major ct :
  (stype cfg <> STBidi \/ 2 <= major) ->
  (In ct (advertised cfg) -> exists p c, dispatch cfg major method_post ct = DServe p c) /\
  (~ In ct (advertised cfg) -> dispatch cfg major method_post ct = D415 (accept_post cfg)).
Proof.
  intros Hv. unfold dispatch.
  assert (is_bidi (stype cfg) && (major <? 2) = false) as E.
  { destruct Hv as [H|H].
    - destruct (stype cfg); try reflexivity. congruence.
    - apply andb_false_iff. right. apply N.ltb_ge. exact H. }
  rewrite E, bs_eqb_refl. cbn [negb]. split.
  - intro Hin. destruct (find_protocol cfg (protocols cfg) ct) as [p|] eqn:F; [eauto|].
    apply find_protocol_None in F. contradiction.
  - intro Hn. destruct (find_protocol cfg (protocols cfg) ct) as [p|] eqn:F; [|reflexivity].
    apply find_protocol_Some in F. exfalso. apply Hn. unfold advertised.
    apply in_flat_map. exists p. exact F.
Qed.

(* Accept-Post lists exactly the accepted content types *)
Lemma accept_post_exact cfg major ct :
  (stype cfg <> STBidi \/ 2 <= major) ->
  (In ct (accept_list cfg) <-> exists p c, dispatch cfg major method_post ct = DServe p c).
Proof.
  intro Hv. rewrite accept_list_In. destruct (dispatch_post cfg major ct Hv) as [H1 H2]. split; [exact H1|].
  intros (p & c & Hd). destruct (in_dec (list_eq_dec Byte.byte_eq_dec) ct (advertised cfg)) as [Hin|Hn]; [exact Hin|].
  rewrite (H2 Hn) in Hd. discriminate.
Qed.

(* the advertised set is exactly: protocol prefixes x codec names, plus the bare
   gRPC types when a codec named "proto" is registered *)
Lemma advertised_spec cfg ct :
  In ct (advertised cfg) <->
  (exists n, In n (codec_names cfg) /\ ct = connect_prefix (stype cfg) ++ n) \/
  (handle_grpc cfg = true /\
     ((exists n, In n (codec_names cfg) /\ ct = ct_grpc_prefix ++ n) \/
      (In codec_name_proto (codec_names cfg) /\ ct = ct_grpc))) \/
  (handle_grpc_web cfg = true /\
     ((exists n, In n (codec_names cfg) /\ ct = ct_grpc_web_prefix ++ n) \/
      (In codec_name_proto (codec_names cfg) /\ ct = ct_grpc_web))).
Proof.
  unfold advertised, protocols. cbn [flat_map]. rewrite in_app_iff.
  assert (Hmap : forall pre, In ct (map (fun n => pre ++ n) (codec_names cfg)) <->
                             exists n, In n (codec_names cfg) /\ ct = pre ++ n).
  { intro pre. rewrite in_map_iff. split; intros (n & A & B); exists n; auto. }
  assert (Hbare : forall bare, In ct (if mem codec_name_proto (codec_names cfg) then [bare] else []) <->
                               In codec_name_proto (codec_names cfg) /\ ct = bare).
  { intro bare. destruct (mem codec_name_proto (codec_names cfg)) eqn:E.
    - cbn [In]. apply mem_In in E. split; [intros [H|[]]; auto | intros [_ H]; auto].
    - split; [intros [] | intros [H _]; apply mem_In in H; congruence]. }
  cbn [content_types]. rewrite Hmap.
  destruct (handle_grpc cfg), (handle_grpc_web cfg); cbn [app flat_map content_types];
    rewrite ?app_nil_r, ?in_app_iff, ?Hmap, ?Hbare; intuition (try discriminate; auto).
  all: try (destruct H as [? [? _]]; discriminate).
  all: try match goal with H : In _ [] |- _ => destruct H end.
Qed.

(* every served request selects a registered codec (the nil-codec comment in
   the code is a theorem) *)
Lemma strip_trim p n : trim_prefix p (p ++ n) = n.
Proof. unfold trim_prefix. rewrite strip_prefix_app. reflexivity. Qed.

Lemma grpc_prefixed_not_bare n : bs_eqb (ct_grpc_prefix ++ n) ct_grpc = false.
Proof.
  apply bs_eqb_neq. intro H. apply (f_equal (@length byte)) in H.
  rewrite app_length in H. vm_compute in H. lia.
Qed.
Lemma grpc_web_prefixed_not_bare n : bs_eqb (ct_grpc_web_prefix ++ n) ct_grpc_web = false.
Proof.
  apply bs_eqb_neq. intro H. apply (f_equal (@length byte)) in H.
  rewrite app_length in H. vm_compute in H. lia.
Qed.

Lemma codec_lookup_total cfg major method ct p c :
  dispatch cfg major method ct = DServe p c -> In c (codec_names cfg).
Proof.
  unfold dispatch. destruct (is_bidi (stype cfg) && (major <? 2)); [discriminate|].
  destruct (negb (bs_eqb method method_post)); [discriminate|].
  destruct (find_protocol cfg (protocols cfg) ct) as [q|] eqn:F; [|discriminate].
  intro H. inversion H; subst q c. apply find_protocol_Some in F. destruct F as [_ Hin].
  destruct p; cbn [content_types codec_from_content_type] in *.
  - apply in_map_iff in Hin. destruct Hin as (n & <- & Hn). rewrite strip_trim. exact Hn.
  - apply in_app_or in Hin. destruct Hin as [Hin|Hin].
    + apply in_map_iff in Hin. destruct Hin as (n & <- & Hn).
      rewrite grpc_prefixed_not_bare, strip_trim. exact Hn.
    + destruct (mem codec_name_proto (codec_names cfg)) eqn:E; [|destruct Hin].
      destruct Hin as [<-|[]]. rewrite bs_eqb_refl. apply mem_In. exact E.
  - apply in_app_or in Hin. destruct Hin as [Hin|Hin].
    + apply in_map_iff in Hin. destruct Hin as (n & <- & Hn).
      rewrite grpc_web_prefixed_not_bare, strip_trim. exact Hn.
    + destruct (mem codec_name_proto (codec_names cfg)) eqn:E; [|destruct Hin].
      destruct Hin as [<-|[]]. rewrite bs_eqb_refl. apply mem_In. exact E.
Qed.

(* rejected requests run nothing *)
Lemma rejected_runs_nothing cfg major method ct :
  (forall p c, dispatch cfg major method ct <> DServe p c) ->
  invocations (dispatch cfg major method ct) = 0%nat.
Proof. intro H. destruct (dispatch cfg major method ct); try reflexivity. exfalso. eapply H. reflexivity. Qed.

(* ---------------- extractProtoPath ---------------- *)

Definition slash : byte := x2f.

(* strings.Split(url, "/") *)
Fixpoint split_go (s : bytes) (cur : bytes) : list bytes :=
  match s with
  | [] => [rev cur]
  | c :: r => if byte_eqb c slash then rev cur :: split_go r [] else split_go r (c :: cur)
  end.
Definition split_slash (s : bytes) : list bytes := split_go s [].

Definition is_nil_b (l : bytes) : bool := match l with [] => true | _ => false end.

Definition extract_proto_path (url : bytes) : bytes :=
  let segs := split_slash url in
  let n := length segs in
  let pkg := if (2 <=? n)%nat then nth (n - 2) segs [] else nth 0 segs [] in
  let method := if (2 <=? n)%nat then nth (n - 1) segs [] else [] in
  if is_nil_b pkg then [slash]
  else if is_nil_b method then slash :: pkg
  else slash :: pkg ++ slash :: method.

Fixpoint no_slash (s : bytes) : bool :=
  match s with [] => true | c :: r => negb (byte_eqb c slash) && no_slash r end.

Lemma split_go_no_slash s : forall cur, no_slash s = true -> split_go s cur = [rev cur ++ s].
Proof.
  induction s as [|c r IH]; intros cur H; cbn [split_go].
  - rewrite app_nil_r. reflexivity.
  - cbn [no_slash] in H. apply andb_true_iff in H. destruct H as [Hc Hr].
    apply negb_true_iff in Hc. rewrite Hc. rewrite IH by exact Hr.
    cbn [rev]. rewrite <- app_assoc. reflexivity.
Qed.

Lemma split_go_tail x : forall cur svc m,
  no_slash svc = true -> no_slash m = true ->
  exists pre, split_go (x ++ slash :: svc ++ slash :: m) cur = pre ++ [svc; m].
Proof.
  induction x as [|c r IH]; intros cur svc m Hs Hm.
  - cbn [app split_go]. change (byte_eqb slash slash) with true.
    exists [rev cur]. cbn [app]. f_equal.
    (* split_go (svc ++ / :: m) [] *)
    assert (G : forall cur', split_go (svc ++ slash :: m) cur' = [rev cur' ++ svc; m]).
    { clear - Hs Hm. induction svc as [|d t IHt]; intro cur'; cbn [app split_go].
      - change (byte_eqb slash slash) with true. rewrite app_nil_r.
        rewrite (split_go_no_slash m [] Hm). reflexivity.
      - cbn [no_slash] in Hs. apply andb_true_iff in Hs. destruct Hs as [Hd Ht].
        apply negb_true_iff in Hd. rewrite Hd. rewrite (IHt Ht).
        cbn [rev]. rewrite <- app_assoc. reflexivity. }
    rewrite (G []). reflexivity.
  - cbn [app split_go]. destruct (byte_eqb c slash).
    + destruct (IH [] svc m Hs Hm) as [pre Hp]. exists (rev cur :: pre). rewrite Hp. reflexivity.
    + apply IH; assumption.
Qed.

(* client and handler agree on the procedure: for any base URL text x (path
   prefixes, trailing slashes already trimmed or not), a service and a method
   name without '/', extractProtoPath yields "/" service "/" method *)
Lemma extract_proto_path_spec : forall x svc m,
  no_slash svc = true -> no_slash m = true -> svc <> [] -> m <> [] ->
  extract_proto_path (x ++ slash :: svc ++ slash :: m) = slash :: svc ++ slash :: m.
Proof.
  intros x svc m Hs Hm Hsn Hmn. unfold extract_proto_path, split_slash.
  destruct (split_go_tail x [] svc m Hs Hm) as [pre Hp]. rewrite Hp.
  rewrite app_length. cbn [length].
  assert ((2 <=? length pre + 2)%nat = true) as E by (apply Nat.leb_le; lia). rewrite E.
  replace (length pre + 2 - 2)%nat with (length pre) by lia.
  replace (length pre + 2 - 1)%nat with (S (length pre)) by lia.
  rewrite app_nth2 by lia. rewrite Nat.sub_diag. cbn [nth].
  rewrite app_nth2 by lia. replace (S (length pre) - length pre)%nat with 1%nat by lia. cbn [nth].
  destruct svc; [congruence|]. destruct m; [congruence|]. reflexivity.
Qed.

(* ---- the Spec a client's unary interceptors see (client.go, NewClient's callUnary) ----
   callUnary stamps the client's own Spec on the request before the interceptor
   chain runs — unconditionally [client_call_unary_stamps_spec_unconditionally,
   extracted by the translator: the assignment is a top-level statement of the
   function literal, not under a condition], so a Request value that went
   through another client, or that a relay handler received, carries this
   client's Spec. *)
Section ClientSpec.
Variable spec : Type.
Definition stamped_spec (prev : option spec) (client_spec : spec) : spec :=
  if client_call_unary_stamps_spec_unconditionally then client_spec
  else match prev with Some s => s | None => client_spec end.

Lemma stamped_spec_is_the_clients : forall prev client_spec,
  stamped_spec prev client_spec = client_spec.
Proof. reflexivity. Qed.

(* one Request value through a list of clients: each sees its own Spec *)
Fixpoint through_clients (prev : option spec) (clients : list spec) : list spec :=
  match clients with
  | [] => []
  | c :: r => let s := stamped_spec prev c in s :: through_clients (Some s) r
  end.

Lemma through_clients_own_spec : forall clients prev, through_clients prev clients = clients.
Proof.
  induction clients as [|c r IH]; intro prev; cbn [through_clients]; [reflexivity|].
  rewrite stamped_spec_is_the_clients, IH. reflexivity.
Qed.
End ClientSpec.
