(* Duplex.v — duplexHTTPCall (duplex_http_call.go) as a state machine, and the
   error classification functions of error.go.

   State: whether the request goroutine was started (sync.Once), whether
   responseReady is closed, the sticky error (under errMu), the response, the
   two pipe ends, the context. Events: the user's operations (Write, CloseWrite,
   Read, CloseRead, SetError — the latter issued by the protocol's Receive), the
   request goroutine's completion (Do returned, validateResponse ran,
   responseReady closed) and the environment (context done; what the transport
   reports). The theorems hold for EVERY sequence of events, i.e. every schedule
   of the user goroutines, the request goroutine and the environment, because
   each event is atomic with respect to the modelled state (the shared fields
   are only touched under errMu, through sync.Once, or before/after the close of
   responseReady — facts checked on the source by the translator, see
   [Generated.duplex_*]).

   NOT in this model (named): blocking and fairness (a pipe write waits for the
   transport; Read waits for responseReady), hence termination "in bounded
   time"; io.Pipe, net/http and the Go scheduler. Those are exercised by the
   watchdog / yield-point runs only. *)
From Coq Require Import List NArith Lia Bool.
From Connect Require Import Bytes Generated.
Import ListNotations.
Local Open Scope N_scope.

Definition code_canceled : N := 1.
Definition code_unknown' : N := 2.
Definition code_deadline : N := 4.
Definition code_unavailable : N := 14.
Definition code_unimplemented' : N := 12.

(* ---- error values and their classification (error.go:172-200) ---- *)
Inductive ctxkind := Canceled | DeadlineExceeded.

Inductive errv :=
| Coded (c : N)            (* already a *connect.Error *)
| CtxErr (k : ctxkind)     (* wraps context.Canceled / context.DeadlineExceeded, not coded *)
| Plain                    (* any other error *)
| EOFv.                    (* io.EOF (stream closed) *)

Definition ctx_code (k : ctxkind) : N := match k with Canceled => code_canceled | DeadlineExceeded => code_deadline end.

(* wrapIfContextError *)
Definition wrap_ctx (e : errv) : errv :=
  match e with CtxErr k => Coded (ctx_code k) | _ => e end.

(* wrapIfUncoded (applied by errorTranslatingClientConn to every result) *)
Definition wrap_uncoded (e : errv) : errv :=
  match wrap_ctx e with
  | Coded c => Coded c
  | EOFv => EOFv                    (* NewError(CodeUnknown, io.EOF): what callers test is errors.Is(err, io.EOF) *)
  | _ => Coded code_unknown'        (* NewError(CodeUnknown, err) *)
  end.

(* wrapIfContextDone: an uncoded error met while the context is done is the context's error *)
Definition wrap_done (c : option ctxkind) (e : errv) : errv :=
  match wrap_ctx e with
  | Coded x => Coded x
  | y => match c with Some k => Coded (ctx_code k) | None => y end
  end.

(* makeRequest's mapping of an error returned by HTTPClient.Do: the context is asked first
   (wrapIfContextDone: a transport may report the context's cause, or anything else, once the
   context has ended), what is still uncoded becomes unavailable *)
Definition wrap_do_error (c : option ctxkind) (e : errv) : errv :=
  match wrap_done c e with
  | Coded x => Coded x
  | _ => Coded code_unavailable
  end.

(* C15: context errors are classified as canceled / deadline_exceeded by every wrapper chain *)
Lemma classification_lemma : forall k,
  wrap_ctx (CtxErr k) = Coded (ctx_code k) /\
  wrap_uncoded (CtxErr k) = Coded (ctx_code k) /\
  (forall c, wrap_do_error c (CtxErr k) = Coded (ctx_code k)) /\
  wrap_uncoded (wrap_ctx (CtxErr k)) = Coded (ctx_code k).
Proof. intro k. repeat split; reflexivity. Qed.

Lemma wrap_preserves_coded : forall c,
  wrap_ctx (Coded c) = Coded c /\ wrap_uncoded (Coded c) = Coded c /\ (forall x, wrap_do_error x (Coded c) = Coded c).
Proof. intro c. repeat split; reflexivity. Qed.

(* a handler that returns its context's error conveys the same classification
   (toWire = wrapIfContextError in errorTranslatingHandlerConnCloser.Close) *)
Lemma handler_ctx_error_class k : wrap_ctx (CtxErr k) = Coded (ctx_code k).
Proof. reflexivity. Qed.

(* ---- the call ---- *)
Record dstate := mkD {
  started : bool;             (* sendRequestOnce fired: go makeRequest() *)
  watching : bool;            (* the context watcher goroutine is alive *)
  returned : bool;            (* HTTPClient.Do has returned inside makeRequest *)
  ready : bool;               (* responseReady closed (makeRequest's deferred close ran) *)
  derr : option errv;         (* d.err, sticky *)
  has_resp : bool;            (* d.response != nil *)
  pipe_r_closed : bool;       (* request body reader closed: writes fail with ErrClosedPipe *)
  pipe_w_closed : bool;       (* CloseWrite done: the transport sees end of request *)
  body_closes : nat;          (* how many times response.Body.Close was called *)
  ctx : option ctxkind        (* context done? *)
}.

Definition init : dstate := mkD false false false false None false false false 0 None.

(* what the environment makes the transport report *)
Inductive do_result :=
| DoErr (e : errv)                          (* Do failed *)
| DoResp (validate : option errv) (bidi_http1 : bool).  (* Do returned; validateResponse's verdict *)

Inductive body_read := BData | BEnd | BFail (e : errv).

Inductive ev :=
| UWrite | UCloseWrite | URead (b : body_read) | UCloseRead (rest : option errv) | USetError (e : errv)
| GDo (r : do_result)         (* the request goroutine: Do returns, validateResponse runs *)
| GReady                      (* the request goroutine: its deferred close(responseReady) runs *)
| XCtx (k : ctxkind)          (* the context is cancelled / expires *)
| GWatchCtx                   (* the context watcher: the context is done: record the error, close the pipe, exit *)
| GWatchExit                  (* the context watcher: an end of the pipe was closed: exit *)
| XReqBodyClosed.             (* the transport closes the request body it was reading (RoundTripper contract) *)

Inductive outcome :=
| OOk                         (* the operation succeeded *)
| OErr (e : errv)             (* it failed with this error (before wrapIfUncoded) *)
| OBlocked                    (* it cannot proceed yet (waits for responseReady) *)
| ONone.                      (* not a user operation *)

(* SetError: first error wins (after wrapIfContextError); the request body reader is closed *)
Definition set_error (s : dstate) (e : errv) : dstate :=
  mkD (started s) (watching s) (returned s) (ready s) (match derr s with Some x => Some x | None => Some (wrap_ctx e) end)
      (has_resp s) true (pipe_w_closed s) (body_closes s) (ctx s).

Definition start (s : dstate) : dstate :=
  mkD true (if started s then watching s else true) (returned s) (ready s) (derr s) (has_resp s) (pipe_r_closed s) (pipe_w_closed s) (body_closes s) (ctx s).

Definition step (s : dstate) (e : ev) : dstate * outcome :=
  match e with
  | UWrite =>
    let s := start s in                                   (* ensureRequestMade *)
    match ctx s with
    | Some k => (set_error s (CtxErr k), OErr (wrap_ctx (CtxErr k)))   (* ctx.Err() != nil *)
    | None => if pipe_r_closed s || pipe_w_closed s then (s, OErr EOFv)   (* io.ErrClosedPipe -> io.EOF *)
              else (s, OOk)
    end
  | UCloseWrite =>
    let s := start s in
    (mkD (started s) (watching s) (returned s) (ready s) (derr s) (has_resp s) (pipe_r_closed s) true (body_closes s) (ctx s), OOk)
  | URead b =>
    if negb (ready s) then (s, OBlocked)                  (* BlockUntilResponseReady *)
    else match derr s with
         | Some x => (s, OErr x)                          (* the stream is already closed or corrupted *)
         | None =>
           match ctx s with
           | Some k => (set_error s (CtxErr k), OErr (wrap_ctx (CtxErr k)))
           | None =>
             if negb (has_resp s) then (s, OErr Plain)    (* nil response *)
             else match b with
                  | BData => (s, OOk)
                  | BEnd => (s, OErr EOFv)
                  | BFail x => (s, OErr x)                (* the context was live when checked: see URead's ctx branch *)
                  end
           end
         end
  | UCloseRead rest =>
    if negb (ready s) then (s, OBlocked)
    else if has_resp s
         then (mkD (started s) (watching s) (returned s) (ready s) (derr s) (has_resp s) (pipe_r_closed s) (pipe_w_closed s) (S (body_closes s)) (ctx s),
               match rest with
               | None => OOk                               (* discard reached the end; Body.Close *)
               | Some x => OErr (wrap_done (ctx s) x)      (* discard failed; the body is closed all the same *)
               end)
         else (s, OOk)
  | USetError x => (set_error s x, ONone)
  | GReady =>
    if returned s && negb (ready s)
    then (mkD (started s) (watching s) (returned s) true (derr s) (has_resp s) (pipe_r_closed s) (pipe_w_closed s) (body_closes s) (ctx s), ONone)
    else (s, ONone)
  | GDo r =>
    if negb (started s) || returned s then (s, ONone)     (* runs once, after being started *)
    else
      let s1 :=
        match r with
        | DoErr x => set_error s (wrap_do_error (ctx s) x)
        | DoResp v bidi1 =>
          let s' := mkD (started s) (watching s) (returned s) (ready s) (derr s) true (pipe_r_closed s) (pipe_w_closed s) (body_closes s) (ctx s) in
          match v with
          | Some x => set_error s' x
          | None => if bidi1 then set_error s' (Coded code_unimplemented') else s'
          end
        end in
      (mkD (started s1) (watching s1) true (ready s1) (derr s1) (has_resp s1) (pipe_r_closed s1) (pipe_w_closed s1) (body_closes s1) (ctx s1), ONone)
  | XCtx k =>
    (mkD (started s) (watching s) (returned s) (ready s) (derr s) (has_resp s) (pipe_r_closed s) (pipe_w_closed s) (body_closes s)
         (match ctx s with Some x => Some x | None => Some k end), ONone)
  | GWatchCtx =>
    if watching s then
      match ctx s with
      | Some k => let s1 := set_error s (CtxErr k) in
                  (mkD (started s1) false (returned s1) (ready s1) (derr s1) (has_resp s1) (pipe_r_closed s1) (pipe_w_closed s1) (body_closes s1) (ctx s1), ONone)
      | None => (s, ONone)
      end
    else (s, ONone)
  | GWatchExit =>
    if watching s && (pipe_r_closed s || pipe_w_closed s)
    then (mkD (started s) false (returned s) (ready s) (derr s) (has_resp s) (pipe_r_closed s) (pipe_w_closed s) (body_closes s) (ctx s), ONone)
    else (s, ONone)
  | XReqBodyClosed =>
    (mkD (started s) (watching s) (returned s) (ready s) (derr s) (has_resp s) true (pipe_w_closed s) (body_closes s) (ctx s), ONone)
  end.

Fixpoint run (s : dstate) (es : list ev) : dstate * list outcome :=
  match es with
  | [] => (s, [])
  | e :: r => let '(s1, o) := step s e in let '(s2, os) := run s1 r in (s2, o :: os)
  end.

Definition final (es : list ev) : dstate := fst (run init es).

(* ---------------- invariants over ALL histories ---------------- *)

Lemma run_app s a b :
  run s (a ++ b) = let '(s1, o1) := run s a in let '(s2, o2) := run s1 b in (s2, o1 ++ o2).
Proof.
  revert s. induction a as [|e a IH]; intro s; cbn [app run].
  - destruct (run s b). reflexivity.
  - destruct (step s e) as [s1 o]. rewrite IH. destruct (run s1 a) as [s2 os]. destruct (run s2 b). reflexivity.
Qed.

(* lifting a one-step preservation fact to every history *)
Lemma lift_run (P : dstate -> Prop) :
  (forall s e, P s -> P (fst (step s e))) -> forall es s, P s -> P (fst (run s es)).
Proof.
  intros Hstep. induction es as [|e r IH]; intros s H; cbn [run]; [exact H|].
  pose proof (Hstep s e H) as H1. destruct (step s e) as [s1 o]. cbn [fst] in H1.
  specialize (IH s1 H1). destruct (run s1 r). exact IH.
Qed.

(* responseReady is closed only by the request goroutine after Do returned,
   the goroutine only exists once started, and the response is published
   before Do is marked returned *)
Definition inv (s : dstate) : Prop :=
  (ready s = true -> returned s = true) /\
  (returned s = true -> started s = true) /\
  (has_resp s = true -> returned s = true) /\
  (derr s <> None -> pipe_r_closed s = true).

Lemma inv_init : inv init.
Proof. unfold inv, init. cbn. repeat split; intro H; try discriminate; congruence. Qed.

Ltac case_step s e :=
  destruct e as [| |?b|?rest|?x|?r| |?k| | |]; cbn [step];
  [ destruct (ctx (start s)) eqn:?C; [|destruct (pipe_r_closed (start s)) eqn:?P; [|destruct (pipe_w_closed (start s)) eqn:?PW]]
  | idtac
  | destruct (ready s) eqn:?R; cbn [negb];
    [ destruct (derr s) eqn:?D;
      [|destruct (ctx s) eqn:?C; [|destruct (has_resp s) eqn:?H; cbn [negb]; [destruct b|]]] |]
  | destruct (ready s) eqn:?R; cbn [negb]; [destruct (has_resp s) eqn:?H; [destruct rest|]|]
  | idtac
  | destruct (started s) eqn:?S0; cbn [negb orb];
    [ destruct (returned s) eqn:?R0;
      [|destruct r as [?y|?v ?b1]; [|destruct v as [?y|]; [|destruct b1]]] |]
  | destruct (returned s) eqn:?R0; cbn [andb]; [destruct (ready s) eqn:?R; cbn [negb]|]
  | idtac
  | destruct (watching s) eqn:?W; [destruct (ctx s) eqn:?C|]
  | destruct (watching s) eqn:?W; cbn [andb]; [destruct (pipe_r_closed s) eqn:?P; cbn [orb]; [|destruct (pipe_w_closed s) eqn:?PW]|]
  | idtac ].

Ltac fin :=
  cbn in *; repeat split; intros; auto; try reflexivity; try discriminate; try congruence;
  try solve [eauto 4];
  try solve [match goal with I : _ -> ?G |- ?G => apply I; auto; try reflexivity; try discriminate; try congruence end].

Lemma inv_step s e : inv s -> inv (fst (step s e)).
Proof. intros (I1 & I2 & I3 & I4). case_step s e; fin. Qed.

Lemma inv_run : forall es s, inv s -> inv (fst (run s es)).
Proof. exact (lift_run inv inv_step). Qed.

(* C13/C14: a Read / CloseRead that proceeds does so after responseReady was
   closed, hence after Do returned *)
Lemma response_published_before_read_lemma : forall es b,
  snd (step (final es) (URead b)) <> OBlocked ->
  ready (final es) = true /\ returned (final es) = true /\ started (final es) = true.
Proof.
  intros es b H. pose proof (inv_run es init inv_init) as (I1 & I2 & _). fold (final es) in I1, I2.
  assert (ready (final es) = true) as R.
  { cbn [step] in H. destruct (ready (final es)); [reflexivity|]. cbn in H. congruence. }
  auto.
Qed.

(* ... and from then on the response field never changes *)
Lemma resp_stable_step s e : returned s = true -> has_resp (fst (step s e)) = has_resp s /\ returned (fst (step s e)) = true.
Proof. intro H. case_step s e; fin; rewrite ?H in *; fin. Qed.

Lemma resp_stable_lemma : forall es s, returned s = true -> has_resp (fst (run s es)) = has_resp s.
Proof.
  induction es as [|e r IH]; intros s H; cbn [run]; [reflexivity|].
  destruct (resp_stable_step s e H) as [H1 H2]. destruct (step s e) as [s1 o]. cbn [fst] in H1, H2.
  specialize (IH s1 H2). destruct (run s1 r). cbn [fst] in *. congruence.
Qed.

(* the goroutine's two steps take effect at most once each *)
Lemma done_once_lemma : forall s r,
  (returned s = true -> step s (GDo r) = (s, ONone)) /\
  (ready s = true -> step s GReady = (s, ONone)).
Proof.
  intros s r. split; intro H; cbn [step]; rewrite H.
  - rewrite orb_true_r. reflexivity.
  - cbn [negb]. rewrite andb_false_r. reflexivity.
Qed.

(* the sticky error: once set it never changes (first error wins) *)
Lemma err_sticky_step s e x : derr s = Some x -> derr (fst (step s e)) = Some x.
Proof. intro H. case_step s e; fin; rewrite ?H in *; fin. Qed.

Lemma err_sticky_lemma : forall es s x, derr s = Some x -> derr (fst (run s es)) = Some x.
Proof. intros es s x. exact (lift_run (fun s => derr s = Some x) (fun s e => err_sticky_step s e x) es s). Qed.

Lemma ready_step s e : ready s = true -> ready (fst (step s e)) = true.
Proof. intro H0. case_step s e; fin; rewrite ?H0 in *; fin. Qed.

Lemma ready_persistent : forall es s, ready s = true -> ready (fst (run s es)) = true.
Proof. exact (lift_run (fun s => ready s = true) ready_step). Qed.

(* C14: once Receive has reported an error (it records it with SetError) every
   later Read, after any further events, reports that same error *)
Lemma receive_error_sticky_lemma : forall s x es b,
  ready s = true ->
  let s1 := fst (step s (USetError x)) in
  exists y, snd (step (fst (run s1 es)) (URead b)) = OErr y /\ derr s1 = Some y.
Proof.
  intros s x es b Hr s1.
  assert (exists y, derr s1 = Some y) as (y & Hy).
  { subst s1. cbn. destruct (derr s); eauto. }
  exists y. split; [|exact Hy].
  pose proof (err_sticky_lemma es s1 y Hy) as Hs.
  assert (ready (fst (run s1 es)) = true) as Hr2.
  { apply ready_persistent. subst s1. cbn. exact Hr. }
  cbn [step]. rewrite Hr2, Hs. reflexivity.
Qed.

(* C14: once the call has a terminal error (the handler finished and Receive
   recorded its outcome, or the transport failed) and the context is still
   live, every later Write returns io.EOF immediately — it cannot block on the
   pipe, whose reader is closed *)
Lemma send_after_finish_eof_lemma : forall es s x,
  inv s -> derr s = Some x ->
  let s' := fst (run s es) in
  ctx s' = None -> snd (step s' UWrite) = OErr EOFv.
Proof.
  intros es s x Hi Hx s' Hc.
  pose proof (err_sticky_lemma es s x Hx) as He.
  pose proof (inv_run es s Hi) as (_ & _ & _ & I4). fold s' in He, I4.
  cbn [step]. cbn [ctx start]. rewrite Hc.
  assert (pipe_r_closed s' = true) as Hp by (apply I4; rewrite He; discriminate).
  cbn. rewrite Hp. reflexivity.
Qed.

(* C15: after the context is done, every Write fails with the context's code,
   and every Read that fails does so with the context's code — unless an
   earlier error was already recorded, which it keeps reporting *)
Lemma ctx_step s e k : ctx s = Some k -> ctx (fst (step s e)) = Some k.
Proof. intro H0. case_step s e; fin; rewrite ?H0 in *; fin. Qed.

Lemma ctx_persistent : forall es s k, ctx s = Some k -> ctx (fst (run s es)) = Some k.
Proof. intros es s k. exact (lift_run (fun s => ctx s = Some k) (fun s e => ctx_step s e k) es s). Qed.

Lemma after_cancel_codes_lemma : forall es s k,
  ctx s = Some k ->
  let s' := fst (run s es) in
  snd (step s' UWrite) = OErr (Coded (ctx_code k)) /\
  (forall b, snd (step s' (URead b)) = OBlocked \/
             (exists x, derr s' = Some x /\ snd (step s' (URead b)) = OErr x) \/
             snd (step s' (URead b)) = OErr (Coded (ctx_code k))).
Proof.
  intros es s k H s'. pose proof (ctx_persistent es s k H) as Hc. fold s' in Hc.
  split.
  - cbn [step]. cbn [ctx start]. rewrite Hc. reflexivity.
  - intro b. cbn [step]. destruct (ready s'); cbn [negb]; [|left; reflexivity].
    destruct (derr s') as [x|] eqn:D; [right; left; exists x; auto|].
    rewrite Hc. right. right. reflexivity.
Qed.

(* no operation ever succeeds after the context is done, except closing *)
Lemma after_cancel_never_success : forall es s k b,
  ctx s = Some k ->
  let s' := fst (run s es) in
  snd (step s' UWrite) <> OOk /\ snd (step s' (URead b)) <> OOk.
Proof.
  intros es s k b H s'. destruct (after_cancel_codes_lemma es s k H) as [W R]. fold s' in W, R.
  split; [rewrite W; discriminate|].
  destruct (R b) as [E|[(x & _ & E)|E]]; rewrite E; discriminate.
Qed.

(* ... and the error recorded by such a failing operation is the context's code,
   so Receive keeps reporting it *)
Lemma cancel_records_code : forall s k, ctx s = Some k -> derr s = None ->
  derr (fst (step s UWrite)) = Some (Coded (ctx_code k)) /\
  (ready s = true -> forall b, derr (fst (step s (URead b))) = Some (Coded (ctx_code k))).
Proof.
  intros s k H D. split.
  - cbn [step]. cbn [ctx start]. rewrite H. cbn. rewrite D. reflexivity.
  - intros R b. cbn [step]. rewrite R, D, H. cbn. rewrite D. reflexivity.
Qed.

(* the response body is closed by CloseRead exactly when there is a response *)
Lemma close_read_closes_body : forall s rest,
  ready s = true -> has_resp s = true ->
  body_closes (fst (step s (UCloseRead rest))) = S (body_closes s).
Proof. intros s rest H1 H2. cbn [step]. rewrite H1, H2. reflexivity. Qed.

(* facts about the source that make the atomic-event reading sound, extracted
   by the translator from duplex_http_call.go *)
Lemma source_synchronisation_facts :
  duplex_err_only_under_mutex = true /\
  duplex_response_written_only_in_make_request = true /\
  duplex_response_read_only_after_ready = true /\
  duplex_ready_closed_by_defer_in_make_request = true /\
  duplex_goroutine_started_through_once = true /\
  duplex_other_channels_closed_through_once = true.
Proof. repeat split; reflexivity. Qed.
