(* Envelope.v — model of envelope.go: the 5-byte prefix, envelopeWriter.Marshal /
   Write / write, envelopeReader.Read and envelopeReader.Unmarshal (zero-length
   shortcut, compressed-without-pool error, decompression with the read limit,
   the special-envelope stash), and the receive sequence of the typed stream
   wrappers (a fresh holder per Receive).

   The reader is written once, over an abstract stream with a [pull] operation,
   and instantiated for chunked transports (what the code sees) and for flat
   streams (what the peer sent). *)
From Coq Require Import List Arith NArith Lia Bool.
From Coq.Strings Require Import Byte.
From Connect Require Import Bytes Generated GoIO.
Import ListNotations.
Local Open Scope N_scope.

Definition code_unknown : N := 2.
Definition code_invalid_argument : N := 3.
Definition code_internal : N := 13.

(* error results of the reader *)
Inductive rerr :=
| REOF                 (* clean end of stream: NewError(CodeUnknown, io.EOF); errors.Is(err, io.EOF) *)
| RErr (code : N).     (* any other error, already coded *)

Definition is_nil {A} (l : list A) : bool := match l with [] => true | _ => false end.

Definition has_flag (fl flag : N) : bool := N.land fl flag =? flag.

(* ------------------------------------------------------------------ *)
Section Reader.
(* abstract stream *)
Variable S : Type.
Variable pullS : N -> S -> bytes * S * bool.
Variable endS : S -> fin.     (* how the stream ends once its bytes are used up *)

(* envelopeReader.Read (envelope.go:176-240), prefix read with io.ReadFull *)
Definition env_read (max : N) (s : S) : (N * bytes + rerr) * S :=
  let '(pfx, s1, ok) := pullS 5 s in
  if ok then
    match pfx with
    | [fl; a; b; c; d] =>
      let size := be32_dec a b c d in
      if (0 <? max) && (max <? size) then
        (* io.CopyN(io.Discard, reader, size), then "message size ... larger than configured max" *)
        let '(_, s2, ok2) := pullS size s1 in
        if ok2 then (inr (RErr code_invalid_argument), s2)
        else match endS s1 with
             | Fail (ECoded c) => (inr (RErr c), s2)              (* an already-coded error passes through *)
             | Fail _ => (inr (RErr code_unknown), s2)
             | _ => (inr (RErr code_invalid_argument), s2)
             end
      else if size =? 0 then (inl (bN fl, []), s1)
      else
        let '(payload, s2, ok2) := pullS size s1 in
        if ok2 then (inl (bN fl, payload), s2)
        else match endS s1 with
             | Fail (ECoded c) => (inr (RErr c), s2)              (* an already-coded error passes through *)
             | Fail _ => (inr (RErr code_unknown), s2)            (* read enveloped message: %w *)
             | _ => (inr (RErr code_invalid_argument), s2)        (* promised N bytes, got fewer *)
             end
    | _ => (inr (RErr code_internal), s1)   (* unreachable: ok implies five bytes *)
    end
  else
    match pfx, endS s with
    | [], CleanEOF => (inr REOF, s1)
    | [], EOFWithData => (inr REOF, s1)
    | _, Fail (ECoded c) => (inr (RErr c), s1)                    (* asError(err) *)
    | _, _ => (inr (RErr code_invalid_argument), s1)              (* incomplete envelope *)
    end.

(* ---- Unmarshal ---- *)
Variable M : Type.
Variable unmarshal_into : bytes -> M -> option M.    (* codec.Unmarshal(data, holder) *)
Variable decompress : bytes -> option bytes.

Inductive uresult :=
| UMsg (m : M)
| UErr (e : rerr)
| USpecial (flags : N) (data : bytes).   (* errSpecialEnvelope; [last] = (flags, data) *)

(* compressionPool.Decompress (compression.go:78-104) *)
Definition decompress_limited (max : N) (data : bytes) : bytes + rerr :=
  match decompress data with
  | None => inr (RErr code_invalid_argument)
  | Some d => if (0 <? max) && (max <? len d) then inr (RErr code_invalid_argument) else inl d
  end.

(* envelopeReader.Unmarshal (envelope.go:116-174); [pool] = a decompressor is configured *)
Definition env_unmarshal (max : N) (pool : bool) (holder : M) (s : S) : uresult * S :=
  match env_read max s with
  | (inr e, s') => (UErr e, s')
  | (inl (fl, payload), s') =>
    if ((fl =? 0) || (fl =? flag_compressed)) && is_nil payload then
      (UMsg holder, s')            (* zero-length shortcut: the target is not touched *)
    else
      let dataE :=
        if negb (is_nil payload) && has_flag fl flag_compressed then
          if pool then decompress_limited max payload else inr (RErr code_invalid_argument)
        else inl payload in
      match dataE with
      | inr e => (UErr e, s')
      | inl data =>
        if negb (fl =? 0) && negb (fl =? flag_compressed) then (USpecial fl data, s')
        else match unmarshal_into data holder with
             | Some m => (UMsg m, s')
             | None => (UErr (RErr code_invalid_argument), s')
             end
      end
  end.

(* k successive Receive calls of a typed stream wrapper: every call unmarshals
   into a fresh, zero-valued holder *)
Variable zero : M.
Fixpoint recv_n (k : nat) (max : N) (pool : bool) (s : S) : list uresult :=
  match k with
  | O => []
  | Datatypes.S k' => let '(r, s') := env_unmarshal max pool zero s in r :: recv_n k' max pool s'
  end.

End Reader.

Arguments UMsg {M}.
Arguments UErr {M}.
Arguments USpecial {M}.

(* the two instances *)
Definition t_end (t : transport) : fin := flat_fin (tfin t).
Definition f_end (s : fstream) : fin := snd s.

Definition env_read_c := env_read transport pull t_end.
Definition env_read_f := env_read fstream fpull f_end.
Definition env_unmarshal_c M := env_unmarshal transport pull t_end M.
Definition env_unmarshal_f M := env_unmarshal fstream fpull f_end M.
Definition recv_n_c M := recv_n transport pull t_end M.
Definition recv_n_f M := recv_n fstream fpull f_end M.

(* the pinned (pre-fix) prefix read: ONE Read call of 5 bytes *)
Definition env_read_prefix_single (t : transport) : bool :=
  let '(pfx, _, _) := read1 5 t in len pfx =? 5.

(* ------------------------------------------------------------------ *)
(* writer *)

Definition frame (fl : N) (data : bytes) : bytes := Nb fl :: be32 (len data) ++ data.

Section Writer.
Variable compress : bytes -> bytes.
(* envelopeWriter.Write / write (envelope.go:72-105) *)
Definition env_write (pool : bool) (min_bytes : N) (fl : N) (data : bytes) : bytes :=
  if has_flag fl flag_compressed || negb pool || (len data <? min_bytes)
  then frame fl data
  else frame (N.lor fl flag_compressed) (compress data).
End Writer.

(* ================================================================== *)
(* segmentation independence (C03) *)

Lemma t_end_flatten t : t_end t = f_end (flatten t).
Proof. destruct t as [cs f]. reflexivity. Qed.

Lemma env_read_sim : forall max t r t',
  env_read_c max t = (r, t') -> env_read_f max (flatten t) = (r, flatten t').
Proof.
  intros max t r t' H. unfold env_read_c, env_read_f, env_read in *.
  destruct (pull 5 t) as [[pfx t1] ok] eqn:E1.
  rewrite (pull_flatten _ _ _ _ _ E1).
  destruct ok.
  - destruct pfx as [|fl [|a [|b [|c [|d [|x rest]]]]]];
      try (inversion H; subst; reflexivity).
    destruct ((0 <? max) && (max <? be32_dec a b c d)).
    + destruct (pull (be32_dec a b c d) t1) as [[g t2] ok2] eqn:E2.
      rewrite (pull_flatten _ _ _ _ _ E2). rewrite <- t_end_flatten.
      destruct ok2; [inversion H; subst; reflexivity|].
      destruct (t_end t1) as [| |[| |cc]]; inversion H; subst; reflexivity.
    + destruct (be32_dec a b c d =? 0); [inversion H; subst; reflexivity|].
      destruct (pull (be32_dec a b c d) t1) as [[g t2] ok2] eqn:E2.
      rewrite (pull_flatten _ _ _ _ _ E2). rewrite <- t_end_flatten.
      destruct ok2; [inversion H; subst; reflexivity|].
      destruct (t_end t1) as [| |[| |cc]]; inversion H; subst; reflexivity.
  - rewrite <- t_end_flatten.
    destruct pfx; destruct (t_end t) as [| |[| |c]]; inversion H; subst; reflexivity.
Qed.

Section Sim.
Variable M : Type.
Variable unmarshal_into : bytes -> M -> option M.
Variable decompress : bytes -> option bytes.
Variable zero : M.

Lemma env_unmarshal_sim : forall max pool h t r t',
  env_unmarshal_c M unmarshal_into decompress max pool h t = (r, t') ->
  env_unmarshal_f M unmarshal_into decompress max pool h (flatten t) = (r, flatten t').
Proof.
  intros max pool h t r t' H. unfold env_unmarshal_c, env_unmarshal_f, env_unmarshal in *.
  fold (env_read_c max t) in H. fold (env_read_f max (flatten t)).
  destruct (env_read_c max t) as [rr t1] eqn:E.
  rewrite (env_read_sim _ _ _ _ E).
  destruct rr as [[fl payload]|e].
  - destruct (((fl =? 0) || (fl =? flag_compressed)) && is_nil payload);
      [inversion H; subst; reflexivity|].
    destruct (if negb (is_nil payload) && has_flag fl flag_compressed
              then if pool then decompress_limited decompress max payload
                   else inr (RErr code_invalid_argument)
              else inl payload) as [data|e]; [|inversion H; subst; reflexivity].
    destruct (negb (fl =? 0) && negb (fl =? flag_compressed)); [inversion H; subst; reflexivity|].
    destruct (unmarshal_into data h); inversion H; subst; reflexivity.
  - inversion H; subst. reflexivity.
Qed.

Lemma recv_n_sim : forall k max pool t,
  recv_n_c M unmarshal_into decompress zero k max pool t =
  recv_n_f M unmarshal_into decompress zero k max pool (flatten t).
Proof.
  induction k as [|k IH]; intros max pool t; [reflexivity|].
  unfold recv_n_c, recv_n_f in *. cbn [recv_n].
  fold (env_unmarshal_c M unmarshal_into decompress max pool zero t).
  fold (env_unmarshal_f M unmarshal_into decompress max pool zero (flatten t)).
  destruct (env_unmarshal_c M unmarshal_into decompress max pool zero t) as [r t1] eqn:E.
  rewrite (env_unmarshal_sim _ _ _ _ _ _ E). f_equal. apply IH.
Qed.

(* C03: what k successive Receive calls observe depends only on the bytes the
   peer sent (and how its stream ended), not on how the transport segments them *)
Lemma segmentation_independent_lemma : forall k max pool t1 t2,
  flatten t1 = flatten t2 ->
  recv_n_c M unmarshal_into decompress zero k max pool t1 =
  recv_n_c M unmarshal_into decompress zero k max pool t2.
Proof. intros k max pool t1 t2 H. rewrite !recv_n_sim, H. reflexivity. Qed.

End Sim.

(* On the pinned tree the prefix was read with a single Read call: a valid
   frame delivered one byte at a time was rejected. *)
Lemma prefix_single_read_refuted :
  exists t1 t2, flatten t1 = flatten t2 /\
    env_read_prefix_single t1 = true /\ env_read_prefix_single t2 = false.
Proof.
  exists (mkT [[x00; x00; x00; x00; x02; x08; x05]] CleanEOF),
         (mkT [[x00]; [x00]; [x00]; [x00]; [x02]; [x08]; [x05]] CleanEOF).
  repeat split; reflexivity.
Qed.

(* ================================================================== *)
(* frames parse back (C01, C09) *)

Lemma fpull_app n a rest f : n = len a ->
  fpull n (a ++ rest, f) = (a, (rest, f), true).
Proof.
  intro H. subst n. unfold fpull.
  assert ((len a <=? len (a ++ rest)) = true) as E by (apply N.leb_le; rewrite len_app; lia).
  rewrite E. unfold len. rewrite Nat2N.id.
  rewrite firstn_app, Nat.sub_diag, firstn_all. cbn [firstn]. rewrite app_nil_r.
  rewrite skipn_app, Nat.sub_diag, skipn_all. reflexivity.
Qed.

Lemma frame_unfold fl data rest :
  frame fl data ++ rest = (Nb fl :: be32 (len data)) ++ data ++ rest.
Proof. unfold frame. cbn [app]. rewrite <- app_assoc. reflexivity. Qed.

Definition two32 : N := 4294967296.

(* reading one well-formed frame *)
Lemma env_read_frame : forall max fl data rest f,
  fl < 256 -> len data < two32 -> (max = 0 \/ len data <= max) ->
  env_read_f max (frame fl data ++ rest, f) = (inl (fl, data), (rest, f)).
Proof.
  intros max fl data rest f Hfl Hlen Hmax. unfold env_read_f, env_read.
  rewrite frame_unfold. rewrite (fpull_app 5 _ _ f) by reflexivity.
  unfold be32. cbn [app].
  pose proof (be32_roundtrip (len data) Hlen) as Hrt. unfold be32 in Hrt. rewrite Hrt.
  assert (((0 <? max) && (max <? len data)) = false) as E1.
  { destruct Hmax as [->|Hm]; [reflexivity|].
    apply andb_false_iff. right. apply N.ltb_ge. exact Hm. }
  rewrite E1. rewrite bN_Nb by exact Hfl.
  destruct (len data =? 0) eqn:E0.
  - apply N.eqb_eq in E0. destruct data; [reflexivity | unfold len in E0; cbn in E0; lia].
  - rewrite (fpull_app (len data) _ _ f) by reflexivity. reflexivity.
Qed.

(* an oversize frame is never delivered: invalid_argument, whatever follows *)
Lemma env_read_oversize : forall max fl data rest f,
  len data < two32 -> 0 < max -> max < len data ->
  fst (env_read_f max (frame fl data ++ rest, f)) = inr (RErr code_invalid_argument).
Proof.
  intros max fl data rest f Hlen Hpos Hbig. unfold env_read_f, env_read.
  rewrite frame_unfold. rewrite (fpull_app 5 _ _ f) by reflexivity.
  unfold be32. cbn [app].
  pose proof (be32_roundtrip (len data) Hlen) as Hrt. unfold be32 in Hrt. rewrite Hrt.
  assert (((0 <? max) && (max <? len data)) = true) as E1.
  { apply andb_true_iff. split; apply N.ltb_lt; assumption. }
  rewrite E1. rewrite (fpull_app (len data) _ _ f) by reflexivity. reflexivity.
Qed.

(* ... and the refused frame, all of it and nothing more, has been passed over: the reader
   stands on the next envelope *)
Lemma env_read_oversize_position : forall max fl data rest f,
  len data < two32 -> 0 < max -> max < len data ->
  env_read_f max (frame fl data ++ rest, f) = (inr (RErr code_invalid_argument), (rest, f)).
Proof.
  intros max fl data rest f Hlen Hpos Hbig. unfold env_read_f, env_read.
  rewrite frame_unfold. rewrite (fpull_app 5 _ _ f) by reflexivity.
  unfold be32. cbn [app].
  pose proof (be32_roundtrip (len data) Hlen) as Hrt. unfold be32 in Hrt. rewrite Hrt.
  assert (((0 <? max) && (max <? len data)) = true) as E1.
  { apply andb_true_iff. split; apply N.ltb_lt; assumption. }
  rewrite E1. rewrite (fpull_app (len data) _ _ f) by reflexivity. reflexivity.
Qed.

(* a reader that goes on after the refusal (a bidi handler, a raw conn) gets, from then on,
   exactly what it would get from the rest of the stream *)
Lemma recv_after_refusal_lemma : forall (M : Type) (um : bytes -> M -> option M) (dc : bytes -> option bytes) (zero : M)
    k max pool fl data rest f,
  len data < two32 -> 0 < max -> max < len data ->
  recv_n_f M um dc zero (Datatypes.S k) max pool (frame fl data ++ rest, f)
  = UErr (RErr code_invalid_argument) :: recv_n_f M um dc zero k max pool (rest, f).
Proof.
  intros M um dc zero k max pool fl data rest f Hlen Hpos Hbig.
  unfold recv_n_f. cbn [recv_n]. unfold env_unmarshal.
  fold (env_read_f max (frame fl data ++ rest, f)).
  rewrite (env_read_oversize_position max fl data rest f Hlen Hpos Hbig). reflexivity.
Qed.

(* a declared length above the limit is refused whatever bytes are (or are not)
   present: the reader never buffers them (it copies them to io.Discard) *)
Lemma env_read_declared_oversize : forall max fl a b c d body f,
  0 < max -> max < be32_dec a b c d ->
  exists code, fst (env_read_f max (fl :: a :: b :: c :: d :: body, f)) = inr (RErr code)
               /\ (code = code_invalid_argument \/ code = code_unknown \/ f = Fail (ECoded code)).
Proof.
  intros max fl a b c d body f Hpos Hbig. unfold env_read_f, env_read.
  change (fl :: a :: b :: c :: d :: body) with ([fl; a; b; c; d] ++ body).
  rewrite (fpull_app 5 _ _ f) by reflexivity.
  assert (((0 <? max) && (max <? be32_dec a b c d)) = true) as E1.
  { apply andb_true_iff. split; apply N.ltb_lt; assumption. }
  rewrite E1.
  destruct (fpull (be32_dec a b c d) (body, f)) as [[g s2] ok2].
  destruct ok2; [eexists; split; [reflexivity | left; reflexivity]|].
  unfold f_end. cbn [snd].
  destruct f as [| |[| |cc]]; eexists; (split; [reflexivity|]); auto.
Qed.

(* ================================================================== *)
(* round trip (C01) *)

Section RoundTrip.
Variable M : Type.
Variable marshal : M -> bytes.
Variable unmarshal_into : bytes -> M -> option M.
Variable compress : bytes -> bytes.
Variable decompress : bytes -> option bytes.
Variable zero : M.

(* codec: Unmarshal(Marshal m) into any holder yields m; the empty encoding is
   the zero value's (what the zero-length shortcut relies on) *)
Hypothesis codec_roundtrip : forall m h, unmarshal_into (marshal m) h = Some m.
Hypothesis empty_is_zero : forall m, marshal m = [] -> m = zero.
(* compressor: lossless; only the empty input may compress to nothing *)
Hypothesis compress_roundtrip : forall x, decompress (compress x) = Some x.
Hypothesis compress_nonempty : forall x, compress x = [] -> x = [].

(* envelopeWriter.Marshal *)
Definition send_msg (pool : bool) (min_bytes : N) (m : M) : bytes :=
  env_write compress pool min_bytes 0 (marshal m).

Definition send_all (pool : bool) (min_bytes : N) (msgs : list M) : bytes :=
  concat (map (send_msg pool min_bytes) msgs).

(* size side conditions of one message: fits the uint32 prefix, and passes the
   receiver's read limit on the wire and after decompression *)
Definition fits (spool : bool) (smin rmax : N) (m : M) : Prop :=
  len (marshal m) < two32 /\ len (compress (marshal m)) < two32 /\
  (rmax = 0 \/ (len (marshal m) <= rmax /\
                (spool = true -> smin <= len (marshal m) -> len (compress (marshal m)) <= rmax))).

Lemma has_flag_0 : has_flag 0 flag_compressed = false.
Proof. reflexivity. Qed.
Lemma lor_0_compressed : N.lor 0 flag_compressed = flag_compressed.
Proof. reflexivity. Qed.
Lemma has_flag_compressed : has_flag flag_compressed flag_compressed = true.
Proof. reflexivity. Qed.
Lemma flag_compressed_lt : flag_compressed < 256.
Proof. reflexivity. Qed.

(* one Receive on a stream that starts with a sent message *)
Lemma unmarshal_sent : forall spool smin rpool rmax m h rest f,
  (spool = true -> rpool = true) ->
  fits spool smin rmax m ->
  (marshal m = [] -> h = zero) ->
  env_unmarshal_f M unmarshal_into decompress rmax rpool h (send_msg spool smin m ++ rest, f)
  = (UMsg m, (rest, f)).
Proof.
  intros spool smin rpool rmax m h rest f Hpool (Hl1 & Hl2 & Hmax) Hh.
  unfold send_msg, env_write. rewrite has_flag_0. cbn [orb].
  unfold env_unmarshal_f, env_unmarshal. fold (env_read_f rmax).
  destruct (negb spool || (len (marshal m) <? smin)) eqn:Enc.
  - (* sent uncompressed *)
    rewrite env_read_frame; [| reflexivity | exact Hl1 | destruct Hmax as [?|[? _]]; auto].
    change (0 =? 0) with true. cbn [orb andb].
    destruct (marshal m) as [|b0 bs] eqn:Em.
    + cbn [is_nil]. rewrite (Hh eq_refl). rewrite (empty_is_zero m Em). reflexivity.
    + cbn [is_nil negb andb]. rewrite has_flag_0. cbn [andb negb].
      rewrite <- Em, codec_roundtrip. reflexivity.
  - (* sent compressed *)
    apply orb_false_iff in Enc. destruct Enc as [Esp Emin].
    apply negb_false_iff in Esp. apply N.ltb_ge in Emin.
    rewrite lor_0_compressed.
    rewrite env_read_frame;
      [| exact flag_compressed_lt | exact Hl2 | destruct Hmax as [?|[_ Hc]]; auto].
    change (flag_compressed =? 0) with false.
    change (flag_compressed =? flag_compressed) with true. cbn [orb andb negb].
    destruct (compress (marshal m)) as [|c0 cs] eqn:Ec.
    + (* only the empty encoding compresses to nothing *)
      cbn [is_nil]. pose proof (compress_nonempty _ Ec) as Em.
      rewrite (Hh Em). rewrite (empty_is_zero m Em). reflexivity.
    + cbn [is_nil negb andb]. rewrite has_flag_compressed.
      rewrite (Hpool Esp). unfold decompress_limited.
      rewrite <- Ec, compress_roundtrip.
      assert (((0 <? rmax) && (rmax <? len (marshal m))) = false) as E1.
      { destruct Hmax as [->|[Hm _]]; [reflexivity|].
        apply andb_false_iff. right. apply N.ltb_ge. exact Hm. }
      rewrite E1, codec_roundtrip. reflexivity.
Qed.

Lemma send_all_cons pool smin m msgs :
  send_all pool smin (m :: msgs) = send_msg pool smin m ++ send_all pool smin msgs.
Proof. reflexivity. Qed.

(* C01: the receiving side yields exactly the messages sent, in order, once
   each, followed by whatever follows them on the stream *)
Lemma stream_roundtrip_lemma : forall spool smin rpool rmax msgs k tail f,
  (spool = true -> rpool = true) ->
  Forall (fits spool smin rmax) msgs ->
  recv_n_f M unmarshal_into decompress zero (length msgs + k) rmax rpool
           (send_all spool smin msgs ++ tail, f)
  = map UMsg msgs ++ recv_n_f M unmarshal_into decompress zero k rmax rpool (tail, f).
Proof.
  intros spool smin rpool rmax msgs k tail f Hpool Hfits.
  induction Hfits as [|m msgs Hm Hms IH]; [reflexivity|].
  rewrite send_all_cons, <- app_assoc. cbn [length Nat.add map app].
  unfold recv_n_f in *. cbn [recv_n].
  fold (env_unmarshal_f M unmarshal_into decompress rmax rpool zero
          (send_msg spool smin m ++ send_all spool smin msgs ++ tail, f)).
  rewrite (unmarshal_sent spool smin rpool rmax m zero _ f Hpool Hm (fun _ => eq_refl)).
  f_equal. exact IH.
Qed.

(* after the last message a clean end of the byte stream is a clean end-of-stream *)
Lemma recv_clean_eof : forall rmax rpool h,
  env_unmarshal_f M unmarshal_into decompress rmax rpool h ([], CleanEOF)
  = (UErr REOF, ([], CleanEOF)).
Proof. reflexivity. Qed.

(* with a non-empty payload the previous content of the holder is irrelevant *)
Lemma holder_irrelevant_nonempty : forall spool smin rpool rmax m h1 h2 rest f,
  (spool = true -> rpool = true) -> fits spool smin rmax m -> marshal m <> [] ->
  env_unmarshal_f M unmarshal_into decompress rmax rpool h1 (send_msg spool smin m ++ rest, f) =
  env_unmarshal_f M unmarshal_into decompress rmax rpool h2 (send_msg spool smin m ++ rest, f).
Proof.
  intros. rewrite !unmarshal_sent by (auto; intro; contradiction). reflexivity.
Qed.

End RoundTrip.

(* ================================================================== *)
(* Connect unary bodies: connectUnaryUnmarshaler.UnmarshalFunc
   (protocol_connect.go:765-804): ReadFrom(LimitReader(body, max+1)), the
   oversize check, optional decompression, codec.Unmarshal. ReadFrom consumes
   the body to its end, so the result is a function of the flattened stream. *)
Section Unary.
Variable M : Type.
Variable unmarshal_into : bytes -> M -> option M.
Variable decompress : bytes -> option bytes.

Definition unary_unmarshal_f (max : N) (pool : bool) (holder : M) (s : fstream) : M + rerr :=
  let '(body, f) := s in
  if (0 <? max) && (max <? len body) then inr (RErr code_invalid_argument)
  else
    match f with
    | Fail (ECoded c) => inr (RErr c)
    | Fail _ => inr (RErr code_unknown)
    | _ =>
      let dataE := if negb (is_nil body) && pool then decompress_limited decompress max body
                   else inl body in
      match dataE with
      | inr e => inr e
      | inl data => match unmarshal_into data holder with
                    | Some m => inl m
                    | None => inr (RErr code_invalid_argument)
                    end
      end
    end.

Definition unary_unmarshal_c (max : N) (pool : bool) (holder : M) (t : transport) : M + rerr :=
  unary_unmarshal_f max pool holder (read_all t).

Lemma unary_segmentation_independent : forall max pool h t1 t2,
  flatten t1 = flatten t2 ->
  unary_unmarshal_c max pool h t1 = unary_unmarshal_c max pool h t2.
Proof. intros. unfold unary_unmarshal_c, read_all. rewrite H. reflexivity. Qed.
End Unary.

(* ---- unary Connect requests over the life of a header map ----
   connectUnaryMarshaler.Marshal compresses a message iff a pool is configured
   and the message reaches compress-min-bytes, and only then writes the
   Content-Encoding header; below the threshold it leaves the header alone. The
   header map may be a re-sent Request's: connectClient.NewConn clears the header
   first [connect_unary_encoding_cleared_in_new_conn, extracted by the
   translator; were it false, [unary_call] would keep the earlier label]. The
   receiver decompresses iff the header names the algorithm. *)
Section UnaryRoundTrip.
Variable M : Type.
Variable marshal : M -> bytes.
Variable unmarshal_into : bytes -> M -> option M.
Variable compress : bytes -> bytes.
Variable decompress : bytes -> option bytes.
Variable zero : M.
Hypothesis codec_roundtrip : forall m h, unmarshal_into (marshal m) h = Some m.
Hypothesis compress_roundtrip : forall x, decompress (compress x) = Some x.
Hypothesis compress_nonempty : forall x, compress x = [] -> x = [].

(* body written, and whether Marshal set the header *)
Definition unary_marshal (pool : bool) (min_bytes : N) (m : M) : bytes * bool :=
  let d := marshal m in
  if pool && negb (len d <? min_bytes) then (compress d, true) else (d, false).

(* one call with a header map whose Content-Encoding slot is [labelled_before] *)
Definition unary_call (pool : bool) (min_bytes : N) (labelled_before : bool) (m : M) : bytes * bool :=
  let cleared := if connect_unary_encoding_cleared_in_new_conn then false else labelled_before in
  let '(body, sets) := unary_marshal pool min_bytes m in
  (body, sets || cleared).

(* the same header map through a list of calls: what each attempt puts on the wire *)
Fixpoint unary_calls (pool : bool) (min_bytes : N) (labelled : bool) (ms : list M) : list (bytes * bool) :=
  match ms with
  | [] => []
  | m :: r => let '(body, lab) := unary_call pool min_bytes labelled m in
              (body, lab) :: unary_calls pool min_bytes lab r
  end.

Lemma unary_call_roundtrip_lemma : forall pool min_bytes before m body lab h,
  unary_call pool min_bytes before m = (body, lab) ->
  unary_unmarshal_f M unmarshal_into decompress 0 lab h (body, CleanEOF) = inl m.
Proof.
  intros pool min_bytes before m body lab h H.
  unfold unary_call, unary_marshal in H.
  cbv [connect_unary_encoding_cleared_in_new_conn] in H.
  unfold unary_unmarshal_f. cbn [andb N.ltb]. 
  replace (0 <? 0) with false by reflexivity. cbn [andb].
  destruct (pool && negb (len (marshal m) <? min_bytes)) eqn:E; inversion H; subst; clear H.
  - cbn [orb]. destruct (compress (marshal m)) as [|b r] eqn:C.
    + cbn [is_nil negb andb]. apply compress_nonempty in C. rewrite <- C. rewrite codec_roundtrip. reflexivity.
    + cbn [is_nil negb andb]. unfold decompress_limited. rewrite <- C. rewrite compress_roundtrip.
      replace (0 <? 0) with false by reflexivity. cbn [andb]. rewrite codec_roundtrip. reflexivity.
  - cbn [orb]. rewrite Bool.andb_false_r. rewrite codec_roundtrip. reflexivity.
Qed.

(* every attempt's message arrives intact, whatever the earlier attempts were *)
Lemma unary_reuse_roundtrip_lemma : forall pool min_bytes ms before h,
  Forall2 (fun m w => unary_unmarshal_f M unmarshal_into decompress 0 (snd w) h (fst w, CleanEOF) = inl m)
          ms (unary_calls pool min_bytes before ms).
Proof.
  intros pool min_bytes. induction ms as [|m r IH]; intros before h; cbn [unary_calls]; [constructor|].
  destruct (unary_call pool min_bytes before m) as [body lab] eqn:E.
  constructor; [cbn [fst snd]; exact (unary_call_roundtrip_lemma _ _ _ _ _ _ h E) | apply IH].
Qed.

End UnaryRoundTrip.
