(* ErrWire.v — how a handler-side error travels to the client, per protocol:
   grpcErrorToTrailer / grpcStatusFromError / grpcErrorFromTrailer
   (protocol_grpc.go:631-673, 745-812), connectUnaryHandlerConn.Close +
   connectWireError JSON + connectUnaryClientConn.validateResponse
   (protocol_connect.go:371-412, 547-573, 806-848), MarshalEndStream +
   connectStreamingUnmarshaler + connectStreamingClientConn.Receive
   (654-674, 445-469, 683-702); wrapIfUncoded for plain Go errors.

   External serialisations enter as section variables with a round-trip
   hypothesis: the binary Protobuf encoding of google.rpc.Status, the protojson
   text of connect.error.v1.Error, the JSON of the end-of-stream message, and
   the header block of the gRPC-Web trailer frame. Everything else — which
   carrier holds what, percent-encoding, base64, the code's text form, the
   status table, which source wins — is the model. *)
From Coq Require Import List NArith ZArith Lia Bool.
From Coq.Strings Require Import Byte.
From Connect Require Import Bytes Generated Codes Percent Base64 Header GoIO Envelope ClientRecv ClientResp Dispatch.
Import ListNotations.
Local Open Scope N_scope.

Section ErrWire.
Variable D : Type.    (* an error detail (an Any-wrapped message) *)

Record err := mkErr { e_code : N; e_msg : bytes; e_details : list D; e_meta : hmap }.

(* ---- serialisations (external) ---- *)
Variable status_marshal : N -> bytes -> list D -> bytes.                       (* proto.Marshal(Status) *)
Variable status_unmarshal : bytes -> option (N * bytes * list D).
Hypothesis status_roundtrip : forall c m ds, status_unmarshal (status_marshal c m ds) = Some (c, m, ds).

Variable wire_marshal : bytes -> bytes -> list D -> bytes.                     (* protojson of connect.error.v1.Error: code text, message, details *)
Variable wire_unmarshal : bytes -> option (bytes * bytes * list D).
Hypothesis wire_roundtrip : forall c m ds, wire_unmarshal (wire_marshal c m ds) = Some (c, m, ds).

Variable end_marshal : option (bytes * bytes * list D) -> hmap -> bytes.       (* JSON of connectEndStreamMessage *)
Variable end_unmarshal : bytes -> option (option (bytes * bytes * list D) * hmap).
Hypothesis end_roundtrip : forall e md, exists md',
  end_unmarshal (end_marshal e md) = Some (e, md') /\ forall k, values k md' = values k md.

(* ---- gRPC and gRPC-Web ---- *)

(* strconv.Itoa(int(int32(code))): codes of 2^31 and above print as negative numbers *)
Definition two31 : N := 2147483648.
Definition int32_text (c : N) : bytes :=
  if c <? two31 then print_dec c else x2d :: print_dec (Codes.two32 - c).

(* grpcErrorToTrailer: mergeMetadataHeaders(trailer, err.meta), then Set status / message / details *)
Definition grpc_error_to_trailer (trailer : hmap) (e : option err) : hmap :=
  match e with
  | None => set hdr_grpc_message [] (set hdr_grpc_status [x30] trailer)
  | Some e =>
    set hdr_grpc_details (encode_binary_header (status_marshal (e_code e) (e_msg e) (e_details e)))
      (set hdr_grpc_message (percent_encode (e_msg e))
        (set hdr_grpc_status (int32_text (e_code e)) (merge_metadata trailer (e_meta e))))
  end.

(* grpcErrorFromTrailer on the trailers (or trailers-only headers) the client
   received; [headers] are the response headers merged into the error's metadata *)
Definition grpc_error_from_trailer_full (headers trailer : hmap) : option err + bool :=
  (* inl None = OK; inl (Some e) = error; inr _ = no grpc-status (protocol error) *)
  let status := get hdr_grpc_status trailer in
  if is_nil_b status then inr false
  else if bs_eqb status zero_digit then inl None
  else match go_parse_uint32 status with
       | None => inl (Some (mkErr code_internal [] [] (merge headers trailer)))
       | Some c =>
         if c =? 0 then inl None else
         let msg := percent_decode (get hdr_grpc_message trailer) in
         let det := get hdr_grpc_details trailer in
         if is_nil_b det then inl (Some (mkErr c msg [] (merge headers trailer)))
         else match decode_binary_header det with
              | None => inl (Some (mkErr code_internal [] [] (merge headers trailer)))
              | Some bin =>
                match status_unmarshal bin with
                | None => inl (Some (mkErr code_internal [] [] (merge headers trailer)))
                | Some (pc, pm, ds) =>
                  inl (Some (mkErr (if pc =? 0 then c else pc) pm ds (merge headers trailer)))
                end
              end
       end.

Definition reserved_grpc (k : bytes) : Prop :=
  k = hdr_grpc_status \/ k = hdr_grpc_message \/ k = hdr_grpc_details.

Lemma grpc_keys_distinct :
  hdr_grpc_status <> hdr_grpc_message /\ hdr_grpc_status <> hdr_grpc_details /\ hdr_grpc_message <> hdr_grpc_details.
Proof. repeat split; discriminate. Qed.

Lemma status_nonempty c : c < Codes.two32 -> c <> 0 ->
  is_nil_b (print_dec c) = false /\ bs_eqb (print_dec c) zero_digit = false /\
  go_parse_uint32 (print_dec c) = Some c.
Proof.
  intros Hc Hnz. assert (H64 : c < 18446744073709551616) by (unfold Codes.two32 in Hc; lia).
  destruct (print_dec_spec c H64) as (Hne & _ & Hparse & Hlead & _).
  split; [destruct (print_dec c); [congruence | reflexivity]|].
  split.
  - apply bs_eqb_neq. intro E. specialize (Hlead Hnz). rewrite E in Hlead. unfold zero_digit in Hlead. congruence.
  - unfold go_parse_uint32. rewrite Hparse. apply N.ltb_lt in Hc. rewrite Hc. reflexivity.
Qed.

Lemma b64_nonempty s : s <> [] -> is_nil_b (encode_binary_header s) = false.
Proof.
  intro H. unfold encode_binary_header. destruct s as [|a [|b [|c r]]]; [congruence | reflexivity | reflexivity | reflexivity].
Qed.

(* C02 (gRPC, gRPC-Web; any placement: HTTP trailers, trailers-only headers,
   trailer frame — the map is the same): code, message and details survive,
   and every metadata value the handler attached is in the error's metadata,
   per-key order preserved *)
Lemma grpc_error_roundtrip_lemma : forall (headers trailer : hmap) (e : err),
  e_code e <> 0 -> e_code e < two31 ->
  status_marshal (e_code e) (e_msg e) (e_details e) <> [] ->
  exists e',
    grpc_error_from_trailer_full headers (grpc_error_to_trailer trailer (Some e)) = inl (Some e') /\
    e_code e' = e_code e /\ e_msg e' = e_msg e /\ e_details e' = e_details e /\
    forall k, ~ reserved_grpc k ->
      values k (e_meta e') = values k headers ++ values k trailer ++
                             (if message_header k then [] else values k (e_meta e)).
Proof.
  intros headers trailer e Hnz Hlt31 Hbin.
  assert (Hlt : e_code e < Codes.two32) by (unfold two31, Codes.two32 in *; lia).
  destruct grpc_keys_distinct as (K1 & K2 & K3).
  unfold grpc_error_to_trailer, grpc_error_from_trailer_full, int32_text.
  assert (E31 : (e_code e <? two31) = true) by (apply N.ltb_lt; exact Hlt31). rewrite E31.
  set (t3 := set hdr_grpc_details _ _).
  assert (Gs : get hdr_grpc_status t3 = print_dec (e_code e)).
  { subst t3. rewrite get_set_other by exact K2. rewrite get_set_other by exact K1. apply get_set_same. }
  assert (Gm : get hdr_grpc_message t3 = percent_encode (e_msg e)).
  { subst t3. rewrite get_set_other by exact K3. apply get_set_same. }
  assert (Gd : get hdr_grpc_details t3 = encode_binary_header (status_marshal (e_code e) (e_msg e) (e_details e))).
  { subst t3. apply get_set_same. }
  rewrite Gs. destruct (status_nonempty (e_code e) Hlt Hnz) as (E1 & E2 & E3).
  rewrite E1, E2, E3. apply N.eqb_neq in Hnz. rewrite Hnz.
  rewrite Gd, (b64_nonempty _ Hbin), bin_roundtrip_lemma, status_roundtrip, Hnz.
  eexists. split; [reflexivity|]. cbn [e_code e_msg e_details e_meta].
  repeat split.
  intros k Hk. rewrite values_merge. f_equal. subst t3.
  rewrite values_set_other by (intro; apply Hk; unfold reserved_grpc; auto).
  rewrite values_set_other by (intro; apply Hk; unfold reserved_grpc; auto).
  rewrite values_set_other by (intro; apply Hk; unfold reserved_grpc; auto).
  apply values_merge_metadata.
Qed.

(* success is encoded as status "0" and decoded as success *)
Lemma grpc_ok_roundtrip headers trailer :
  grpc_error_from_trailer_full headers (grpc_error_to_trailer trailer None) = inl None.
Proof.
  unfold grpc_error_to_trailer, grpc_error_from_trailer_full.
  destruct grpc_keys_distinct as (K1 & _).
  rewrite get_set_other by exact K1. rewrite get_set_same. reflexivity.
Qed.

(* ---- Connect unary ---- *)

(* connectUnaryHandlerConn.Close(err): status from the code, JSON body, error
   metadata merged into the headers (trailers already prefixed) *)
Definition connect_unary_error_response (header trailer : hmap) (e : err) : N * hmap * bytes :=
  (connect_code_to_http (e_code e),
   merge (merge_metadata header (e_meta e)) (prefix_all connect_unary_trailer_prefix trailer),
   wire_marshal (code_string (e_code e)) (e_msg e) (e_details e)).

(* connectUnaryClientConn.validateResponse for a non-200 status *)
Definition connect_unary_error_decode (status : N) (header : hmap) (body : bytes) : option err :=
  if status =? 200 then None
  else
    let '(hs, ts) := split_prefixed connect_unary_trailer_prefix header in
    match wire_unmarshal body with
    | Some (ctext, m, ds) =>
      match (if is_nil_b ctext then None else code_unmarshal ctext) with
      | Some c => if c =? 0 then Some (mkErr (connect_http_to_code status) [] [] [])   (* falls back, message = HTTP status text *)
                  else Some (mkErr c m ds (merge hs ts))
      | None => Some (mkErr (connect_http_to_code status) [] [] [])
      end
    | None => Some (mkErr (connect_http_to_code status) [] [] [])
    end.

Lemma code_string_nonempty c : c < Codes.two32 -> is_nil_b (code_string c) = false.
Proof.
  intro Hc. destruct (code_string c) eqn:E; [|reflexivity].
  pose proof (code_text_roundtrip_lemma c Hc) as R. rewrite E in R. vm_compute in R. discriminate.
Qed.

(* C02 (unary Connect): never a success status; code, message, details and metadata survive *)
Lemma connect_unary_error_roundtrip_lemma : forall header trailer e,
  e_code e <> 0 -> e_code e < Codes.two32 ->
  no_prefixed_key connect_unary_trailer_prefix header ->
  no_prefixed_key connect_unary_trailer_prefix (e_meta e) ->
  let '(status, hdr, body) := connect_unary_error_response header trailer e in
  400 <= status < 600 /\
  exists e', connect_unary_error_decode status hdr body = Some e' /\
    e_code e' = e_code e /\ e_msg e' = e_msg e /\ e_details e' = e_details e /\
    forall k, values k (e_meta e') = values k header ++ (if message_header k then [] else values k (e_meta e)) ++ values k trailer.
Proof.
  intros header trailer e Hnz Hlt Hh Hm. cbn [connect_unary_error_response].
  pose proof (code_http_4xx5xx_lemma (e_code e)) as Hst. split; [exact Hst|].
  unfold connect_unary_error_decode.
  assert ((connect_code_to_http (e_code e) =? 200) = false) as E200 by (apply N.eqb_neq; lia).
  rewrite E200.
  assert (Hnp : no_prefixed_key connect_unary_trailer_prefix (merge_metadata header (e_meta e))).
  { intros k vs Hin. unfold merge_metadata, merge in Hin. apply in_app_or in Hin.
    destruct Hin as [Hin|Hin]; [eapply Hh | eapply Hm; apply metadata_only_subset]; eauto. }
  unfold merge at 1. rewrite (unary_trailer_roundtrip _ _ _ Hnp).
  rewrite wire_roundtrip, (code_string_nonempty _ Hlt), (code_text_roundtrip_lemma _ Hlt).
  apply N.eqb_neq in Hnz. rewrite Hnz.
  eexists. split; [reflexivity|]. cbn [e_code e_msg e_details e_meta]. repeat split.
  intro k. rewrite values_merge, values_merge_metadata, app_assoc. reflexivity.
Qed.

(* ---- Connect streaming ---- *)

(* MarshalEndStream(err, trailer): the error's metadata is merged into the trailers *)
Definition connect_end_stream (trailer : hmap) (e : option err) : bytes :=
  match e with
  | None => end_marshal None trailer
  | Some e => end_marshal (Some (code_string (e_code e), e_msg e, e_details e)) (merge_metadata trailer (e_meta e))
  end.

(* connectStreamingUnmarshaler + connectStreamingClientConn.Receive on the end-of-stream payload *)
Definition connect_end_decode (headers : hmap) (payload : bytes) : option (option err * hmap) :=
  (* None = malformed end-of-stream message; Some (error, trailers) otherwise *)
  match end_unmarshal payload with
  | None => None
  | Some (None, md) => Some (None, md)
  | Some (Some (ctext, m, ds), md) =>
    match (if is_nil_b ctext then None else code_unmarshal ctext) with
    | Some c => if c =? 0 then None else Some (Some (mkErr c m ds (merge headers md)), md)
    | None => None
    end
  end.

Lemma connect_stream_error_roundtrip_lemma : forall headers trailer e,
  e_code e <> 0 -> e_code e < Codes.two32 ->
  exists e' md,
    connect_end_decode headers (connect_end_stream trailer (Some e)) = Some (Some e', md) /\
    e_code e' = e_code e /\ e_msg e' = e_msg e /\ e_details e' = e_details e /\
    forall k, values k (e_meta e') = values k headers ++ values k trailer ++
                                     (if message_header k then [] else values k (e_meta e)).
Proof.
  intros headers trailer e Hnz Hlt. unfold connect_end_stream, connect_end_decode.
  destruct (end_roundtrip (Some (code_string (e_code e), e_msg e, e_details e)) (merge_metadata trailer (e_meta e)))
    as (md' & Hu & Hv).
  rewrite Hu, (code_string_nonempty _ Hlt), (code_text_roundtrip_lemma _ Hlt).
  apply N.eqb_neq in Hnz. rewrite Hnz.
  eexists. eexists. split; [reflexivity|]. cbn [e_code e_msg e_details e_meta]. repeat split.
  intro k. rewrite values_merge, Hv, values_merge_metadata. reflexivity.
Qed.

Lemma connect_stream_ok_roundtrip headers trailer : exists md,
  connect_end_decode headers (connect_end_stream trailer None) = Some (None, md) /\
  forall k, values k md = values k trailer.
Proof.
  unfold connect_end_stream, connect_end_decode.
  destruct (end_roundtrip None trailer) as (md' & Hu & Hv). rewrite Hu. eauto.
Qed.

(* ---- plain Go errors: wrapIfUncoded ---- *)
Definition wrap_uncoded (text : bytes) : err := mkErr code_unknown text [] [].

(* A handler that relays an error it got from a client call relays that
   response's headers as the error's metadata.  The names that describe an HTTP
   message (Content-Type, Content-Length, Content-Encoding, ...) are not written
   to the response this handler produces, on any protocol: what the handler
   itself set under those names is all there is. *)
Lemma relayed_message_headers_lemma : forall header trailer (e : err) k,
  message_header k = true ->
  (~ reserved_grpc k -> values k (grpc_error_to_trailer trailer (Some e)) = values k trailer) /\
  (let '(_, hdr, _) := connect_unary_error_response header trailer e in
   values k hdr = values k header ++ values k (prefix_all connect_unary_trailer_prefix trailer)) /\
  (exists md, connect_end_stream trailer (Some e) =
                end_marshal (Some (code_string (e_code e), e_msg e, e_details e)) md /\
              values k md = values k trailer).
Proof.
  intros header trailer e k Hm. repeat split.
  - intro Hk. unfold grpc_error_to_trailer.
    rewrite values_set_other by (intro; apply Hk; unfold reserved_grpc; auto).
    rewrite values_set_other by (intro; apply Hk; unfold reserved_grpc; auto).
    rewrite values_set_other by (intro; apply Hk; unfold reserved_grpc; auto).
    rewrite values_merge_metadata, Hm, app_nil_r. reflexivity.
  - cbn [connect_unary_error_response]. rewrite values_merge, values_merge_metadata, Hm, app_nil_r. reflexivity.
  - eexists. split; [reflexivity|]. rewrite values_merge_metadata, Hm, app_nil_r. reflexivity.
Qed.

End ErrWire.

Arguments mkErr {D}.
Arguments e_code {D}.
Arguments e_msg {D}.
Arguments e_details {D}.
Arguments e_meta {D}.
