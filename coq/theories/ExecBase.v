(* ExecBase.v — shared helpers of the executable entry points for the correspondence check.
   cases_*.v files (written by the Go harness from what the implementation did)
   are evaluated with vm_compute against these functions. No proofs here. *)
From Coq Require Import List NArith ZArith Bool.
From Coq.Strings Require Import Byte.
From Connect Require Import Bytes Generated Codes Percent Base64.
Import ListNotations.
Local Open Scope N_scope.

Definition mismatches {A} (ok : A -> bool) (l : list (N * A)) : list N :=
  map fst (filter (fun p => negb (ok (snd p))) l).

Definition opt_eqb {A} (eqb : A -> A -> bool) (a b : option A) : bool :=
  match a, b with
  | Some x, Some y => eqb x y
  | None, None => true
  | _, _ => false
  end.

