(* ExecC01.v — the C01 correspondence check evaluates envelope-level cases (ExecEnv). *)
From Connect Require Export ExecEnv.
