(* ExecC02.v — executable entry points of the C02 correspondence check: what
   real handlers write for an error (status text, percent-encoded message, HTTP
   status, code text) and what real clients read from crafted error responses. *)
From Coq Require Import List NArith Bool.
From Coq.Strings Require Import Byte.
From Connect Require Import Bytes Generated.
From Connect Require Export Codes Percent Base64 ErrWire ExecBase.
Import ListNotations.
Local Open Scope N_scope.

Inductive c02case :=
(* handler side, gRPC / gRPC-Web: Grpc-Status and Grpc-Message for an error (code, message) *)
| ErrGrpc (code : N) (msg status_text message_hdr : bytes)
(* handler side, unary Connect: HTTP status and the "code" text of the JSON body *)
| ErrConnectUnary (code : N) (http_status : N) (code_text : bytes)
(* handler side, Connect streaming: the "code" text in the end-of-stream JSON *)
| ErrConnectStream (code : N) (code_text : bytes)
(* client side, gRPC: decoding crafted status / message headers *)
| GrpcDecode (status_text message_hdr : bytes) (code : N) (msg : bytes).

(* HTTP header values travel without leading/trailing blanks (net/http and
   http.Header.Write trim optional whitespace): the Grpc-Message header is
   compared modulo that trimming; the exact message travels in
   grpc-status-details-bin and is compared end to end by the direct oracle *)
Definition is_ows (b : byte) : bool := byte_eqb b x20 || byte_eqb b x09.
Fixpoint trim_left (s : bytes) : bytes :=
  match s with b :: r => if is_ows b then trim_left r else s | [] => [] end.
Definition trim_ows (s : bytes) : bytes := rev (trim_left (rev (trim_left s))).

Definition c02_ok (c : c02case) : bool :=
  match c with
  | ErrGrpc code msg st mh => bs_eqb (int32_text code) st && bs_eqb (trim_ows (percent_encode msg)) (trim_ows mh)
  | ErrConnectUnary code status text => (connect_code_to_http code =? status) && bs_eqb (code_string code) text
  | ErrConnectStream code text => bs_eqb (code_string code) text
  | GrpcDecode st mh code msg =>
    opt_eqb N.eqb (go_parse_uint32 st) (Some code) && bs_eqb (percent_decode mh) msg
  end.
