(* ExecC03.v — the C03 correspondence check evaluates envelope-level cases (ExecEnv). *)
From Connect Require Export ExecEnv.
