(* ExecC04.v — the C04 correspondence check evaluates envelope-level cases (ExecEnv). *)
From Connect Require Export ExecEnv.
