(* ExecC05.v — executable entry points of the C05 correspondence check: the
   spec reader (SpecWire.v) applied to raw HTTP exchanges recorded from real
   handlers and clients, and to the conformant-peer vectors the harness feeds
   to the implementation. *)
From Coq Require Import List NArith Bool.
From Coq.Strings Require Import Byte.
From Connect Require Import Bytes.
From Connect Require Export Header SpecWire ExecBase.
Import ListNotations.
Local Open Scope N_scope.

Inductive wkind := WGrpc | WGrpcWeb | WConnectStream | WConnectUnary.

Definition tag_decompress (tag : option byte) (d : bytes) : option bytes :=
  match tag, d with
  | Some t, b :: r => if byte_eqb b t then Some r else None
  | _, _ => None
  end.

Fixpoint payloads_match (tag : option byte) (got : list (bool * bytes)) (want : list bytes) : bool :=
  match got, want with
  | [], [] => true
  | (c, p) :: g, w :: ws =>
    (if c then match tag_decompress tag p with Some x => bs_eqb x w | None => false end else bs_eqb p w)
    && payloads_match tag g ws
  | _, _ => false
  end.

Definition digits_1_to (n : nat) (v : bytes) : bool :=
  all_digits_b v && (Nat.leb 1 (length v)) && (Nat.leb (length v) n).

Definition h_te := s [84;101].
Definition v_trailers := s [116;114;97;105;108;101;114;115].
Definition h_grpc_timeout := s [71;114;112;99;45;84;105;109;101;111;117;116].
Definition h_connect_timeout := s [67;111;110;110;101;99;116;45;84;105;109;101;111;117;116;45;77;115].
Definition h_content_encoding := s [67;111;110;116;101;110;116;45;69;110;99;111;100;105;110;103].

Definition grpc_timeout_ok (v : bytes) : bool :=
  match rev v with
  | u :: rd => digits_1_to 8 (rev rd) &&
               existsb (fun c => byte_eqb u c) (s [72;77;83;109;117;110])
  | [] => false
  end.

Inductive c05case :=
(* a response: the spec reader must accept it and yield these messages and this final status *)
| SpecResp (k : wkind) (req_ct : bytes) (tag : option byte) (status : N) (hdr trailer : hmap) (body : bytes)
           (js : jsum) (msgs : list bytes) (final : N)
(* a request written by a client *)
| SpecReq (k : wkind) (ct_prefix : bytes) (tag : option byte) (hdr : hmap) (body : bytes) (msgs : list bytes).

Definition c05_ok (c : c05case) : bool :=
  match c with
  | SpecResp k req_ct tag status hdr trailer body js msgs final =>
    let r := mkR status hdr body trailer in
    let d := match k with
             | WGrpc => spec_decode_grpc req_ct r
             | WGrpcWeb => spec_decode_grpcweb req_ct r
             | WConnectStream => spec_decode_connect_stream req_ct js r
             | WConnectUnary => spec_decode_connect_unary req_ct js r
             end in
    match d with
    | Some (got, st) => (st =? final) && payloads_match tag got msgs
    | None => false
    end
  | SpecReq k ct_prefix tag hdr body msgs =>
    let ct_ok := match values h_content_type hdr with
                 | [ct] => match strip_prefix ct_prefix ct with Some _ => true | None => false end
                 | _ => false end in
    match k with
    | WConnectUnary =>
      ct_ok && (match values h_connect_timeout hdr with [] => true | [v] => digits_1_to 10 v | _ => false end)
      && match names_algorithm (values h_content_encoding hdr), msgs with
         | false, [m] => bs_eqb body m
         | true, [m] => match tag_decompress tag body with Some x => bs_eqb x m | None => false end
         | _, _ => false
         end
    | _ =>
      let enc := match k with WConnectStream => h_connect_encoding | _ => h_grpc_encoding end in
      let alg := names_algorithm (values enc hdr) in
      ct_ok
      && (match k with WGrpc => (match values h_te hdr with [v] => bs_eqb v v_trailers | _ => false end) | _ => true end)
      && (match k with
          | WConnectStream => (match values h_connect_timeout hdr with [] => true | [v] => digits_1_to 10 v | _ => false end)
          | _ => (match values h_grpc_timeout hdr with [] => true | [v] => grpc_timeout_ok v | _ => false end)
          end)
      && match frames_of body with
         | Some fs => forallb (data_frame_ok alg) fs && payloads_match tag (data_of fs) msgs
         | None => false
         end
    end
  end.
