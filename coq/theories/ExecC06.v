(* ExecC06.v — executable entry points of the C06 correspondence check. *)
From Coq Require Import List NArith Bool.
From Coq.Strings Require Import Byte.
From Connect Require Import Bytes Generated Codes.
From Connect Require Export ClientRecv ClientResp ExecBase.
Import ListNotations.
Local Open Scope N_scope.

(* observed result of a call: Some code = failed with that code, None = no error *)
Inductive c06case :=
| UnaryConnect (status : N) (encoding_known : bool) (j : jwire) (observed : option N)
| StreamConnectValidate (status : N) (encoding_known : bool) (observed : option N)
| GrpcValidate (status : N) (encoding_known : bool) (hdr_status : bytes) (d : dsum) (observed : option N)
(* a gRPC (web = false: HTTP trailers; web = true: trailer frame) response with
   one message and then this status: how the stream ends *)
| GrpcEnd (web : bool) (status_text : bytes) (d : dsum) (observed : option N)
(* a Connect stream with one message and then an end-of-stream envelope *)
| ConnectEnd (j : jend) (observed : option N)
| CanonKey (k observed : bytes).

Definition outcome_code (o : outcome) : option N := match o with Clean => None | Failed c => Some c end.

Definition c06_ok (c : c06case) : bool :=
  match c with
  | UnaryConnect status enc j observed => opt_eqb N.eqb (connect_unary_validate status enc (body_as_published status j)) observed
  | StreamConnectValidate status enc observed => opt_eqb N.eqb (connect_stream_validate status enc) observed
  | GrpcValidate status enc hs d observed => opt_eqb N.eqb (grpc_validate status enc hs d) observed
  | GrpcEnd web st d observed =>
    let v := tstatus_verdict (grpc_error_from_trailer st d) in
    let o := if web then grpcweb_on_special (fun _ => v) grpc_flag_trailer [] else grpc_on_eof v in
    opt_eqb N.eqb (outcome_code o) observed
  | ConnectEnd j observed =>
    opt_eqb N.eqb (outcome_code (connect_on_special (fun _ => connect_end_verdict j) connect_flag_end_stream [])) observed
  | CanonKey k observed => bs_eqb (canonical_key k) observed
  end.
