(* ExecC07.v — executable entry points of the C07 correspondence check. *)
From Coq Require Import List NArith Bool.
From Coq.Strings Require Import Byte.
From Connect Require Import Bytes Generated.
From Connect Require Export Dispatch Compression Timeout Serve ExecEnv ExecC05.
From Connect Require Import ExecC12.
Import ListNotations.
Local Open Scope N_scope.

(* what was observed at ServeHTTP: status class (505/405/415, or 0 = the
   exchange was established), the error code the peer sees (None = success),
   how often user code ran *)
Inductive sobs := SObs (bare : N) (peer_code : option N) (invocations : N).

Definition proto_of (p : protocol) : proto :=
  match p with PrConnect => PConnect | PrGrpc => PGrpc | PrGrpcWeb => PGrpcWeb end.

Inductive c07case :=
(* unary / server-streaming handlers: the request body as chunks; the model
   computes the first Receive with the toy codec and toy compressors *)
| ServeCase (names : list bytes) (registered : list bytes) (st : N) (max : N)
            (major : N) (method ct timeout_hdr sent accept : bytes)
            (cs : list bytes) (f : fin) (user : option N) (observed : sobs)
(* any response: well-formed for the selected protocol under the spec reader *)
| WellFormed (k : wkind) (req_ct : bytes) (status : N) (hdr trailer : hmap) (body : bytes) (js : jsum).

Definition algo_of (sent : bytes) : option algo :=
  match sent with
  | [] => None
  | _ => if bs_eqb sent compression_identity then None
         else match rev sent with
              | t :: _ => if bs_eqb sent [x72; x6c; x65] then Some ARle else Some (ATag t)
              | [] => None
              end
  end.

Definition first_of (p : protocol) (unary_connect : bool) (max : N) (a : option algo) (cs : list bytes) (f : fin) : first_msg :=
  let pool := match a with Some _ => true | None => false end in
  if unary_connect then
    match unary_unmarshal_c bytes toy_unmarshal (algo_decompress a) max pool [] (mkT cs f) with
    | inl _ => FMsg
    | inr REOF => FEnd
    | inr (RErr c) => FErr c
    end
  else
    match recv_n_c bytes toy_unmarshal (algo_decompress a) [] 1 max pool (mkT cs f) with
    | UMsg _ :: _ => FMsg
    | UErr REOF :: _ => FEnd
    | UErr (RErr c) :: _ => FErr c
    | USpecial fl data :: _ =>
      (* the Connect end-of-stream payload is a JSON object: an empty payload does not
         parse (internal), whereas an empty gRPC-Web trailer block is a valid one;
         non-empty special payloads never come first in the generated requests *)
      match p with
      | PrConnect => if is_nil data && has_flag fl connect_flag_end_stream then FErr code_internal else FSpecial fl
      | _ => FSpecial fl
      end
    | [] => FEnd
    end.

Definition c07_ok (c : c07case) : bool :=
  match c with
  | ServeCase names registered st max major method ct th sent accept cs f user observed =>
    let cfg := mkH names true true (st_of st) in
    let first :=
        match dispatch cfg major method ct with
        | DServe p _ => first_of p (match p, st_of st with PrConnect, STUnary => true | _, _ => false end)
                                 max (algo_of sent) cs f
        | _ => FEnd
        end in
    match serve cfg registered major method ct th sent accept first user, observed with
    | (SvBare s, n), SObs b pc inv => (s =? b) && opt_eqb N.eqb pc None && (N.of_nat n =? inv)
    | (SvClosed _ e, n), SObs b pc inv => (b =? 0) && opt_eqb N.eqb e pc && (N.of_nat n =? inv)
    end
  | WellFormed k req_ct status hdr trailer body js =>
    let r := mkR status hdr body trailer in
    match (match k with
           | WGrpc => spec_decode_grpc req_ct r
           | WGrpcWeb => spec_decode_grpcweb req_ct r
           | WConnectStream => spec_decode_connect_stream req_ct js r
           | WConnectUnary => spec_decode_connect_unary req_ct js r
           end) with
    | Some _ => true
    | None => false
    end
  end.
