(* ExecC08.v — executable entry points of the C08 correspondence check. *)
From Coq Require Import List NArith Bool.
From Coq.Strings Require Import Byte.
From Connect Require Import Bytes Generated Dispatch Envelope GoIO.
From Connect Require Export Compression CPool ExecBase.
Import ListNotations.
Local Open Scope N_scope.

Inductive nobs :=
| ONegErr (names_in_message : bytes)                  (* unimplemented; user code did not run *)
| ONegOk (response_encoding accept_header : bytes).   (* "" = no encoding header *)

Inductive pobs := OR | OC | OP.

Definition pobs_eqb (a b : pobs) : bool :=
  match a, b with OR, OR | OC, OC | OP, OP => true | _, _ => false end.

Fixpoint pobs_list_eqb (a b : list pobs) : bool :=
  match a, b with
  | [], [] => true
  | x :: a', y :: b' => pobs_eqb x y && pobs_list_eqb a' b'
  | _, _ => false
  end.

(* the events of a trace that the pooled object itself can see *)
Fixpoint visible (t : list pev) : list pobs :=
  match t with
  | [] => []
  | PReset :: r => OR :: visible r
  | PClose :: r => OC :: visible r
  | PPark :: r => OP :: visible r
  | _ :: r => visible r
  end.

Inductive c08case :=
(* handler side: registration order (gzip first, then the options), request headers *)
| NegCase (registered : list bytes) (sent accept : bytes) (observed : nobs)
(* client side: request headers written for a registration order and send choice *)
| ClientHdr (registered : list bytes) (send : bytes) (enc_header accept_header : bytes)
(* client side: does the client accept the encoding the server named? *)
| ClientValidate (registered : list bytes) (enc : bytes) (accepted : bool)
(* one message written with the tag compressor: exact wire bytes *)
| WireCase (tag : byte) (pool : bool) (min_bytes : N) (payload wire : bytes)
(* what a tracked pooled decompressor saw while the implementation decompressed one
   message ending in the given branch: R = Reset(source), C = Close, P = parking Reset *)
| DecompTrace (o : doutcome) (observed : list pobs).

Definition c08_ok (c : c08case) : bool :=
  match c with
  | NegCase registered sent accept observed =>
    match negotiate registered sent accept, observed with
    | NegUnimplemented names, ONegErr got => bs_eqb names got
    | NegOk _ resp, ONegOk enc acc =>
      bs_eqb (if bs_eqb resp compression_identity then [] else resp) enc
      && bs_eqb (comma_separated_names registered) acc
    | _, _ => false
    end
  | ClientHdr registered send enc acc =>
    bs_eqb (if is_nil_b send || bs_eqb send compression_identity then [] else send) enc
    && bs_eqb (comma_separated_names registered) acc
  | ClientValidate registered enc accepted => Bool.eqb (client_accepts registered enc) accepted
  | WireCase tag pool min_bytes payload wire =>
    bs_eqb (env_write (fun x => tag :: x) pool min_bytes 0 payload) wire
  | DecompTrace o observed => pobs_list_eqb (visible (decompress_trace o)) observed
  end.
