(* ExecC09.v — the C09 correspondence check evaluates envelope-level cases (ExecEnv). *)
From Connect Require Export ExecEnv.
