(* ExecC10.v — executable entry points of the C10 correspondence check. *)
From Coq Require Import List NArith ZArith Bool.
From Coq.Strings Require Import Byte.
From Connect Require Import Bytes Generated Codes.
From Connect Require Export Timeout.
From Connect Require Export ExecBase.
Import ListNotations.
Local Open Scope N_scope.

Definition ptimeout_eqb (a b : ptimeout) : bool :=
  match a, b with
  | PNone, PNone => true
  | PInvalid, PInvalid => true
  | PDur x, PDur y => (x =? y)%Z
  | _, _ => false
  end.

(* what a served handler showed: no deadline / request rejected before user
   code / a deadline whose distance from "now" lies in [lo, hi] ns *)
Inductive hobs := HNone | HRejected | HDur (lo hi : Z).

Definition hobs_ok (m : ptimeout) (o : hobs) : bool :=
  match m, o with
  | PNone, HNone => true
  | PInvalid, HRejected => true
  | PDur d, HDur lo hi => ((lo - 2000000 <=? d) && (d <=? hi + 2000000))%Z
  | _, _ => false
  end.

(* digits-only value of a header the client sent (the harness has checked the grammar) *)
Definition header_millis (s : bytes) : option Z :=
  match parse_dec s with Some n => Some (Z.of_N n) | None => None end.

Inductive c10case :=
| GrpcEnc (d : Z) (obs : option bytes)
| GrpcParse (s : bytes) (obs : ptimeout)
(* client end-to-end: remaining time when the header was captured (lo) and
   just before the call (hi); the header must be what the model computes for
   some remaining time in [lo, hi] *)
| ClientConnect (lo hi : Z) (obs : option bytes)
| ClientGrpc (lo hi : Z) (obs : option bytes)
| HandlerConnect (s : bytes) (obs : hobs)
| HandlerGrpc (s : bytes) (obs : hobs).

(* monotone encoders: the observed header lies between the model's values at the two ends *)
Definition between_connect (lo hi : Z) (obs : option bytes) : bool :=
  match connect_encode_timeout lo, connect_encode_timeout hi, obs with
  | None, None, None => true
  | Some a, Some b, Some o =>
    match header_millis a, header_millis b, header_millis o with
    | Some x, Some y, Some v => ((x <=? v) && (v <=? y))%Z
    | _, _, _ => false
    end
  | None, Some _, _ | Some _, None, _ => true   (* the interval straddles a switch point *)
  | _, _, _ => false
  end.

Definition grpc_value (s : bytes) : option Z :=
  match grpc_parse_timeout s with PDur d => Some d | _ => None end.

Definition between_grpc (lo hi : Z) (obs : option bytes) : bool :=
  match grpc_encode_timeout lo, grpc_encode_timeout hi, obs with
  | Some a, Some b, Some o =>
    match grpc_value a, grpc_value b, grpc_value o with
    | Some x, Some y, Some v => ((x <=? v) && (v <=? y))%Z
    | _, _, _ => false
    end
  | _, _, _ => false
  end.

Definition c10_ok (c : c10case) : bool :=
  match c with
  | GrpcEnc d obs => opt_eqb bs_eqb (grpc_encode_timeout d) obs
  | GrpcParse s obs => ptimeout_eqb (grpc_parse_timeout s) obs
  | ClientConnect lo hi obs => between_connect lo hi obs
  | ClientGrpc lo hi obs => between_grpc lo hi obs
  | HandlerConnect s obs => hobs_ok (connect_parse_timeout s) obs
  | HandlerGrpc s obs => hobs_ok (grpc_parse_timeout s) obs
  end.
