(* ExecC11.v — executable entry points of the C11 correspondence check. *)
From Coq Require Import List NArith Bool.
From Coq.Strings Require Import Byte.
From Connect Require Import Bytes Generated.
From Connect Require Export Base64 Header ExecBase.
Import ListNotations.
Local Open Scope N_scope.

Fixpoint lists_eqb (a b : list bytes) : bool :=
  match a, b with
  | [], [] => true
  | x :: a', y :: b' => bs_eqb x y && lists_eqb a' b'
  | _, _ => false
  end.

Inductive c11case :=
(* unary Connect: the raw response header entries a real handler wrote (test
   keys only), and for each test key what a real client then reported under
   headers and under trailers *)
| UnarySplit (raw : hmap) (keys : list bytes) (client_header client_trailer : hmap)
(* an error's metadata written by a real handler: [twin] is the container (response
   headers / HTTP trailers / trailer frame / end-of-stream metadata) of the same call
   failing with an error that has no metadata, [obs] the container with [meta] attached *)
| ErrMetaWritten (twin meta : hmap) (keys : list bytes) (obs : hmap)
| BinEncode (s obs : bytes)
| BinDecode (s : bytes) (obs : option bytes).

Definition c11_ok (c : c11case) : bool :=
  match c with
  | UnarySplit raw keys ch ct =>
    let '(hs, ts) := split_prefixed connect_unary_trailer_prefix raw in
    forallb (fun k => lists_eqb (values k hs) (values k ch) && lists_eqb (values k ts) (values k ct)) keys
  | ErrMetaWritten twin meta keys obs =>
    forallb (fun k => lists_eqb (values k (merge_metadata twin meta)) (values k obs)) keys
  | BinEncode s obs => bs_eqb (encode_binary_header s) obs
  | BinDecode s obs => opt_eqb bs_eqb (decode_binary_header s) obs
  end.
