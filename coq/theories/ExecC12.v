(* ExecC12.v — executable entry points of the C12 correspondence check. *)
From Coq Require Import List NArith Bool.
From Coq.Strings Require Import Byte.
From Connect Require Import Bytes Generated.
From Connect Require Export Dispatch ExecBase.
Import ListNotations.
Local Open Scope N_scope.

Definition st_of (k : N) : stream_type :=
  if k =? 0 then STUnary else if k =? 1 then STClient else if k =? 2 then STServer else STBidi.

Inductive c12case :=
(* status 0 = served (user code ran [inv] times); otherwise the HTTP status of the rejection *)
| DispCase (names : list bytes) (st : N) (major : N) (method ct : bytes)
           (status : N) (allow accept_post_hdr : bytes) (inv : N)
| ExtractCase (url observed : bytes).

Definition c12_ok (c : c12case) : bool :=
  match c with
  | DispCase names st major method ct status allow ap inv =>
    let cfg := mkH names true true (st_of st) in
    match dispatch cfg major method ct with
    | D505 => (status =? 505) && (inv =? 0)
    | D405 => (status =? 405) && bs_eqb allow method_post && (inv =? 0)
    | D415 a => (status =? 415) && bs_eqb ap a && (inv =? 0)
    | DServe _ _ => (status =? 0) && (inv =? 1)
    end
  | ExtractCase url observed => bs_eqb (extract_proto_path url) observed
  end.
