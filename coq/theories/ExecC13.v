(* ExecC13.v — executable entry points of the C13 correspondence check: the
   Get / Put counts of pooled buffers observed (hook trace) while the
   implementation performs a scenario, against the skeletons of Pool.v. *)
From Coq Require Import List NArith Bool.
From Connect Require Export Pool ExecBase.
Import ListNotations.
Local Open Scope N_scope.

Inductive sk :=
| SkMarshalPlain | SkMarshalCompressed | SkUnmarshalPlain | SkUnmarshalCompressed
| SkUnmarshalSpecial | SkUnmarshalEnd | SkEndStream | SkWebTrailers
| SkUnaryMarshalPlain | SkUnaryMarshalCompressed | SkUnaryUnmarshalPlain | SkUnaryUnmarshalCompressed | SkPercentSlow.

(* reading the end of the stream / an empty message: Get; Put *)
Definition sk_unmarshal_end : list step := [Get 0%nat; Put 0%nat].
Definition sk_unary_marshal_plain : list step := [New 0%nat data; Out 0%nat; Put 0%nat].
Definition sk_unary_unmarshal_plain : list step := [Get 0%nat; Append 0%nat data; Out 0%nat; Put 0%nat].

Definition skeleton_of (k : sk) : list step :=
  match k with
  | SkMarshalPlain => sk_marshal_plain | SkMarshalCompressed => sk_marshal_compressed
  | SkUnmarshalPlain => sk_unmarshal_plain | SkUnmarshalCompressed => sk_unmarshal_compressed
  | SkUnmarshalSpecial => sk_unmarshal_special | SkUnmarshalEnd => sk_unmarshal_end
  | SkEndStream => sk_end_stream | SkWebTrailers => sk_web_trailers
  | SkUnaryMarshalPlain => sk_unary_marshal_plain | SkUnaryMarshalCompressed => sk_unary_marshal_compressed
  | SkUnaryUnmarshalPlain => sk_unary_unmarshal_plain | SkUnaryUnmarshalCompressed => sk_unary_unmarshal_compressed
  | SkPercentSlow => sk_percent_slow
  end.

Inductive c13case := PoolTrace (scenario : list sk) (gets puts : N).

Definition c13_ok (c : c13case) : bool :=
  match c with
  | PoolTrace scenario gets puts =>
    forallb (fun k => disciplined (skeleton_of k)) scenario
    && (N.of_nat (fold_left (fun a k => (a + count_gets (skeleton_of k))%nat) scenario 0%nat) =? gets)
    && (N.of_nat (fold_left (fun a k => (a + count_puts (skeleton_of k))%nat) scenario 0%nat) =? puts)
  end.
