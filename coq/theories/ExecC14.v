(* ExecC14.v — executable entry points of the C14 / C15 correspondence check:
   operation sequences performed on a real client stream over a scripted
   transport (the harness decides when Do returns, when responseReady is closed,
   what the body yields, when the context ends — using the verif yield points),
   with the class of every result, against Call.api_run. *)
From Coq Require Import List NArith Bool.
From Connect Require Export Duplex Call ExecBase.
Import ListNotations.
Local Open Scope N_scope.

Definition cls_eqb (a b : cls) : bool :=
  match a, b with
  | COk, COk | CEof, CEof | CBlocked, CBlocked | CNone, CNone => true
  | CCode x, CCode y => x =? y
  | _, _ => false
  end.

Fixpoint cls_list_eqb (a b : list cls) : bool :=
  match a, b with
  | [], [] => true
  | x :: a', y :: b' => cls_eqb x y && cls_list_eqb a' b'
  | _, _ => false
  end.

Inductive c14case :=
| CallTrace (p : proto) (ops : list aop) (observed : list cls) (body_closes_seen : N)
| HandlerCtxError (k : ctxkind) (observed : cls).

Definition c14_ok (c : c14case) : bool :=
  match c with
  | CallTrace p ops observed closes =>
    let '(s, cs) := api_run p init ops in
    cls_list_eqb cs observed && (N.of_nat (body_closes s) =? closes)
  | HandlerCtxError k observed => cls_eqb (cls_of_err (wrap_ctx (CtxErr k))) observed
  end.
