(* ExecC15.v — C15 shares the executable entry points of C14 (Call.api_run). *)
From Connect Require Export ExecC14.
