(* ExecC16.v — executable entry points of the C16 correspondence check. *)
From Coq Require Import List NArith Bool.
From Connect Require Export Interceptors Recover.
From Connect Require Export ExecBase.
Import ListNotations.
Local Open Scope N_scope.

Fixpoint listN_eqb (a b : list N) : bool :=
  match a, b with
  | [], [] => true
  | x :: a', y :: b' => (x =? y) && listN_eqb a' b'
  | _, _ => false
  end.

(* forest of option values over interceptor ids, and the order in which the
   instrumented interceptors were entered during a real call *)
Inductive c16case :=
| IcptCase (ts : list (opt N)) (obs : list N)
(* handler options in declaration order: plain interceptors, one that panics, WithRecover;
   the handler function panics too when [core_panics]; observed: calls of the recovery
   function and whether the panic escaped ServeHTTP *)
| RecPosCase (ics : list (icpt unit)) (core_panics : bool) (handled : N) (escaped : bool).

(* the model of the code: run chainWith/newChain over the forest and read off
   the nesting of the resulting Interceptor value (outermost first) *)
Definition c16_ok (c : c16case) : bool :=
  match c with
  | IcptCase ts obs => listN_eqb (sem_cfg N (apply_all N ts None)) obs
  | RecPosCase ics core_panics handled escaped =>
    let core : hout unit bool := if core_panics then Panics (PVal tt) else Returns true in
    let '(o, calls) := run_chain unit bool (fun _ => false) ics core in
    (N.of_nat (length calls) =? handled) &&
    Bool.eqb (match o with Panics _ => true | Returns _ => false end) escaped
  end.
