(* ExecC17.v — executable entry points of the C17 correspondence check. *)
From Coq Require Import List NArith Bool.
From Coq.Strings Require Import Byte.
From Connect Require Import Bytes Generated Dispatch.
From Connect Require Export Codegen ExecBase.
Import ListNotations.
Local Open Scope N_scope.

Definition kind_eqb (a b : rpc_kind) : bool :=
  match a, b with
  | KUnary, KUnary | KClientStream, KClientStream | KServerStream, KServerStream | KBidi, KBidi => true
  | _, _ => false
  end.

Definition skeleton_eqb (a b : skeleton) : bool :=
  bs_eqb (sk_mux_path a) (sk_mux_path b) && bs_eqb (sk_handler_procedure a) (sk_handler_procedure b)
  && kind_eqb (sk_handler_kind a) (sk_handler_kind b) && bs_eqb (sk_client_suffix a) (sk_client_suffix b)
  && kind_eqb (sk_client_kind a) (sk_client_kind b) && bs_eqb (sk_field a) (sk_field b).

Fixpoint skeletons_eqb (a b : list skeleton) : bool :=
  match a, b with
  | [], [] => true
  | x :: a', y :: b' => skeleton_eqb x y && skeletons_eqb a' b'
  | _, _ => false
  end.

(* descriptor of one service, and the routing skeleton extracted (go/parser)
   from the code the built plugin generated for it *)
Inductive c17case :=
| GenCase (pkg : bytes) (s : gservice) (observed : list skeleton) (mount : bytes).

Definition c17_ok (c : c17case) : bool :=
  match c with
  | GenCase pkg s observed mount =>
    let '(sks, mp) := generate pkg s in
    skeletons_eqb sks observed && bs_eqb mp mount
  end.
