(* ExecC18.v — executable entry points of the C18 correspondence check. *)
From Coq Require Import List NArith ZArith Bool.
From Coq.Strings Require Import Byte.
From Connect Require Import Bytes Generated Codes Percent Base64.
From Connect Require Export ExecBase.
Import ListNotations.
Local Open Scope N_scope.

(* ---------------- C18 ---------------- *)
Inductive c18case :=
| CodeStr (c : N) (obs : bytes)
| CodeParse (s : bytes) (obs : option N)
| PctEnc (s obs : bytes)
| PctDec (s obs : bytes)
| BinEnc (s obs : bytes)
| BinDec (s : bytes) (obs : option bytes)
| CodeHTTP (c obs : N).

Definition c18_ok (c : c18case) : bool :=
  match c with
  | CodeStr c obs => bs_eqb (code_string c) obs
  | CodeParse s obs => opt_eqb N.eqb (code_unmarshal s) obs
  | PctEnc s obs => bs_eqb (percent_encode s) obs
  | PctDec s obs => bs_eqb (percent_decode s) obs
  | BinEnc s obs => bs_eqb (encode_binary_header s) obs
  | BinDec s obs => opt_eqb bs_eqb (decode_binary_header s) obs
  | CodeHTTP c obs => connect_code_to_http c =? obs
  end.
