(* ExecC19.v — executable entry points of the C19 correspondence check. *)
From Coq Require Import List NArith Bool.
From Connect Require Export Recover ExecBase.
Import ListNotations.
Local Open Scope N_scope.

(* panic value classes: 0 = nil, 1 = abort sentinel, k >= 2 = some other value *)
Definition pv (k : N) : pval N := if k =? 0 then PNil else if k =? 1 then PAbort else PVal k.
Definition pv_class (v : pval N) : N := match v with PNil => 0 | PAbort => 1 | PVal k => k end.

(* result classes seen by the harness *)
Inductive robs := RNormal | RHandled (arg : N) | RAbortPropagated.

(* R := option N : None = the handler's normal result, Some k = handle's error for argument class k *)
Inductive c19case :=
| RecCase (outer inner : nat) (panic : option N) (calls : list N) (observed : robs).

Definition robs_eqb (a b : robs) : bool :=
  match a, b with
  | RNormal, RNormal => true
  | RHandled x, RHandled y => x =? y
  | RAbortPropagated, RAbortPropagated => true
  | _, _ => false
  end.

Fixpoint listN_eqb (a b : list N) : bool :=
  match a, b with
  | [], [] => true
  | x :: a', y :: b' => (x =? y) && listN_eqb a' b'
  | _, _ => false
  end.

Definition c19_ok (c : c19case) : bool :=
  match c with
  | RecCase outer inner panic calls observed =>
    (* panic = Some 100 stands for "returns its own error (class 100) without panicking" *)
    let core : hout N (option N) :=
        match panic with
        | None => Returns None
        | Some k => if k =? 100 then Returns (Some 100) else Panics (pv k)
        end in
    let '(o, cs) := chain_with_recover N (option N) (fun v => Some (pv_class v)) outer inner core in
    let res := match o with
               | Returns None => RNormal
               | Returns (Some k) => RHandled k
               | Panics _ => RAbortPropagated
               end in
    robs_eqb res observed && listN_eqb (map pv_class cs) calls
  end.
