(* ExecEnv.v — executable instantiation of the envelope model used by the
   correspondence checks of C01, C03, C04, C09: the toy codec (a message is its
   payload; payloads starting with 0xFF do not decode) and the toy compressors
   (tag: one tag byte in front; rle: run-length pairs). *)
From Coq Require Import List NArith ZArith Bool.
From Coq.Strings Require Import Byte.
From Connect Require Import Bytes Generated.
From Connect Require Export GoIO Envelope Cut ClientRecv ExecBase.
Import ListNotations.
Local Open Scope N_scope.

(* toy codec *)
Definition toy_unmarshal (data : bytes) (_ : bytes) : option bytes :=
  match data with
  | b :: _ => if byte_eqb b xff then None else Some data
  | [] => Some data
  end.

Inductive algo := ATag (tag : byte) | ARle.

Fixpoint rle_expand (s : bytes) : option bytes :=
  match s with
  | [] => Some []
  | [_] => None
  | n :: v :: r => match rle_expand r with
                   | Some t => Some (repeat v (N.to_nat (bN n)) ++ t)
                   | None => None
                   end
  end.

Definition algo_decompress (a : option algo) (data : bytes) : option bytes :=
  match a with
  | None => None
  | Some (ATag tag) => match data with b :: r => if byte_eqb b tag then Some r else None | [] => None end
  | Some ARle => rle_expand data
  end.

Definition algo_compress (a : algo) (data : bytes) : bytes :=
  match a with
  | ATag tag => tag :: data
  | ARle => data   (* not used on the model side *)
  end.

Inductive proto := PConnect | PGrpc | PGrpcWeb.

(* what user code observed from one Receive *)
Inductive obs := OMsg (b : bytes) | OEOF | OErr (code : N).

Definition obs_eqb (a b : obs) : bool :=
  match a, b with
  | OMsg x, OMsg y => bs_eqb x y
  | OEOF, OEOF => true
  | OErr c, OErr d => c =? d
  | _, _ => false
  end.

Fixpoint list_eqb {A} (eqb : A -> A -> bool) (a b : list A) : bool :=
  match a, b with
  | [], [] => true
  | x :: a', y :: b' => eqb x y && list_eqb eqb a' b'
  | _, _ => false
  end.

(* handler-side protocol wrappers around a special envelope
   (connectStreamingUnmarshaler.Unmarshal / grpcUnmarshaler.Unmarshal);
   [parse_ok] is whether the payload parses as the protocol's end-of-stream
   block (JSON object / MIME header block), supplied by the harness *)
Definition proto_special (p : proto) (parse_ok : bool) (fl : N) : obs :=
  match p with
  | PGrpc => OErr code_internal
  | PGrpcWeb => if has_flag fl grpc_flag_trailer then (if parse_ok then OEOF else OErr code_internal)
                else OErr code_internal
  | PConnect => if has_flag fl connect_flag_end_stream then (if parse_ok then OEOF else OErr code_internal)
                else OErr code_internal
  end.

Definition project (p : proto) (parse_ok : bool) (r : uresult bytes) : obs :=
  match r with
  | UMsg m => OMsg m
  | UErr REOF => OEOF
  | UErr (RErr c) => OErr c
  | USpecial fl _ => proto_special p parse_ok fl
  end.

Inductive envcase :=
(* a streaming handler's successive Receive results for a request body
   delivered as the given chunks *)
| HRecv (p : proto) (max : N) (a : option algo) (parse_ok : bool)
        (cs : list bytes) (f : fin) (observed : list obs)
(* a unary Connect handler: one message or an error *)
| HUnary (max : N) (a : option algo) (cs : list bytes) (f : fin) (observed : obs)
(* cross-decoding: a body WRITTEN by the implementation (request body of a real
   client, response body of a real handler) must be decoded by the model's
   reader to exactly the messages given to the sending API, followed by a clean
   end (term = None) or by one special envelope with the given flags *)
| XDecode (a : option algo) (body : bytes) (msgs : list bytes) (term : option N)
(* a streaming client: response body as chunks, HTTP trailers summarised by [tr]
   (gRPC), meaning of the in-band terminator payload summarised by [sp]
   (Connect end-of-stream JSON / gRPC-Web trailer block); observed = messages
   then OEOF (clean) or OErr code *)
| CRecv (p : proto) (max : N) (a : option algo) (cs : list bytes) (f : fin)
        (tr sp : verdict) (observed : list obs)
(* a unary call over the same response: the message, or an error code *)
| CUnary (p : proto) (max : N) (a : option algo) (cs : list bytes) (f : fin)
         (tr sp : verdict) (observed : obs).

Definition hooks (p : proto) (tr sp : verdict) :
  (N -> bytes -> outcome) * outcome * (N -> outcome) :=
  match p with
  | PConnect => (connect_on_special (fun _ => sp), connect_on_eof, connect_on_error)
  | PGrpcWeb => (grpcweb_on_special (fun _ => sp), grpcweb_on_eof, grpcweb_on_error)
  | PGrpc => (grpc_on_special tr, grpc_on_eof tr, grpc_on_error tr)
  end.

Definition outcome_obs (o : option outcome) : list obs :=
  match o with
  | Some Clean => [OEOF]
  | Some (Failed c) => [OErr c]
  | None => []
  end.

(* receiveUnaryResponse: ClientRecv.unary_outcome, projected to an observation *)
Definition unary_result (on_special : N -> bytes -> outcome) (on_eof : outcome) (on_error : N -> outcome)
           (rs : list (uresult bytes)) : obs :=
  match unary_outcome bytes on_special on_eof on_error rs with
  | UOk m => OMsg m
  | UFail c => OErr c
  end.

Definition env_ok (c : envcase) : bool :=
  match c with
  | HRecv p max a parse_ok cs f observed =>
    let rs := recv_n_c bytes toy_unmarshal (algo_decompress a) [] (length observed) max
                       (match a with Some _ => true | None => false end) (mkT cs f) in
    list_eqb obs_eqb (map (project p parse_ok) rs) observed
  | HUnary max a cs f observed =>
    let r := unary_unmarshal_c bytes toy_unmarshal (algo_decompress a) max
                       (match a with Some _ => true | None => false end) [] (mkT cs f) in
    obs_eqb (match r with inl m => OMsg m | inr REOF => OEOF | inr (RErr c) => OErr c end) observed
  | XDecode a body msgs term =>
    let pool := match a with Some _ => true | None => false end in
    let rs := recv_n_f bytes toy_unmarshal (algo_decompress a) [] (length msgs + 2) 0 pool (body, CleanEOF) in
    let is_msg (r : uresult bytes) (m : bytes) := match r with UMsg x => bs_eqb x m | _ => false end in
    let fix go (rs : list (uresult bytes)) (ms : list bytes) : bool :=
        match ms, rs with
        | m :: ms', r :: rs' => is_msg r m && go rs' ms'
        | [], r :: rs' =>
          match term, r with
          | None, UErr REOF => true
          | Some fl, USpecial fl' _ => ((fl =? fl') || (N.lor fl flag_compressed =? fl')) &&   (* the terminator itself may be compressed *)
              match rs' with UErr REOF :: _ => true | _ => false end   (* nothing after the terminator *)
          | _, _ => false
          end
        | _, [] => false
        end in
    go rs msgs
  | CRecv p max a cs f tr sp observed =>
    let pool := match a with Some _ => true | None => false end in
    let rs := recv_n_c bytes toy_unmarshal (algo_decompress a) [] (length observed) max pool (mkT cs f) in
    let '(on_sp, on_eof, on_err) := hooks p tr sp in
    let '(ms, o) := client_outcome bytes on_sp on_eof on_err rs in
    list_eqb obs_eqb (map OMsg ms ++ outcome_obs o) observed
  | CUnary p max a cs f tr sp observed =>
    let pool := match a with Some _ => true | None => false end in
    let rs := recv_n_c bytes toy_unmarshal (algo_decompress a) [] 2 max pool (mkT cs f) in
    let '(on_sp, on_eof, on_err) := hooks p tr sp in
    (* client.go:71-91: a successful receive is followed by CloseResponse, which
       discards the rest of the body; a transport failure there fails the call *)
    let res := match unary_result on_sp on_eof on_err rs, f with
               | OMsg _, Fail (ECoded c) => OErr c
               | OMsg _, Fail _ => OErr code_unknown
               | o, _ => o
               end in
    obs_eqb res observed
  end.
