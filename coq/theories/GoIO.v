(* GoIO.v — io.Reader contract used by the envelope reader and the unary readers.

   A transport is a *schedule*: the chunks successive Read calls deliver (this is
   exactly "how the transport splits the bytes") plus what happens at the end:
   a clean EOF on a separate read, EOF returned together with the last data, or
   a failure. [flatten] forgets the chunking. The composite operations Go code
   uses on a Reader — io.ReadFull, the io.CopyN loop of envelope.go, ReadFrom /
   io.Copy — are all "accumulate until n bytes arrived or the stream ended":
   [pull]. A single Read call is [read1]. *)
From Coq Require Import List NArith Lia Bool.
From Coq.Strings Require Import Byte.
From Connect Require Import Bytes.
Import ListNotations.
Local Open Scope N_scope.

Inductive ioerr :=
| EUnexpectedEOF            (* io.ErrUnexpectedEOF: body shorter than promised *)
| EOther                    (* any other transport error *)
| ECoded (c : N).           (* an error that already is a *connect.Error (duplexHTTPCall.Read) *)

Inductive fin := CleanEOF | EOFWithData | Fail (e : ioerr).

Record transport := mkT { chunks : list bytes; tfin : fin }.

(* flat streams: the bytes and how the stream ends (never EOFWithData) *)
Definition fstream := (bytes * fin)%type.

Definition flat_fin (f : fin) : fin := match f with EOFWithData => CleanEOF | _ => f end.

Definition flatten (t : transport) : fstream := (concat (chunks t), flat_fin (tfin t)).

Definition len (b : bytes) : N := N.of_nat (length b).

(* ---- one Read call with a buffer of k > 0 bytes ---- *)
(* returns the data, whether the call also reported the end (Some f) and the new state *)
Fixpoint read1_c (k : N) (cs : list bytes) (f : fin) : bytes * option fin * transport :=
  match cs with
  | [] => ([], Some (flat_fin f), mkT [] (flat_fin f))
  | c :: rest =>
    match c with
    | [] => read1_c k rest f                       (* empty chunk: nothing to deliver *)
    | _ =>
      if len c <=? k then
        match rest, f with
        | [], EOFWithData => (c, Some CleanEOF, mkT [] CleanEOF)   (* last data together with EOF *)
        | _, _ => (c, None, mkT rest f)
        end
      else (firstn (N.to_nat k) c, None, mkT (skipn (N.to_nat k) c :: rest) f)
    end
  end.

Definition read1 (k : N) (t : transport) := read1_c k (chunks t) (tfin t).

(* ---- accumulate until n bytes or the end ---- *)
Fixpoint pull_c (n : N) (cs : list bytes) {struct cs} : bytes * list bytes * bool :=
  if n =? 0 then ([], cs, true) else
  match cs with
  | [] => ([], [], false)
  | c :: rest =>
    if len c <=? n then
      let '(g, cs', ok) := pull_c (n - len c) rest in (c ++ g, cs', ok)
    else (firstn (N.to_nat n) c, skipn (N.to_nat n) c :: rest, true)
  end.

(* [pull n t] = (bytes obtained, new state, complete?). When incomplete the
   stream has ended for the reason [flat_fin (tfin t)] and stays ended. *)
Definition pull (n : N) (t : transport) : bytes * transport * bool :=
  let '(g, cs', ok) := pull_c n (chunks t) in
  if ok then (g, mkT cs' (tfin t), true) else (g, mkT [] (flat_fin (tfin t)), false).

(* flat-level counterpart *)
Definition fpull (n : N) (s : fstream) : bytes * fstream * bool :=
  let '(b, f) := s in
  if n <=? len b then (firstn (N.to_nat n) b, (skipn (N.to_nat n) b, f), true)
  else (b, ([], f), false).

(* read everything (bytes.Buffer.ReadFrom / io.Copy): all bytes and the end reason *)
Definition read_all (t : transport) : bytes * fin := flatten t.

(* ---------------- proofs ---------------- *)

Lemma len_app a b : len (a ++ b) = len a + len b.
Proof. unfold len. rewrite app_length. lia. Qed.

Lemma len_nil : len [] = 0.
Proof. reflexivity. Qed.

Lemma firstn_all' {A} (l : list A) n : (length l <= n)%nat -> firstn n l = l.
Proof. intro H. apply firstn_all2. exact H. Qed.

Lemma pull_c_flat : forall cs n g cs' ok,
  pull_c n cs = (g, cs', ok) ->
  if n <=? len (concat cs)
  then ok = true /\ g = firstn (N.to_nat n) (concat cs) /\ concat cs' = skipn (N.to_nat n) (concat cs)
  else ok = false /\ g = concat cs /\ cs' = [].
Proof.
  induction cs as [|c rest IH]; intros n g cs' ok H; cbn [pull_c] in H.
  - destruct (n =? 0) eqn:E0.
    + apply N.eqb_eq in E0. subst n. inversion H; subst.
      match goal with |- context [0 <=? ?x] =>
        assert ((0 <=? x) = true) as E by (apply N.leb_le; lia); rewrite E end.
      cbn [N.to_nat firstn skipn]. auto.
    + inversion H; subst. cbn [concat]. rewrite len_nil.
      apply N.eqb_neq in E0. assert ((n <=? 0) = false) as E by (apply N.leb_gt; lia).
      rewrite E. auto.
  - destruct (n =? 0) eqn:E0.
    + apply N.eqb_eq in E0. subst n. inversion H; subst.
      match goal with |- context [0 <=? ?x] =>
        assert ((0 <=? x) = true) as E by (apply N.leb_le; lia); rewrite E end.
      cbn [N.to_nat firstn skipn]. auto.
    + apply N.eqb_neq in E0. cbn [concat]. rewrite len_app.
      destruct (len c <=? n) eqn:Ec.
      * apply N.leb_le in Ec.
        destruct (pull_c (n - len c) rest) as [[g1 cs1] ok1] eqn:Er.
        inversion H; subst g cs' ok. specialize (IH _ _ _ _ Er).
        assert (Hlc : N.to_nat (len c) = length c) by (unfold len; lia).
        destruct (n - len c <=? len (concat rest)) eqn:E1.
        -- apply N.leb_le in E1. destruct IH as (-> & -> & Hc).
           assert ((n <=? len c + len (concat rest)) = true) as E2 by (apply N.leb_le; lia).
           rewrite E2. split; [reflexivity|].
           replace (N.to_nat n) with (length c + N.to_nat (n - len c))%nat by lia.
           split.
           ++ rewrite firstn_app_2. reflexivity.
           ++ rewrite Hc. rewrite skipn_app.
              rewrite (skipn_all2 c) by lia. cbn [app].
              f_equal. lia.
        -- apply N.leb_gt in E1. destruct IH as (-> & -> & ->).
           assert ((n <=? len c + len (concat rest)) = false) as E2 by (apply N.leb_gt; lia).
           rewrite E2. auto.
      * apply N.leb_gt in Ec. inversion H; subst g cs' ok.
        assert ((n <=? len c + len (concat rest)) = true) as E2 by (apply N.leb_le; lia).
        rewrite E2. split; [reflexivity|].
        assert (Hn : (N.to_nat n <= length c)%nat) by (unfold len in Ec; lia).
        split.
        -- rewrite firstn_app. replace (N.to_nat n - length c)%nat with 0%nat by lia.
           cbn [firstn]. rewrite app_nil_r. reflexivity.
        -- cbn [concat]. rewrite skipn_app.
           replace (N.to_nat n - length c)%nat with 0%nat by lia. reflexivity.
Qed.

(* the composite read is a function of the flattened stream *)
Lemma pull_flatten : forall n t g t' ok,
  pull n t = (g, t', ok) -> fpull n (flatten t) = (g, flatten t', ok).
Proof.
  intros n [cs f] g t' ok H. unfold pull in H. cbn [chunks tfin] in H.
  destruct (pull_c n cs) as [[g1 cs1] ok1] eqn:E.
  pose proof (pull_c_flat _ _ _ _ _ E) as P.
  unfold fpull, flatten. cbn [chunks tfin].
  destruct (n <=? len (concat cs)) eqn:En.
  - destruct P as (-> & -> & Hc). inversion H; subst. cbn [flatten chunks tfin]. rewrite Hc. reflexivity.
  - destruct P as (-> & -> & ->). inversion H; subst. cbn [flatten chunks tfin concat].
    destruct f; reflexivity.
Qed.

Lemma pull_segmentation_independent : forall n t1 t2,
  flatten t1 = flatten t2 ->
  let '(g1, t1', ok1) := pull n t1 in
  let '(g2, t2', ok2) := pull n t2 in
  g1 = g2 /\ ok1 = ok2 /\ flatten t1' = flatten t2'.
Proof.
  intros n t1 t2 H.
  destruct (pull n t1) as [[g1 t1'] ok1] eqn:E1.
  destruct (pull n t2) as [[g2 t2'] ok2] eqn:E2.
  apply pull_flatten in E1. apply pull_flatten in E2. rewrite H in E1. rewrite E1 in E2.
  inversion E2 as [[Hg Hf Hok]]. repeat split; congruence.
Qed.

(* A single Read call is NOT a function of the flattened stream: two
   transports with the same bytes give different results to Read(5 bytes). *)
Lemma read1_depends_on_chunking :
  exists t1 t2, flatten t1 = flatten t2 /\
    fst (fst (read1 5 t1)) <> fst (fst (read1 5 t2)).
Proof.
  exists (mkT [[x00; x00; x00; x00; x02; x08; x05]] CleanEOF),
         (mkT [[x00]; [x00; x00; x00; x02; x08; x05]] CleanEOF).
  split; [reflexivity | vm_compute; discriminate].
Qed.
