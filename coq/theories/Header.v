(* Header.v — http.Header as an ordered multimap over canonical keys, with the
   operations the library uses: Get / Values / Set / Add / Del, mergeHeaders
   (header.go:48-52), and the Connect unary "Trailer-" prefix mapping
   (protocol_connect.go:371-378, 575-585).

   A header is a list of (key, values) entries; what a reader can observe is
   [values k h] for every k (extensional view), so a Go map's unspecified
   iteration order never matters. *)
From Coq Require Import List NArith Lia Bool.
From Coq.Strings Require Import Byte.
From Connect Require Import Bytes Generated.
Import ListNotations.

Definition hmap := list (bytes * list bytes).

Fixpoint values (k : bytes) (h : hmap) : list bytes :=
  match h with
  | [] => []
  | (k', vs) :: r => if bs_eqb k k' then vs ++ values k r else values k r
  end.

(* Header.Get: first value or "" *)
Definition get (k : bytes) (h : hmap) : bytes :=
  match values k h with v :: _ => v | [] => [] end.

Definition del (k : bytes) (h : hmap) : hmap := filter (fun e => negb (bs_eqb k (fst e))) h.
Definition set (k v : bytes) (h : hmap) : hmap := del k h ++ [(k, [v])].
Definition add (k v : bytes) (h : hmap) : hmap := h ++ [(k, [v])].

(* mergeHeaders(into, from): into[k] = append(into[k], from[k]...) for every k *)
Definition merge (into from : hmap) : hmap := into ++ from.

Lemma values_app k a b : values k (a ++ b) = values k a ++ values k b.
Proof.
  induction a as [|[k' vs] r IH]; cbn [app values]; [reflexivity|].
  destruct (bs_eqb k k'); rewrite IH; [rewrite app_assoc|]; reflexivity.
Qed.

Lemma values_merge k into from : values k (merge into from) = values k into ++ values k from.
Proof. apply values_app. Qed.

Lemma values_del_same k h : values k (del k h) = [].
Proof.
  induction h as [|[k' vs] r IH]; cbn [del filter values fst]; [reflexivity|].
  destruct (bs_eqb k k') eqn:E; cbn [negb]; [exact IH|]. cbn [values]. rewrite E. exact IH.
Qed.

Lemma values_del_other k k' h : k <> k' -> values k (del k' h) = values k h.
Proof.
  intro Hne. induction h as [|[k2 vs] r IH]; cbn [del filter values fst]; [reflexivity|].
  destruct (bs_eqb k' k2) eqn:E; cbn [negb].
  - apply bs_eqb_eq in E. subst k2. assert (bs_eqb k k' = false) as E2 by (apply bs_eqb_neq; exact Hne).
    rewrite E2. exact IH.
  - cbn [values]. fold (del k' r). rewrite IH. reflexivity.
Qed.

Lemma values_set_same k v h : values k (set k v h) = [v].
Proof. unfold set. rewrite values_app, values_del_same. cbn [values]. rewrite bs_eqb_refl. reflexivity. Qed.

Lemma values_set_other k k' v h : k <> k' -> values k (set k' v h) = values k h.
Proof.
  intro Hne. unfold set. rewrite values_app, values_del_other by exact Hne. cbn [values].
  assert (bs_eqb k k' = false) as E by (apply bs_eqb_neq; exact Hne). rewrite E, app_nil_r. reflexivity.
Qed.

Lemma get_set_same k v h : get k (set k v h) = v.
Proof. unfold get. rewrite values_set_same. reflexivity. Qed.

Lemma get_set_other k k' v h : k <> k' -> get k (set k' v h) = get k h.
Proof. intro H. unfold get. rewrite values_set_other by exact H. reflexivity. Qed.

(* mergeMetadataHeaders(into, from) (header.go): what the three writers of an
   error's metadata use.  The names in [metadata_excluded_headers] (extracted
   from the switch in that function; empty when a writer still uses
   mergeHeaders) describe an HTTP message itself and are left out. *)
Definition message_header (k : bytes) : bool := existsb (bs_eqb k) metadata_excluded_headers.
Definition metadata_only (m : hmap) : hmap := filter (fun e => negb (message_header (fst e))) m.
Definition merge_metadata (into from : hmap) : hmap := merge into (metadata_only from).

Lemma message_header_ext k k' : bs_eqb k k' = true -> message_header k = message_header k'.
Proof. intro E. apply bs_eqb_eq in E. subst. reflexivity. Qed.

Lemma values_metadata_only k m :
  values k (metadata_only m) = if message_header k then [] else values k m.
Proof.
  induction m as [|[k' vs] r IH]; cbn [metadata_only filter values fst].
  - destruct (message_header k); reflexivity.
  - fold (metadata_only r). destruct (bs_eqb k k') eqn:E.
    + rewrite <- (message_header_ext _ _ E).
      destruct (message_header k) eqn:M; cbn [negb].
      * rewrite IH. reflexivity.
      * cbn [values]. rewrite E, IH. reflexivity.
    + destruct (message_header k') eqn:M'; cbn [negb]; [exact IH|].
      cbn [values]. rewrite E. exact IH.
Qed.

Lemma values_merge_metadata k into from :
  values k (merge_metadata into from) =
  values k into ++ (if message_header k then [] else values k from).
Proof. unfold merge_metadata. rewrite values_merge, values_metadata_only. reflexivity. Qed.

Lemma metadata_only_subset e m : In e (metadata_only m) -> In e m.
Proof. unfold metadata_only. rewrite filter_In. tauto. Qed.

(* ---- Connect unary: trailers travel as headers with the "Trailer-" prefix ---- *)

(* writeResponseHeader: header[prefix+k] = v for every trailer entry *)
Definition prefix_all (p : bytes) (t : hmap) : hmap := map (fun e => (p ++ fst e, snd e)) t.

(* validateResponse: keys with the prefix go to the trailer map (prefix removed),
   all others to the header map *)
Fixpoint split_prefixed (p : bytes) (h : hmap) : hmap * hmap :=
  match h with
  | [] => ([], [])
  | (k, vs) :: r =>
    let '(hs, ts) := split_prefixed p r in
    match strip_prefix p k with
    | Some k' => (hs, (k', vs) :: ts)
    | None => ((k, vs) :: hs, ts)
    end
  end.

Definition no_prefixed_key (p : bytes) (h : hmap) : Prop :=
  forall k vs, In (k, vs) h -> strip_prefix p k = None.

Lemma split_prefix_all p t : split_prefixed p (prefix_all p t) = ([], t).
Proof.
  induction t as [|[k vs] r IH]; cbn [prefix_all map split_prefixed fst snd]; [reflexivity|].
  fold (prefix_all p r). rewrite IH, strip_prefix_app. reflexivity.
Qed.

Lemma split_unprefixed p h : no_prefixed_key p h -> split_prefixed p h = (h, []).
Proof.
  induction h as [|[k vs] r IH]; intro H; cbn [split_prefixed]; [reflexivity|].
  rewrite IH by (intros k' vs' Hin; apply (H k' vs'); right; exact Hin).
  rewrite (H k vs (or_introl eq_refl)). reflexivity.
Qed.

Lemma split_app p a b :
  split_prefixed p (a ++ b) =
  (fst (split_prefixed p a) ++ fst (split_prefixed p b), snd (split_prefixed p a) ++ snd (split_prefixed p b)).
Proof.
  induction a as [|[k vs] r IH]; cbn [app split_prefixed].
  - destruct (split_prefixed p b). reflexivity.
  - rewrite IH. destruct (split_prefixed p r) as [hs ts]. destruct (split_prefixed p b) as [hs' ts'].
    cbn [fst snd]. destruct (strip_prefix p k); reflexivity.
Qed.

(* C11 (unary Connect): headers come back as headers and trailers as trailers *)
Lemma unary_trailer_roundtrip p hdr tr :
  no_prefixed_key p hdr ->
  split_prefixed p (hdr ++ prefix_all p tr) = (hdr, tr).
Proof.
  intro H. rewrite split_app, split_prefix_all, (split_unprefixed p hdr H).
  cbn [fst snd]. rewrite app_nil_r. reflexivity.
Qed.

(* ---- ResponseTrailer over repeated Receive calls at the end of a stream ----
   A streaming client conn merges the trailers the stream carried (HTTP trailers,
   the gRPC-Web trailer block, the Connect end-of-stream metadata) into the map
   ResponseTrailer returns, on a Receive that yields no message. A caller may
   call Receive again afterwards (it keeps reporting the end). The merge is
   guarded by a flag and happens once [client_trailers_merged_once, extracted by
   the translator from grpcClientConn.Receive and
   connectStreamingClientConn.Receive; were it false, every failing Receive would
   merge again]. *)
Definition failing_receive (carried : hmap) (st : hmap * bool) : hmap * bool :=
  let '(visible, merged) := st in
  if client_trailers_merged_once && merged then (visible, true)
  else (merge visible carried, true).

Fixpoint failing_receives (n : nat) (carried : hmap) (st : hmap * bool) : hmap * bool :=
  match n with
  | O => st
  | S n' => failing_receives n' carried (failing_receive carried st)
  end.

Lemma failing_receive_idempotent : forall carried st,
  snd st = true -> failing_receive carried st = st.
Proof. intros carried [v m] H. cbn in H. subst m. reflexivity. Qed.

(* after any number n >= 1 of failing Receive calls the visible trailers are the
   carried ones, each value once *)
Lemma trailers_merged_once_lemma : forall n carried,
  failing_receives (S n) carried ([], false) = (carried, true).
Proof.
  intros n carried. cbn [failing_receives failing_receive]. cbn [andb merge app].
  induction n as [|n IH]; [reflexivity|].
  cbn [failing_receives]. rewrite failing_receive_idempotent by reflexivity. exact IH.
Qed.

Lemma trailer_values_stable_lemma : forall n carried k,
  values k (fst (failing_receives (S n) carried ([], false))) = values k carried.
Proof. intros. rewrite trailers_merged_once_lemma. reflexivity. Qed.
