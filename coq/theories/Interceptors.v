(* Interceptors.v — model of option.go:346-385 (interceptorsOption.chainWith,
   WithOptions / WithClientOptions / WithHandlerOptions nesting) and
   interceptor.go:68-105 (newChain, chain.WrapUnary and friends).
   An interceptor is abstract: an identifier [I] with [wrap : I -> F -> F], where F
   stands for UnaryFunc, StreamingClientFunc or StreamingHandlerFunc. *)
From Coq Require Import List Lia.
Import ListNotations.

Section Interceptors.
Variable I : Type.
Variable F : Type.
Variable wrap : I -> F -> F.

(* an Interceptor value held in a config: a user interceptor, or a *chain whose
   slice is already reversed and nil-free (newChain) *)
Inductive icpt :=
| User (i : I)
| Chain (l : list icpt).

(* option values; [None] entries are nil interceptors *)
Inductive opt :=
| WithInterceptors (l : list (option I))
| WithOptions (ts : list opt)          (* also WithClientOptions / WithHandlerOptions *)
| OtherOption.

(* newChain: iterate from the end, skip nil *)
Fixpoint non_nil {A} (l : list (option A)) : list A :=
  match l with
  | [] => []
  | Some x :: r => x :: non_nil r
  | None :: r => non_nil r
  end.

Definition new_chain (l : list (option icpt)) : icpt := Chain (rev (non_nil l)).

(* interceptorsOption.chainWith *)
Definition chain_with (o : list (option I)) (current : option icpt) : option icpt :=
  match o with
  | [] => current
  | first :: rest =>
    match current, rest with
    | None, [] => option_map User first
    | None, _ :: _ => Some (new_chain (map (option_map User) o))
    | Some c, _ => Some (new_chain (Some c :: map (option_map User) o))
    end
  end.

(* applying option values in order (applyToClient / applyToHandler) *)
Fixpoint apply_opt (t : opt) (cfg : option icpt) : option icpt :=
  match t with
  | WithInterceptors l => chain_with l cfg
  | WithOptions ts => fold_left (fun c t' => apply_opt t' c) ts cfg
  | OtherOption => cfg
  end.

Definition apply_all (ts : list opt) (cfg : option icpt) : option icpt :=
  fold_left (fun c t => apply_opt t c) ts cfg.

(* Interceptor.WrapX: a user interceptor wraps directly; a chain loops over its
   (reversed) slice: for _, i := range c.interceptors { next = i.WrapX(next) } *)
Fixpoint wrapI (x : icpt) (f : F) : F :=
  match x with
  | User i => wrap i f
  | Chain l => fold_left (fun next c => wrapI c next) l f
  end.

(* client.go:92-94 / handler.go:52-55: wrap only when config.Interceptor != nil *)
Definition wrap_cfg (cfg : option icpt) (f : F) : F :=
  match cfg with Some x => wrapI x f | None => f end.

(* ---------- specification: the flat declaration order ---------- *)

Fixpoint flat_opt (t : opt) : list I :=
  match t with
  | WithInterceptors l => non_nil l
  | WithOptions ts => flat_map flat_opt ts
  | OtherOption => []
  end.

Definition flat_all (ts : list opt) : list I := flat_map flat_opt ts.

(* outermost-first list of user interceptors an [icpt] stands for *)
Fixpoint sem (x : icpt) : list I :=
  match x with
  | User i => [i]
  | Chain l => fold_left (fun acc c => sem c ++ acc) l []
  end.

Lemma sem_chain_aux (l : list icpt) : forall a,
  fold_left (fun acc c => sem c ++ acc) l a = flat_map sem (rev l) ++ a.
Proof.
  induction l as [|y l IH]; intro a; cbn [fold_left rev flat_map]; [reflexivity|].
  rewrite IH. rewrite flat_map_app. cbn [flat_map]. rewrite app_nil_r, <- app_assoc. reflexivity.
Qed.

Lemma sem_chain (l : list icpt) : sem (Chain l) = flat_map sem (rev l).
Proof. cbn [sem]. rewrite sem_chain_aux, app_nil_r. reflexivity. Qed.

Definition sem_cfg (c : option icpt) : list I :=
  match c with Some x => sem x | None => [] end.

(* ---------- proofs ---------- *)

(* induction principle for the nested type *)
Lemma icpt_ind' (P : icpt -> Prop) :
  (forall i, P (User i)) ->
  (forall l, Forall P l -> P (Chain l)) ->
  forall x, P x.
Proof.
  intros HU HC. fix IH 1. intro x. destruct x as [i|l].
  - apply HU.
  - apply HC. induction l as [|y l IHl]; constructor; [apply IH | exact IHl].
Qed.

Lemma fold_right_app_wrap (a b : list I) f :
  fold_right wrap f (a ++ b) = fold_right wrap (fold_right wrap f b) a.
Proof. apply fold_right_app. Qed.

Lemma wrapI_sem : forall x f, wrapI x f = fold_right wrap f (sem x).
Proof.
  intro x. induction x as [i|l IHl] using icpt_ind'; intro f.
  - reflexivity.
  - rewrite sem_chain. cbn [wrapI].
    (* fold_left over l  =  fold_right over rev l *)
    revert f. induction l as [|y l IHl'] using rev_ind; intro f.
    + reflexivity.
    + rewrite fold_left_app. cbn [fold_left].
      rewrite rev_app_distr. cbn [rev app flat_map].
      apply Forall_app in IHl. destruct IHl as [Hl Hy].
      inversion Hy as [|? ? Hy' _]; subst.
      rewrite Hy'. rewrite fold_right_app_wrap. f_equal.
      apply IHl'. exact Hl.
Qed.

Lemma non_nil_app {A} (a b : list (option A)) : non_nil (a ++ b) = non_nil a ++ non_nil b.
Proof.
  induction a as [|[x|] a IH]; cbn [app non_nil]; [reflexivity | rewrite IH; reflexivity | exact IH].
Qed.

Lemma non_nil_map_user (o : list (option I)) :
  flat_map sem (non_nil (map (option_map User) o)) = non_nil o.
Proof.
  induction o as [|[i|] o IH]; cbn [map option_map non_nil flat_map sem app]; [reflexivity | f_equal; exact IH | exact IH].
Qed.

Lemma sem_new_chain (l : list (option icpt)) :
  sem (new_chain l) = flat_map sem (non_nil l).
Proof. unfold new_chain. rewrite sem_chain, rev_involutive. reflexivity. Qed.

Lemma sem_chain_with o cur : sem_cfg (chain_with o cur) = sem_cfg cur ++ non_nil o.
Proof.
  unfold chain_with. destruct o as [|first rest].
  - rewrite app_nil_r. reflexivity.
  - destruct cur as [c|].
    + cbn [sem_cfg]. rewrite sem_new_chain. cbn [non_nil flat_map].
      rewrite non_nil_map_user. reflexivity.
    + destruct rest as [|second rest'].
      * destruct first as [i|]; reflexivity.
      * cbn [sem_cfg]. rewrite sem_new_chain, non_nil_map_user. reflexivity.
Qed.

Lemma opt_ind' (P : opt -> Prop) :
  (forall l, P (WithInterceptors l)) ->
  (forall ts, Forall P ts -> P (WithOptions ts)) ->
  P OtherOption ->
  forall t, P t.
Proof.
  intros HI HO HX. fix IH 1. intro t. destruct t as [l|ts|].
  - apply HI.
  - apply HO. induction ts as [|y ts IHts]; constructor; [apply IH | exact IHts].
  - exact HX.
Qed.

Lemma sem_apply_opt : forall t cfg, sem_cfg (apply_opt t cfg) = sem_cfg cfg ++ flat_opt t.
Proof.
  intro t. induction t as [l|ts IHts|] using opt_ind'; intro cfg.
  - apply sem_chain_with.
  - cbn [apply_opt flat_opt]. revert cfg.
    induction ts as [|t ts IH]; intro cfg; cbn [fold_left flat_map].
    + rewrite app_nil_r. reflexivity.
    + inversion IHts as [|? ? Ht Hts]; subst.
      rewrite (IH Hts). rewrite Ht. rewrite app_assoc. reflexivity.
  - cbn [apply_opt flat_opt]. rewrite app_nil_r. reflexivity.
Qed.

Lemma sem_apply_all : forall ts cfg, sem_cfg (apply_all ts cfg) = sem_cfg cfg ++ flat_all ts.
Proof.
  unfold apply_all, flat_all. induction ts as [|t ts IH]; intro cfg; cbn [fold_left flat_map].
  - rewrite app_nil_r. reflexivity.
  - rewrite IH, sem_apply_opt, app_assoc. reflexivity.
Qed.

Lemma wrap_cfg_sem cfg f : wrap_cfg cfg f = fold_right wrap f (sem_cfg cfg).
Proof. destruct cfg as [x|]; [apply wrapI_sem | reflexivity]. Qed.

(* C16: the effective chain is the flat concatenation in declaration order,
   first interceptor outermost, nil entries skipped. *)
Lemma onion_lemma : forall (ts : list opt) (f : F),
  wrap_cfg (apply_all ts None) f = fold_right wrap f (flat_all ts).
Proof. intros ts f. rewrite wrap_cfg_sem, sem_apply_all. reflexivity. Qed.

(* any two groupings / nestings with the same flattening give the same function *)
Lemma grouping_irrelevant_lemma : forall ts1 ts2 f,
  flat_all ts1 = flat_all ts2 ->
  wrap_cfg (apply_all ts1 None) f = wrap_cfg (apply_all ts2 None) f.
Proof. intros ts1 ts2 f H. rewrite !onion_lemma, H. reflexivity. Qed.

End Interceptors.

Arguments User {I}.
Arguments Chain {I}.
Arguments WithInterceptors {I}.
Arguments WithOptions {I}.
Arguments OtherOption {I}.

(* ---------- event-order corollary with logging interceptors ---------- *)
(* F := list event -> list event : calling the function appends the events it
   produces; a logging interceptor i emits Req i, runs next, emits Res i. *)
Section Logging.
Variable I : Type.
Inductive event := Req (i : I) | Core | Res (i : I).
Definition logf := list event.   (* the trace produced by calling the function *)
Definition log_wrap (i : I) (next : logf) : logf := Req i :: next ++ [Res i].

Lemma log_onion (l : list I) :
  fold_right log_wrap [Core] l = map Req l ++ [Core] ++ map Res (rev l).
Proof.
  induction l as [|i l IH]; [reflexivity|].
  cbn [fold_right map rev]. unfold log_wrap at 1. rewrite IH.
  rewrite map_app. cbn [map]. rewrite <- !app_assoc. reflexivity.
Qed.

(* requests are seen outermost-first, responses innermost-first, each exactly once *)
Lemma event_order_lemma (ts : list (opt I)) :
  wrap_cfg I logf log_wrap (apply_all I ts None) [Core]
  = map Req (flat_all I ts) ++ [Core] ++ map Res (rev (flat_all I ts)).
Proof. rewrite onion_lemma. apply log_onion. Qed.
End Logging.
