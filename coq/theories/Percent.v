(* Percent.v — model of grpcPercentEncode(Slow) / grpcPercentDecode(Slow)
   (protocol_grpc.go:815-873). The escape alphabet comes from Generated.v. *)
From Coq Require Import List NArith Lia Bool.
From Coq.Strings Require Import Byte.
From Connect Require Import Bytes Generated.
Import ListNotations.
Local Open Scope N_scope.

(* fast path predicate (grpcPercentEncode) and slow path predicate
   (grpcPercentEncodeSlow): c < lo || c > hi || c == esc *)
Definition needs_escape_fast (b : byte) : bool :=
  (bN b <? percent_lo) || (percent_hi <? bN b) || (bN b =? percent_esc).
Definition needs_escape_slow (b : byte) : bool :=
  (bN b <? percent_lo_slow) || (percent_hi_slow <? bN b) || (bN b =? percent_esc_slow).

(* fmt "%02X" of one nibble *)
Definition hex_upper (n : N) : byte :=
  if n <? 10 then Nb (48 + n) else Nb (55 + n).

(* one hex digit as strconv.ParseUint(_, 16, 8) reads it: 0-9 a-f A-F *)
Definition unhex (b : byte) : option N :=
  let v := bN b in
  if (48 <=? v) && (v <=? 57) then Some (v - 48)
  else if (65 <=? v) && (v <=? 70) then Some (v - 55)
  else if (97 <=? v) && (v <=? 102) then Some (v - 87)
  else None.

Definition escape (b : byte) : bytes :=
  [x25; hex_upper (bN b / 16); hex_upper (bN b mod 16)].

(* grpcPercentEncodeSlow from the offset on: per byte *)
Fixpoint enc_slow (s : bytes) : bytes :=
  match s with
  | [] => []
  | b :: r => if needs_escape_slow b then escape b ++ enc_slow r else b :: enc_slow r
  end.

(* grpcPercentEncode: bytes before the first one the fast scan flags are
   copied unchanged; from there on the slow loop runs. *)
Fixpoint percent_encode (s : bytes) : bytes :=
  match s with
  | [] => []
  | b :: r => if needs_escape_fast b then enc_slow (b :: r) else b :: percent_encode r
  end.

Definition utf8_replacement : bytes := [xef; xbf; xbd].

(* grpcPercentDecode(Slow): '%' followed by at least two more bytes is an
   escape; two hex digits give the byte, anything else U+FFFD; both are
   skipped. A '%' with fewer than two bytes after it is copied. *)
Fixpoint percent_decode (s : bytes) : bytes :=
  match s with
  | [] => []
  | b :: r =>
    if byte_eqb b x25 then
      match r with
      | h :: l :: r' =>
        match unhex h, unhex l with
        | Some a, Some c => Nb (16 * a + c) :: percent_decode r'
        | _, _ => utf8_replacement ++ percent_decode r'
        end
      | _ => b :: percent_decode r
      end
    else b :: percent_decode r
  end.

(* strict reference decoder: rejects any '%' not followed by two hex digits *)
Fixpoint strict_decode (s : bytes) : option bytes :=
  match s with
  | [] => Some []
  | b :: r =>
    if byte_eqb b x25 then
      match r with
      | h :: l :: r' =>
        match unhex h, unhex l, strict_decode r' with
        | Some a, Some c, Some t => Some (Nb (16 * a + c) :: t)
        | _, _, _ => None
        end
      | _ => None
      end
    else match strict_decode r with Some t => Some (b :: t) | None => None end
  end.

Definition printable (b : byte) : bool := (32 <=? bN b) && (bN b <=? 126).

(* ---------------- sweeps over the 256 bytes (re-run when the alphabet moves) *)

Lemma escape_roundtrip_byte : forall b,
  match unhex (hex_upper (bN b / 16)), unhex (hex_upper (bN b mod 16)) with
  | Some a, Some c => byte_eqb (Nb (16 * a + c)) b
  | _, _ => false
  end = true.
Proof. apply byte_sweep. vm_compute. reflexivity. Qed.

Lemma raw_not_percent_slow : forall b,
  (needs_escape_slow b || negb (byte_eqb b x25)) = true.
Proof. apply byte_sweep. vm_compute. reflexivity. Qed.

Lemma raw_not_percent_fast : forall b,
  (needs_escape_fast b || negb (byte_eqb b x25)) = true.
Proof. apply byte_sweep. vm_compute. reflexivity. Qed.

Lemma raw_printable_slow : forall b, (needs_escape_slow b || printable b) = true.
Proof. apply byte_sweep. vm_compute. reflexivity. Qed.

Lemma raw_printable_fast : forall b, (needs_escape_fast b || printable b) = true.
Proof. apply byte_sweep. vm_compute. reflexivity. Qed.

Lemma escape_printable : forall b, forallb printable (escape b) = true.
Proof. apply byte_sweep. vm_compute. reflexivity. Qed.

(* ---------------- round trip *)

Lemma decode_escape b r : percent_decode (escape b ++ r) = b :: percent_decode r.
Proof.
  unfold escape. cbn [app percent_decode]. rewrite byte_eqb_refl.
  pose proof (escape_roundtrip_byte b) as H.
  destruct (unhex (hex_upper (bN b / 16))) as [a|]; [|discriminate].
  destruct (unhex (hex_upper (bN b mod 16))) as [c|]; [|discriminate].
  apply byte_eqb_eq in H. rewrite H. reflexivity.
Qed.

Lemma decode_raw b r : byte_eqb b x25 = false ->
  percent_decode (b :: r) = b :: percent_decode r.
Proof. intro H. cbn [percent_decode]. rewrite H. reflexivity. Qed.

Lemma enc_slow_roundtrip s : percent_decode (enc_slow s) = s.
Proof.
  induction s as [|b r IH]; [reflexivity|]. cbn [enc_slow].
  destruct (needs_escape_slow b) eqn:E.
  - rewrite decode_escape, IH. reflexivity.
  - pose proof (raw_not_percent_slow b) as H. rewrite E in H. simpl in H.
    apply negb_true_iff in H. rewrite decode_raw by exact H. rewrite IH. reflexivity.
Qed.

Lemma percent_roundtrip_lemma : forall s, percent_decode (percent_encode s) = s.
Proof.
  induction s as [|b r IH]; [reflexivity|]. cbn [percent_encode].
  destruct (needs_escape_fast b) eqn:E.
  - apply enc_slow_roundtrip.
  - pose proof (raw_not_percent_fast b) as H. rewrite E in H. simpl in H.
    apply negb_true_iff in H. rewrite decode_raw by exact H. rewrite IH. reflexivity.
Qed.

(* ---------------- output alphabet *)

Lemma enc_slow_printable s : forallb printable (enc_slow s) = true.
Proof.
  induction s as [|b r IH]; [reflexivity|]. cbn [enc_slow].
  destruct (needs_escape_slow b) eqn:E.
  - rewrite forallb_app, escape_printable, IH. reflexivity.
  - pose proof (raw_printable_slow b) as H. rewrite E in H. simpl in H.
    cbn [forallb]. rewrite H, IH. reflexivity.
Qed.

Lemma percent_printable_lemma : forall s, forallb printable (percent_encode s) = true.
Proof.
  induction s as [|b r IH]; [reflexivity|]. cbn [percent_encode].
  destruct (needs_escape_fast b) eqn:E.
  - apply enc_slow_printable.
  - pose proof (raw_printable_fast b) as H. rewrite E in H. simpl in H.
    cbn [forallb]. rewrite H, IH. reflexivity.
Qed.

(* no '%' is left unescaped: the strict decoder accepts the output *)
Lemma strict_escape b r t : strict_decode r = Some t ->
  strict_decode (escape b ++ r) = Some (b :: t).
Proof.
  intro Hr. unfold escape. cbn [app strict_decode]. rewrite byte_eqb_refl.
  pose proof (escape_roundtrip_byte b) as H.
  destruct (unhex (hex_upper (bN b / 16))) as [a|]; [|discriminate].
  destruct (unhex (hex_upper (bN b mod 16))) as [c|]; [|discriminate].
  apply byte_eqb_eq in H. rewrite Hr, H. reflexivity.
Qed.

Lemma enc_slow_strict s : strict_decode (enc_slow s) = Some s.
Proof.
  induction s as [|b r IH]; [reflexivity|]. cbn [enc_slow].
  destruct (needs_escape_slow b) eqn:E.
  - apply strict_escape. exact IH.
  - pose proof (raw_not_percent_slow b) as H. rewrite E in H. simpl in H.
    apply negb_true_iff in H. cbn [strict_decode]. rewrite H, IH. reflexivity.
Qed.

Lemma percent_strict_lemma : forall s, strict_decode (percent_encode s) = Some s.
Proof.
  induction s as [|b r IH]; [reflexivity|]. cbn [percent_encode].
  destruct (needs_escape_fast b) eqn:E.
  - apply enc_slow_strict.
  - pose proof (raw_not_percent_fast b) as H. rewrite E in H. simpl in H.
    apply negb_true_iff in H. cbn [strict_decode]. rewrite H, IH. reflexivity.
Qed.

(* the lenient decoder agrees with the strict one wherever the latter accepts *)
Lemma strict_implies_decode : forall s t, strict_decode s = Some t -> percent_decode s = t.
Proof.
  fix IH 1. intros s t. destruct s as [|b r]; cbn [strict_decode percent_decode].
  - intro H. inversion H. reflexivity.
  - destruct (byte_eqb b x25).
    + destruct r as [|h [|l r']]; try discriminate.
      destruct (unhex h) as [a|]; [|discriminate].
      destruct (unhex l) as [c|]; [|discriminate].
      destruct (strict_decode r') as [t'|] eqn:E; [|discriminate].
      intro H. inversion H. f_equal. apply IH. exact E.
    + destruct (strict_decode r) as [t'|] eqn:E; [|discriminate].
      intro H. inversion H. f_equal. apply IH. exact E.
Qed.

(* decoder output never exceeds 3 bytes per input byte (totality is structural) *)
Lemma percent_decode_length : forall s, (length (percent_decode s) <= 3 * length s)%nat.
Proof.
  fix IH 1. intro s. destruct s as [|b r]; cbn [percent_decode]; [simpl; lia|].
  destruct (byte_eqb b x25).
  - destruct r as [|h [|l r']].
    + simpl. lia.
    + cbn [percent_decode]. destruct (byte_eqb h x25); simpl; lia.
    + pose proof (IH r').
      destruct (unhex h); destruct (unhex l); cbn [length app utf8_replacement]; simpl length; lia.
  - pose proof (IH r). simpl length. lia.
Qed.
