(* Plumbing.v — the model's readers and writers take the read limit, the
   compress-min-bytes threshold, the pools and the codec as PARAMETERS. That the
   code passes the configured values to every reader / writer it builds is a
   structural fact about the source, extracted by the translator from every
   composite literal of envelopeWriter, envelopeReader, connectUnaryMarshaler
   and connectUnaryUnmarshaler (the plumbing_ definitions of Generated.v). Here they are required to
   hold; a literal that drops a field breaks this proof. *)
From Coq Require Import Bool.
From Connect Require Import Bytes Generated.

Lemma writers_receive_configuration :
  plumbing_envelope_writer_complete = true /\ plumbing_connect_unary_marshaler_complete = true.
Proof. split; reflexivity. Qed.

Lemma readers_receive_configuration :
  plumbing_envelope_reader_complete = true /\ plumbing_connect_unary_unmarshaler_complete = true.
Proof. split; reflexivity. Qed.

(* Further structural facts the models take for granted; each is stated by the
   property whose model relies on it (Props/C09, C10, C11, C13, C19). *)

(* C09: the decompressed-size limit is an argument of Decompress, passed by each
   reader from its own configuration (readers_receive_configuration); a
   compression pool — which an option value shares between every handler and
   client it is given to — holds no limit *)
Lemma decompress_limit_belongs_to_the_reader : decompress_limit_is_a_parameter = true.
Proof. reflexivity. Qed.

(* C10 / C15: the context a client interceptor hands down the chain is the
   context the protocol client builds the call with *)
Lemma chain_context_reaches_the_call : client_new_conn_uses_chain_context = true.
Proof. reflexivity. Qed.

(* C11: a server-streaming call merges the caller's request headers into those
   already on the conn (what an interceptor attached stays) *)
Lemma server_stream_headers_are_merged : server_stream_merges_request_headers = true.
Proof. reflexivity. Qed.

(* C13 / C05: the handler-side writers read an error's metadata and never write
   to it: an error value returned by many calls is not shared mutable state *)
Lemma error_metadata_is_read_only_for_the_library : handler_never_writes_error_meta = true.
Proof. reflexivity. Qed.

(* C19: whether a call panicked is recorded per call *)
Lemma panicked_flag_is_per_call : recover_flag_is_per_call = true.
Proof. reflexivity. Qed.

(* C13 / C14: the header and trailer maps of a response are written by the request
   goroutine (response validation) and handed to user code by accessors that first
   wait for close(responseReady): the hand-over is ordered after the writes *)
Lemma response_accessors_wait : client_accessors_wait_for_response = true.
Proof. reflexivity. Qed.

(* C14 / C06: for a 101 response net/http hands the connection itself over as the body and stops
   watching the context; makeRequest closes it and publishes an empty body instead, so every read
   and drain the call performs on its response is one the context (or the peer's end) interrupts *)
Lemma switching_protocols_body_replaced : duplex_101_body_replaced = true.
Proof. reflexivity. Qed.

(* C13: the error a client's construction failed with stays inside the client; every call
   that fails with it gets a copy (errors are mutable: Meta, AddDetail) *)
Lemma construction_error_is_private : client_construction_error_is_private = true.
Proof. reflexivity. Qed.
