(* Plumbing.v — the model's readers and writers take the read limit, the
   compress-min-bytes threshold, the pools and the codec as PARAMETERS. That the
   code passes the configured values to every reader / writer it builds is a
   structural fact about the source, extracted by the translator from every
   composite literal of envelopeWriter, envelopeReader, connectUnaryMarshaler
   and connectUnaryUnmarshaler (the plumbing_ definitions of Generated.v). Here they are required to
   hold; a literal that drops a field breaks this proof. *)
From Coq Require Import Bool.
From Connect Require Import Bytes Generated.

Lemma writers_receive_configuration :
  plumbing_envelope_writer_complete = true /\ plumbing_connect_unary_marshaler_complete = true.
Proof. split; reflexivity. Qed.

Lemma readers_receive_configuration :
  plumbing_envelope_reader_complete = true /\ plumbing_connect_unary_unmarshaler_complete = true.
Proof. split; reflexivity. Qed.
