(* Pool.v — ownership discipline of pooled buffers (buffer_pool.go and its
   users) and non-interference under arbitrary interleavings.

   Each code path that touches the pool is written as a SKELETON: the sequence
   of pool-relevant steps it performs on local buffer handles. A skeleton is
   DISCIPLINED when every use of a handle lies between its acquisition (Get
   from the pool, or New for a buffer wrapped around a fresh slice) and its
   single release (Put), and a handle that is kept ([Keep], envelopeReader.last)
   is never released.

   The theorem: a disciplined program interleaved in ANY way with an
   environment that may do anything to every buffer the program does not
   currently hold (other calls' appends and resets, the poison hook, sync.Pool
   handing buffers around) produces exactly the outputs it produces alone. *)
From Coq Require Import List Arith NArith Lia Bool.
From Coq.Strings Require Import Byte.
From Connect Require Import Bytes.
Import ListNotations.

Definition handle := nat.

Inductive step :=
| Get (h : handle)                 (* bufferPool.Get: some pooled or new buffer, empty *)
| New (h : handle) (d : bytes)     (* bytes.NewBuffer(slice): not from the pool *)
| Append (h : handle) (d : bytes)  (* write into the buffer *)
| Out (h : handle)                 (* hand the buffer's bytes to the codec / the writer / the result *)
| Put (h : handle)                 (* bufferPool.Put *)
| Keep (h : handle).               (* retained beyond the call (envelopeReader.last): never Put *)

(* ---- discipline ---- *)
Fixpoint mem_nat (x : nat) (l : list nat) : bool :=
  match l with [] => false | y :: r => Nat.eqb x y || mem_nat x r end.

Fixpoint remove_nat (x : nat) (l : list nat) : list nat :=
  match l with [] => [] | y :: r => if Nat.eqb x y then remove_nat x r else y :: remove_nat x r end.

(* held = handles acquired and not yet released; kept = handles retained *)
Fixpoint disciplined_from (held kept : list handle) (p : list step) : bool :=
  match p with
  | [] => true
  | Get h :: r => negb (mem_nat h held) && negb (mem_nat h kept) && disciplined_from (h :: held) kept r
  | New h _ :: r => negb (mem_nat h held) && negb (mem_nat h kept) && disciplined_from (h :: held) kept r
  | Append h _ :: r => mem_nat h held && disciplined_from held kept r
  | Out h :: r => mem_nat h held && disciplined_from held kept r
  | Put h :: r => mem_nat h held && negb (mem_nat h kept) && disciplined_from (remove_nat h held) kept r
  | Keep h :: r => mem_nat h held && disciplined_from held (h :: kept) r
  end.

Definition disciplined (p : list step) : bool := disciplined_from [] [] p.

(* ---- semantics with an adversarial environment ---- *)
(* the program's view: a content for every handle it holds *)
Definition view := handle -> bytes.

Definition upd (v : view) (h : handle) (d : bytes) : view :=
  fun x => if Nat.eqb x h then d else v x.

(* The environment acts between any two steps: it may replace the content of
   every handle NOT held by the program by anything (other calls reuse and
   overwrite pooled buffers; Put poisons released ones). [env] is indexed by the
   position in the run, so it is an arbitrary schedule of arbitrary actions. *)
Definition env := nat -> handle -> option bytes.   (* Some d: overwrite with d *)

Definition apply_env (e : handle -> option bytes) (held : list handle) (v : view) : view :=
  fun h => if mem_nat h held then v h else match e h with Some d => d | None => v h end.

Fixpoint run (e : env) (i : nat) (held : list handle) (v : view) (p : list step) : list bytes :=
  match p with
  | [] => []
  | s :: r =>
    let v := apply_env (e i) held v in          (* the environment moves first, arbitrarily *)
    match s with
    | Get h => run e (S i) (h :: held) (upd v h []) r     (* whatever the buffer held: it is Reset *)
    | New h d => run e (S i) (h :: held) (upd v h d) r
    | Append h d => run e (S i) held (upd v h (v h ++ d)) r
    | Out h => v h :: run e (S i) held v r
    | Put h => run e (S i) (remove_nat h held) v r
    | Keep h => run e (S i) held v r
    end
  end.

(* running alone: no environment *)
Definition quiet : env := fun _ _ => None.

(* ---- non-interference ---- *)
Lemma mem_remove x y l : mem_nat x (remove_nat y l) = mem_nat x l && negb (Nat.eqb x y).
Proof.
  induction l as [|z l IH]; cbn [remove_nat mem_nat]; [reflexivity|].
  destruct (Nat.eqb y z) eqn:E.
  - apply Nat.eqb_eq in E. subst z. rewrite IH.
    destruct (Nat.eqb x y) eqn:E2; cbn [orb negb]; [rewrite andb_false_r; reflexivity | reflexivity].
  - cbn [mem_nat]. rewrite IH. destruct (Nat.eqb x z) eqn:E2; cbn [orb].
    + apply Nat.eqb_eq in E2. subst z. rewrite Nat.eqb_sym, E. reflexivity.
    + reflexivity.
Qed.

(* two views agree on the held handles *)
Definition agree (held : list handle) (v1 v2 : view) : Prop :=
  forall h, mem_nat h held = true -> v1 h = v2 h.

Lemma agree_apply_env e1 e2 held v1 v2 :
  agree held v1 v2 -> agree held (apply_env e1 held v1) (apply_env e2 held v2).
Proof. intros H h Hh. unfold apply_env. rewrite Hh. apply H. exact Hh. Qed.

Lemma noninterference_from : forall p e1 e2 i j held kept v1 v2,
  disciplined_from held kept p = true ->
  agree held v1 v2 ->
  run e1 i held v1 p = run e2 j held v2 p.
Proof.
  induction p as [|s r IH]; intros e1 e2 i j held kept v1 v2 Hd Ha; [reflexivity|].
  cbn [run]. pose proof (agree_apply_env (e1 i) (e2 j) held v1 v2 Ha) as Ha'.
  set (w1 := apply_env (e1 i) held v1) in *. set (w2 := apply_env (e2 j) held v2) in *.
  destruct s as [h|h d|h d|h|h|h]; cbn [disciplined_from] in Hd.
  - apply andb_true_iff in Hd. destruct Hd as [_ Hd]. apply (IH _ _ _ _ _ kept); [exact Hd|].
    intros x Hx. unfold upd. destruct (Nat.eqb x h) eqn:E; [reflexivity|].
    cbn [mem_nat] in Hx. rewrite E in Hx. apply Ha'. exact Hx.
  - apply andb_true_iff in Hd. destruct Hd as [_ Hd]. apply (IH _ _ _ _ _ kept); [exact Hd|].
    intros x Hx. unfold upd. destruct (Nat.eqb x h) eqn:E; [reflexivity|].
    cbn [mem_nat] in Hx. rewrite E in Hx. apply Ha'. exact Hx.
  - apply andb_true_iff in Hd. destruct Hd as [Hm Hd]. apply (IH _ _ _ _ _ kept); [exact Hd|].
    intros x Hx. unfold upd. destruct (Nat.eqb x h) eqn:E.
    + rewrite (Ha' h Hm). reflexivity.
    + apply Ha'. exact Hx.
  - apply andb_true_iff in Hd. destruct Hd as [Hm Hd]. rewrite (Ha' h Hm). f_equal.
    apply (IH _ _ _ _ _ kept); assumption.
  - apply andb_true_iff in Hd. destruct Hd as [Hd1 Hd]. apply (IH _ _ _ _ _ kept); [exact Hd|].
    intros x Hx. rewrite mem_remove in Hx. apply andb_true_iff in Hx. destruct Hx as [Hx _]. apply Ha'. exact Hx.
  - apply andb_true_iff in Hd. destruct Hd as [_ Hd]. apply (IH _ _ _ _ _ (h :: kept)); assumption.
Qed.

(* C13 (buffers): a disciplined program's outputs under ANY environment
   schedule equal its outputs when run alone *)
Lemma noninterference_lemma : forall p e v,
  disciplined p = true -> run e 0 [] v p = run quiet 0 [] v p.
Proof.
  intros p e v Hd. apply (noninterference_from p e quiet 0 0 [] [] v v Hd).
  intros h Hh. discriminate Hh.
Qed.

(* and a kept buffer is never returned to the pool *)
Fixpoint puts (p : list step) : list handle :=
  match p with [] => [] | Put h :: r => h :: puts r | _ :: r => puts r end.
Fixpoint keeps (p : list step) : list handle :=
  match p with [] => [] | Keep h :: r => h :: keeps r | _ :: r => keeps r end.

Lemma kept_never_put_from : forall p held kept h,
  disciplined_from held kept p = true -> mem_nat h kept = true -> mem_nat h (puts p) = false.
Proof.
  induction p as [|s r IH]; intros held kept h Hd Hk; [reflexivity|].
  destruct s as [x|x d|x d|x|x|x]; cbn [disciplined_from puts] in *.
  - apply andb_true_iff in Hd. destruct Hd as [_ Hd]. eapply IH; eauto.
  - apply andb_true_iff in Hd. destruct Hd as [_ Hd]. eapply IH; eauto.
  - apply andb_true_iff in Hd. destruct Hd as [_ Hd]. eapply IH; eauto.
  - apply andb_true_iff in Hd. destruct Hd as [_ Hd]. eapply IH; eauto.
  - apply andb_true_iff in Hd. destruct Hd as [Hd1 Hd]. apply andb_true_iff in Hd1. destruct Hd1 as [_ Hnk].
    cbn [mem_nat]. destruct (Nat.eqb h x) eqn:E.
    + apply Nat.eqb_eq in E. subst x. rewrite Hk in Hnk. discriminate Hnk.
    + cbn [orb]. eapply IH; eauto.
  - apply andb_true_iff in Hd. destruct Hd as [_ Hd]. eapply IH; [eassumption|].
    cbn [mem_nat]. rewrite Hk. apply orb_true_r.
Qed.

Lemma disciplined_suffix : forall q1 held kept rest,
  disciplined_from held kept (q1 ++ rest) = true ->
  exists held' kept', disciplined_from held' kept' rest = true /\
                      (forall x, mem_nat x kept = true -> mem_nat x kept' = true).
Proof.
  induction q1 as [|s r IH]; intros held kept rest Hd.
  - exists held, kept. split; [exact Hd | auto].
  - cbn [app] in Hd. destruct s as [x|x d|x d|x|x|x]; cbn [disciplined_from] in Hd;
      apply andb_true_iff in Hd; destruct Hd as [_ Hd]; try (eapply IH; eassumption).
    destruct (IH _ _ _ Hd) as (h' & k' & H1 & H2). exists h', k'. split; [exact H1|].
    intros y Hy. apply H2. cbn [mem_nat]. rewrite Hy. apply orb_true_r.
Qed.

(* once a handle is kept (envelopeReader.last) it is never returned to the pool *)
Lemma kept_never_put_lemma : forall p q1 q2 h,
  disciplined p = true -> p = q1 ++ Keep h :: q2 -> mem_nat h (puts q2) = false.
Proof.
  intros p q1 q2 h Hd ->. unfold disciplined in Hd.
  destruct (disciplined_suffix q1 [] [] (Keep h :: q2) Hd) as (held' & kept' & H1 & _).
  cbn [disciplined_from] in H1. apply andb_true_iff in H1. destruct H1 as [_ H1].
  eapply kept_never_put_from; [exact H1|]. cbn [mem_nat]. rewrite Nat.eqb_refl. reflexivity.
Qed.

(* ---- the skeletons of the code paths (counts of Get / Put are what the
   hook trace of the implementation is compared with) ---- *)
Definition data : bytes := [x01].

(* envelopeWriter.Marshal, uncompressed: NewBuffer(raw); defer Put; write *)
Definition sk_marshal_plain : list step := [New 0 data; Out 0; Put 0].
(* ... compressed: Get data buffer; compress into it; write; Put both *)
Definition sk_marshal_compressed : list step := [New 0 data; Get 1; Append 1 data; Out 1; Put 1; Put 0].
(* envelopeReader.Unmarshal, plain message *)
Definition sk_unmarshal_plain : list step := [Get 0; Append 0 data; Out 0; Put 0].
(* ... compressed message *)
Definition sk_unmarshal_compressed : list step := [Get 0; Append 0 data; Get 1; Append 1 data; Out 1; Put 1; Put 0].
(* ... special envelope: a copy is kept in [last], the others are released *)
Definition sk_unmarshal_special : list step := [Get 0; Append 0 data; Get 2; Append 2 data; Keep 2; Put 0].
(* connectStreamingMarshaler.MarshalEndStream: NewBuffer(json); defer Put; Write *)
Definition sk_end_stream : list step := [New 0 data; Out 0; Put 0].
(* grpcMarshaler.MarshalWebTrailers: Get; trailer.Write(raw); Write; Put *)
Definition sk_web_trailers : list step := [Get 0; Append 0 data; Out 0; Put 0].
(* connectUnaryMarshaler.Marshal, compressed *)
Definition sk_unary_marshal_compressed : list step := [New 0 data; Get 1; Append 1 data; Out 1; Put 1; Put 0].
(* connectUnaryUnmarshaler.UnmarshalFunc, compressed *)
Definition sk_unary_unmarshal_compressed : list step := [Get 0; Append 0 data; Get 1; Append 1 data; Out 1; Put 1; Put 0].
(* grpcPercentEncodeSlow / DecodeSlow: Get; build; String() copies; Put *)
Definition sk_percent_slow : list step := [Get 0; Append 0 data; Out 0; Put 0].

Definition skeletons : list (list step) :=
  [sk_marshal_plain; sk_marshal_compressed; sk_unmarshal_plain; sk_unmarshal_compressed; sk_unmarshal_special;
   sk_end_stream; sk_web_trailers; sk_unary_marshal_compressed; sk_unary_unmarshal_compressed; sk_percent_slow].

Lemma skeletons_disciplined : forallb disciplined skeletons = true.
Proof. vm_compute. reflexivity. Qed.

(* what breaks the discipline: using the buffer after releasing it *)
Example use_after_put_not_disciplined : disciplined [Get 0; Append 0 data; Put 0; Out 0] = false.
Proof. reflexivity. Qed.
(* ... and then the environment can change the output *)
Example use_after_put_interferes :
  run (fun i h => if Nat.eqb i 3 then Some [xdd] else None) 0 [] (fun _ => []) [Get 0; Append 0 data; Put 0; Out 0]
  <> run quiet 0 [] (fun _ => []) [Get 0; Append 0 data; Put 0; Out 0].
Proof. vm_compute. discriminate. Qed.

Definition count_gets (p : list step) : nat := length (filter (fun s => match s with Get _ => true | _ => false end) p).
Definition count_puts (p : list step) : nat := length (puts p).
