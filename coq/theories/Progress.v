(* Progress.v — what the library's own goroutines still have to do, and that
   they can do it: the waits of duplexHTTPCall that are NOT waits for the peer.

   Duplex.v's operations return [OBlocked] where the real code waits. Here:
   - a Read / CloseRead blocked on responseReady always has an enabled step of
     the request goroutine ahead of it, at most two such steps make it ready,
     and nothing anyone does can undo them (a ranking that never increases);
   - the context watcher is alive for as long as both ends of the request pipe
     are open, so a cancellation is always acted upon: it closes the pipe, which
     is what releases a blocked pipe write and the transport's blocked read;
   - a Write never engages a pipe whose read side is closed (it cannot block
     there);
   - once the client has closed the request side or its context has ended, the
     library's goroutines run to completion whatever Do returns, and in the
     resulting quiescent state no goroutine step is enabled any more, for ever.

   The peer's part — Do returning, the body yielding data or its end — is the
   environment's and stays an assumption ("any handler that terminates"). *)
From Coq Require Import List NArith Lia Bool Arith.
From Connect Require Import Bytes Generated Duplex.
Import ListNotations.

Definition ready_rank (s : dstate) : nat :=
  if ready s then 0 else if returned s then 1 else 2.

Lemma rank_never_increases s e : ready_rank (fst (step s e)) <= ready_rank s.
Proof.
  unfold ready_rank. destruct s as [st wt rt rd de hr pr pw bc cx].
  destruct e as [| |b|rest|x|r| |k| | |]; cbn.
  - destruct cx; cbn; [|destruct pr, pw; cbn]; destruct rd, rt; cbn; lia.
  - destruct rd, rt; cbn; lia.
  - destruct rd; cbn; [|destruct rt; lia]. destruct de; cbn; [lia|]. destruct cx; cbn; [lia|].
    destruct hr; cbn; [destruct b|]; cbn; lia.
  - destruct rd; cbn; [|destruct rt; lia]. destruct hr; cbn; lia.
  - destruct rd, rt; cbn; lia.
  - destruct st; cbn; [|destruct rd, rt; lia]. destruct rt; cbn; [destruct rd; lia|].
    destruct r as [y|[y|] [|]]; cbn; destruct rd; lia.
  - destruct rt; cbn; [|destruct rd; lia]. destruct rd; cbn; lia.
  - destruct rd, rt; cbn; lia.
  - destruct wt; cbn; [|destruct rd, rt; lia]. destruct cx; cbn; destruct rd, rt; lia.
  - destruct wt; cbn; [|destruct rd, rt; lia]. destruct pr; cbn; [destruct rd, rt; lia|]. destruct pw; cbn; destruct rd, rt; lia.
  - destruct rd, rt; cbn; lia.
Qed.

(* a blocked Read has an enabled goroutine step that lowers the rank *)
Lemma blocked_read_progress_lemma : forall s b,
  started s = true -> snd (step s (URead b)) = OBlocked ->
  (returned s = false /\ forall r, ready_rank (fst (step s (GDo r))) < ready_rank s) \/
  (returned s = true /\ ready_rank (fst (step s GReady)) < ready_rank s).
Proof.
  intros s b S B. unfold ready_rank. destruct s as [st wt rt rd de hr pr pw bc cx]. cbn in *. subst st.
  destruct rd; cbn in *.
  - destruct de; [discriminate|]. destruct cx; [discriminate|]. destruct hr; cbn in B; [destruct b|]; discriminate.
  - destruct rt; [right|left]; split; auto.
    intro r. destruct r as [x|[x|] [|]]; cbn; lia.
Qed.

Lemma started_step s e : started s = true -> started (fst (step s e)) = true.
Proof. intro H0. case_step s e; fin; rewrite ?H0 in *; fin. Qed.

Lemma returned_step s e : returned s = true -> returned (fst (step s e)) = true.
Proof. intro H0. case_step s e; fin; rewrite ?H0 in *; fin. Qed.

Lemma run_cons s e es : run s (e :: es) = let '(s1, o) := step s e in let '(s2, os) := run s1 es in (s2, o :: os).
Proof. reflexivity. Qed.

Lemma fst_run_app s a b : fst (run s (a ++ b)) = fst (run (fst (run s a)) b).
Proof. rewrite run_app. destruct (run s a) as [s1 o1]. cbn [fst]. destruct (run s1 b). reflexivity. Qed.

Lemma fst_run_cons s e es : fst (run s (e :: es)) = fst (run (fst (step s e)) es).
Proof. cbn [run]. destruct (step s e) as [s1 o]. cbn [fst]. destruct (run s1 es). reflexivity. Qed.

(* once started, the two steps of the request goroutine — wherever they fall in
   the history, whatever Do returns — make the response ready, for good *)
Lemma ready_after_goroutine_steps_lemma : forall es1 es2 es3 r s,
  started s = true ->
  ready (fst (run s (es1 ++ GDo r :: es2 ++ GReady :: es3))) = true.
Proof.
  intros es1 es2 es3 r s S.
  rewrite fst_run_app, fst_run_cons, fst_run_app, fst_run_cons.
  set (s1 := fst (run s es1)).
  assert (S1 : started s1 = true) by (apply (lift_run (fun s => started s = true) started_step); exact S).
  set (s2 := fst (step s1 (GDo r))).
  assert (R2 : returned s2 = true).
  { subst s2. destruct s1 as [st wt rt rd de hr pr pw bc cx]. cbn in *. subst st. cbn.
    destruct rt; cbn; [reflexivity|]. destruct r as [x|[x|] [|]]; reflexivity. }
  set (s3 := fst (run s2 es2)).
  assert (R3 : returned s3 = true) by (apply (lift_run (fun s => returned s = true) returned_step); exact R2).
  set (s4 := fst (step s3 GReady)).
  assert (R4 : ready s4 = true).
  { subst s4. destruct s3 as [st wt rt rd de hr pr pw bc cx]. cbn in *. subst rt. cbn. destruct rd; reflexivity. }
  apply ready_persistent. exact R4.
Qed.

(* the pipe's read side, once closed, stays closed; a Write then never engages the pipe *)
Lemma pipe_closed_step s e : pipe_r_closed s = true -> pipe_r_closed (fst (step s e)) = true.
Proof. intro H0. case_step s e; fin; rewrite ?H0 in *; fin. Qed.

Lemma write_never_engages_closed_pipe_lemma : forall es s,
  pipe_r_closed s = true -> snd (step (fst (run s es)) UWrite) <> OOk.
Proof.
  intros es s P.
  pose proof (lift_run (fun s => pipe_r_closed s = true) pipe_closed_step es s P) as P'. cbn beta in P'.
  destruct (fst (run s es)) as [st wt rt rd de hr pr pw bc cx]. cbn in *. subst pr.
  destruct cx; cbn; discriminate.
Qed.

(* the watcher is alive as long as the call is started and both pipe ends are open *)
Definition watch_inv (s : dstate) : Prop :=
  started s = true -> watching s = false -> pipe_r_closed s = true \/ pipe_w_closed s = true.

Lemma watch_inv_init : watch_inv init.
Proof. unfold watch_inv, init. cbn. discriminate. Qed.

Lemma watch_inv_step s e : watch_inv s -> watch_inv (fst (step s e)).
Proof.
  unfold watch_inv. intro I. case_step s e; cbn in *; intros; auto; try discriminate;
    try (destruct (started s); cbn in *; try discriminate; auto);
    try (destruct (started s), (watching s); cbn in *; try discriminate; auto).
Qed.

Lemma watcher_alive_while_pipe_open_lemma : forall es,
  let s := final es in
  started s = true -> pipe_r_closed s = false -> pipe_w_closed s = false -> watching s = true.
Proof.
  intros es s S P W. pose proof (lift_run watch_inv watch_inv_step es init watch_inv_init) as I.
  fold (final es) in I. fold s in I. unfold watch_inv in I.
  destruct (watching s) eqn:Wt; [reflexivity|]. destruct (I S eq_refl); congruence.
Qed.

(* so the end of the context is always acted upon: the watcher's step closes
   the pipe and records the context's error (unless an earlier error stands) *)
Lemma cancellation_closes_pipe_lemma : forall s k,
  watching s = true -> ctx s = Some k ->
  let s' := fst (step s GWatchCtx) in
  pipe_r_closed s' = true /\ watching s' = false /\
  (derr s = None -> derr s' = Some (Coded (ctx_code k))) /\
  snd (step s' UWrite) = OErr (Coded (ctx_code k)).
Proof.
  intros s k W C. destruct s as [st wt rt rd de hr pr pw bc cx]. cbn in *. subst wt cx. cbn.
  repeat split. intro D. subst de. reflexivity.
Qed.

(* quiescence: the library has nothing left to run *)
Definition quiescent (s : dstate) : Prop := started s = true /\ returned s = true /\ ready s = true /\ watching s = false.

Lemma quiescent_no_goroutine_step_lemma : forall s,
  quiescent s ->
  (forall r, step s (GDo r) = (s, ONone)) /\ step s GReady = (s, ONone) /\
  step s GWatchCtx = (s, ONone) /\ step s GWatchExit = (s, ONone).
Proof.
  intros s (S & Rt & R & W).
  destruct s as [st wt rt rd de hr pr pw bc cx]. cbn in *. subst st rt rd wt.
  repeat split; cbn; reflexivity.
Qed.

Lemma watching_off_step s e : started s = true -> watching s = false -> watching (fst (step s e)) = false.
Proof. intros H0 H1. case_step s e; fin; rewrite ?H0, ?H1 in *; fin. Qed.

Lemma quiescent_step s e : quiescent s -> quiescent (fst (step s e)).
Proof.
  intros (S & Rt & R & W). repeat split.
  - apply started_step; exact S.
  - apply returned_step; exact Rt.
  - apply ready_step; exact R.
  - apply watching_off_step; assumption.
Qed.

Lemma quiescent_stable_lemma : forall es s, quiescent s -> quiescent (fst (run s es)).
Proof. exact (lift_run quiescent quiescent_step). Qed.

(* C14: a client that has closed the request side, or whose context has ended,
   leaves nothing of the library running once its goroutines have taken their
   remaining steps — whatever Do returns *)
Lemma finished_call_quiesces_lemma : forall s r,
  started s = true -> (pipe_w_closed s = true \/ ctx s <> None) ->
  quiescent (fst (run s [GDo r; GReady; GWatchCtx; GWatchExit])).
Proof.
  intros s r S F. destruct s as [st wt rt rd de hr pr pw bc cx]. cbn in S. subst st.
  unfold quiescent.
  destruct F as [F|F]; cbn in F.
  - subst pw.
    destruct rt, rd, wt, cx as [k|], pr; destruct r as [x|[x|] [|]]; cbn; auto.
  - destruct cx as [k|]; [|congruence].
    destruct rt, rd, wt, pr, pw; destruct r as [x|[x|] [|]]; cbn; auto.
Qed.
