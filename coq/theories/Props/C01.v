(* Props/C01.v — C01: every message sent is received intact, in order, exactly once.
   Statements only; proofs live in Envelope.v.

   The theorems are stated for ANY message type M with a codec satisfying
   Unmarshal(Marshal m) = m (into any holder) and "empty encoding = zero value",
   ANY lossless compressor, any compress-min-bytes, pool presence and read limit:
   these are the configurations the property quantifies over. The three
   protocols and both directions share this envelope layer; what follows the
   messages ([tail]: nothing, a Connect end-of-stream envelope, a gRPC-Web
   trailer frame) is handed over unchanged to the protocol layer. *)
From Coq Require Import List NArith Bool.
From Coq.Strings Require Import Byte.
From Connect Require Import Bytes Generated GoIO Envelope.
From Connect Require Plumbing.
Import ListNotations.
Local Open Scope N_scope.

Section C01.
Variable M : Type.
Variable marshal : M -> bytes.
Variable unmarshal_into : bytes -> M -> option M.
Variable compress : bytes -> bytes.
Variable decompress : bytes -> option bytes.
Variable zero : M.
Hypothesis codec_roundtrip : forall m h, unmarshal_into (marshal m) h = Some m.
Hypothesis empty_is_zero : forall m, marshal m = [] -> m = zero.
Hypothesis compress_roundtrip : forall x, decompress (compress x) = Some x.
Hypothesis compress_nonempty : forall x, compress x = [] -> x = [].

(* The receiving side's API yields exactly the sequence the sending side passed
   in — same count, order and content, zero-valued (empty-encoding) messages at
   any position — and then continues with whatever follows on the stream. *)
Theorem stream_roundtrip :
  forall (spool : bool) (smin : N) (rpool : bool) (rmax : N) (msgs : list M) (k : nat) (tail : bytes) (f : fin),
  (spool = true -> rpool = true) ->
  Forall (fits M marshal compress spool smin rmax) msgs ->
  recv_n_f M unmarshal_into decompress zero (length msgs + k) rmax rpool
           (send_all M marshal compress spool smin msgs ++ tail, f)
  = map UMsg msgs ++ recv_n_f M unmarshal_into decompress zero k rmax rpool (tail, f).
Proof.
  exact (stream_roundtrip_lemma M marshal unmarshal_into compress decompress zero
           codec_roundtrip empty_is_zero compress_roundtrip compress_nonempty).
Qed.
Print Assumptions stream_roundtrip.

(* ... followed by a clean end-of-stream when the stream ends cleanly there. *)
Theorem stream_roundtrip_clean_end :
  forall spool smin rpool rmax msgs,
  (spool = true -> rpool = true) ->
  Forall (fits M marshal compress spool smin rmax) msgs ->
  recv_n_f M unmarshal_into decompress zero (length msgs + 1) rmax rpool
           (send_all M marshal compress spool smin msgs, CleanEOF)
  = map UMsg msgs ++ [UErr REOF].
Proof.
  intros spool smin rpool rmax msgs Hp Hf.
  pose proof (stream_roundtrip spool smin rpool rmax msgs 1 [] CleanEOF Hp Hf) as H.
  rewrite app_nil_r in H. exact H.
Qed.
Print Assumptions stream_roundtrip_clean_end.

(* The same through any segmentation of the transport (with C03). *)
Theorem stream_roundtrip_any_transport :
  forall spool smin rpool rmax msgs (t : transport),
  (spool = true -> rpool = true) ->
  Forall (fits M marshal compress spool smin rmax) msgs ->
  flatten t = (send_all M marshal compress spool smin msgs, CleanEOF) ->
  recv_n_c M unmarshal_into decompress zero (length msgs + 1) rmax rpool t
  = map UMsg msgs ++ [UErr REOF].
Proof.
  intros spool smin rpool rmax msgs t Hp Hf Ht.
  rewrite recv_n_sim, Ht. apply stream_roundtrip_clean_end; assumption.
Qed.
Print Assumptions stream_roundtrip_any_transport.

(* What earlier messages contained is irrelevant: with a non-empty encoding the
   holder's previous content never shows. *)
Theorem holder_irrelevant :
  forall spool smin rpool rmax m h1 h2 rest f,
  (spool = true -> rpool = true) -> fits M marshal compress spool smin rmax m -> marshal m <> [] ->
  env_unmarshal_f M unmarshal_into decompress rmax rpool h1 (send_msg M marshal compress spool smin m ++ rest, f) =
  env_unmarshal_f M unmarshal_into decompress rmax rpool h2 (send_msg M marshal compress spool smin m ++ rest, f).
Proof.
  exact (holder_irrelevant_nonempty M marshal unmarshal_into compress decompress zero
           codec_roundtrip empty_is_zero compress_roundtrip compress_nonempty).
Qed.
Print Assumptions holder_irrelevant.
(* Unary Connect requests (the body is the message, Content-Encoding says whether
   it is compressed): one header map used for any list of messages — a
   *connect.Request sent again and again, sizes on either side of
   compress-min-bytes — every attempt's message is what the receiver decodes.
   [unary_call] is built from the translator's fact that NewConn clears the
   header before the marshaler decides (repaired in /repo, 97e720c). *)
Theorem unary_request_reuse_roundtrip : forall pool min_bytes (ms : list M) labelled_before h,
  Forall2 (fun m w => unary_unmarshal_f M unmarshal_into decompress 0 (snd w) h (fst w, CleanEOF) = inl m)
          ms (unary_calls M marshal compress pool min_bytes labelled_before ms).
Proof.
  exact (unary_reuse_roundtrip_lemma M marshal unmarshal_into compress decompress
           codec_roundtrip compress_roundtrip compress_nonempty).
Qed.

End C01.

Check unary_request_reuse_roundtrip.
Print Assumptions unary_request_reuse_roundtrip.
Print Assumptions stream_roundtrip.
Print Assumptions stream_roundtrip_clean_end.
Print Assumptions stream_roundtrip_any_transport.
Print Assumptions holder_irrelevant.

(* one frame parses back to its flags and payload, leaving the rest *)
Theorem frame_parse : forall max fl data rest f,
  fl < 256 -> len data < two32 -> (max = 0 \/ len data <= max) ->
  env_read_f max (frame fl data ++ rest, f) = (inl (fl, data), (rest, f)).
Proof. exact env_read_frame. Qed.
Print Assumptions frame_parse.

(* Non-vacuity: the hypotheses are satisfiable — the identity codec on byte
   strings and the one-byte-tag compressor satisfy all four, and a 3-message
   stream with a zero-valued message in the middle meets [fits]. *)
Definition id_unmarshal (data : bytes) (_ : bytes) : option bytes := Some data.
Definition tag_compress (x : bytes) : bytes := x41 :: x.
Definition tag_decompress (x : bytes) : option bytes := match x with _ :: r => Some r | [] => None end.

Example hypotheses_satisfiable :
  (forall m h, id_unmarshal ((fun m : bytes => m) m) h = Some m) /\
  (forall m : bytes, (fun m : bytes => m) m = [] -> m = []) /\
  (forall x, tag_decompress (tag_compress x) = Some x) /\
  (forall x, tag_compress x = [] -> x = []) /\
  Forall (fits bytes (fun m => m) tag_compress true 2 0) [[x07]; []; [x03; x04; x05]] /\
  recv_n_f bytes id_unmarshal tag_decompress [] 4 0 true
     (send_all bytes (fun m => m) tag_compress true 2 [[x07]; []; [x03; x04; x05]], CleanEOF)
  = [UMsg [x07]; UMsg []; UMsg [x03; x04; x05]; UErr REOF].
Proof.
  repeat split; try (intros; reflexivity); try (intros; discriminate).
  - intros m H. exact H.
  - repeat constructor; vm_compute; auto; try reflexivity.
Qed.

(* every writer the code builds receives the configured threshold, pools and codec (the reader side is in Props/C09): extracted from every composite literal in the source by the translator on each run *)
Theorem configuration_reaches_the_writers :
  plumbing_envelope_writer_complete = true /\ plumbing_connect_unary_marshaler_complete = true.
Proof. exact Plumbing.writers_receive_configuration. Qed.
Print Assumptions configuration_reaches_the_writers.
