(* Props/C02.v — C02: handler errors reach the client with code, message, details and metadata.
   Statements only; proofs live in ErrWire.v (composition), Codes.v, Percent.v,
   Base64.v (C18) and Header.v.

   External serialisations (binary Protobuf of google.rpc.Status, protojson of
   connect.error.v1.Error, JSON of the end-of-stream message) are section
   hypotheses "decode (encode x) = x". Environment assumption (named): the HTTP
   layer delivers header and trailer maps unchanged for the values used. The
   statements are per carrier, so "whether or not response messages were
   already sent" is a case of the theorems (HTTP trailers / trailer frame /
   end-of-stream envelope after messages; trailers-only headers / unary body
   before any), not a sample. *)
From Coq Require Import List NArith Lia Bool.
From Coq.Strings Require Import Byte String.
From Connect Require Import Bytes Generated Codes Header ErrWire.
Import ListNotations.
Local Open Scope N_scope.

Section C02.
Variable D : Type.
Variable status_marshal : N -> bytes -> list D -> bytes.
Variable status_unmarshal : bytes -> option (N * bytes * list D).
Hypothesis status_roundtrip : forall c m ds, status_unmarshal (status_marshal c m ds) = Some (c, m, ds).
Variable wire_marshal : bytes -> bytes -> list D -> bytes.
Variable wire_unmarshal : bytes -> option (bytes * bytes * list D).
Hypothesis wire_roundtrip : forall c m ds, wire_unmarshal (wire_marshal c m ds) = Some (c, m, ds).
Variable end_marshal : option (bytes * bytes * list D) -> hmap -> bytes.
Variable end_unmarshal : bytes -> option (option (bytes * bytes * list D) * hmap).
Hypothesis end_roundtrip : forall e md, exists md',
  end_unmarshal (end_marshal e md) = Some (e, md') /\ forall k, values k md' = values k md.

(* gRPC and gRPC-Web, any carrier of the trailer map *)
Theorem grpc_error_roundtrip : forall (headers trailer : hmap) (e : err D),
  e_code e <> 0 -> e_code e < two31 ->
  status_marshal (e_code e) (e_msg e) (e_details e) <> [] ->
  exists e',
    grpc_error_from_trailer_full D status_unmarshal headers
      (grpc_error_to_trailer D status_marshal trailer (Some e)) = inl (Some e') /\
    e_code e' = e_code e /\ e_msg e' = e_msg e /\ e_details e' = e_details e /\
    forall k, ~ reserved_grpc k ->
      values k (e_meta e') = values k headers ++ values k trailer ++
                             (if message_header k then [] else values k (e_meta e)).
Proof. exact (grpc_error_roundtrip_lemma D status_marshal status_unmarshal status_roundtrip). Qed.
Print Assumptions grpc_error_roundtrip.

(* unary Connect: a failed call always has a 4xx/5xx status, never 2xx *)
Theorem connect_unary_error_roundtrip : forall header trailer (e : err D),
  e_code e <> 0 -> e_code e < Codes.two32 ->
  no_prefixed_key connect_unary_trailer_prefix header ->
  no_prefixed_key connect_unary_trailer_prefix (e_meta e) ->
  let '(status, hdr, body) := connect_unary_error_response D wire_marshal header trailer e in
  400 <= status < 600 /\
  exists e', connect_unary_error_decode D wire_unmarshal status hdr body = Some e' /\
    e_code e' = e_code e /\ e_msg e' = e_msg e /\ e_details e' = e_details e /\
    forall k, values k (e_meta e') = values k header ++ (if message_header k then [] else values k (e_meta e)) ++ values k trailer.
Proof. exact (connect_unary_error_roundtrip_lemma D wire_marshal wire_unmarshal wire_roundtrip). Qed.
Print Assumptions connect_unary_error_roundtrip.

(* Connect streaming: the end-of-stream envelope *)
Theorem connect_stream_error_roundtrip : forall headers trailer (e : err D),
  e_code e <> 0 -> e_code e < Codes.two32 ->
  exists e' md,
    connect_end_decode D end_unmarshal headers (connect_end_stream D end_marshal trailer (Some e)) = Some (Some e', md) /\
    e_code e' = e_code e /\ e_msg e' = e_msg e /\ e_details e' = e_details e /\
    forall k, values k (e_meta e') = values k headers ++ values k trailer ++
                                     (if message_header k then [] else values k (e_meta e)).
Proof. exact (connect_stream_error_roundtrip_lemma D end_marshal end_unmarshal end_roundtrip). Qed.
Print Assumptions connect_stream_error_roundtrip.
End C02.
Print Assumptions grpc_error_roundtrip.
Print Assumptions connect_unary_error_roundtrip.
Print Assumptions connect_stream_error_roundtrip.

(* which metadata is left out: only names of the HTTP message vocabulary (the list extracted from
   mergeMetadataHeaders is within the fixed set below) - never a name an application chooses for
   its own metadata, and none of the protocols' own prefixes *)
Definition http_message_vocabulary : list bytes :=
  map list_byte_of_string
    ["Content-Type"; "Content-Length"; "Content-Encoding"; "Content-Language"; "Content-Location";
     "Content-Range"; "Host"; "User-Agent"; "Trailer"; "Date"; "Connection"; "Keep-Alive";
     "Transfer-Encoding"; "Te"; "Upgrade"; "Accept-Encoding"; "Server"; "Via"]%string.

Theorem only_http_message_names_are_left_out : forall k,
  message_header k = true -> In k http_message_vocabulary.
Proof.
  intros k Hk. unfold message_header in Hk. apply existsb_exists in Hk.
  destruct Hk as (x & Hin & Heq). apply bs_eqb_eq in Heq. subst x.
  assert (forallb (fun x => existsb (bs_eqb x) http_message_vocabulary) metadata_excluded_headers = true) as Hall
    by (vm_compute; reflexivity).
  rewrite forallb_forall in Hall. specialize (Hall k Hin). apply existsb_exists in Hall.
  destruct Hall as (y & Hy & E). apply bs_eqb_eq in E. subst y. exact Hy.
Qed.
Print Assumptions only_http_message_names_are_left_out.

(* so every other key arrives, on the three protocols (the corollary the property asks for) *)
Theorem application_metadata_arrives : forall (D : Type) sm su
  (R : forall c m ds, su (sm c m ds) = Some (c, m, ds))
  (headers trailer : hmap) (e : err D) k,
  e_code e <> 0 -> e_code e < two31 -> sm (e_code e) (e_msg e) (e_details e) <> [] ->
  ~ reserved_grpc k -> ~ In k http_message_vocabulary ->
  exists e',
    grpc_error_from_trailer_full D su headers (grpc_error_to_trailer D sm trailer (Some e)) = inl (Some e') /\
    values k (e_meta e') = values k headers ++ values k trailer ++ values k (e_meta e).
Proof.
  intros D sm su R headers trailer e k Hnz Hlt Hne Hres Hvoc.
  destruct (grpc_error_roundtrip D sm su R headers trailer e Hnz Hlt Hne) as (e' & Hd & _ & _ & _ & Hm).
  exists e'. split; [exact Hd|]. rewrite (Hm k Hres).
  destruct (message_header k) eqn:M; [|reflexivity].
  exfalso. apply Hvoc. apply only_http_message_names_are_left_out. exact M.
Qed.
Print Assumptions application_metadata_arrives.

(* a plain Go error travels as code unknown with its text (then the theorems above apply) *)
Theorem plain_error_is_unknown : forall (D : Type) (text : bytes),
  e_code (wrap_uncoded D text) = 2 /\ e_msg (wrap_uncoded D text) = text.
Proof. intros. split; reflexivity. Qed.
Print Assumptions plain_error_is_unknown.

(* the hypotheses are satisfiable (toy serialisations) and the 16 codes meet the side conditions *)
Example codes_meet_side_conditions :
  forall c, 1 <= c <= 16 -> c <> 0 /\ c < Codes.two32 /\ c < two31.
Proof. intros c H. unfold Codes.two32, two31. lia. Qed.
