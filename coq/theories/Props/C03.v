(* Props/C03.v — C03: decoding does not depend on how the transport segments the bytes.
   Statements only; proofs live in GoIO.v and Envelope.v.

   A transport is a list of chunks (what successive Read calls return) plus the
   way it ends (EOF on a separate read, EOF together with the last data, or a
   failure); [flatten] forgets the chunking. *)
From Coq Require Import List NArith Bool.
From Coq.Strings Require Import Byte.
From Connect Require Import Bytes GoIO Envelope.
Import ListNotations.
Local Open Scope N_scope.

(* The composite reads the library uses (io.ReadFull for the prefix, the CopyN
   loop for the payload, CopyN to io.Discard for oversize frames) deliver the
   same bytes, the same completeness flag and leave the same remaining stream
   for any two transports with the same flattening. *)
Theorem pull_independent : forall n t1 t2,
  flatten t1 = flatten t2 ->
  let '(g1, t1', ok1) := pull n t1 in
  let '(g2, t2', ok2) := pull n t2 in
  g1 = g2 /\ ok1 = ok2 /\ flatten t1' = flatten t2'.
Proof. exact pull_segmentation_independent. Qed.
Print Assumptions pull_independent.

(* Enveloped streams, all three protocols, both directions: for every codec
   and decompressor, every read limit, every number k of Receive calls, and ANY
   two transports carrying the same bytes and ending the same way — valid or
   malformed — the k results (messages, end-of-stream, coded errors, special
   envelopes handed to the protocol layer) are identical. *)
Theorem segmentation_independent :
  forall (M : Type) (unmarshal_into : bytes -> M -> option M)
         (decompress : bytes -> option bytes) (zero : M)
         (k : nat) (max : N) (pool : bool) (t1 t2 : transport),
  flatten t1 = flatten t2 ->
  recv_n_c M unmarshal_into decompress zero k max pool t1 =
  recv_n_c M unmarshal_into decompress zero k max pool t2.
Proof. exact segmentation_independent_lemma. Qed.
Print Assumptions segmentation_independent.

Example segmentation_independent_nonvacuous :
  flatten (mkT [[x00; x00; x00; x00; x02; x08; x05]] CleanEOF) =
  flatten (mkT [[x00]; [x00; x00]; [x00; x02; x08]; [x05]] EOFWithData).
Proof. reflexivity. Qed.

(* Connect unary bodies (ReadFrom until EOF): likewise. *)
Theorem unary_segmentation_independent_thm :
  forall (M : Type) (unmarshal_into : bytes -> M -> option M)
         (decompress : bytes -> option bytes)
         (max : N) (pool : bool) (h : M) (t1 t2 : transport),
  flatten t1 = flatten t2 ->
  unary_unmarshal_c M unmarshal_into decompress max pool h t1 =
  unary_unmarshal_c M unmarshal_into decompress max pool h t2.
Proof. exact unary_segmentation_independent. Qed.
Print Assumptions unary_segmentation_independent_thm.

(* For the record: a single Read call is not a function of the flattened
   stream, which is why the pinned tree (prefix read with one Read) rejected
   valid bodies delivered in small pieces. *)
Theorem single_read_refuted :
  exists t1 t2, flatten t1 = flatten t2 /\
    env_read_prefix_single t1 = true /\ env_read_prefix_single t2 = false.
Proof. exact prefix_single_read_refuted. Qed.
Print Assumptions single_read_refuted.
