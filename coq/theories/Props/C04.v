(* Props/C04.v — C04: a call succeeds only if the peer's end-of-stream marker arrived.
   Statements only; proofs live in Cut.v and ClientRecv.v.

   Environment assumption E0 (named, not proved): for unary Connect, whose
   terminator is "the complete HTTP body", a short body is what net/http
   reports as an unexpected EOF (modelled here as the transport end [Fail
   EUnexpectedEOF]). *)
From Coq Require Import List NArith Bool.
From Coq.Strings Require Import Byte.
From Connect Require Import Bytes Generated GoIO Envelope Cut ClientRecv.
Import ListNotations.
Local Open Scope N_scope.

Section C04.
Variable M : Type.
Variable marshal : M -> bytes.
Variable unmarshal_into : bytes -> M -> option M.
Variable compress : bytes -> bytes.
Variable decompress : bytes -> option bytes.
Variable zero : M.
Hypothesis codec_roundtrip : forall m h, unmarshal_into (marshal m) h = Some m.
Hypothesis empty_is_zero : forall m, marshal m = [] -> m = zero.
Hypothesis compress_roundtrip : forall x, decompress (compress x) = Some x.
Hypothesis compress_nonempty : forall x, compress x = [] -> x = [].

(* Reading side, both directions (handler reading a request, client reading a
   response): a stream of sent messages cut at ANY byte offset k and then
   ending cleanly, unexpectedly or with a transport error yields a prefix of
   the messages and then EITHER a clean end-of-stream — only when the cut fell
   exactly on a frame boundary and the transport ended cleanly — OR a coded
   failure. In particular a handler never sees a clean end of the request
   stream when the body failed or stopped mid-message. *)
Theorem cut_stream :
  forall spool smin rpool rmax (msgs : list M) tail k f,
  (spool = true -> rpool = true) ->
  Forall (fits M marshal compress spool smin rmax) msgs ->
  (k <= length (send_all M marshal compress spool smin msgs))%nat ->
  exists j r,
    (j <= length msgs)%nat /\
    recv_n_f M unmarshal_into decompress zero (j + 1) rmax rpool
             (firstn k (send_all M marshal compress spool smin msgs ++ tail), f)
      = map UMsg (firstn j msgs) ++ [r] /\
    ((r = UErr REOF /\
      firstn k (send_all M marshal compress spool smin msgs ++ tail)
        = send_all M marshal compress spool smin (firstn j msgs) /\ clean f)
     \/ is_failure M f r).
Proof.
  exact (cut_stream_lemma M marshal unmarshal_into compress decompress zero
           codec_roundtrip empty_is_zero compress_roundtrip compress_nonempty).
Qed.
Print Assumptions cut_stream.

(* Client side, any protocol given by its three hooks: a response body
   [frames(msgs) ++ terminator envelope] cut strictly before its end delivers a
   prefix of the messages and the call's outcome is the protocol's end-of-body
   verdict or a failure with a non-zero code — never the terminator's success. *)
Theorem cut_response :
  forall (on_special : N -> bytes -> outcome) (on_eof : outcome) (on_error : N -> outcome),
  (forall c, c <> 0 -> exists c', on_error c = Failed c' /\ c' <> 0) ->
  forall spool smin rpool rmax (msgs : list M) tf td k f,
  (spool = true -> rpool = true) ->
  Forall (fits M marshal compress spool smin rmax) msgs ->
  tf < 256 -> len td < two32 -> fin_ok f ->
  (k < length (send_all M marshal compress spool smin msgs ++ frame tf td))%nat ->
  exists j o,
    (j <= length msgs)%nat /\
    client_outcome M on_special on_eof on_error
      (recv_n_f M unmarshal_into decompress zero (length msgs + 1) rmax rpool
         (firstn k (send_all M marshal compress spool smin msgs ++ frame tf td), f))
      = (firstn j msgs, Some o) /\
    (o = on_eof \/ exists c, o = Failed c /\ c <> 0).
Proof.
  intros on_special on_eof on_error Herr.
  exact (cut_response_lemma M marshal unmarshal_into compress decompress zero
           codec_roundtrip empty_is_zero compress_roundtrip compress_nonempty
           on_special on_eof on_error Herr).
Qed.
Print Assumptions cut_response.
End C04.
Print Assumptions cut_stream.
Print Assumptions cut_response.

(* Success needs the terminator: whatever the reader produced, the call is
   reported complete only if a special envelope was accepted by the protocol as
   a successful end, or — out-of-band terminator — the body ended cleanly and
   the protocol's end-of-body rule accepted (gRPC: grpc-status 0 in the trailers). *)
Theorem success_needs_terminator :
  forall (M : Type) (on_special : N -> bytes -> outcome) (on_eof : outcome) (on_error : N -> outcome),
  (forall c, on_error c <> Clean) ->
  forall rs ms,
  client_outcome M on_special on_eof on_error rs = (ms, Some Clean) ->
  (exists fl d, In (USpecial fl d) rs /\ on_special fl d = Clean) \/
  (In (UErr REOF) rs /\ on_eof = Clean).
Proof. exact success_needs_terminator_lemma. Qed.
Print Assumptions success_needs_terminator.

(* For Connect streaming and gRPC-Web the end-of-body verdict is itself a
   failure with a non-zero code, so with [cut_response] every cut fails. *)
(* the same for unary calls (CallUnary, CloseAndReceive): one message, then a second
   Receive that must see the terminator *)
Theorem unary_success_needs_terminator :
  forall (M : Type) (on_special : N -> bytes -> outcome) (on_eof : outcome) (on_error : N -> outcome),
  (forall c, on_error c <> Clean) ->
  forall rs m,
  unary_outcome M on_special on_eof on_error rs = UOk m ->
  exists r2 rest, rs = UMsg m :: r2 :: rest /\
    ((exists fl d, r2 = USpecial fl d /\ on_special fl d = Clean) \/ (r2 = UErr REOF /\ on_eof = Clean)).
Proof. exact unary_success_needs_terminator_lemma. Qed.
Print Assumptions unary_success_needs_terminator.

Theorem inband_eof_is_failure :
  connect_on_eof = Failed 13 /\ grpcweb_on_eof = Failed 13.
Proof. split; reflexivity. Qed.
Print Assumptions inband_eof_is_failure.

(* The hooks meet the hypotheses. *)
Theorem hooks_meet_hypotheses :
  (forall c, c <> 0 -> exists c', connect_on_error c = Failed c' /\ c' <> 0) /\
  (forall c, c <> 0 -> exists c', grpcweb_on_error c = Failed c' /\ c' <> 0) /\
  (forall tr c, (forall c', tr = VErr c' -> c' <> 0) -> c <> 0 ->
                exists c', grpc_on_error tr c = Failed c' /\ c' <> 0).
Proof. repeat split; [exact connect_on_error_code | exact grpcweb_on_error_code | exact grpc_on_error_code]. Qed.
Print Assumptions hooks_meet_hypotheses.

(* The pinned tree violated the property: a Connect stream whose body ends
   after its last message, without the end-of-stream envelope, "succeeded". *)
Theorem connect_stream_no_terminator_refuted_on_pinned_tree :
  exists body,
    client_outcome bytes (connect_on_special (fun _ => VOk)) connect_on_eof_pinned connect_on_error
      (recv_n_f bytes (fun d _ => Some d) (fun _ => None) [] 2 0 false (body, CleanEOF))
    = ([[x08; x09]], Some Clean).
Proof. exact connect_stream_no_terminator_refuted. Qed.
Print Assumptions connect_stream_no_terminator_refuted_on_pinned_tree.
