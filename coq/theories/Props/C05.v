(* Props/C05.v — C05: bytes on the wire conform to the Connect, gRPC and gRPC-Web protocols.
   Statements only; proofs live in SpecLink.v. SpecWire.v is the independent,
   strictly spec-following reading of the protocols (written from the protocol
   documents; it shares only byte and header primitives with the model of the
   code). The correspondence run applies that same spec reader, inside Coq, to
   raw exchanges recorded from real handlers and clients and to the
   conformant-peer vectors the implementation is fed. *)
From Coq Require Import List NArith Bool.
From Coq.Strings Require Import Byte.
From Connect Require Import Bytes Generated Codes GoIO Envelope Header ErrWire SpecWire SpecLink.
Import ListNotations.
Local Open Scope N_scope.

(* the implementation's tables, flag bits and header names are the documents' *)
Theorem tables_match_spec : tables_agree = true.
Proof. exact tables_match_spec_lemma. Qed.
Print Assumptions tables_match_spec.

Theorem flags_and_names_match_spec :
  flag_compressed = 1 /\ connect_flag_end_stream = 2 /\ grpc_flag_trailer = 128 /\
  hdr_grpc_status = h_grpc_status /\ hdr_grpc_encoding = h_grpc_encoding /\
  hdr_connect_stream_encoding = h_connect_encoding /\ hdr_content_type = h_content_type /\
  ct_connect_unary_json = v_app_json /\ compression_identity = v_identity.
Proof. exact flags_match_spec. Qed.
Print Assumptions flags_and_names_match_spec.

Section C05.
Variable M : Type.
Variable marshal : M -> bytes.
Variable unmarshal_into : bytes -> M -> option M.
Variable compress : bytes -> bytes.
Variable decompress : bytes -> option bytes.
Variable zero : M.
Hypothesis codec_roundtrip : forall m h, unmarshal_into (marshal m) h = Some m.
Hypothesis empty_is_zero : forall m, marshal m = [] -> m = zero.
Hypothesis compress_roundtrip : forall x, decompress (compress x) = Some x.
Hypothesis compress_nonempty : forall x, compress x = [] -> x = [].

(* every body a handler or client writes — k messages then the terminator
   envelope — is split by the spec's framing into exactly those envelopes: data
   envelopes have flags 0 or 1, flagged compressed only if a compression
   algorithm is in force (the encoding header names it), and the terminator
   (Connect end-of-stream 0x02, gRPC-Web trailers 0x80) is the single last one *)
Theorem spec_reads_impl_frames : forall pool min rmax (msgs : list M) tf td,
  Forall (fits M marshal compress pool min rmax) msgs -> tf < 256 -> len td < Envelope.two32 ->
  frames_of (send_all M marshal compress pool min msgs ++ frame tf td)
    = Some (map (written M marshal compress pool min) msgs ++ [(tf, td)]) /\
  forallb (data_frame_ok pool) (map (written M marshal compress pool min) msgs) = true.
Proof. exact (spec_reads_impl_frames_lemma M marshal compress). Qed.
Print Assumptions spec_reads_impl_frames.

(* conversely: whatever per-message compression choice a conformant peer makes,
   the implementation's reader yields the messages the peer encoded *)
Theorem impl_reads_spec_frames : forall rpool rmax (items : list (bool * M)) k tail f,
  (forall c m, In (c, m) items -> (c = true -> rpool = true) /\ fits M marshal compress c 0 rmax m) ->
  recv_n_f M unmarshal_into decompress zero (length items + k) rmax rpool
           (concat (map (fun cm => peer_encode M marshal compress (fst cm) (snd cm)) items) ++ tail, f)
  = map (fun cm => UMsg (snd cm)) items ++ recv_n_f M unmarshal_into decompress zero k rmax rpool (tail, f).
Proof.
  exact (impl_reads_spec_frames_lemma M marshal unmarshal_into compress decompress zero
           codec_roundtrip empty_is_zero compress_roundtrip compress_nonempty).
Qed.
Print Assumptions impl_reads_spec_frames.
End C05.
Print Assumptions spec_reads_impl_frames.
Print Assumptions impl_reads_spec_frames.

(* gRPC and gRPC-Web: the trailer map a handler produces carries exactly one
   grpc-status, made of digits, denoting success (0) or the error's code *)
Theorem exactly_one_grpc_status :
  forall (D : Type) (sm : N -> bytes -> list D -> bytes) (trailer : hmap) (e : option (err D)),
  (forall x, e = Some x -> e_code x < two31) ->
  one_status (values h_grpc_status (grpc_error_to_trailer D sm trailer e)) =
  Some (match e with None => 0 | Some x => e_code x end).
Proof. exact exactly_one_grpc_status_lemma. Qed.
Print Assumptions exactly_one_grpc_status.

(* A relayed upstream error: the headers of the upstream RESPONSE, which the
   error carries as metadata, do not describe the response this handler writes.
   Content-Type, Content-Length and Content-Encoding (and whatever else
   mergeMetadataHeaders leaves out) reach none of the three carriers of an
   error's metadata; under those names the response holds what the handler
   itself put there. *)
Theorem relayed_message_headers_stay_off_the_wire :
  forall (D : Type) (sm : N -> bytes -> list D -> bytes) (wm : bytes -> bytes -> list D -> bytes)
         (em : option (bytes * bytes * list D) -> hmap -> bytes)
         (header trailer : hmap) (e : err D) (k : bytes),
  message_header k = true ->
  (~ reserved_grpc k -> values k (grpc_error_to_trailer D sm trailer (Some e)) = values k trailer) /\
  (let '(_, hdr, _) := connect_unary_error_response D wm header trailer e in
   values k hdr = values k header ++ values k (prefix_all connect_unary_trailer_prefix trailer)) /\
  (exists md, connect_end_stream D em trailer (Some e) =
                em (Some (code_string (e_code e), e_msg e, e_details e)) md /\
              values k md = values k trailer).
Proof. exact relayed_message_headers_lemma. Qed.
Print Assumptions relayed_message_headers_stay_off_the_wire.

(* ... and the three names that would contradict the framing of this response are among them
   (decided on the list extracted from mergeMetadataHeaders in /repo's header.go) *)
Theorem framing_headers_are_message_headers :
  message_header hdr_content_type = true /\
  message_header hdr_connect_unary_encoding = true /\
  message_header [x43; x6f; x6e; x74; x65; x6e; x74; x2d; x4c; x65; x6e; x67; x74; x68] = true. (* "Content-Length" *)
Proof. vm_compute. repeat split. Qed.
Print Assumptions framing_headers_are_message_headers.
