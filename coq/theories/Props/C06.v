(* Props/C06.v — C06: whatever a server sends, the client fails safely with a coded non-OK error.
   Statements only; proofs live in ClientResp.v (classification of the response),
   ClientRecv.v / Cut.v (the receive loop) and Codes.v (status tables).

   JSON and Protobuf parsing are not modelled: every function takes the PARSE
   RESULT as an argument and the theorems quantify over all of them, so they
   hold for any body, header or trailer bytes whatsoever. Totality ("terminates
   without panicking") is structural for the model (total functions) and is
   checked on the implementation by the correspondence runs under recover() and
   a watchdog. *)
From Coq Require Import List NArith Bool.
From Coq.Strings Require Import Byte.
From Connect Require Import Bytes Generated Codes GoIO Envelope Cut ClientRecv ClientResp.
Import ListNotations.
Local Open Scope N_scope.

(* every error constructed while validating a response carries a non-zero code *)
Theorem validate_nonzero :
  (forall status enc j c, connect_unary_validate status enc j = Some c -> c <> 0) /\
  (forall status enc c, connect_stream_validate status enc = Some c -> c <> 0) /\
  (forall status enc hs d c, grpc_validate status enc hs d = Some c -> c <> 0).
Proof.
  repeat split.
  - exact connect_unary_validate_nonzero.
  - exact connect_stream_validate_nonzero.
  - exact grpc_validate_nonzero.
Qed.
Print Assumptions validate_nonzero.

(* for a non-200 response that carries no valid protocol-level error the code is
   derived from the HTTP status (and that table never yields 0) *)
Theorem non200_code_from_status :
  (forall status enc j, status <> 200 -> (enc = false \/ connect_wire_decode j = None) ->
     connect_unary_validate status enc j = Some (connect_http_to_code status)) /\
  (forall status enc hs d, status <> 200 ->
     grpc_validate status enc hs d = Some (grpc_http_to_code status)) /\
  (forall status enc, status <> 200 ->
     connect_stream_validate status enc = Some (connect_http_to_code status)) /\
  (forall h, connect_http_to_code h <> 0) /\ (forall h, grpc_http_to_code h <> 0).
Proof.
  repeat split.
  - exact connect_unary_status_code.
  - exact grpc_status_code.
  - intros status enc Hs. unfold connect_stream_validate. apply N.eqb_neq in Hs. rewrite Hs. reflexivity.
  - exact connect_http_to_code_nonzero.
  - exact grpc_http_to_code_nonzero.
Qed.
Print Assumptions non200_code_from_status.

(* a 101 response (its body is the connection itself, which the client closes instead of
   reading): the code is the one derived from the status, whatever the peer wrote after it *)
Theorem switching_protocols_code_from_status : forall enc j,
  connect_unary_validate 101 enc (body_as_published 101 j) = Some (connect_http_to_code 101).
Proof. exact switching_protocols_code_from_status_lemma. Qed.
Print Assumptions switching_protocols_code_from_status.

(* status trailers / end-of-stream messages never yield an error with code 0,
   whatever text they carry *)
Theorem terminator_verdicts_nonzero :
  (forall status d, verdict_ok (tstatus_verdict (grpc_error_from_trailer status d))) /\
  (forall j, verdict_ok (connect_end_verdict j)).
Proof. split; [exact tstatus_verdict_ok | exact connect_end_verdict_ok]. Qed.
Print Assumptions terminator_verdicts_nonzero.

(* the receive loop: for ANY sequence of reader results whose coded errors are
   non-zero (true of every result the envelope reader constructs, see
   Cut.failure_code_nonzero) and any of the three protocols' hooks, a failed
   call carries a non-zero code *)
Theorem client_outcome_never_zero :
  forall (M : Type) (on_special : N -> bytes -> outcome) (on_eof : outcome) (on_error : N -> outcome),
  (forall fl d c, on_special fl d = Failed c -> c <> 0) ->
  (forall c, on_eof = Failed c -> c <> 0) ->
  (forall c c', c <> 0 -> on_error c = Failed c' -> c' <> 0) ->
  forall (rs : list (uresult M)) ms c,
  results_ok rs ->
  client_outcome M on_special on_eof on_error rs = (ms, Some (Failed c)) -> c <> 0.
Proof. exact client_outcome_nonzero. Qed.
Print Assumptions client_outcome_never_zero.

Theorem hooks_never_zero :
  (forall parse_end, (forall d, verdict_ok (parse_end d)) ->
     (forall fl d c, connect_on_special parse_end fl d = Failed c -> c <> 0) /\
     (forall c, connect_on_eof = Failed c -> c <> 0) /\
     (forall c c', c <> 0 -> connect_on_error c = Failed c' -> c' <> 0)) /\
  (forall parse_trailers, (forall d, verdict_ok (parse_trailers d)) ->
     (forall fl d c, grpcweb_on_special parse_trailers fl d = Failed c -> c <> 0) /\
     (forall c, grpcweb_on_eof = Failed c -> c <> 0) /\
     (forall c c', c <> 0 -> grpcweb_on_error c = Failed c' -> c' <> 0)) /\
  (forall tr, verdict_ok tr ->
     (forall fl d c, grpc_on_special tr fl d = Failed c -> c <> 0) /\
     (forall c, grpc_on_eof tr = Failed c -> c <> 0) /\
     (forall c c', c <> 0 -> grpc_on_error tr c = Failed c' -> c' <> 0)).
Proof.
  split; [|split].
  - intros parse_end H. apply connect_hooks_ok. exact H.
  - intros parse_trailers H. apply grpcweb_hooks_ok. exact H.
  - intros tr H. apply grpc_hooks_ok. exact H.
Qed.
Print Assumptions hooks_never_zero.

(* header and trailer lookups are case-insensitive for the in-body carriers:
   keys that differ only in case are stored under the same canonical key *)
Theorem lookup_case_insensitive : forall a b,
  eq_fold a b = true -> canonical_key a = canonical_key b.
Proof. exact canonical_case_insensitive. Qed.
Print Assumptions lookup_case_insensitive.

(* the pinned tree violated the property: code-0 errors *)
Theorem pinned_tree_refuted :
  connect_wire_decode_pinned (JWire []) = Some 0 /\
  connect_wire_decode_pinned (JWire [x63; x6f; x64; x65; x5f; x30]) = Some 0 /\
  grpc_error_from_trailer_pinned [x30; x30] DAbsent = TErr 0 /\
  grpc_error_from_trailer_pinned [x35] (DStatus 0) = TErr 0.
Proof. repeat split; reflexivity. Qed.
Print Assumptions pinned_tree_refuted.
