(* Props/C07.v — C07: whatever a client sends, the handler rejects it safely.
   Statements only; proofs live in Serve.v (control flow of ServeHTTP), with
   Dispatch.v, Timeout.v, Compression.v, Envelope.v/Cut.v for the parts.

   Termination without panic is structural for the model (total functions);
   on the implementation it is checked by the correspondence runs (recover,
   watchdog). "Well-formed for the selected protocol" is decided per recorded
   response by the Coq spec reader of SpecWire.v. *)
From Coq Require Import List NArith Bool.
From Coq.Strings Require Import Byte.
From Connect Require Import Bytes Generated Codes Timeout GoIO Envelope Cut Dispatch Compression Serve.
Import ListNotations.
Local Open Scope N_scope.

(* user code runs at most once, for ANY request and configuration *)
Theorem user_code_at_most_once : forall cfg reg major method ct th sent accept first user,
  (snd (serve cfg reg major method ct th sent accept first user) <= 1)%nat.
Proof. exact at_most_once_lemma. Qed.
Print Assumptions user_code_at_most_once.

(* a unary / server-streaming handler's user code runs only on a message that
   decoded successfully *)
Theorem only_decoded_messages : forall cfg reg major method ct th sent accept first user,
  (stype cfg = STUnary \/ stype cfg = STServer) ->
  snd (serve cfg reg major method ct th sent accept first user) = 1%nat -> first = FMsg.
Proof. exact only_decoded_lemma. Qed.
Print Assumptions only_decoded_messages.

(* when no protocol is selected the answer is a bare 505 / 405 / 415 *)
Theorem bare_rejections : forall cfg reg major method ct th sent accept first user st,
  fst (serve cfg reg major method ct th sent accept first user) = SvBare st ->
  st = 505 \/ st = 405 \/ st = 415.
Proof. exact bare_statuses_lemma. Qed.
Print Assumptions bare_rejections.

(* malformed input reaches the peer as the documented code, never as success,
   and user code does not run *)
Theorem invalid_timeout_rejected : forall cfg reg major method ct th sent accept first user p c r1 r2,
  dispatch cfg major method ct = DServe p c ->
  negotiate reg sent accept = NegOk r1 r2 ->
  parse_timeout p th = PInvalid ->
  serve cfg reg major method ct th sent accept first user = (SvClosed p (Some code_invalid_argument), 0%nat).
Proof. exact invalid_timeout_lemma. Qed.
Print Assumptions invalid_timeout_rejected.

Theorem unknown_compression_rejected : forall cfg reg major method ct th sent accept first user p c,
  dispatch cfg major method ct = DServe p c ->
  sent <> [] -> sent <> compression_identity -> contains reg sent = false ->
  serve cfg reg major method ct th sent accept first user = (SvClosed p (Some code_unimplemented), 0%nat).
Proof. exact unknown_compression_lemma. Qed.
Print Assumptions unknown_compression_rejected.

Theorem bad_first_message_rejected : forall cfg reg major method ct th sent accept first user p c r1 r2,
  dispatch cfg major method ct = DServe p c ->
  negotiate reg sent accept = NegOk r1 r2 ->
  parse_timeout p th <> PInvalid ->
  (stype cfg = STUnary \/ stype cfg = STServer) ->
  first <> FMsg ->
  serve cfg reg major method ct th sent accept first user = (SvClosed p (Some (first_error p first)), 0%nat) /\
  ((forall c', first = FErr c' -> c' <> 0) -> first_error p first <> 0).
Proof.
  intros. split; [eapply bad_first_message_lemma; eauto | intro Hc; apply first_error_nonzero; assumption].
Qed.
Print Assumptions bad_first_message_rejected.

(* the codes of the malformations the statement lists, from the reader
   (Cut.v / Envelope.v): oversize -> invalid_argument, truncated or short frame
   -> invalid_argument or unknown, see Props/C04.v and Props/C09.v *)

(* the rejection (and every other response) never carries an encoding header with an empty
   value: the header is the negotiated response algorithm, and a refusal negotiates identity *)
Theorem response_encoding_header_is_a_name : forall registered sent accept e,
  response_encoding_header (negotiate registered sent accept) = Some e -> e <> [].
Proof. exact response_encoding_header_nonempty_lemma. Qed.
Print Assumptions response_encoding_header_is_a_name.
