(* Props/C08.v — C08: compression is negotiated so both sides can decode, and is lossless.
   Statements only; proofs live in Compression.v and Envelope.v. *)
From Coq Require Import List NArith Bool.
From Coq.Strings Require Import Byte.
From Connect Require Import Bytes Generated Dispatch GoIO Envelope Compression.
From Connect Require CPool.
From Connect Require Plumbing.
Import ListNotations.
Local Open Scope N_scope.

(* For every registration list (any algorithms, any order, duplicates), every
   request-encoding and accept-encoding header value: the response algorithm is
   identity or one the handler supports; it is the request's algorithm or one
   the client advertised; and for an uncompressed request it is the FIRST name
   of the client's list that the handler supports (the client's most-preferred
   mutually supported one), identity if there is none. *)
Theorem response_alg_sound : forall registered sent accept req resp,
  negotiate registered sent accept = NegOk req resp ->
  (resp = compression_identity \/ contains registered resp = true) /\
  (resp = req \/ In resp (fields accept)) /\
  (req = compression_identity \/ (req = sent /\ contains registered sent = true)) /\
  (req = compression_identity -> accept <> [] ->
     match first_supported registered (fields accept) with
     | Some n => resp = n /\
                 exists pre post, fields accept = pre ++ n :: post /\
                                  forall x, In x pre -> contains registered x = false
     | None => resp = compression_identity
     end).
Proof. exact response_alg_sound_lemma. Qed.
Print Assumptions response_alg_sound.

Example response_alg_sound_nonvacuous :
  negotiate [[x67]; [x61]; [x62]] [] [x7a; x2c; x20; x62; x2c; x61] = NegOk compression_identity [x62].
Proof. reflexivity. Qed.

(* a request compressed with an algorithm the handler lacks is rejected as
   unimplemented, listing the supported algorithms (user code does not run:
   NewConn returns before the implementation is called, see Serve/C07) *)
Theorem unknown_request_alg : forall registered sent accept,
  sent <> [] -> sent <> compression_identity -> contains registered sent = false ->
  negotiate registered sent accept = NegUnimplemented (comma_separated_names registered).
Proof. exact unknown_request_alg_lemma. Qed.
Print Assumptions unknown_request_alg.

(* the advertised names: every registered name, exactly once *)
Theorem names_header : forall registered,
  NoDup (pool_names registered) /\ (forall x, In x (pool_names registered) <-> In x registered) /\
  comma_separated_names registered = join comma (pool_names registered).
Proof.
  intro registered. split; [apply pool_names_NoDup|]. split; [intro x; apply pool_names_In | reflexivity].
Qed.
Print Assumptions names_header.

(* the last registered algorithm is the most preferred *)
Theorem last_registered_first : forall registered x,
  pool_names (registered ++ [x]) = x :: keep_first (rev registered) [x].
Proof. exact pool_names_last_first. Qed.
Print Assumptions last_registered_first.

(* messages below the configured minimum go uncompressed; a message is flagged
   compressed iff it was compressed *)
Theorem below_min_uncompressed : forall (compress : bytes -> bytes) pool min_bytes data,
  len data < min_bytes -> env_write compress pool min_bytes 0 data = frame 0 data.
Proof.
  intros compress pool min_bytes data H. unfold env_write.
  apply N.ltb_lt in H. rewrite H. rewrite orb_true_r. reflexivity.
Qed.
Print Assumptions below_min_uncompressed.

Theorem flag_iff_compressed : forall (compress : bytes -> bytes) pool min_bytes data,
  env_write compress pool min_bytes 0 data =
    (if pool && (min_bytes <=? len data) then frame flag_compressed (compress data) else frame 0 data).
Proof.
  intros compress pool min_bytes data. unfold env_write.
  change (has_flag 0 flag_compressed) with false. cbn [orb].
  destruct pool; cbn [negb orb andb]; [|reflexivity].
  destruct (len data <? min_bytes) eqn:E.
  - apply N.ltb_lt in E. assert ((min_bytes <=? len data) = false) as E2 by (apply N.leb_gt; exact E).
    rewrite E2. reflexivity.
  - apply N.ltb_ge in E. assert ((min_bytes <=? len data) = true) as E2 by (apply N.leb_le; exact E).
    rewrite E2. reflexivity.
Qed.
Print Assumptions flag_iff_compressed.

(* every compressed message decompresses to the original bytes: one Receive on a
   stream that starts with a message sent under any threshold / pool setting
   yields that message (any codec with Unmarshal(Marshal m) = m, any lossless
   compressor) *)
Theorem lossless :
  forall (M : Type) (marshal : M -> bytes) (unmarshal_into : bytes -> M -> option M)
         (compress : bytes -> bytes) (decompress : bytes -> option bytes) (zero : M),
  (forall m h, unmarshal_into (marshal m) h = Some m) ->
  (forall m, marshal m = [] -> m = zero) ->
  (forall x, decompress (compress x) = Some x) ->
  (forall x, compress x = [] -> x = []) ->
  forall spool smin rpool rmax m rest f,
  (spool = true -> rpool = true) ->
  fits M marshal compress spool smin rmax m ->
  env_unmarshal_f M unmarshal_into decompress rmax rpool zero
     (send_msg M marshal compress spool smin m ++ rest, f) = (UMsg m, (rest, f)).
Proof.
  intros M marshal unmarshal_into compress decompress zero H1 H2 H3 H4 spool smin rpool rmax m rest f Hp Hf.
  apply (unmarshal_sent M marshal unmarshal_into compress decompress zero H1 H2 H3 H4); auto.
Qed.
Print Assumptions lossless.

(* a corrupt compressed message affects only its own call: for ANY history of
   calls on a shared pool, each call's outcome is its outcome on a fresh
   decompressor — given that Reset fully reinitialises (named assumption) *)
Theorem corrupt_isolated :
  forall (D : Type) (reset : D -> bytes -> D) (run : D -> option bytes) (fresh : D),
  (forall d src, run (reset d src) = run (reset fresh src)) ->
  forall srcs pool,
  pool_history D reset run fresh pool srcs = map (fun s => run (reset fresh s)) srcs.
Proof. exact corrupt_isolated_lemma. Qed.
Print Assumptions corrupt_isolated.

(* the client refuses a response encoding it does not have *)
Theorem client_rejects_unknown_encoding : forall registered enc,
  enc <> [] -> enc <> compression_identity -> contains registered enc = false ->
  client_accepts registered enc = false.
Proof. exact client_rejects_unknown. Qed.
Print Assumptions client_rejects_unknown_encoding.

(* every writer the code builds receives the configured compress-min-bytes threshold, compression pool, buffer pool and codec: extracted from every composite literal in the source by the translator on each run *)
Theorem configuration_reaches_the_writers :
  plumbing_envelope_writer_complete = true /\ plumbing_connect_unary_marshaler_complete = true.
Proof. exact Plumbing.writers_receive_configuration. Qed.
Print Assumptions configuration_reaches_the_writers.

Local Open Scope nat_scope.
(* the pooled decompressors and compressors: every exit branch of Decompress /
   Compress takes one object and gives it back at most once ... *)
Theorem decompress_releases_once : forall o,
  CPool.count CPool.PGet (CPool.decompress_trace o) = 1%nat /\ CPool.count CPool.PPut (CPool.decompress_trace o) <= 1%nat /\
  (CPool.count CPool.PPut (CPool.decompress_trace o) = 1%nat ->
   CPool.count CPool.PClose (CPool.decompress_trace o) = 1%nat /\ CPool.count CPool.PPark (CPool.decompress_trace o) = 1%nat).
Proof. exact CPool.decompress_balanced_lemma. Qed.
Print Assumptions decompress_releases_once.

Theorem compress_releases_once : forall o,
  CPool.count CPool.PGet (CPool.compress_trace o) = 1%nat /\ CPool.count CPool.PPut (CPool.compress_trace o) <= 1%nat.
Proof. exact CPool.compress_balanced_lemma. Qed.
Print Assumptions compress_releases_once.

(* ... so under every interleaving of any number of calls, whatever objects the
   pool hands out, no pooled object is held by two calls at once and the pool
   never holds one twice: a corrupt message cannot make later calls share a
   decompressor *)
Theorem pooled_objects_never_shared : forall ss,
  let p := CPool.pool_run CPool.pinit ss in
  NoDup (map snd (CPool.held p)) /\ NoDup (CPool.avail p) /\
  (forall c i, In (c, i) (CPool.held p) -> ~ In i (CPool.avail p)).
Proof. exact CPool.no_sharing_lemma. Qed.
Print Assumptions pooled_objects_never_shared.

(* what the discipline excludes *)
Theorem double_release_is_observable :
  let p := CPool.double_put (CPool.pool_step CPool.pinit (CPool.SGet 0%nat 0%nat)) 0%nat in
  let q := CPool.pool_step (CPool.pool_step p (CPool.SGet 1%nat 0%nat)) (CPool.SGet 2%nat 0%nat) in
  map snd (CPool.held q) = [0%nat; 0%nat].
Proof. exact CPool.double_release_shares. Qed.
Print Assumptions double_release_is_observable.
