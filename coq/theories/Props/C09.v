(* Props/C09.v — C09: read limits are enforced exactly, before a message reaches user code.
   Statements only; proofs live in Cut.v (limits) and Envelope.v (acceptance). *)
From Coq Require Import List NArith Bool.
From Coq.Strings Require Import Byte.
From Connect Require Import Bytes Generated GoIO Envelope Cut.
From Connect Require Plumbing.
Import ListNotations.
Local Open Scope N_scope.

Section C09.
Variable M : Type.
Variable marshal : M -> bytes.
Variable unmarshal_into : bytes -> M -> option M.
Variable compress : bytes -> bytes.
Variable decompress : bytes -> option bytes.
Variable zero : M.
Hypothesis codec_roundtrip : forall m h, unmarshal_into (marshal m) h = Some m.
Hypothesis empty_is_zero : forall m, marshal m = [] -> m = zero.
Hypothesis compress_roundtrip : forall x, decompress (compress x) = Some x.
Hypothesis compress_nonempty : forall x, compress x = [] -> x = [].

(* Every message of at most N bytes (on the wire and after decompression) is
   accepted, at every position of a stream: this is [stream_roundtrip] under
   [fits], whose size clause is exactly "<= rmax". *)
Theorem within_limit_accepted :
  forall spool smin rpool rmax (msgs : list M),
  (spool = true -> rpool = true) ->
  Forall (fits M marshal compress spool smin rmax) msgs ->
  recv_n_f M unmarshal_into decompress zero (length msgs + 1) rmax rpool
           (send_all M marshal compress spool smin msgs, CleanEOF)
  = map UMsg msgs ++ [UErr REOF].
Proof.
  intros spool smin rpool rmax msgs Hp Hf.
  pose proof (stream_roundtrip_lemma M marshal unmarshal_into compress decompress zero
                codec_roundtrip empty_is_zero compress_roundtrip compress_nonempty
                spool smin rpool rmax msgs 1 [] CleanEOF Hp Hf) as H.
  rewrite app_nil_r in H. exact H.
Qed.
Print Assumptions within_limit_accepted.

(* A frame whose wire size exceeds N, at ANY position i: the i messages before
   it are delivered, that Receive fails with invalid_argument and the frame's
   content is never delivered. *)
Theorem limit_wire :
  forall spool smin rpool rmax (msgs : list M) fl big rest f,
  (spool = true -> rpool = true) ->
  Forall (fits M marshal compress spool smin rmax) msgs ->
  len big < two32 -> 0 < rmax -> rmax < len big ->
  recv_n_f M unmarshal_into decompress zero (length msgs + 1) rmax rpool
           (send_all M marshal compress spool smin msgs ++ frame fl big ++ rest, f)
  = map UMsg msgs ++ [UErr (RErr code_invalid_argument)].
Proof.
  exact (limit_wire_lemma M marshal unmarshal_into compress decompress zero
           codec_roundtrip empty_is_zero compress_roundtrip compress_nonempty).
Qed.
Print Assumptions limit_wire.

(* A compressed frame small on the wire that decompresses beyond N. *)
Theorem limit_decompressed :
  forall rmax payload x rest f,
  len payload < two32 -> payload <> [] ->
  0 < rmax -> len payload <= rmax ->
  decompress payload = Some x -> rmax < len x ->
  fst (env_unmarshal_f M unmarshal_into decompress rmax true zero
         (frame flag_compressed payload ++ rest, f)) = UErr (RErr code_invalid_argument).
Proof. exact (limit_decompressed_lemma M unmarshal_into decompress zero). Qed.
Print Assumptions limit_decompressed.
End C09.
Print Assumptions within_limit_accepted.
Print Assumptions limit_wire.
Print Assumptions limit_decompressed.

(* Whatever length the prefix DECLARES (true or false), once it exceeds N the
   Receive fails with a coded error and nothing is delivered. *)
Theorem limit_declared : forall max fl a b c d body f,
  0 < max -> max < be32_dec a b c d ->
  exists code, fst (env_read_f max (fl :: a :: b :: c :: d :: body, f)) = inr (RErr code)
               /\ (code = code_invalid_argument \/ code = code_unknown \/ f = Fail (ECoded code)).
Proof. exact env_read_declared_oversize. Qed.
Print Assumptions limit_declared.

(* Unary Connect bodies. *)
(* "at every position in a stream": after a refusal the reader stands exactly on the next
   envelope. A reader that goes on (a bidi handler, a raw conn) gets from then on what the rest
   of the stream holds - no byte of the refused message, and every later message within the
   limit (the theorems above apply to [rest]) *)
Theorem refusal_skips_exactly_the_refused_frame :
  forall (M : Type) (u : bytes -> M -> option M) (d : bytes -> option bytes) (zero : M)
         k max pool fl data rest f,
  len data < two32 -> 0 < max -> max < len data ->
  recv_n_f M u d zero (Datatypes.S k) max pool (frame fl data ++ rest, f)
  = UErr (RErr code_invalid_argument) :: recv_n_f M u d zero k max pool (rest, f).
Proof. exact recv_after_refusal_lemma. Qed.
Print Assumptions refusal_skips_exactly_the_refused_frame.

Theorem limit_unary : forall (M : Type) (u : bytes -> M -> option M) (d : bytes -> option bytes)
    max pool h body f,
  0 < max -> max < len body ->
  unary_unmarshal_f M u d max pool h (body, f) = inr (RErr code_invalid_argument).
Proof. exact limit_unary_lemma. Qed.
Print Assumptions limit_unary.

(* Buffering, in the model: for one frame the reader keeps at most N bytes of
   wire data (bytes of an over-limit frame go to io.Discard), whatever the
   declared length; and the decompressed bytes it keeps are at most N. The Go
   heap itself (bytes.Buffer growth policy) is measured by the harness, not proved. *)
Theorem buffer_bound : forall max s, 0 < max -> buffered_for_next_frame max s <= max.
Proof. exact buffer_bound_lemma. Qed.
Print Assumptions buffer_bound.

Theorem decompress_bound : forall (d : bytes -> option bytes) max data out,
  0 < max -> decompress_limited d max data = inl out -> len out <= max.
Proof. exact decompress_bound_lemma. Qed.
Print Assumptions decompress_bound.

(* every reader the code builds receives the configured read limit, buffer pool and codec: extracted from every composite literal in the source by the translator on each run *)
Theorem configuration_reaches_the_readers :
  plumbing_envelope_reader_complete = true /\ plumbing_connect_unary_unmarshaler_complete = true.
Proof. exact Plumbing.readers_receive_configuration. Qed.
Print Assumptions configuration_reaches_the_readers.

(* "...by declaring a false length": besides the envelope prefix (limit_declared), a
   peer can declare a length in the HTTP Content-Length header. The library never
   consults it — no selector .ContentLength and no "Content-Length" literal in
   its sources, extracted by the translator on every run — so no buffer is sized
   from it: the readers above (which take no such argument) are the whole story. *)
Theorem declared_content_length_is_never_consulted : content_length_never_consulted = true.
Proof. reflexivity. Qed.
Print Assumptions declared_content_length_is_never_consulted.

(* the decompressed-size limit belongs to each reader (it is an argument of
   Decompress, which limit_decompressed / decompress_bound take as [max]), not to a
   compression pool, which an option value shares between all the handlers and
   clients it is given to *)
Theorem decompress_limit_belongs_to_the_reader : decompress_limit_is_a_parameter = true.
Proof. exact Plumbing.decompress_limit_belongs_to_the_reader. Qed.
Print Assumptions decompress_limit_belongs_to_the_reader.
