(* Props/C10.v — C10: deadlines propagate to the handler and are never extended.
   Statements only; proofs live in Timeout.v. Durations are nanoseconds. *)
From Coq Require Import List NArith ZArith Bool.
From Coq.Strings Require Import Byte.
From Connect Require Import Bytes Generated Codes Timeout.
Import ListNotations.
Local Open Scope N_scope.

(* gRPC: for every remaining time 0 < d <= 2^63-1 ns the client's header has at
   most 7 digits plus a unit, is read back by the handler's parser as some d'
   with d' <= d (never extended), d - d' < d/10^4 (under 0.01%), and d' = d below 10 ms. *)
Theorem grpc_encode_sound : forall d : N, 0 < d -> d <= int64_max ->
  exists s d',
    grpc_encode_timeout (Z.of_N d) = Some s /\
    (length s <= 8)%nat /\
    grpc_parse_timeout s = PDur (Z.of_N d') /\
    d' <= d /\ 10000 * (d - d') < d /\
    (d < ten7 -> d' = d).
Proof. exact grpc_encode_sound_lemma. Qed.
Print Assumptions grpc_encode_sound.

Theorem grpc_encode_expired : forall d : Z, (d <= 0)%Z ->
  grpc_encode_timeout d = Some [x30; x6e] /\ grpc_parse_timeout [x30; x6e] = PDur 0.
Proof. exact grpc_encode_nonpositive. Qed.
Print Assumptions grpc_encode_expired.

(* Connect: every remaining time d >= 0 whose milliseconds fit 10 digits is sent as
   floor(d / 1ms) (never longer than d, shorter by less than 1 ms, 1..10 digits);
   anything larger is sent as no timeout, never truncated. *)
Theorem connect_encode_sound : forall d : N, d <= int64_max ->
  let millis := d / ms_ns in
  if millis <? ten10 then
    exists s, connect_encode_timeout (Z.of_N d) = Some s /\
              (1 <= length s <= 10)%nat /\ all_digits s = true /\
              connect_parse_timeout s = PDur (Z.of_N (millis * ms_ns)) /\
              millis * ms_ns <= d /\ d - millis * ms_ns < ms_ns
  else connect_encode_timeout (Z.of_N d) = None.
Proof. exact connect_encode_sound_lemma. Qed.
Print Assumptions connect_encode_sound.

(* Every grammatical gRPC timeout (1..8 digits + unit) is honoured exactly, or
   treated as unbounded when it exceeds what time.Duration can represent. *)
Theorem grpc_parse_grammar : forall ds ch size,
  all_digits ds = true -> (1 <= length ds <= 8)%nat ->
  unit_lookup grpc_timeout_units ch = Some size ->
  exists n, parse_dec ds = Some n /\
    grpc_parse_timeout (ds ++ [ch]) =
      if (Z.of_N (n * size) <=? Z.of_N int64_max)%Z then PDur (Z.of_N (n * size)) else PNone.
Proof. exact grpc_parse_grammar_lemma. Qed.
Print Assumptions grpc_parse_grammar.

Example grpc_parse_grammar_nonvacuous :
  all_digits [x30; x35] = true /\ (1 <= length [x30; x35] <= 8)%nat /\
  unit_lookup grpc_timeout_units x53 = Some 1000000000 /\
  grpc_parse_timeout [x30; x35; x53] = PDur 5000000000.
Proof. repeat split; try reflexivity; simpl; auto with arith. Qed.

Theorem connect_parse_grammar : forall ds,
  all_digits ds = true -> (1 <= length ds <= 10)%nat ->
  exists n, parse_dec ds = Some n /\ connect_parse_timeout ds = PDur (Z.of_N (n * ms_ns)).
Proof. exact connect_parse_grammar_lemma. Qed.
Print Assumptions connect_parse_grammar.

(* Malformed gRPC timeouts are rejected: unknown or missing unit, empty number,
   a number containing a non-decimal character, a negative number, a magnitude
   beyond the 8-digit limit. (The absent header is "no timeout".) *)
Theorem grpc_parse_rejects :
  (forall s c, unit_lookup grpc_timeout_units c = None -> grpc_parse_timeout (s ++ [c]) = PInvalid) /\
  (forall c, grpc_parse_timeout [c] = PInvalid) /\
  (forall num c, all_digits num = false ->
     (forall b r, num = b :: r -> b <> x2b /\ b <> x2d) ->
     grpc_parse_timeout (num ++ [c]) = PInvalid) /\
  (forall num c z, go_parse_int64 num = Some z -> (z < 0)%Z -> grpc_parse_timeout (num ++ [c]) = PInvalid) /\
  (forall num c z, go_parse_int64 num = Some z -> (Z.of_N grpc_parse_max_num < z)%Z ->
     grpc_parse_timeout (num ++ [c]) = PInvalid) /\
  grpc_parse_timeout [] = PNone.
Proof.
  repeat split.
  - exact grpc_rejects_bad_unit.
  - exact grpc_rejects_empty_number.
  - exact grpc_rejects_nondigit.
  - exact grpc_rejects_negative.
  - exact grpc_rejects_too_long.
Qed.
Print Assumptions grpc_parse_rejects.

Theorem connect_parse_rejects :
  (forall s, (10 < length s)%nat -> connect_parse_timeout s = PInvalid) /\
  (forall s, s <> [] -> go_parse_int64 s = None -> connect_parse_timeout s = PInvalid) /\
  connect_parse_timeout [] = PNone.
Proof.
  repeat split.
  - exact connect_rejects_long.
  - exact connect_rejects_nonnumber.
Qed.
Print Assumptions connect_parse_rejects.
