(* Props/C10.v — C10: deadlines propagate to the handler and are never extended.
   Statements only; proofs live in Timeout.v. Durations are nanoseconds. *)
From Coq Require Import List NArith ZArith Bool.
From Coq.Strings Require Import Byte.
From Connect Require Import Bytes Generated Codes Timeout.
From Connect Require Plumbing.
Import ListNotations.
Local Open Scope N_scope.

(* gRPC: for every remaining time 0 < d <= 2^63-1 ns the client's header has at
   most 7 digits plus a unit, is read back by the handler's parser as some d'
   with d' <= d (never extended), d - d' < d/10^4 (under 0.01%), and d' = d below 10 ms. *)
Theorem grpc_encode_sound : forall d : N, 0 < d -> d <= int64_max ->
  exists s d',
    grpc_encode_timeout (Z.of_N d) = Some s /\
    (length s <= 8)%nat /\
    grpc_parse_timeout s = PDur (Z.of_N d') /\
    d' <= d /\ 10000 * (d - d') < d /\
    (d < ten7 -> d' = d).
Proof. exact grpc_encode_sound_lemma. Qed.
Print Assumptions grpc_encode_sound.

Theorem grpc_encode_expired : forall d : Z, (d <= 0)%Z ->
  grpc_encode_timeout d = Some [x30; x6e] /\ grpc_parse_timeout [x30; x6e] = PDur 0.
Proof. exact grpc_encode_nonpositive. Qed.
Print Assumptions grpc_encode_expired.

(* Connect: every remaining time d >= 0 whose milliseconds fit 10 digits is sent as
   floor(d / 1ms) (never longer than d, shorter by less than 1 ms, 1..10 digits);
   anything larger is sent as no timeout, never truncated. *)
Theorem connect_encode_sound : forall d : N, d <= int64_max ->
  let millis := d / ms_ns in
  if millis <? ten10 then
    exists s, connect_encode_timeout (Z.of_N d) = Some s /\
              (1 <= length s <= 10)%nat /\ all_digits s = true /\
              connect_parse_timeout s = PDur (Z.of_N (millis * ms_ns)) /\
              millis * ms_ns <= d /\ d - millis * ms_ns < ms_ns
  else connect_encode_timeout (Z.of_N d) = None.
Proof. exact connect_encode_sound_lemma. Qed.
Print Assumptions connect_encode_sound.

(* Every grammatical gRPC timeout (1..8 digits + unit) is honoured exactly, or
   treated as unbounded when it exceeds what time.Duration can represent. *)
Theorem grpc_parse_grammar : forall ds ch size,
  all_digits ds = true -> (1 <= length ds <= 8)%nat ->
  unit_lookup grpc_timeout_units ch = Some size ->
  exists n, parse_dec ds = Some n /\
    grpc_parse_timeout (ds ++ [ch]) =
      if (Z.of_N (n * size) <=? Z.of_N int64_max)%Z then PDur (Z.of_N (n * size)) else PNone.
Proof. exact grpc_parse_grammar_lemma. Qed.
Print Assumptions grpc_parse_grammar.

Example grpc_parse_grammar_nonvacuous :
  all_digits [x30; x35] = true /\ (1 <= length [x30; x35] <= 8)%nat /\
  unit_lookup grpc_timeout_units x53 = Some 1000000000 /\
  grpc_parse_timeout [x30; x35; x53] = PDur 5000000000.
Proof. repeat split; try reflexivity; simpl; auto with arith. Qed.

Theorem connect_parse_grammar : forall ds,
  all_digits ds = true -> (1 <= length ds <= 10)%nat ->
  exists n, parse_dec ds = Some n /\ connect_parse_timeout ds = PDur (Z.of_N (n * ms_ns)).
Proof. exact connect_parse_grammar_lemma. Qed.
Print Assumptions connect_parse_grammar.

(* Malformed gRPC timeouts are rejected: unknown or missing unit, empty number,
   a number containing a non-decimal character, a negative number, a magnitude
   beyond the 8-digit limit. (The absent header is "no timeout".) *)
Theorem grpc_parse_rejects :
  (forall s c, unit_lookup grpc_timeout_units c = None -> grpc_parse_timeout (s ++ [c]) = PInvalid) /\
  (forall c, grpc_parse_timeout [c] = PInvalid) /\
  (forall num c, all_digits num = false ->
     (forall b r, num = b :: r -> b <> x2b /\ b <> x2d) ->
     grpc_parse_timeout (num ++ [c]) = PInvalid) /\
  (forall num c z, go_parse_int64 num = Some z -> (z < 0)%Z -> grpc_parse_timeout (num ++ [c]) = PInvalid) /\
  (forall num c z, go_parse_int64 num = Some z -> (Z.of_N grpc_parse_max_num < z)%Z ->
     grpc_parse_timeout (num ++ [c]) = PInvalid) /\
  grpc_parse_timeout [] = PNone.
Proof.
  repeat split.
  - exact grpc_rejects_bad_unit.
  - exact grpc_rejects_empty_number.
  - exact grpc_rejects_nondigit.
  - exact grpc_rejects_negative.
  - exact grpc_rejects_too_long.
Qed.
Print Assumptions grpc_parse_rejects.

Theorem connect_parse_rejects :
  (forall s, (10 < length s)%nat -> connect_parse_timeout s = PInvalid) /\
  (forall s, s <> [] -> go_parse_int64 s = None -> connect_parse_timeout s = PInvalid) /\
  connect_parse_timeout [] = PNone.
Proof.
  repeat split.
  - exact connect_rejects_long.
  - exact connect_rejects_nonnumber.
Qed.
Print Assumptions connect_parse_rejects.

(* The timeout header over the life of a header map that is used for several
   calls (a *connect.Request sent again; a stream created some time before its
   first Send). [call_header] is built from three facts the translator extracts
   from the two clients' NewConn and from duplexHTTPCall.ensureRequestMade on
   every run. *)

(* what a call announces depends on that call alone, whatever earlier calls left
   in the header map *)
Theorem timeout_header_reuse_independent : forall cs h,
  run_calls h cs = map (call_header None) cs.
Proof. exact reuse_independent_lemma. Qed.
Print Assumptions timeout_header_reuse_independent.

(* "without a client deadline the handler's context has none": no header goes out *)
Theorem no_deadline_no_timeout_header : forall h c,
  c_deadline c = None -> call_header h c = None.
Proof. exact no_deadline_no_header_lemma. Qed.
Print Assumptions no_deadline_no_timeout_header.

(* the value is the encoding (grpc_encode_sound / connect_encode_sound above) of
   the time remaining when the request LEAVES, not when the stream was created *)
Theorem timeout_header_is_remaining_at_send : forall h c dl,
  c_deadline c = Some dl ->
  call_header h c = encode_remaining (c_grpc c) (dl - c_sent_at c).
Proof. exact header_is_remaining_at_send_lemma. Qed.
Print Assumptions timeout_header_is_remaining_at_send.

(* "a remaining time too large to express is sent as no timeout" — also when an
   earlier call left a value in the map *)
Theorem inexpressible_sent_as_no_timeout : forall h c dl,
  c_grpc c = false -> c_deadline c = Some dl ->
  connect_encode_timeout (dl - c_sent_at c) = None ->
  call_header h c = None.
Proof. exact inexpressible_sent_as_none_lemma. Qed.
Print Assumptions inexpressible_sent_as_no_timeout.

(* the deadline [c_deadline] of a call is that of the context the client's
   interceptor chain hands down — a deadline imposed by an interceptor included *)
Theorem interceptor_context_is_the_calls_context : client_new_conn_uses_chain_context = true.
Proof. exact Plumbing.chain_context_reaches_the_call. Qed.
Print Assumptions interceptor_context_is_the_calls_context.
