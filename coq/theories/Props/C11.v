(* Props/C11.v — C11: headers and trailers set by one side are observed by the other.
   Statements only; proofs live in Header.v, ErrWire.v and Base64.v.

   A header is an ordered multimap; what a reader observes is [values k h]
   (all values of key k, in order), so "values unchanged and per-key order
   preserved" is an equation between value lists. Keys are canonical and
   outside the protocol-reserved names/prefixes (hypotheses below). Environment
   assumption (named): net/http delivers header and trailer maps unchanged. *)
From Coq Require Import List NArith Bool.
From Coq.Strings Require Import Byte.
From Connect Require Import Bytes Generated Codes Base64 Header ErrWire.
From Connect Require Plumbing.
Import ListNotations.
Local Open Scope N_scope.

(* request headers: mergeHeaders(conn.RequestHeader(), request.Header()) — every
   value the caller attached is there, after the protocol's own *)
Theorem request_headers_visible : forall (protocol_headers user : hmap) k,
  values k (merge protocol_headers user) = values k protocol_headers ++ values k user.
Proof. intros. apply values_merge. Qed.
Print Assumptions request_headers_visible.

(* unary Connect success: headers come back under headers, trailers under
   trailers (they travel as "Trailer-"-prefixed headers) *)
Theorem connect_unary_metadata : forall hdr tr,
  no_prefixed_key connect_unary_trailer_prefix hdr ->
  split_prefixed connect_unary_trailer_prefix (hdr ++ prefix_all connect_unary_trailer_prefix tr) = (hdr, tr).
Proof. exact (unary_trailer_roundtrip connect_unary_trailer_prefix). Qed.
Print Assumptions connect_unary_metadata.

(* gRPC / gRPC-Web success: the trailer map the handler set arrives with the
   status added; every non-reserved key keeps exactly its values *)
Theorem grpc_trailers_visible : forall (D : Type) (status_marshal : N -> bytes -> list D -> bytes) (trailer : hmap) k,
  ~ reserved_grpc k ->
  values k (grpc_error_to_trailer D status_marshal trailer None) = values k trailer.
Proof.
  intros D sm trailer k Hk. unfold grpc_error_to_trailer.
  rewrite values_set_other by (intro; apply Hk; unfold reserved_grpc; auto).
  rewrite values_set_other by (intro; apply Hk; unfold reserved_grpc; auto).
  reflexivity.
Qed.
Print Assumptions grpc_trailers_visible.

(* Connect streaming success: the end-of-stream metadata *)
Theorem connect_stream_trailers_visible :
  forall (D : Type) (end_marshal : option (bytes * bytes * list D) -> hmap -> bytes)
         (end_unmarshal : bytes -> option (option (bytes * bytes * list D) * hmap)),
  (forall e md, exists md', end_unmarshal (end_marshal e md) = Some (e, md') /\ forall k, values k md' = values k md) ->
  forall headers trailer, exists md,
    connect_end_decode D end_unmarshal headers (connect_end_stream D end_marshal trailer None) = Some (None, md) /\
    forall k, values k md = values k trailer.
Proof. intros D em eu H. exact (connect_stream_ok_roundtrip D em eu H). Qed.
Print Assumptions connect_stream_trailers_visible.

(* on failure every header and trailer value the handler set, and everything
   attached to the error, is in the error's metadata: see Props/C02.v
   (grpc_error_roundtrip, connect_unary_error_roundtrip,
   connect_stream_error_roundtrip: the last clause of each) *)

(* the binary-header helpers round-trip every byte string and accept padded input *)
Theorem bin_roundtrip : forall s : bytes, decode_binary_header (encode_binary_header s) = Some s.
Proof. exact bin_roundtrip_lemma. Qed.
Print Assumptions bin_roundtrip.

Theorem bin_accepts_padded : forall s : bytes,
  decode_binary_header (pad_to_4 (encode_binary_header s)) = Some s.
Proof. exact bin_accepts_padded_lemma. Qed.
Print Assumptions bin_accepts_padded.

(* "with values unchanged": a receiver that calls Receive again after the stream
   has ended — it keeps reporting the end — finds, however often it does so, the
   trailers the stream carried, each value once and in order (repaired in /repo,
   7ba149d: before, every failing Receive merged them again). *)
Theorem trailers_stable_under_repeated_receive : forall n carried k,
  values k (fst (failing_receives (S n) carried ([], false))) = values k carried.
Proof. exact trailer_values_stable_lemma. Qed.
Print Assumptions trailers_stable_under_repeated_receive.

(* request_headers_visible is stated over the merge of the headers already on the
   conn (protocol headers, what interceptors attached) with the caller's: a
   server-streaming call does merge them *)
Theorem server_stream_request_headers_are_merged : server_stream_merges_request_headers = true.
Proof. exact Plumbing.server_stream_headers_are_merged. Qed.
Print Assumptions server_stream_request_headers_are_merged.
