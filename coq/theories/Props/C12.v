(* Props/C12.v — C12: requests are dispatched by method, HTTP version and Content-Type as advertised.
   Statements only; proofs live in Dispatch.v. *)
From Coq Require Import List NArith Bool.
From Coq.Strings Require Import Byte.
From Connect Require Import Bytes Generated Dispatch.
Import ListNotations.
Local Open Scope N_scope.

(* bidirectional-stream requests over HTTP/1.x: 505, whatever else the request says *)
Theorem bidi_http1_505 : forall cfg major method ct,
  stype cfg = STBidi -> major < 2 -> dispatch cfg major method ct = D505.
Proof. exact dispatch_505. Qed.
Print Assumptions bidi_http1_505.

(* otherwise non-POST: 405 (with Allow: POST) *)
Theorem non_post_405 : forall cfg major method ct,
  (stype cfg <> STBidi \/ 2 <= major) -> method <> method_post ->
  dispatch cfg major method ct = D405.
Proof. exact dispatch_405. Qed.
Print Assumptions non_post_405.

(* otherwise: served iff the Content-Type is one the handler advertises; if not,
   415 with an Accept-Post header *)
Theorem post_served_iff_advertised : forall cfg major ct,
  (stype cfg <> STBidi \/ 2 <= major) ->
  (In ct (advertised cfg) -> exists p c, dispatch cfg major method_post ct = DServe p c) /\
  (~ In ct (advertised cfg) -> dispatch cfg major method_post ct = D415 (accept_post cfg)).
Proof. exact dispatch_post. Qed.
Print Assumptions post_served_iff_advertised.

(* Accept-Post = join ", " of a list containing exactly the accepted types *)
Theorem accept_post_lists_exactly_the_accepted_types : forall cfg major ct,
  (stype cfg <> STBidi \/ 2 <= major) ->
  accept_post cfg = join comma_space (accept_list cfg) /\
  (In ct (accept_list cfg) <-> exists p c, dispatch cfg major method_post ct = DServe p c).
Proof. intros cfg major ct H. split; [reflexivity | apply accept_post_exact; exact H]. Qed.
Print Assumptions accept_post_lists_exactly_the_accepted_types.

(* the advertised set: the three protocols' prefixes crossed with the
   registered codec names, plus the bare gRPC types iff a codec named "proto"
   is registered *)
Theorem advertised_is_prefixes_times_codecs : forall cfg ct,
  In ct (advertised cfg) <->
  (exists n, In n (codec_names cfg) /\ ct = connect_prefix (stype cfg) ++ n) \/
  (handle_grpc cfg = true /\
     ((exists n, In n (codec_names cfg) /\ ct = ct_grpc_prefix ++ n) \/
      (In codec_name_proto (codec_names cfg) /\ ct = ct_grpc))) \/
  (handle_grpc_web cfg = true /\
     ((exists n, In n (codec_names cfg) /\ ct = ct_grpc_web_prefix ++ n) \/
      (In codec_name_proto (codec_names cfg) /\ ct = ct_grpc_web))).
Proof. exact advertised_spec. Qed.
Print Assumptions advertised_is_prefixes_times_codecs.

(* every served request selects a registered codec *)
Theorem served_codec_is_registered : forall cfg major method ct p c,
  dispatch cfg major method ct = DServe p c -> In c (codec_names cfg).
Proof. exact codec_lookup_total. Qed.
Print Assumptions served_codec_is_registered.

(* in the rejected cases user code and interceptors never run *)
Theorem rejected_runs_nothing_thm : forall cfg major method ct,
  (forall p c, dispatch cfg major method ct <> DServe p c) ->
  invocations (dispatch cfg major method ct) = 0%nat.
Proof. exact rejected_runs_nothing. Qed.
Print Assumptions rejected_runs_nothing_thm.

(* client and handler label the Spec with the same procedure: for any base URL
   text x, service and method names without '/' *)
Theorem spec_procedure_agreement : forall x svc m,
  no_slash svc = true -> no_slash m = true -> svc <> [] -> m <> [] ->
  extract_proto_path (x ++ slash :: svc ++ slash :: m) = slash :: svc ++ slash :: m /\
  extract_proto_path (slash :: svc ++ slash :: m) = slash :: svc ++ slash :: m.
Proof.
  intros x svc m Hs Hm Hsn Hmn. split.
  - apply extract_proto_path_spec; assumption.
  - apply (extract_proto_path_spec [] svc m); assumption.
Qed.
Print Assumptions spec_procedure_agreement.

Example spec_procedure_agreement_nonvacuous :
  no_slash [x61; x2e; x53] = true /\ no_slash [x4d] = true /\
  extract_proto_path ([x68; x74; x74; x70; x3a; x2f; x2f; x68; x2f; x70] ++ slash :: [x61; x2e; x53] ++ slash :: [x4d])
  = slash :: [x61; x2e; x53] ++ slash :: [x4d].
Proof. repeat split; reflexivity. Qed.

(* "...matching what the calling client's interceptors see": a Request value sent
   through any list of clients in turn (a retry against another backend, a relay
   handler forwarding the request it received) is stamped with each client's own
   Spec before that client's interceptors run. *)
Theorem client_interceptors_see_their_clients_spec : forall (spec : Type) (clients : list spec) prev,
  through_clients spec prev clients = clients.
Proof. exact through_clients_own_spec. Qed.
Print Assumptions client_interceptors_see_their_clients_spec.
