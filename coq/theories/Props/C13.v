(* Props/C13.v — C13: concurrent calls on shared clients and handlers never interfere. PARTIAL.

   Proved (all interleavings, any number of other calls): the buffer-ownership
   discipline of every code path that touches the shared pool, and that a
   disciplined program's outputs under ANY adversarial schedule of ANY
   environment actions on buffers it does not hold equal its outputs alone.
   Proved in Duplex.v (see Props/C14.v): the response is published before any
   read of it, the sticky error is only written under its mutex and first wins,
   the request goroutine is started at most once.

   NOT exhibited by the model (named): the Go memory model and sync.Pool's
   internals, net/http's own sharing, user codecs that alias their input. Those
   are covered only by the correspondence runs: G goroutines x K calls with
   pairwise-distinct payloads under the race detector, with pooled buffers
   poisoned on release. *)
From Coq Require Import List NArith Bool.
From Connect Require Import Bytes Generated Pool.
From Connect Require Duplex.
From Connect Require CPool.
From Connect Require Plumbing.
Import ListNotations.

(* For every disciplined program, every initial content of every buffer and
   EVERY environment schedule (other calls overwriting, resetting, poisoning any
   buffer the program does not currently hold, at any point): same outputs as
   when running alone. *)
Theorem noninterference : forall (p : list step) (e : env) (v : view),
  disciplined p = true -> run e 0 [] v p = run quiet 0 [] v p.
Proof. exact noninterference_lemma. Qed.
Print Assumptions noninterference.

(* every pool-touching code path of the library follows the discipline *)
Theorem library_paths_disciplined : forallb disciplined skeletons = true.
Proof. exact skeletons_disciplined. Qed.
Print Assumptions library_paths_disciplined.

(* the buffer kept for the protocol layer (envelopeReader.last) is never put
   back into the pool afterwards *)
Theorem kept_never_put : forall p q1 q2 h,
  disciplined p = true -> p = q1 ++ Keep h :: q2 -> mem_nat h (puts q2) = false.
Proof. exact kept_never_put_lemma. Qed.
Print Assumptions kept_never_put.

(* what the discipline excludes: a use after the release can be changed by the environment *)
Theorem use_after_put_is_observable :
  disciplined [Get 0; Append 0 data; Put 0; Out 0] = false /\
  run (fun i h => if Nat.eqb i 3 then Some [Byte.xdd] else None) 0 [] (fun _ => []) [Get 0; Append 0 data; Put 0; Out 0]
  <> run quiet 0 [] (fun _ => []) [Get 0; Append 0 data; Put 0; Out 0].
Proof. split; [exact use_after_put_not_disciplined | exact use_after_put_interferes]. Qed.
Print Assumptions use_after_put_is_observable.

(* the state shared between user goroutines and the request goroutine of one
   call (duplex_http_call.go) is only touched under errMu, through sync.Once, or
   on either side of close(responseReady): facts extracted from the source by
   the translator on every run; the consequences for every interleaving are in
   Props/C14.v *)
Theorem duplex_shared_state_synchronised :
  duplex_err_only_under_mutex = true /\
  duplex_response_written_only_in_make_request = true /\
  duplex_response_read_only_after_ready = true /\
  duplex_ready_closed_by_defer_in_make_request = true /\
  duplex_goroutine_started_through_once = true /\
  duplex_other_channels_closed_through_once = true.
Proof. exact Duplex.source_synchronisation_facts. Qed.
Print Assumptions duplex_shared_state_synchronised.

(* pooled compressors / decompressors (the other shared pool): under every
   interleaving no pooled object is held by two calls at once; the per-branch
   release discipline is in Props/C08.v *)
Theorem pooled_codecs_never_shared : forall ss,
  let p := CPool.pool_run CPool.pinit ss in
  NoDup (map snd (CPool.held p)) /\ NoDup (CPool.avail p) /\
  (forall c i, In (c, i) (CPool.held p) -> ~ In i (CPool.avail p)).
Proof. exact CPool.no_sharing_lemma. Qed.
Print Assumptions pooled_codecs_never_shared.

(* an error value a handler returns from many concurrent calls (a sentinel) is
   only read by the library's handler side *)
Theorem shared_error_values_are_only_read : handler_never_writes_error_meta = true.
Proof. exact Plumbing.error_metadata_is_read_only_for_the_library. Qed.
Print Assumptions shared_error_values_are_only_read.

(* ... and the one error value the library itself would otherwise share between calls - the
   error a client's construction failed with - is copied for every call *)
Theorem construction_error_is_copied_per_call : client_construction_error_is_private = true.
Proof. exact Plumbing.construction_error_is_private. Qed.
Print Assumptions construction_error_is_copied_per_call.

(* the response's header and trailer maps reach user code only after the request
   goroutine has finished writing them (the accessors wait for responseReady) *)
Theorem response_maps_handed_over_after_they_are_written : client_accessors_wait_for_response = true.
Proof. exact Plumbing.response_accessors_wait. Qed.
Print Assumptions response_maps_handed_over_after_they_are_written.
