(* Props/C14.v — C14: every call terminates and releases what it acquired. PARTIAL.

   Proved, for EVERY sequence of client operations, request-goroutine steps,
   watcher steps, transport actions and cancellations (no bound on length):
     - the request goroutine is started at most once and only by the first
       Write / CloseWrite; responseReady is closed at most once, only after Do
       returned; the response is published before any Read / CloseRead proceeds
       and never changes afterwards;
     - the first recorded error wins and is never replaced;
     - once Receive has reported an error, every later Receive reports that same
       error, and (context live) every later Send returns the error wrapping
       io.EOF at once: it cannot block, because the pipe's read side is closed;
     - the Receive that meets the handler's terminator reports the handler's
       outcome;
     - CloseResponse closes the response body whenever there is a response,
       also when draining it fails;
     - progress of the library's own waits (Progress.v): a Read blocked on
       responseReady always has an enabled request-goroutine step ahead of it,
       two such steps make it ready whatever Do returns, and a rank that nothing
       raises witnesses it; a Write never engages a pipe whose read side is
       closed; the context watcher lives while both pipe ends are open, so a
       cancellation always closes the pipe; after CloseRequest or cancellation
       the library's goroutines run to a quiescent state in which no goroutine
       step is enabled, for ever.

   NOT exhibited by the model (named): blocking and wake-ups themselves — a
   pipe write waiting for net/http to read, Read waiting for responseReady, the
   transport noticing a closed pipe — hence "returns in bounded time", "no
   goroutine remains" and "the handler sees end-of-request". These are decided
   only on the runs of the harness: real handlers over HTTP/1.1 and HTTP/2 and a
   scripted transport, a watchdog on every operation, a goroutine census after
   each call, a Close counter on response bodies, and a delay injected at every
   single yield point of the duplex call (every pair in the thorough tier). *)
From Coq Require Import List NArith Bool.
From Connect Require Import Bytes Generated Plumbing Duplex Call Progress.
Import ListNotations.

Theorem response_published_before_read : forall es b,
  snd (step (final es) (URead b)) <> OBlocked ->
  ready (final es) = true /\ returned (final es) = true /\ started (final es) = true.
Proof. exact response_published_before_read_lemma. Qed.
Print Assumptions response_published_before_read.

Theorem response_never_changes_after_publication : forall es s,
  returned s = true -> has_resp (fst (run s es)) = has_resp s.
Proof. exact resp_stable_lemma. Qed.
Print Assumptions response_never_changes_after_publication.

Theorem goroutine_steps_once : forall s r,
  (returned s = true -> step s (GDo r) = (s, ONone)) /\
  (ready s = true -> step s GReady = (s, ONone)).
Proof. exact done_once_lemma. Qed.
Print Assumptions goroutine_steps_once.

Theorem invariant_every_history : forall es, inv (final es).
Proof. intro es. exact (inv_run es init inv_init). Qed.
Print Assumptions invariant_every_history.

Theorem first_error_wins : forall es s x, derr s = Some x -> derr (fst (run s es)) = Some x.
Proof. exact err_sticky_lemma. Qed.
Print Assumptions first_error_wins.

(* at the level of the client stream *)
Theorem receive_error_sticky : forall p s i ops j,
  failed (snd (api_step p s (ARecv i))) ->
  snd (api_step p (fst (api_run p (fst (api_step p s (ARecv i))) ops)) (ARecv j))
  = snd (api_step p s (ARecv i)).
Proof. exact receive_error_sticky_api_lemma. Qed.
Print Assumptions receive_error_sticky.

Theorem send_after_receive_error_is_eof : forall p s i ops mid,
  inv s -> failed (snd (api_step p s (ARecv i))) ->
  let s' := fst (api_run p (fst (api_step p s (ARecv i))) ops) in
  ctx s' = None -> snd (api_step p s' (ASend mid)) = CEof.
Proof. exact send_after_receive_error_eof_api_lemma. Qed.
Print Assumptions send_after_receive_error_is_eof.

Theorem receive_reports_outcome : forall p s,
  ready s = true -> derr s = None -> ctx s = None -> has_resp s = true ->
  (forall c, snd (api_step p s (ARecv (IEndErr c))) = CCode c) /\
  snd (api_step p s (ARecv IEndOk)) = CEof /\
  snd (api_step p s (ARecv IMsg)) = COk /\
  snd (api_step p s (ARecv ITrunc)) = CCode (trunc_code p).
Proof. exact receive_reports_outcome_lemma. Qed.
Print Assumptions receive_reports_outcome.

Theorem close_response_closes_body : forall s rest,
  ready s = true -> has_resp s = true ->
  body_closes (fst (step s (UCloseRead rest))) = S (body_closes s).
Proof. exact close_read_closes_body. Qed.
Print Assumptions close_response_closes_body.

(* ---- progress: the waits that are the library's own, not the peer's ---- *)

(* a Read blocked on responseReady has an enabled request-goroutine step that
   lowers a rank which nothing ever raises *)
Theorem blocked_read_progress : forall s b,
  started s = true -> snd (step s (URead b)) = OBlocked ->
  (returned s = false /\ forall r, ready_rank (fst (step s (GDo r))) < ready_rank s) \/
  (returned s = true /\ ready_rank (fst (step s GReady)) < ready_rank s).
Proof. exact blocked_read_progress_lemma. Qed.
Print Assumptions blocked_read_progress.

Theorem rank_monotone : forall s e, ready_rank (fst (step s e)) <= ready_rank s.
Proof. exact rank_never_increases. Qed.
Print Assumptions rank_monotone.

(* wherever the goroutine's two steps fall in a history, and whatever Do
   returns, they make the response ready for good *)
Theorem ready_after_goroutine_steps : forall es1 es2 es3 r s,
  started s = true ->
  ready (fst (run s (es1 ++ GDo r :: es2 ++ GReady :: es3))) = true.
Proof. exact ready_after_goroutine_steps_lemma. Qed.
Print Assumptions ready_after_goroutine_steps.

Theorem write_never_engages_closed_pipe : forall es s,
  pipe_r_closed s = true -> snd (step (fst (run s es)) UWrite) <> OOk.
Proof. exact write_never_engages_closed_pipe_lemma. Qed.
Print Assumptions write_never_engages_closed_pipe.

(* the context watcher lives as long as the call is started and both ends of
   the request pipe are open ... *)
Theorem watcher_alive_while_pipe_open : forall es,
  let s := final es in
  started s = true -> pipe_r_closed s = false -> pipe_w_closed s = false -> watching s = true.
Proof. exact watcher_alive_while_pipe_open_lemma. Qed.
Print Assumptions watcher_alive_while_pipe_open.

(* ... so the end of the context is acted upon: the pipe is closed (which is
   what releases a blocked pipe write and the transport's blocked body read) *)
Theorem cancellation_closes_pipe : forall s k,
  watching s = true -> ctx s = Some k ->
  let s' := fst (step s GWatchCtx) in
  pipe_r_closed s' = true /\ watching s' = false /\
  (derr s = None -> derr s' = Some (Coded (ctx_code k))) /\
  snd (step s' UWrite) = OErr (Coded (ctx_code k)).
Proof. exact cancellation_closes_pipe_lemma. Qed.
Print Assumptions cancellation_closes_pipe.

(* a client that closed the request side, or whose context ended, leaves
   nothing of the library running once its goroutines took their remaining
   steps — whatever Do returns — and nothing can start again *)
Theorem finished_call_quiesces : forall s r,
  started s = true -> (pipe_w_closed s = true \/ ctx s <> None) ->
  quiescent (fst (run s [GDo r; GReady; GWatchCtx; GWatchExit])).
Proof. exact finished_call_quiesces_lemma. Qed.
Print Assumptions finished_call_quiesces.

Theorem quiescent_no_goroutine_step : forall s,
  quiescent s ->
  (forall r, step s (GDo r) = (s, ONone)) /\ step s GReady = (s, ONone) /\
  step s GWatchCtx = (s, ONone) /\ step s GWatchExit = (s, ONone).
Proof. exact quiescent_no_goroutine_step_lemma. Qed.
Print Assumptions quiescent_no_goroutine_step.

Theorem quiescent_stable : forall es s, quiescent s -> quiescent (fst (run s es)).
Proof. exact quiescent_stable_lemma. Qed.
Print Assumptions quiescent_stable.

(* the atomic-event reading is justified by these facts about the source *)
Theorem duplex_shared_state_synchronised :
  duplex_err_only_under_mutex = true /\
  duplex_response_written_only_in_make_request = true /\
  duplex_response_read_only_after_ready = true /\
  duplex_ready_closed_by_defer_in_make_request = true /\
  duplex_goroutine_started_through_once = true /\
  duplex_other_channels_closed_through_once = true.
Proof. exact source_synchronisation_facts. Qed.
Print Assumptions duplex_shared_state_synchronised.

(* the body the call reads, drains and closes is never the raw connection of a 101 response
   (which no context governs): it is replaced before the response is published *)
Theorem upgraded_connection_is_never_the_response_body : duplex_101_body_replaced = true.
Proof. exact Plumbing.switching_protocols_body_replaced. Qed.
Print Assumptions upgraded_connection_is_never_the_response_body.

(* non-vacuity: a bidi exchange in which the handler fails after one message *)
Example a_call :
  snd (api_run PConnect init
        [ASend None; AGateDo (DoResp None false); AGateReady; ARecv IMsg; ARecv (IEndErr 10);
         ASend None; ARecv IMsg; ACloseReq; ACloseResp None])
  = [COk; CNone; CNone; COk; CCode 10; CEof; CCode 10; COk; COk].
Proof. reflexivity. Qed.
