(* Props/C15.v — C15: cancellation and expiry surface as canceled /
   deadline_exceeded everywhere. PARTIAL.

   Proved, for EVERY continuation after the context ended (client operations,
   request-goroutine and watcher steps, transport actions, no bound on length):
   every Send and Receive that returns fails with the context's code — never
   success, never another code, never the EOF error; CloseResponse succeeds or
   reports the context's code; the interrupted operations (a Receive blocked in
   the body read, a Send between its two writes, a Send blocked on the pipe)
   report the context's code (the blocked Send: the documented io.EOF error,
   after which Receive reports the context's code); every wrapper chain
   classifies context errors as canceled / deadline_exceeded; a handler that
   returns its context's error conveys that classification.

   Assumed of the environment after the cancellation ([op_ok]): the transport's
   Do fails — with WHATEVER error that is not a coded *connect.Error of another
   code (the context's error, its cause, a closed connection: makeRequest asks the
   context, repaired in /repo 8b9fc14) — or returns a response that passes
   validation.

   NOT exhibited by the model (named): that net/http notices the cancellation
   (wakes a blocked body read, resets the HTTP/2 stream, closes the HTTP/1.1
   connection) and so that the handler's context is cancelled; timers. These are
   decided only on the harness runs over real HTTP/1.1 and HTTP/2 servers. *)
From Coq Require Import List NArith Bool.
From Coq.Strings Require Import Byte.
From Connect Require Import Bytes Generated Duplex Call Envelope ClientRecv.
Import ListNotations.

Theorem context_errors_classified : forall k,
  wrap_ctx (CtxErr k) = Coded (ctx_code k) /\
  wrap_uncoded (CtxErr k) = Coded (ctx_code k) /\
  (forall c, wrap_do_error c (CtxErr k) = Coded (ctx_code k)) /\
  wrap_uncoded (wrap_ctx (CtxErr k)) = Coded (ctx_code k).
Proof. exact classification_lemma. Qed.
Print Assumptions context_errors_classified.

Theorem coded_errors_kept : forall c,
  wrap_ctx (Coded c) = Coded c /\ wrap_uncoded (Coded c) = Coded c /\ (forall x, wrap_do_error x (Coded c) = Coded c).
Proof. exact wrap_preserves_coded. Qed.
Print Assumptions coded_errors_kept.

Theorem after_cancel_duplex : forall es s k,
  ctx s = Some k ->
  let s' := fst (run s es) in
  snd (step s' UWrite) = OErr (Coded (ctx_code k)) /\
  (forall b, snd (step s' (URead b)) = OBlocked \/
             (exists x, derr s' = Some x /\ snd (step s' (URead b)) = OErr x) \/
             snd (step s' (URead b)) = OErr (Coded (ctx_code k))).
Proof. exact after_cancel_codes_lemma. Qed.
Print Assumptions after_cancel_duplex.

Theorem after_cancel_never_succeeds : forall es s k b,
  ctx s = Some k ->
  let s' := fst (run s es) in
  snd (step s' UWrite) <> OOk /\ snd (step s' (URead b)) <> OOk.
Proof. exact after_cancel_never_success. Qed.
Print Assumptions after_cancel_never_succeeds.

(* at the level of the client stream: every continuation *)
Theorem after_cancel : forall p k ops s,
  cancelled k s -> forallb (op_ok k) ops = true ->
  forall n op c, nth_error ops n = Some op -> nth_error (snd (api_run p s ops)) n = Some c -> cls_ok k op c.
Proof. exact after_cancel_api_lemma. Qed.
Print Assumptions after_cancel.

(* how a live call becomes a cancelled one, and what the interrupted operation reports *)
Theorem cancel_entry : forall p k s,
  ctx s = None -> derr s = None ->
  cancelled k (fst (api_step p s (ACancel k))) /\
  (ready s = true -> has_resp s = true ->
     cancelled k (fst (api_step p s (ARecvCancel k))) /\
     snd (api_step p s (ARecvCancel k)) = CCode (ctx_code k)) /\
  (pipe_r_closed s = false -> pipe_w_closed s = false ->
     cancelled k (fst (api_step p s (ASend (Some k)))) /\
     snd (api_step p s (ASend (Some k))) = CCode (ctx_code k)) /\
  (pipe_r_closed s = false -> pipe_w_closed s = false ->
     cancelled k (fst (api_step p s (ASendBlocked k))) /\
     snd (api_step p s (ASendBlocked k)) = CEof).
Proof. exact cancel_entry_lemma. Qed.
Print Assumptions cancel_entry.

Theorem handler_context_error_classified : forall k, cls_of_err (wrap_ctx (CtxErr k)) = CCode (ctx_code k).
Proof. exact handler_ctx_error_lemma. Qed.
Print Assumptions handler_context_error_classified.

(* non-vacuity: cancellation while Receive is blocked, then every later operation *)
Example a_cancelled_call :
  snd (api_run PGrpc init
        [ASend None; AGateDo (DoResp None false); AGateReady; ARecv IMsg; ARecvCancel Canceled;
         ASend None; ARecv IMsg; ACloseReq; ACloseResp (Some Plain)])
  = [COk; CNone; CNone; COk; CCode 1; CCode 1; CCode 1; COk; CCode 1].
Proof. reflexivity. Qed.

Example a_deadline_before_the_call :
  snd (api_run PConnect init [ACancel DeadlineExceeded; ASend None; AGateDo (DoErr (CtxErr DeadlineExceeded)); AGateReady; ARecv IMsg])
  = [CNone; CCode 4; CNone; CNone; CCode 4].
Proof. reflexivity. Qed.

(* Unary calls (receiveUnaryResponse): a Receive that fails with the context's code
   — the first one, or the second one, made after the response message has
   arrived, while the call waits for the end of the response — makes the call
   fail with that code: it is not re-coded (repaired in /repo, 7db204c). *)
Theorem unary_call_keeps_the_context_code :
  forall (M : Type) (on_special : N -> bytes -> outcome) (on_eof : outcome) (on_error : N -> outcome)
         (r1 r2 : uresult M) rest c,
  (single M on_special on_eof on_error r1 = inr (Failed c) \/
   (exists m, single M on_special on_eof on_error r1 = inl m /\
              single M on_special on_eof on_error r2 = inr (Failed c))) ->
  unary_outcome M on_special on_eof on_error (r1 :: r2 :: rest) = UFail c.
Proof. exact unary_failure_keeps_code_lemma. Qed.
Print Assumptions unary_call_keeps_the_context_code.

(* non-vacuity: a unary gRPC call whose response message arrived and whose second
   Receive was interrupted by a cancellation (code 1), trailers not yet there *)
Example unary_cancel_after_message :
  unary_outcome bytes (grpc_on_special VMalformed) (grpc_on_eof VMalformed) (grpc_on_error VMalformed)
    [UMsg [x6f; x6b]; UErr (RErr 1); UErr (RErr 1)] = UFail 1.
Proof. reflexivity. Qed.

(* once the context has ended, whatever uncoded error the transport's Do returns — the
   context's own, its cause (WithCancelCause), "use of closed network connection" — is
   recorded as the context's code *)
Theorem do_error_after_context_end_is_the_contexts : forall k,
  wrap_do_error (Some k) Plain = Coded (ctx_code k) /\
  wrap_do_error (Some k) EOFv = Coded (ctx_code k) /\
  (forall k', wrap_do_error (Some k) (CtxErr k') = Coded (ctx_code k')).
Proof. intro k. repeat split; reflexivity. Qed.
Print Assumptions do_error_after_context_end_is_the_contexts.
