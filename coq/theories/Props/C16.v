(* Props/C16.v — C16: interceptors nest in declaration order however options are grouped.
   Statements only; proofs live in Interceptors.v. The theorems hold for any
   interceptor type I, any function type F (UnaryFunc, StreamingClientFunc,
   StreamingHandlerFunc) and any wrap : I -> F -> F, so they cover unary and
   streaming wrapping on clients and handlers alike. *)
From Coq Require Import List.
From Connect Require Import Interceptors Recover.
Import ListNotations.

(* For any forest of option values (any grouping into WithInterceptors, any
   nesting inside WithOptions / WithClientOptions / WithHandlerOptions, nil
   entries anywhere, unrelated options in between) the function installed by the
   library equals wrapping with the flat, nil-free list in declaration order:
   first interceptor outermost, each exactly once. *)
Theorem onion : forall (I F : Type) (wrap : I -> F -> F) (ts : list (opt I)) (f : F),
  wrap_cfg I F wrap (apply_all I ts None) f = fold_right wrap f (flat_all I ts).
Proof. exact onion_lemma. Qed.
Print Assumptions onion.

Theorem grouping_irrelevant : forall (I F : Type) (wrap : I -> F -> F) (ts1 ts2 : list (opt I)) (f : F),
  flat_all I ts1 = flat_all I ts2 ->
  wrap_cfg I F wrap (apply_all I ts1 None) f = wrap_cfg I F wrap (apply_all I ts2 None) f.
Proof. exact grouping_irrelevant_lemma. Qed.
Print Assumptions grouping_irrelevant.

Example grouping_irrelevant_nonvacuous :
  flat_all nat [WithInterceptors [Some 1; None]; WithOptions [WithInterceptors [Some 2]]]
  = flat_all nat [WithOptions [WithInterceptors [Some 1; Some 2]]; OtherOption].
Proof. reflexivity. Qed.

(* With logging interceptors: requests are seen outermost-first, responses
   innermost-first, every interceptor exactly once around the core. *)
Theorem event_order : forall (I : Type) (ts : list (opt I)),
  wrap_cfg I (logf I) (log_wrap I) (apply_all I ts None) [Core I]
  = map (Req I) (flat_all I ts) ++ [Core I] ++ map (Res I) (rev (flat_all I ts)).
Proof. exact event_order_lemma. Qed.
Print Assumptions event_order.

(* WithRecover is WithInterceptors(the recover interceptor): one more element of
   the declared list, at its declared place. It recovers the panics of what is
   declared after it (inside it) — with exactly one call of the recovery function
   — and of the handler function, and not those of what is declared before it. *)
Theorem recover_takes_its_declared_place :
  forall (V R : Type) (handle : pval V -> R) (pre mid post : list (icpt V)) (v : pval V) (core : hout V R),
  all_pass V pre -> v <> PAbort ->
  (all_pass V mid ->
     run_chain V R handle (pre ++ IRecover :: mid ++ IPanic v :: post) core = (Returns (handle v), [v])) /\
  run_chain V R handle (pre ++ IPanic v :: mid ++ IRecover :: post) core = (Panics v, []) /\
  (all_pass V post ->
     run_chain V R handle (pre ++ IRecover :: post) (Panics v) = (Returns (handle v), [v])).
Proof.
  intros V R handle pre mid post v core Hp Hv. repeat split.
  - intro Hm. exact (recover_catches_inner_lemma V R handle pre mid post v core Hp Hm Hv).
  - exact (recover_misses_outer_lemma V R handle pre _ v core Hp).
  - intro Hq. exact (recover_catches_core_lemma V R handle pre post v Hp Hq Hv).
Qed.
Print Assumptions recover_takes_its_declared_place.
