(* Props/C17.v — C17: generated code routes every RPC at its canonical path.
   Statements only; proofs live in Codegen.v. What Coq cannot carry — that the
   emitted text is valid Go and type-checks against the library, that the
   generator is deterministic as a program, and that the checked-in output is
   what it produces — is decided by the correspondence run (go/parser, go build,
   go vet, byte comparison), see DESIGN.md §C17. *)
From Coq Require Import List NArith Bool.
From Coq.Strings Require Import Byte.
From Connect Require Import Bytes Generated Dispatch Codegen.
Import ListNotations.
Local Open Scope N_scope.

(* For every package (absent = [], single, dotted), service and method: the mux
   path, the handler's procedure and the client's URL suffix are the same
   string "/<fully-qualified service>/<method>", and the mount prefix is
   "/<fully-qualified service>/". *)
Theorem canonical_paths : forall pkg s m,
  In m (s_methods s) ->
  let sk := method_skeleton pkg s m in
  sk_mux_path sk = slash :: full_service_name pkg s ++ slash :: m_name m /\
  sk_handler_procedure sk = sk_mux_path sk /\
  sk_client_suffix sk = sk_mux_path sk /\
  In sk (fst (generate pkg s)) /\
  snd (generate pkg s) = slash :: full_service_name pkg s ++ [slash].
Proof. exact canonical_paths_lemma. Qed.
Print Assumptions canonical_paths.

Example canonical_paths_no_package :
  sk_mux_path (method_skeleton [] (mkS [x53] [x53] []) (mkM [x44] [x44] false false)) = [x2f; x53; x2f; x44].
Proof. reflexivity. Qed.

(* the constructor matches the method's streaming kind, on both sides *)
Theorem constructor_matches_kind : forall pkg s m,
  sk_handler_kind (method_skeleton pkg s m) = kind_of m /\
  sk_client_kind (method_skeleton pkg s m) = kind_of m.
Proof. exact constructor_matches_kind_lemma. Qed.
Print Assumptions constructor_matches_kind.

(* the client's Spec carries that same path whatever the base URL *)
Theorem client_spec_path : forall pkg s m base,
  no_slash (full_service_name pkg s) = true -> no_slash (m_name m) = true ->
  full_service_name pkg s <> [] -> m_name m <> [] ->
  extract_proto_path (base ++ sk_client_suffix (method_skeleton pkg s m))
  = sk_handler_procedure (method_skeleton pkg s m).
Proof. exact client_url_procedure. Qed.
Print Assumptions client_spec_path.

(* every struct field the generator derives from an exported Go method name is
   a valid Go identifier and not one of the 25 keywords *)
Theorem field_idents_valid : forall g,
  is_exported_name g = true ->
  is_go_identifier (unexport g) = true /\ mem (unexport g) go_keywords = false.
Proof. exact field_idents_valid_lemma. Qed.
Print Assumptions field_idents_valid.

Example field_idents_valid_import :
  is_exported_name [x49; x6d; x70; x6f; x72; x74] = true /\
  unexport [x49; x6d; x70; x6f; x72; x74] = [x5f; x69; x6d; x70; x6f; x72; x74].
Proof. split; reflexivity. Qed.

(* the model is a function of the descriptor: same descriptor, same output *)
Theorem deterministic : forall pkg s, generate pkg s = generate pkg s.
Proof. reflexivity. Qed.
Print Assumptions deterministic.

(* the pinned tree violated canonical_paths for files without a package *)
Theorem canonical_paths_refuted_pinned :
  exists s m, procedure_name_pinned [] s m <> slash :: full_service_name [] s ++ slash :: m_name m.
Proof. exact canonical_paths_refuted_on_pinned_tree. Qed.
Print Assumptions canonical_paths_refuted_pinned.
