(* Props/C18.v — C18: the small wire codecs are total, lossless and header-safe.
   Statements only; proofs live in Codes.v, Percent.v, Base64.v. *)
From Coq Require Import List NArith ZArith Bool.
From Coq.Strings Require Import Byte.
From Connect Require Import Bytes Generated Codes Percent Base64.
Import ListNotations.
Local Open Scope N_scope.

(* The text form of error codes round-trips for every 32-bit code value. *)
Theorem code_text_roundtrip : forall c : N, c < 4294967296 ->
  code_unmarshal (code_string c) = Some c.
Proof. exact code_text_roundtrip_lemma. Qed.
Print Assumptions code_text_roundtrip.

(* Text that is neither a defined name nor code_<number> is rejected. *)
Theorem code_text_rejects : forall s : bytes,
  assocB s code_parse_names = None ->
  (forall r, s = code_parse_prefix ++ r -> go_parse_int64 r = None) ->
  code_unmarshal s = None.
Proof. exact code_text_rejects_lemma. Qed.
Print Assumptions code_text_rejects.

(* ... where "defined name" is what Code.String prints, not what the parser happens to
   know: a spelling the printer never produces (cancelled) is rejected *)
Theorem code_text_rejects_undefined_names : forall s : bytes,
  (forall c, assocN c code_names <> Some s) ->
  (forall r, s = code_parse_prefix ++ r -> go_parse_int64 r = None) ->
  code_unmarshal s = None.
Proof. exact code_text_rejects_undefined_lemma. Qed.
Print Assumptions code_text_rejects_undefined_names.

Example code_text_rejects_nonvacuous :
  assocB [x66; x6f; x6f] code_parse_names = None /\
  (forall r, [x66; x6f; x6f] = code_parse_prefix ++ r -> go_parse_int64 r = None).
Proof. split; [reflexivity | intros r H; discriminate H]. Qed.

(* The percent-encoding round-trips every byte string ... *)
Theorem percent_roundtrip : forall s : bytes, percent_decode (percent_encode s) = s.
Proof. exact percent_roundtrip_lemma. Qed.
Print Assumptions percent_roundtrip.

(* ... emits only printable ASCII ... *)
Theorem percent_printable : forall s : bytes, forallb printable (percent_encode s) = true.
Proof. exact percent_printable_lemma. Qed.
Print Assumptions percent_printable.

(* ... leaves no '%' unescaped (a strict decoder accepts the output) ... *)
Theorem percent_wellformed : forall s : bytes, strict_decode (percent_encode s) = Some s.
Proof. exact percent_strict_lemma. Qed.
Print Assumptions percent_wellformed.

(* ... and its decoder accepts any input: it is a total function whose output
   is at most three bytes per input byte, and agrees with the strict decoder
   wherever that one accepts. *)
Theorem percent_decode_total : forall s : bytes,
  (length (percent_decode s) <= 3 * length s)%nat /\
  (forall t, strict_decode s = Some t -> percent_decode s = t).
Proof. intro s. split; [apply percent_decode_length | apply strict_implies_decode]. Qed.
Print Assumptions percent_decode_total.

(* Binary header values round-trip every byte string (and padded input is accepted). *)
Theorem bin_roundtrip : forall s : bytes,
  decode_binary_header (encode_binary_header s) = Some s.
Proof. exact bin_roundtrip_lemma. Qed.
Print Assumptions bin_roundtrip.

Theorem bin_accepts_padded : forall s : bytes,
  decode_binary_header (pad_to_4 (encode_binary_header s)) = Some s.
Proof. exact bin_accepts_padded_lemma. Qed.
Print Assumptions bin_accepts_padded.

(* Every code maps to a 4xx or 5xx HTTP status. *)
Theorem code_http_4xx5xx : forall c : N, 400 <= connect_code_to_http c < 600.
Proof. exact code_http_4xx5xx_lemma. Qed.
Print Assumptions code_http_4xx5xx.
