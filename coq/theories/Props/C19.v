(* Props/C19.v — C19: handler panics are converted by WithRecover exactly as configured.
   Statements only; proofs live in Recover.v. V = panic values other than nil and
   net/http's abort sentinel; R = what the wrapped function returns; [handle] is
   the recovery function. [chain_with_recover outer inner core]: the recover
   interceptor with [outer] pass-through interceptors declared before it and
   [inner] after it, around a core call that returns or panics. The statements
   do not depend on the RPC kind, the protocol or on what was sent before the
   panic: recover.go's two wrappers share this logic (the correspondence runs
   vary those). *)
From Coq Require Import List.
From Connect Require Import Recover.
From Connect Require Import Generated.
From Connect Require Plumbing.
Import ListNotations.

Theorem recover_spec : forall (V R : Type) (handle : pval V -> R) (outer inner : nat) (v : pval V),
  v <> PAbort ->
  chain_with_recover V R handle outer inner (Panics v) = (Returns (handle v), [v]).
Proof. exact recover_spec_lemma. Qed.
Print Assumptions recover_spec.

Example recover_spec_covers_nil : (@PNil nat) <> PAbort.
Proof. discriminate. Qed.

Theorem abort_reraised : forall (V R : Type) (handle : pval V -> R) (outer inner : nat),
  chain_with_recover V R handle outer inner (Panics PAbort) = (Panics PAbort, []).
Proof. exact abort_reraised_lemma. Qed.
Print Assumptions abort_reraised.

Theorem no_panic_unaffected : forall (V R : Type) (handle : pval V -> R) (outer inner : nat) (r : R),
  chain_with_recover V R handle outer inner (Returns r) = (Returns r, []).
Proof. exact no_panic_unaffected_lemma. Qed.
Print Assumptions no_panic_unaffected.

(* the position of the recover interceptor "among 0..2 other interceptors" is an
   instance of its position in an arbitrary declared list (Props/C16.v,
   recover_takes_its_declared_place) *)
Theorem recover_position_is_list_position :
  forall (V R : Type) (handle : pval V -> R) (outer inner : nat) (core : hout V R),
  chain_with_recover V R handle outer inner core
  = run_chain V R handle (repeat IPass outer ++ IRecover :: repeat IPass inner) core.
Proof. exact chain_with_recover_is_run_chain. Qed.
Print Assumptions recover_position_is_list_position.

(* [recover_wrap] describes ONE call: whether that call panicked is recorded in a
   flag of its own, so calls of one procedure that overlap do not disturb each other *)
Theorem panicked_flag_is_per_call : recover_flag_is_per_call = true.
Proof. exact Plumbing.panicked_flag_is_per_call. Qed.
Print Assumptions panicked_flag_is_per_call.
