(* Recover.v — model of recover.go: recoverHandlerInterceptor.WrapUnary /
   WrapStreamingHandler with the [panicked] flag, the IsClient bypass of
   WrapUnary, and the == http.ErrAbortHandler re-panic. *)
From Coq Require Import List.
Import ListNotations.

Section Recover.
Variable V : Type.    (* panic values other than nil and the abort sentinel *)
Variable R : Type.    (* what the wrapped function returns (response/error) *)

(* the value recover() yields *)
Inductive pval := PNil | PAbort | PVal (v : V).

(* how a function call ends *)
Inductive hout := Returns (r : R) | Panics (v : pval).

Variable handle : pval -> R.   (* the user's recovery function; its error becomes the result *)

(* deferred function of WrapUnary / WrapStreamingHandler: runs only if [panicked]
   is still true, i.e. next did not return; re-panics on the abort sentinel;
   otherwise sets the result to handle(r). Second component: the calls made to
   the recovery function, in order. *)
Definition recover_wrap (next : hout) : hout * list pval :=
  match next with
  | Returns r => (Returns r, [])
  | Panics PAbort => (Panics PAbort, [])
  | Panics v => (Returns (handle v), [v])
  end.

(* WrapUnary only: client-side requests bypass the interceptor *)
Definition recover_wrap_unary (is_client : bool) (next : hout) : hout * list pval :=
  if is_client then (next, []) else recover_wrap next.

(* other interceptors in the chain that do not themselves recover: they pass
   the outcome of next through unchanged *)
Definition passthrough (next : hout) : hout := next.

Definition chain_with_recover (outer inner : nat) (core : hout) : hout * list pval :=
  let inner_out := Nat.iter inner passthrough core in
  let '(o, calls) := recover_wrap inner_out in
  (Nat.iter outer passthrough o, calls).

Lemma iter_passthrough n o : Nat.iter n passthrough o = o.
Proof. induction n as [|n IH]; [reflexivity | cbn; exact IH]. Qed.

(* C19 *)
Lemma recover_spec_lemma : forall outer inner v,
  v <> PAbort ->
  chain_with_recover outer inner (Panics v) = (Returns (handle v), [v]).
Proof.
  intros outer inner v Hv. unfold chain_with_recover. rewrite iter_passthrough.
  destruct v as [| |x]; [ | congruence | ]; cbn [recover_wrap]; rewrite iter_passthrough; reflexivity.
Qed.

Lemma abort_reraised_lemma : forall outer inner,
  chain_with_recover outer inner (Panics PAbort) = (Panics PAbort, []).
Proof.
  intros. unfold chain_with_recover. rewrite iter_passthrough. cbn [recover_wrap].
  rewrite iter_passthrough. reflexivity.
Qed.

Lemma no_panic_unaffected_lemma : forall outer inner r,
  chain_with_recover outer inner (Returns r) = (Returns r, []).
Proof.
  intros. unfold chain_with_recover. rewrite iter_passthrough. cbn [recover_wrap].
  rewrite iter_passthrough. reflexivity.
Qed.

(* for the record: a panic raised by an interceptor placed OUTSIDE the recover
   interceptor is not recovered (it happens after recover_wrap returned) *)
Lemma outer_panic_not_recovered : forall v core,
  let '(_, calls) := recover_wrap core in
  (* the outer interceptor panics with v regardless of the inner outcome *)
  (fun _ : hout => Panics v) core = Panics v /\ (forall x, In x calls -> core = Panics x).
Proof.
  intros v core. destruct core as [r|[| |x]]; cbn; split; auto; try (intros y []; fail).
  - intros y [H|[]]. subst. reflexivity.
  - intros y [H|[]]. subst. reflexivity.
Qed.

(* ---- the recover interceptor at an arbitrary place of a declared list ----
   WithRecover(h) is WithInterceptors(recover interceptor): one more element of
   the flat list (Interceptors.v: first = outermost). The other elements either
   pass the call on, or panic when the call reaches them (they never call next). *)
Inductive icpt := IPass | IPanic (v : pval) | IRecover.

Fixpoint run_chain (ics : list icpt) (core : hout) : hout * list pval :=
  match ics with
  | [] => (core, [])
  | IPass :: r => run_chain r core
  | IPanic v :: _ => (Panics v, [])
  | IRecover :: r =>
    let '(o, calls) := run_chain r core in
    let '(o', calls') := recover_wrap o in
    (o', calls ++ calls')
  end.

Definition all_pass (l : list icpt) : Prop := forall i, In i l -> i = IPass.

Lemma all_pass_cons i l : all_pass (i :: l) -> i = IPass /\ all_pass l.
Proof. intro H. split; [apply H; left; reflexivity | intros j Hj; apply H; right; exact Hj]. Qed.

Lemma run_chain_pass_prefix : forall pre rest core,
  all_pass pre -> run_chain (pre ++ rest) core = run_chain rest core.
Proof.
  induction pre as [|i pre IH]; intros rest core H; [reflexivity|].
  destruct (all_pass_cons _ _ H) as [-> H']. cbn [app run_chain]. exact (IH rest core H').
Qed.

(* declared AFTER WithRecover (inside it): recovered, one call of the recovery function *)
Lemma recover_catches_inner_lemma : forall pre mid post v core,
  all_pass pre -> all_pass mid -> v <> PAbort ->
  run_chain (pre ++ IRecover :: mid ++ IPanic v :: post) core = (Returns (handle v), [v]).
Proof.
  intros pre mid post v core Hp Hm Hv.
  rewrite (run_chain_pass_prefix pre _ core Hp). cbn [run_chain].
  rewrite (run_chain_pass_prefix mid _ core Hm). cbn [run_chain].
  destruct v as [| |x]; [ | congruence | ]; reflexivity.
Qed.

(* declared BEFORE WithRecover (outside it): not recovered, the recovery function is not called *)
Lemma recover_misses_outer_lemma : forall pre rest v core,
  all_pass pre ->
  run_chain (pre ++ IPanic v :: rest) core = (Panics v, []).
Proof.
  intros pre rest v core Hp. rewrite (run_chain_pass_prefix pre _ core Hp). reflexivity.
Qed.

(* the handler function itself is innermost: recovered wherever WithRecover stands *)
Lemma recover_catches_core_lemma : forall pre post v,
  all_pass pre -> all_pass post -> v <> PAbort ->
  run_chain (pre ++ IRecover :: post) (Panics v) = (Returns (handle v), [v]).
Proof.
  intros pre post v Hp Hq Hv.
  rewrite (run_chain_pass_prefix pre _ _ Hp). cbn [run_chain].
  replace post with (post ++ []) by apply app_nil_r.
  rewrite (run_chain_pass_prefix post [] _ Hq). cbn [run_chain].
  destruct v as [| |x]; [ | congruence | ]; reflexivity.
Qed.

Lemma all_pass_repeat n : all_pass (repeat IPass n).
Proof. intros i H. exact (repeat_spec _ _ _ H). Qed.

(* the two-counter form used by the C19 cases is the list form *)
Lemma chain_with_recover_is_run_chain : forall outer inner core,
  chain_with_recover outer inner core
  = run_chain (repeat IPass outer ++ IRecover :: repeat IPass inner) core.
Proof.
  intros outer inner core. unfold chain_with_recover. rewrite !iter_passthrough.
  rewrite (run_chain_pass_prefix _ _ core (all_pass_repeat outer)). cbn [run_chain].
  replace (repeat IPass inner) with (repeat IPass inner ++ []) by apply app_nil_r.
  rewrite (run_chain_pass_prefix _ [] core (all_pass_repeat inner)). cbn [run_chain].
  destruct (recover_wrap core) as [o c]. rewrite iter_passthrough. reflexivity.
Qed.

End Recover.

Arguments IPass {V}.
Arguments IPanic {V}.
Arguments IRecover {V}.

Arguments PNil {V}.
Arguments PAbort {V}.
Arguments PVal {V}.
Arguments Returns {V R}.
Arguments Panics {V R}.
