(* Recover.v — model of recover.go: recoverHandlerInterceptor.WrapUnary /
   WrapStreamingHandler with the [panicked] flag, the IsClient bypass of
   WrapUnary, and the == http.ErrAbortHandler re-panic. *)
From Coq Require Import List.
Import ListNotations.

Section Recover.
Variable V : Type.    (* panic values other than nil and the abort sentinel *)
Variable R : Type.    (* what the wrapped function returns (response/error) *)

(* the value recover() yields *)
Inductive pval := PNil | PAbort | PVal (v : V).

(* how a function call ends *)
Inductive hout := Returns (r : R) | Panics (v : pval).

Variable handle : pval -> R.   (* the user's recovery function; its error becomes the result *)

(* deferred function of WrapUnary / WrapStreamingHandler: runs only if [panicked]
   is still true, i.e. next did not return; re-panics on the abort sentinel;
   otherwise sets the result to handle(r). Second component: the calls made to
   the recovery function, in order. *)
Definition recover_wrap (next : hout) : hout * list pval :=
  match next with
  | Returns r => (Returns r, [])
  | Panics PAbort => (Panics PAbort, [])
  | Panics v => (Returns (handle v), [v])
  end.

(* WrapUnary only: client-side requests bypass the interceptor *)
Definition recover_wrap_unary (is_client : bool) (next : hout) : hout * list pval :=
  if is_client then (next, []) else recover_wrap next.

(* other interceptors in the chain that do not themselves recover: they pass
   the outcome of next through unchanged *)
Definition passthrough (next : hout) : hout := next.

Definition chain_with_recover (outer inner : nat) (core : hout) : hout * list pval :=
  let inner_out := Nat.iter inner passthrough core in
  let '(o, calls) := recover_wrap inner_out in
  (Nat.iter outer passthrough o, calls).

Lemma iter_passthrough n o : Nat.iter n passthrough o = o.
Proof. induction n as [|n IH]; [reflexivity | cbn; exact IH]. Qed.

(* C19 *)
Lemma recover_spec_lemma : forall outer inner v,
  v <> PAbort ->
  chain_with_recover outer inner (Panics v) = (Returns (handle v), [v]).
Proof.
  intros outer inner v Hv. unfold chain_with_recover. rewrite iter_passthrough.
  destruct v as [| |x]; [ | congruence | ]; cbn [recover_wrap]; rewrite iter_passthrough; reflexivity.
Qed.

Lemma abort_reraised_lemma : forall outer inner,
  chain_with_recover outer inner (Panics PAbort) = (Panics PAbort, []).
Proof.
  intros. unfold chain_with_recover. rewrite iter_passthrough. cbn [recover_wrap].
  rewrite iter_passthrough. reflexivity.
Qed.

Lemma no_panic_unaffected_lemma : forall outer inner r,
  chain_with_recover outer inner (Returns r) = (Returns r, []).
Proof.
  intros. unfold chain_with_recover. rewrite iter_passthrough. cbn [recover_wrap].
  rewrite iter_passthrough. reflexivity.
Qed.

(* for the record: a panic raised by an interceptor placed OUTSIDE the recover
   interceptor is not recovered (it happens after recover_wrap returned) *)
Lemma outer_panic_not_recovered : forall v core,
  let '(_, calls) := recover_wrap core in
  (* the outer interceptor panics with v regardless of the inner outcome *)
  (fun _ : hout => Panics v) core = Panics v /\ (forall x, In x calls -> core = Panics x).
Proof.
  intros v core. destruct core as [r|[| |x]]; cbn; split; auto; try (intros y []; fail).
  - intros y [H|[]]. subst. reflexivity.
  - intros y [H|[]]. subst. reflexivity.
Qed.

End Recover.

Arguments PNil {V}.
Arguments PAbort {V}.
Arguments PVal {V}.
Arguments Returns {V R}.
Arguments Panics {V R}.
