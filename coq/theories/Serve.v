(* Serve.v — the control flow of Handler.ServeHTTP (handler.go:156-211) and of the
   implementation wrappers NewUnaryHandler / NewServerStreamHandler /
   NewClientStreamHandler / NewBidiStreamHandler (handler.go:35-154):
   dispatch, SetTimeout, NewConn's compression negotiation, the first Receive
   of the kinds that take exactly one request message, and Close(err).
   It composes Dispatch.v, Timeout.v, Compression.v and the reader's results. *)
From Coq Require Import List NArith ZArith Lia Bool.
From Coq.Strings Require Import Byte.
From Connect Require Import Bytes Generated Codes Timeout GoIO Envelope Cut Dispatch Compression.
Import ListNotations.
Local Open Scope N_scope.

Definition code_unimplemented : N := 12.
Definition code_deadline_exceeded : N := 4.

(* what the first Receive of a unary / server-streaming implementation yields *)
Inductive first_msg :=
| FMsg                         (* a decoded message *)
| FEnd                         (* end of stream before any message *)
| FErr (c : N)                 (* the reader's coded error *)
| FSpecial (fl : N).           (* an envelope with protocol-specific flags *)

(* user code: returns nil or an error with this code *)
Definition user_result := option N.

Inductive served :=
| SvBare (status : N)                      (* 505 / 405 / 415 and nothing else *)
| SvClosed (p : protocol) (err : option N). (* the exchange was closed with success (None) or this error code *)

(* error code delivered for a first Receive that is not a message *)
Definition first_error (p : protocol) (f : first_msg) : N :=
  match f with
  | FMsg => 0
  | FEnd => code_unknown                       (* the EOF error is coded unknown *)
  | FErr c => c
  | FSpecial fl =>
    match p with
    | PrGrpc => code_internal
    | PrGrpcWeb => if has_flag fl grpc_flag_trailer then code_unknown else code_internal
    | PrConnect => if has_flag fl connect_flag_end_stream then code_unknown else code_internal
    end
  end.

Definition parse_timeout (p : protocol) (v : bytes) : ptimeout :=
  match p with PrConnect => connect_parse_timeout v | _ => grpc_parse_timeout v end.

(* ServeHTTP: (what the peer gets, how many times user code ran) *)
Definition serve (cfg : hcfg) (registered : list bytes)
                 (major : N) (method ct timeout_hdr sent accept : bytes)
                 (first : first_msg) (user : user_result) : served * nat :=
  match dispatch cfg major method ct with
  | D505 => (SvBare 505, 0%nat)
  | D405 => (SvBare 405, 0%nat)
  | D415 _ => (SvBare 415, 0%nat)
  | DServe p _ =>
    match negotiate registered sent accept with
    | NegUnimplemented _ => (SvClosed p (Some code_unimplemented), 0%nat)   (* NewConn: conn.Close(failed) *)
    | NegOk _ _ =>
      match parse_timeout p timeout_hdr with
      | PInvalid => (SvClosed p (Some code_invalid_argument), 0%nat)        (* connCloser.Close(timeoutErr) *)
      | _ =>
        match stype cfg with
        | STClient | STBidi => (SvClosed p user, 1%nat)                     (* user code drives the stream *)
        | STServer =>
          match first with
          | FMsg => (SvClosed p user, 1%nat)
          | _ => (SvClosed p (Some (first_error p first)), 0%nat)
          end
        | STUnary =>
          match first with
          | FMsg =>
            (* NewUnaryHandler checks ctx.Err() before calling user code: a timeout
               of zero (or less) has already expired *)
            match parse_timeout p timeout_hdr with
            | PDur d => if (d <=? 0)%Z then (SvClosed p (Some code_deadline_exceeded), 0%nat)
                        else (SvClosed p user, 1%nat)
            | _ => (SvClosed p user, 1%nat)
            end
          | _ => (SvClosed p (Some (first_error p first)), 0%nat)
          end
        end
      end
    end
  end.

(* ---------------- C07 ---------------- *)

Lemma at_most_once_lemma : forall cfg reg major method ct th sent accept first user,
  (snd (serve cfg reg major method ct th sent accept first user) <= 1)%nat.
Proof.
  intros. unfold serve.
  destruct (dispatch cfg major method ct) as [| | a | p c]; cbn [snd]; try lia.
  destruct (negotiate reg sent accept); cbn [snd]; try lia.
  destruct (parse_timeout p th) as [| |d]; cbn [snd]; try lia;
    destruct (stype cfg); cbn [snd]; try lia; destruct first; cbn [snd]; try lia;
    destruct (d <=? 0)%Z; cbn [snd]; lia.
Qed.

(* user code of a unary / server-streaming handler runs only on a decoded message *)
Lemma only_decoded_lemma : forall cfg reg major method ct th sent accept first user,
  (stype cfg = STUnary \/ stype cfg = STServer) ->
  snd (serve cfg reg major method ct th sent accept first user) = 1%nat -> first = FMsg.
Proof.
  intros cfg reg major method ct th sent accept first user Hk. unfold serve.
  destruct (dispatch cfg major method ct) as [| | a | p c]; cbn [snd]; try discriminate.
  destruct (negotiate reg sent accept); cbn [snd]; try discriminate.
  destruct (parse_timeout p th) as [| |d]; cbn [snd]; try discriminate;
    destruct Hk as [Hk|Hk]; rewrite Hk; destruct first; cbn [snd]; intro H; try discriminate; reflexivity.
Qed.

(* an invalid timeout: invalid_argument, user code does not run *)
Lemma invalid_timeout_lemma : forall cfg reg major method ct th sent accept first user p c r1 r2,
  dispatch cfg major method ct = DServe p c ->
  negotiate reg sent accept = NegOk r1 r2 ->
  parse_timeout p th = PInvalid ->
  serve cfg reg major method ct th sent accept first user = (SvClosed p (Some code_invalid_argument), 0%nat).
Proof. intros. unfold serve. rewrite H, H0, H1. reflexivity. Qed.

(* unknown request compression: unimplemented, user code does not run — even if
   the timeout is invalid too *)
Lemma unknown_compression_lemma : forall cfg reg major method ct th sent accept first user p c,
  dispatch cfg major method ct = DServe p c ->
  sent <> [] -> sent <> compression_identity -> contains reg sent = false ->
  serve cfg reg major method ct th sent accept first user = (SvClosed p (Some code_unimplemented), 0%nat).
Proof.
  intros cfg reg major method ct th sent accept first user p c Hd H1 H2 H3. unfold serve.
  rewrite Hd, (unknown_request_alg_lemma reg sent accept H1 H2 H3). reflexivity.
Qed.

(* malformed framing / undecodable payload / oversize first message of a
   unary or server-streaming call: the reader's error code reaches the peer,
   never success, user code does not run *)
Lemma bad_first_message_lemma : forall cfg reg major method ct th sent accept first user p c r1 r2,
  dispatch cfg major method ct = DServe p c ->
  negotiate reg sent accept = NegOk r1 r2 ->
  parse_timeout p th <> PInvalid ->
  (stype cfg = STUnary \/ stype cfg = STServer) ->
  first <> FMsg ->
  serve cfg reg major method ct th sent accept first user = (SvClosed p (Some (first_error p first)), 0%nat).
Proof.
  intros cfg reg major method ct th sent accept first user p c r1 r2 Hd Hn Ht Hk Hf. unfold serve.
  rewrite Hd, Hn. destruct (parse_timeout p th) as [| |d]; try congruence;
    destruct Hk as [Hk|Hk]; rewrite Hk; destruct first; try congruence; reflexivity.
Qed.

Lemma first_error_nonzero p f : f <> FMsg -> (forall c, f = FErr c -> c <> 0) -> first_error p f <> 0.
Proof.
  intros Hf Hc. destruct f as [| |c|fl]; cbn [first_error]; try congruence; try discriminate.
  - apply Hc. reflexivity.
  - destruct p; try discriminate; [destruct (has_flag fl connect_flag_end_stream) | destruct (has_flag fl grpc_flag_trailer)]; discriminate.
Qed.

(* bare rejections carry one of the three statuses *)
Lemma bare_statuses_lemma : forall cfg reg major method ct th sent accept first user st,
  fst (serve cfg reg major method ct th sent accept first user) = SvBare st ->
  st = 505 \/ st = 405 \/ st = 415.
Proof.
  intros cfg reg major method ct th sent accept first user st. unfold serve.
  destruct (dispatch cfg major method ct) as [| | a | p c]; cbn [fst]; try (intro H; inversion H; auto; fail).
  destruct (negotiate reg sent accept); cbn [fst]; try discriminate.
  destruct (parse_timeout p th) as [| |d]; cbn [fst]; try discriminate;
    destruct (stype cfg); cbn [fst]; try discriminate; destruct first; try discriminate;
    destruct (d <=? 0)%Z; discriminate.
Qed.
