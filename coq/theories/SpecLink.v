(* SpecLink.v — the implementation model (Envelope.v, ErrWire.v, Generated.v)
   against the spec reading (SpecWire.v): what the implementation writes is
   accepted by the spec reader and yields the application's values; what a
   conformant peer writes (any per-message compression choice) is decoded by
   the implementation model to the same values; the tables coincide. *)
From Coq Require Import List Arith NArith Lia Bool.
From Coq.Strings Require Import Byte.
From Connect Require Import Bytes Generated Codes GoIO Envelope Header ErrWire SpecWire.
Import ListNotations.
Local Open Scope N_scope.

(* ---- tables ---- *)
Fixpoint lookup (k : N) (l : list (N * N)) (d : N) : N :=
  match l with [] => d | (k', v) :: r => if k =? k' then v else lookup k r d end.

Fixpoint nrange (a : N) (n : nat) : list N := match n with O => [] | S k => a :: nrange (a + 1) k end.

Definition tables_agree : bool :=
  forallb (fun k => (connect_code_to_http k =? lookup k spec_connect_code_to_http 500)) (nrange 0 40)
  && forallb (fun h => (connect_http_to_code h =? lookup h spec_connect_http_to_code 2)
                       && (grpc_http_to_code h =? lookup h spec_grpc_http_to_code 2)) (nrange 0 700)
  && forallb (fun p => match assocN (fst p) code_names with Some n => bs_eqb n (snd p) | None => false end) spec_code_names
  && (N.of_nat (length code_names) =? 16).

Lemma tables_match_spec_lemma : tables_agree = true.
Proof. vm_compute. reflexivity. Qed.

Lemma flags_match_spec :
  flag_compressed = 1 /\ connect_flag_end_stream = 2 /\ grpc_flag_trailer = 128 /\
  hdr_grpc_status = h_grpc_status /\ hdr_grpc_encoding = h_grpc_encoding /\
  hdr_connect_stream_encoding = h_connect_encoding /\ hdr_content_type = h_content_type /\
  ct_connect_unary_json = v_app_json /\ compression_identity = v_identity.
Proof. repeat split; reflexivity. Qed.

(* ---- framing: the spec reader on what the implementation writes ---- *)
Lemma spec_frames_frame : forall fuel fl data rest,
  fl < 256 -> len data < Envelope.two32 -> (length (frame fl data ++ rest) < fuel)%nat ->
  spec_frames fuel (frame fl data ++ rest) =
  match spec_frames (pred fuel) rest with Some fs => Some ((fl, data) :: fs) | None => None end.
Proof.
  intros fuel fl data rest Hfl Hlen Hfuel. destruct fuel as [|fuel']; [lia|].
  unfold frame. cbn [app be32].
  change (Nb fl :: Nb (len data / 16777216) :: Nb (len data / 65536) :: Nb (len data / 256) :: Nb (len data) :: data ++ rest)
    with (Nb fl :: Nb (len data / 16777216) :: Nb (len data / 65536) :: Nb (len data / 256) :: Nb (len data) :: (data ++ rest)).
  cbn [spec_frames pred].
  pose proof (be32_roundtrip (len data) Hlen) as Hrt. unfold be32, be32_dec in Hrt. rewrite Hrt.
  unfold len. rewrite Nat2N.id.
  assert ((length (data ++ rest) <? length data)%nat = false) as E.
  { apply Nat.ltb_ge. rewrite app_length. lia. }
  rewrite E. rewrite skipn_app, skipn_all, Nat.sub_diag. cbn [skipn app].
  rewrite firstn_app, firstn_all, Nat.sub_diag. cbn [firstn]. rewrite app_nil_r.
  rewrite bN_Nb by exact Hfl. reflexivity.
Qed.

Lemma spec_frames_fuel : forall b f1 f2,
  (length b < f1)%nat -> (length b < f2)%nat -> spec_frames f1 b = spec_frames f2 b.
Proof.
  intro b. remember (length b) as n eqn:Hn. revert b Hn.
  induction n as [n IH] using lt_wf_ind. intros b Hn f1 f2 H1 H2.
  destruct b as [|fl [|a [|b2 [|c [|d rest]]]]]; try (destruct f1, f2; reflexivity).
  destruct f1 as [|f1']; [lia|]. destruct f2 as [|f2']; [lia|]. cbn [spec_frames].
  set (k := N.to_nat (bN a * 16777216 + bN b2 * 65536 + bN c * 256 + bN d)).
  destruct (length rest <? k)%nat eqn:E; [reflexivity|].
  apply Nat.ltb_ge in E.
  assert (Hl : (length (skipn k rest) < n)%nat).
  { rewrite skipn_length. subst n. cbn [length]. lia. }
  rewrite (IH _ Hl (skipn k rest) eq_refl f1' f2'); [reflexivity | |];
    rewrite skipn_length; subst n; cbn [length] in *; lia.
Qed.

Section Link.
Variable M : Type.
Variable marshal : M -> bytes.
Variable unmarshal_into : bytes -> M -> option M.
Variable compress : bytes -> bytes.
Variable decompress : bytes -> option bytes.
Variable zero : M.
Hypothesis codec_roundtrip : forall m h, unmarshal_into (marshal m) h = Some m.
Hypothesis empty_is_zero : forall m, marshal m = [] -> m = zero.
Hypothesis compress_roundtrip : forall x, decompress (compress x) = Some x.
Hypothesis compress_nonempty : forall x, compress x = [] -> x = [].

Notation send_msg := (send_msg M marshal compress).
Notation send_all := (send_all M marshal compress).
Notation fits := (fits M marshal compress).

(* the envelope the implementation writes for one message, as (flag, payload) *)
Definition written (pool : bool) (min : N) (m : M) : N * bytes :=
  if pool && (min <=? len (marshal m)) then (1, compress (marshal m)) else (0, marshal m).

Lemma send_msg_written pool min m : send_msg pool min m = frame (fst (written pool min m)) (snd (written pool min m)).
Proof.
  unfold Envelope.send_msg, env_write, written.
  change (has_flag 0 flag_compressed) with false. cbn [orb].
  destruct pool; cbn [negb orb andb]; [|reflexivity].
  destruct (len (marshal m) <? min) eqn:E.
  - apply N.ltb_lt in E. assert ((min <=? len (marshal m)) = false) as E2 by (apply N.leb_gt; exact E).
    rewrite E2. reflexivity.
  - apply N.ltb_ge in E. assert ((min <=? len (marshal m)) = true) as E2 by (apply N.leb_le; exact E).
    rewrite E2. reflexivity.
Qed.

(* C05: every body the implementation writes — messages followed by a terminator
   envelope with flags tf — splits, under the spec's own framing rules, into
   exactly those envelopes: data envelopes carry flags 0 or 1, 1 only when a
   compression pool (a named algorithm) is configured, and the terminator is
   the single last envelope *)
Lemma spec_reads_impl_frames_lemma : forall pool min rmax msgs tf td,
  Forall (fits pool min rmax) msgs -> tf < 256 -> len td < Envelope.two32 ->
  frames_of (send_all pool min msgs ++ frame tf td) = Some (map (written pool min) msgs ++ [(tf, td)]) /\
  forallb (data_frame_ok pool) (map (written pool min) msgs) = true.
Proof.
  intros pool min rmax msgs tf td Hfits Htf Htd. split.
  - unfold frames_of.
    assert (G : forall fuel, (length (send_all pool min msgs ++ frame tf td) < fuel)%nat ->
                spec_frames fuel (send_all pool min msgs ++ frame tf td)
                = Some (map (written pool min) msgs ++ [(tf, td)])).
    { induction Hfits as [|m ms Hm Hms IH]; intros fuel Hfuel.
      - cbn [Envelope.send_all map concat app] in *.
        rewrite <- (app_nil_r (frame tf td)) in *.
        rewrite spec_frames_frame by (auto; rewrite app_nil_r in *; exact Hfuel).
        destruct (pred fuel); reflexivity.
      - rewrite send_all_cons, <- app_assoc in *. rewrite send_msg_written in *.
        destruct Hm as (H1 & H2 & _).
        assert (Hw : fst (written pool min m) < 256 /\ len (snd (written pool min m)) < Envelope.two32).
        { unfold written. destruct (pool && (min <=? len (marshal m))); cbn [fst snd];
            (split; [reflexivity | assumption]). }
        destruct Hw as [Hw1 Hw2].
        rewrite spec_frames_frame by (auto).
        rewrite IH.
        + cbn [map app]. destruct (written pool min m). reflexivity.
        + rewrite app_length in Hfuel.
          assert (Hf5 : (5 <= length (frame (fst (written pool min m)) (snd (written pool min m))))%nat).
          { unfold frame. cbn [length]. rewrite app_length. cbn [be32 length]. lia. }
          destruct fuel as [|fuel']; [lia|]. cbn [pred]. lia. }
    apply G. lia.
  - apply forallb_forall. intros f Hin. apply in_map_iff in Hin. destruct Hin as (m & <- & _).
    unfold written, data_frame_ok. destruct pool; cbn [andb].
    + destruct (min <=? len (marshal m)); cbn [fst]; reflexivity.
    + cbn [fst]. reflexivity.
Qed.

(* C05, conversely: a conformant peer may choose per message whether to
   compress; the implementation's reader decodes every such stream to the
   messages the peer encoded *)
Definition peer_encode (c : bool) (m : M) : bytes :=
  if c then frame 1 (compress (marshal m)) else frame 0 (marshal m).

Lemma peer_encode_is_send c m : peer_encode c m = send_msg c 0 m.
Proof.
  unfold peer_encode, Envelope.send_msg, env_write.
  change (has_flag 0 flag_compressed) with false. cbn [orb].
  assert ((len (marshal m) <? 0) = false) as E by (apply N.ltb_ge; lia). rewrite E.
  destruct c; reflexivity.
Qed.

Lemma impl_reads_spec_frames_lemma : forall rpool rmax (items : list (bool * M)) k tail f,
  (forall c m, In (c, m) items -> (c = true -> rpool = true) /\ fits c 0 rmax m) ->
  recv_n_f M unmarshal_into decompress zero (length items + k) rmax rpool
           (concat (map (fun cm => peer_encode (fst cm) (snd cm)) items) ++ tail, f)
  = map (fun cm => UMsg (snd cm)) items ++ recv_n_f M unmarshal_into decompress zero k rmax rpool (tail, f).
Proof.
  intros rpool rmax items k tail f. induction items as [|[c m] r IH]; intro H; [reflexivity|].
  cbn [map concat length Nat.add fst snd app]. rewrite <- app_assoc, peer_encode_is_send.
  unfold recv_n_f in *. cbn [recv_n].
  fold (env_unmarshal_f M unmarshal_into decompress rmax rpool zero
          (send_msg c 0 m ++ concat (map (fun cm => peer_encode (fst cm) (snd cm)) r) ++ tail, f)).
  destruct (H c m (or_introl eq_refl)) as [Hp Hf].
  rewrite (unmarshal_sent M marshal unmarshal_into compress decompress zero
             codec_roundtrip empty_is_zero compress_roundtrip compress_nonempty
             c 0 rpool rmax m zero _ f Hp Hf (fun _ => eq_refl)).
  f_equal. apply IH. intros c' m' Hin. apply H. right. exact Hin.
Qed.
End Link.

(* ---- gRPC status: exactly one grpc-status, 1*DIGIT, carrying the code ---- *)
Lemma all_digits_b_print n : n < 18446744073709551616 -> all_digits_b (print_dec n) = true.
Proof.
  intro H. destruct (print_dec_spec n H) as (Hne & Hdig & _).
  unfold all_digits_b. destruct (print_dec n) as [|b r] eqn:E; [congruence|].
  cbn [is_nil_l negb andb].
  clear - Hdig. revert Hdig. generalize (b :: r). intro l. induction l as [|x l IH]; cbn [all_digits forallb]; [reflexivity|].
  intro H. apply andb_true_iff in H. destruct H as [H1 H2]. unfold is_digit in H1. rewrite H1. cbn [andb]. apply IH. exact H2.
Qed.

Lemma digits_value_print : forall n, n < 18446744073709551616 -> digits_value (print_dec n) 0 = n.
Proof.
  intros n H. destruct (print_dec_spec n H) as (Hne & Hdig & Hparse & _).
  assert (G : forall l acc v, all_digits l = true -> parse_dec_aux l acc = Some v -> digits_value l acc = v).
  { induction l as [|x l IH]; intros acc v Hd Hp; cbn in *.
    - inversion Hp. reflexivity.
    - apply andb_true_iff in Hd. destruct Hd as [H1 H2]. rewrite H1 in Hp. unfold digit_val in Hp. apply IH; assumption. }
  unfold parse_dec in Hparse. destruct (print_dec n) as [|b r] eqn:E; [congruence|].
  apply G; assumption.
Qed.

Lemma exactly_one_grpc_status_lemma :
  forall (D : Type) (sm : N -> bytes -> list D -> bytes) (trailer : hmap) (e : option (err D)),
  (forall x, e = Some x -> e_code x < two31) ->
  one_status (values h_grpc_status (grpc_error_to_trailer D sm trailer e)) =
  Some (match e with None => 0 | Some x => e_code x end).
Proof.
  intros D sm trailer e Hc.
  destruct flags_match_spec as (_ & _ & _ & Hs & _). rewrite <- Hs.
  destruct e as [x|]; unfold grpc_error_to_trailer.
  - destruct grpc_keys_distinct as (K1 & K2 & K3).
    rewrite values_set_other by exact K2. rewrite values_set_other by exact K1.
    rewrite values_set_same. unfold one_status, int32_text.
    specialize (Hc x eq_refl). assert ((e_code x <? two31) = true) as E by (apply N.ltb_lt; exact Hc). rewrite E.
    assert (H64 : e_code x < 18446744073709551616) by (unfold two31 in Hc; lia).
    rewrite all_digits_b_print, digits_value_print by exact H64. reflexivity.
  - destruct grpc_keys_distinct as (K1 & _).
    rewrite values_set_other by exact K1. rewrite values_set_same. reflexivity.
Qed.
