(* SpecWire.v — an independent, strictly spec-following reading of the three
   protocols' RESPONSES (and of request bodies), written from the protocol
   documents (gRPC PROTOCOL-HTTP2, PROTOCOL-WEB, the Connect protocol), not from
   connect-go's code: it shares no definition with Envelope.v / ErrWire.v
   except the byte and header primitives. It rejects anything the documents do
   not allow. JSON payloads are opaque here: their parse summary (is it an
   object? which "code" string?) is supplied per case by an independent JSON
   parser and the spec only constrains that summary. *)
From Coq Require Import List Arith NArith Lia Bool.
From Coq.Strings Require Import Byte.
From Connect Require Import Bytes Header.
Import ListNotations.
Local Open Scope N_scope.

(* ---- tables and names, from the documents ---- *)
Definition s (l : list N) : bytes := map Nb l.
Definition spec_code_names : list (N * bytes) :=
  [ (1, s [99;97;110;99;101;108;101;100]); (2, s [117;110;107;110;111;119;110]);
    (3, s [105;110;118;97;108;105;100;95;97;114;103;117;109;101;110;116]);
    (4, s [100;101;97;100;108;105;110;101;95;101;120;99;101;101;100;101;100]);
    (5, s [110;111;116;95;102;111;117;110;100]);
    (6, s [97;108;114;101;97;100;121;95;101;120;105;115;116;115]);
    (7, s [112;101;114;109;105;115;115;105;111;110;95;100;101;110;105;101;100]);
    (8, s [114;101;115;111;117;114;99;101;95;101;120;104;97;117;115;116;101;100]);
    (9, s [102;97;105;108;101;100;95;112;114;101;99;111;110;100;105;116;105;111;110]);
    (10, s [97;98;111;114;116;101;100]); (11, s [111;117;116;95;111;102;95;114;97;110;103;101]);
    (12, s [117;110;105;109;112;108;101;109;101;110;116;101;100]); (13, s [105;110;116;101;114;110;97;108]);
    (14, s [117;110;97;118;97;105;108;97;98;108;101]); (15, s [100;97;116;97;95;108;111;115;115]);
    (16, s [117;110;97;117;116;104;101;110;116;105;99;97;116;101;100]) ].

(* Connect: code -> HTTP status *)
Definition spec_connect_code_to_http : list (N * N) :=
  [(1,408);(2,500);(3,400);(4,408);(5,404);(6,409);(7,403);(8,429);(9,412);(10,409);(11,400);(12,404);(13,500);(14,503);(15,500);(16,401)].
(* Connect: HTTP status -> code (default unknown = 2) *)
Definition spec_connect_http_to_code : list (N * N) :=
  [(400,3);(401,16);(403,7);(404,12);(408,4);(412,9);(413,8);(429,14);(431,8);(502,14);(503,14);(504,14)].
(* gRPC: HTTP status -> code (default unknown = 2) *)
Definition spec_grpc_http_to_code : list (N * N) :=
  [(400,13);(401,16);(403,7);(404,12);(429,14);(502,14);(503,14);(504,14)].

Definition h_content_type := s [67;111;110;116;101;110;116;45;84;121;112;101].
Definition h_grpc_status := s [71;114;112;99;45;83;116;97;116;117;115].
Definition h_grpc_encoding := s [71;114;112;99;45;69;110;99;111;100;105;110;103].
Definition h_connect_encoding := s [67;111;110;110;101;99;116;45;67;111;110;116;101;110;116;45;69;110;99;111;100;105;110;103].
Definition h_unary_encoding := s [67;111;110;116;101;110;116;45;69;110;99;111;100;105;110;103]. (* Content-Encoding *)
Definition v_identity := s [105;100;101;110;116;105;116;121].
Definition v_app_json := s [97;112;112;108;105;99;97;116;105;111;110;47;106;115;111;110].
Definition k_grpc_status_lower := s [103;114;112;99;45;115;116;97;116;117;115].

(* ---- envelopes: 1 flag byte, 4-byte big-endian length, payload ---- *)
Fixpoint spec_frames (fuel : nat) (b : bytes) : option (list (N * bytes)) :=
  match b with
  | [] => Some []
  | fl :: a :: b2 :: c :: d :: rest =>
    match fuel with
    | O => None
    | S fuel' =>
      let n := N.to_nat (bN a * 16777216 + bN b2 * 65536 + bN c * 256 + bN d) in
      if (length rest <? n)%nat then None     (* payload shorter than declared *)
      else match spec_frames fuel' (skipn n rest) with
           | Some fs => Some ((bN fl, firstn n rest) :: fs)
           | None => None
           end
    end
  | _ => None                                  (* dangling prefix bytes *)
  end.

Definition frames_of (b : bytes) : option (list (N * bytes)) := spec_frames (S (length b)) b.

Definition is_nil_l (l : bytes) : bool := match l with [] => true | _ => false end.

(* an encoding header "names an algorithm" when it has one non-empty value other than identity *)
Definition names_algorithm (enc : list bytes) : bool :=
  match enc with
  | [e] => negb (is_nil_l e) && negb (bs_eqb e v_identity)
  | _ => false
  end.

(* an encoding header, when present, carries exactly one content-coding, and a content-coding
   is a non-empty token ("identity" / "gzip" / ... in all three protocol documents) *)
Definition encoding_wellformed (enc : list bytes) : bool :=
  match enc with
  | [] => true
  | [e] => negb (is_nil_l e)
  | _ => false
  end.

(* data envelopes: flags 0 or 1, and 1 only if the encoding header names an algorithm *)
Definition data_frame_ok (alg : bool) (f : N * bytes) : bool :=
  (fst f =? 0) || ((fst f =? 1) && alg).

Definition all_digits_b (v : bytes) : bool :=
  negb (is_nil_l v) && forallb (fun b => (48 <=? bN b) && (bN b <=? 57)) v.

Fixpoint digits_value (v : bytes) (acc : N) : N :=
  match v with [] => acc | b :: r => digits_value r (10 * acc + (bN b - 48)) end.

(* ---- gRPC-Web trailer block: "key: value" lines separated by CRLF ---- *)
Definition lower (b : byte) : byte := if (65 <=? bN b) && (bN b <=? 90) then Nb (bN b + 32) else b.

Fixpoint split_crlf (b : bytes) (cur : bytes) : list bytes :=
  match b with
  | [] => match cur with [] => [] | _ => [rev cur] end
  | x :: r =>
    match r with
    | y :: r' => if byte_eqb x x0d && byte_eqb y x0a then rev cur :: split_crlf r' [] else split_crlf r (x :: cur)
    | [] => [rev (x :: cur)]
    end
  end.

Fixpoint trim_l (v : bytes) : bytes :=
  match v with b :: r => if byte_eqb b x20 || byte_eqb b x09 then trim_l r else v | [] => [] end.
Definition trim (v : bytes) : bytes := rev (trim_l (rev (trim_l v))).

Fixpoint split_colon (l : bytes) (key : bytes) : option (bytes * bytes) :=
  match l with
  | [] => None
  | b :: r => if byte_eqb b x3a then Some (map lower (rev key), trim r) else split_colon r (b :: key)
  end.

(* the values of a (lower-cased) key in a trailer block; None if a line is not "key: value" *)
Fixpoint block_values (lines : list bytes) (key : bytes) : option (list bytes) :=
  match lines with
  | [] => Some []
  | l :: r =>
    match split_colon l [], block_values r key with
    | Some (k, v), Some vs => Some (if bs_eqb k key then v :: vs else vs)
    | _, _ => None
    end
  end.

(* ---- what a conformant response means ---- *)
Record response := mkR { r_status : N; r_header : hmap; r_body : bytes; r_trailer : hmap }.

(* decoded: the data envelopes (compressed?, payload) and the final status:
   0 = success, otherwise the error code *)
Definition decoded := (list (bool * bytes) * N)%type.

Definition data_of (fs : list (N * bytes)) : list (bool * bytes) := map (fun f => (fst f =? 1, snd f)) fs.

(* exactly one grpc-status, 1*DIGIT *)
Definition one_status (vs : list bytes) : option N :=
  match vs with
  | [v] => if all_digits_b v then Some (digits_value v 0) else None
  | _ => None
  end.

(* gRPC over HTTP/2 *)
Definition spec_decode_grpc (req_ct : bytes) (r : response) : option decoded :=
  if negb (r_status r =? 200) then None
  else if negb (match values h_content_type (r_header r) with [ct] => bs_eqb ct req_ct | _ => false end) then None
  else if negb (encoding_wellformed (values h_grpc_encoding (r_header r))) then None
  else match frames_of (r_body r) with
       | None => None
       | Some fs =>
         let alg := names_algorithm (values h_grpc_encoding (r_header r)) in
         if negb (forallb (data_frame_ok alg) fs) then None
         else
           (* exactly one grpc-status: in the trailers, or — body-less — in the headers *)
           match values h_grpc_status (r_trailer r), values h_grpc_status (r_header r) with
           | ts, [] => match one_status ts with Some c => Some (data_of fs, c) | None => None end
           | [], hs => if is_nil_l (r_body r)
                       then match one_status hs with Some c => Some ([], c) | None => None end
                       else None
           | _, _ => None
           end
       end.

(* gRPC-Web: trailers travel as the final envelope with bit 7 set *)
Definition spec_decode_grpcweb (req_ct : bytes) (r : response) : option decoded :=
  if negb (r_status r =? 200) then None
  else if negb (match values h_content_type (r_header r) with [ct] => bs_eqb ct req_ct | _ => false end) then None
  else if negb (encoding_wellformed (values h_grpc_encoding (r_header r))) then None
  else match frames_of (r_body r) with
       | None => None
       | Some fs =>
         let alg := names_algorithm (values h_grpc_encoding (r_header r)) in
         match rev fs with
         | [] =>
           (* body-less: the fields may travel in the HTTP headers *)
           match one_status (values h_grpc_status (r_header r)) with Some c => Some ([], c) | None => None end
         | (tf, tp) :: rdata =>
           if negb ((tf =? 128) || ((tf =? 129) && alg)) then None
           else if negb (forallb (data_frame_ok alg) rdata) then None
           else if negb (match values h_grpc_status (r_header r) with [] => true | _ => false end) then None
           else if tf =? 129 then Some (data_of (rev rdata), 4294967296)   (* compressed trailers: status checked by the harness after decompression *)
           else match block_values (split_crlf tp []) k_grpc_status_lower with
                | Some vs => match one_status vs with Some c => Some (data_of (rev rdata), c) | None => None end
                | None => None
                end
         end
       end.

(* summary of a JSON error object / end-of-stream object supplied by an independent JSON parser *)
Inductive jsum :=
| JNotObject                         (* not a JSON object *)
| JNoError                           (* object without "error" (end-of-stream) *)
| JError (code : bytes).             (* error object with this "code" string *)

Definition code_of_name (n : bytes) : option N :=
  match filter (fun p => bs_eqb (snd p) n) spec_code_names with
  | (c, _) :: _ => Some c
  | [] => None
  end.

(* Connect streaming: 200, data envelopes, exactly one end-of-stream envelope, nothing after *)
Definition spec_decode_connect_stream (req_ct : bytes) (end_json : jsum) (r : response) : option decoded :=
  if negb (r_status r =? 200) then None
  else if negb (match values h_content_type (r_header r) with [ct] => bs_eqb ct req_ct | _ => false end) then None
  else if negb (encoding_wellformed (values h_connect_encoding (r_header r))) then None
  else match frames_of (r_body r) with
       | None => None
       | Some fs =>
         let alg := names_algorithm (values h_connect_encoding (r_header r)) in
         match rev fs with
         | [] => None                                  (* no end-of-stream envelope *)
         | (tf, tp) :: rdata =>
           if negb ((tf =? 2) || ((tf =? 3) && alg)) then None
           else if negb (forallb (data_frame_ok alg) rdata) then None
           else match end_json with
                | JNotObject => None
                | JNoError => Some (data_of (rev rdata), 0)
                | JError n => match code_of_name n with Some c => Some (data_of (rev rdata), c) | None => None end
                end
         end
       end.

(* Connect unary: success = 200 + echoed content type; error = JSON under the code's HTTP status *)
Definition spec_decode_connect_unary (req_ct : bytes) (body_json : jsum) (r : response) : option decoded :=
  if negb (encoding_wellformed (values h_unary_encoding (r_header r))) then None
  else if r_status r =? 200 then
    if match values h_content_type (r_header r) with [ct] => bs_eqb ct req_ct | _ => false end
    then Some ([(false, r_body r)], 0) else None
  else
    if negb (match values h_content_type (r_header r) with [ct] => bs_eqb ct v_app_json | _ => false end) then None
    else match body_json with
         | JError n =>
           match code_of_name n with
           | Some c =>
             match filter (fun p => fst p =? c) spec_connect_code_to_http with
             | (_, st) :: _ => if st =? r_status r then Some ([], c) else None
             | [] => None
             end
           | None => None
           end
         | _ => None
         end.
