(* Timeout.v — model of grpcEncodeTimeout / grpcParseTimeout (protocol_grpc.go:675-711),
   of the Connect client's Connect-Timeout-Ms computation (protocol_connect.go:249-257)
   and of connectHandler.SetTimeout (protocol_connect.go:85-102).
   Durations are nanoseconds; int64 range is explicit. *)
From Coq Require Import List NArith ZArith Lia Bool.
From Coq.Strings Require Import Byte.
From Connect Require Import Bytes Generated Codes.
Import ListNotations.
Local Open Scope N_scope.

Definition ms_ns : N := 1000000.
Definition hour_ns : N := 3600000000000.
Definition ten7 : N := 10000000.

(* ---------- gRPC encode ---------- *)

(* the loop of grpcEncodeTimeout over the unit table, for timeout > 0 *)
Fixpoint grpc_encode_units (units : list (N * byte)) (d : N) : option bytes :=
  match units with
  | [] => None
  | (size, ch) :: rest =>
    let digits := print_dec (d / size) in
    if N.of_nat (length digits) <? grpc_max_timeout_chars
    then Some (digits ++ [ch])
    else grpc_encode_units rest d
  end.

(* grpcEncodeTimeout: timeout <= 0 gives "0n" *)
Definition grpc_encode_timeout (d : Z) : option bytes :=
  if (d <=? 0)%Z then Some [x30; x6e]
  else grpc_encode_units grpc_timeout_units (Z.to_N d).

(* ---------- gRPC parse ---------- *)

Inductive ptimeout := PNone | PInvalid | PDur (ns : Z).

Fixpoint unit_lookup (units : list (N * byte)) (c : byte) : option N :=
  match units with
  | [] => None
  | (size, ch) :: rest => if byte_eqb c ch then Some size else unit_lookup rest c
  end.

Definition grpc_parse_timeout (s : bytes) : ptimeout :=
  match rev s with
  | [] => PNone                                   (* "" : errNoTimeout *)
  | c :: rnum =>
    match unit_lookup grpc_timeout_units c with
    | None => PInvalid                            (* invalid unit *)
    | Some size =>
      match go_parse_int64 (rev rnum) with
      | None => PInvalid
      | Some num =>
        if (num <? 0)%Z then PInvalid
        else if (Z.of_N grpc_parse_max_num <? num)%Z then PInvalid
        else if (size =? hour_ns) && (Z.of_N grpc_timeout_max_hours <? num)%Z then PNone
        else PDur (num * Z.of_N size)
      end
    end
  end.

(* ---------- Connect ---------- *)

(* client: remaining (ns, may be <= 0) -> header value or no header.
   millis := int64(remaining / 1ms) truncates toward zero. *)
Definition connect_encode_timeout (remaining : Z) : option bytes :=
  let millis := (remaining ÷ Z.of_N ms_ns)%Z in
  if (Z.of_N connect_client_min_millis <=? millis)%Z then
    let encoded := print_dec (Z.to_N millis) in
    if N.of_nat (length encoded) <=? connect_timeout_max_len_client then Some encoded else None
  else None.

(* handler: header value -> context timeout *)
Definition connect_parse_timeout (s : bytes) : ptimeout :=
  match s with
  | [] => PNone
  | _ =>
    if connect_timeout_max_len_handler <? N.of_nat (length s) then PInvalid
    else match go_parse_int64 s with
         | None => PInvalid
         | Some millis => PDur (millis * Z.of_N ms_ns)
         end
  end.

(* ================= proofs ================= *)

Lemma max_chars_is_8 : grpc_max_timeout_chars = 8.
Proof. reflexivity. Qed.

Lemma len_lt8_iff n : n < 18446744073709551616 ->
  (N.of_nat (length (print_dec n)) <? 8 = true <-> n < ten7).
Proof.
  intro H. destruct (print_dec_spec n H) as (_ & _ & _ & _ & Hub & Hlb).
  split.
  - intro L. apply N.ltb_lt in L.
    destruct (N.lt_ge_cases n ten7) as [|G]; [assumption|].
    specialize (Hlb 7%nat ltac:(lia)). change (pow10 7) with ten7 in Hlb. specialize (Hlb G). lia.
  - intro L. apply N.ltb_lt.
    specialize (Hub 7%nat ltac:(lia)). change (pow10 7) with ten7 in Hub. specialize (Hub L). lia.
Qed.

Lemma enc_here size ch rest d : d / size < 18446744073709551616 -> d / size < ten7 ->
  grpc_encode_units ((size, ch) :: rest) d = Some (print_dec (d / size) ++ [ch]).
Proof.
  intros H L. cbn [grpc_encode_units]. rewrite max_chars_is_8.
  apply (len_lt8_iff _ H) in L. rewrite L. reflexivity.
Qed.

Lemma enc_skip size ch rest d : d / size < 18446744073709551616 -> ten7 <= d / size ->
  grpc_encode_units ((size, ch) :: rest) d = grpc_encode_units rest d.
Proof.
  intros H L. cbn [grpc_encode_units]. rewrite max_chars_is_8.
  destruct (N.of_nat (length (print_dec (d / size))) <? 8) eqn:E; [|reflexivity].
  apply (len_lt8_iff _ H) in E. lia.
Qed.

Lemma rev_digits_unit (ds : bytes) (ch : byte) : rev (ds ++ [ch]) = ch :: rev ds.
Proof. rewrite rev_app_distr. reflexivity. Qed.

(* parsing what the encoder wrote *)
Lemma parse_encoded size ch n :
  unit_lookup grpc_timeout_units ch = Some size ->
  n < ten7 ->
  (size = hour_ns -> n <= grpc_timeout_max_hours) ->
  grpc_parse_timeout (print_dec n ++ [ch]) = PDur (Z.of_N n * Z.of_N size).
Proof.
  intros Hu Hn Hh. unfold grpc_parse_timeout. rewrite rev_digits_unit, Hu, rev_involutive.
  rewrite go_parse_int64_print by (unfold ten7, two63 in *; lia).
  assert ((Z.of_N n <? 0)%Z = false) as E1 by (apply Z.ltb_ge; lia).
  assert ((Z.of_N grpc_parse_max_num <? Z.of_N n)%Z = false) as E2.
  { apply Z.ltb_ge. change grpc_parse_max_num with 99999999. unfold ten7 in Hn. lia. }
  rewrite E1, E2.
  destruct (size =? hour_ns) eqn:E3; cbn [andb]; [|reflexivity].
  apply N.eqb_eq in E3. specialize (Hh E3).
  assert ((Z.of_N grpc_timeout_max_hours <? Z.of_N n)%Z = false) as E4 by (apply Z.ltb_ge; lia).
  rewrite E4. reflexivity.
Qed.

Definition int64_max : N := 9223372036854775807.

Lemma div_ge_mul d k c : 0 < k -> c <= d / k -> c * k <= d.
Proof.
  intros Hk H. pose proof (N.mul_div_le d k ltac:(lia)).
  assert (c * k <= k * (d / k)) by nia. lia.
Qed.

(* The gRPC encoder is sound for every duration 0 < d < 2^63. *)
Lemma grpc_encode_sound_lemma : forall d : N, 0 < d -> d <= int64_max ->
  exists s d',
    grpc_encode_timeout (Z.of_N d) = Some s /\
    (length s <= 8)%nat /\
    grpc_parse_timeout s = PDur (Z.of_N d') /\
    d' <= d /\ 10000 * (d - d') < d /\
    (d < ten7 -> d' = d).
Proof.
  intros d Hpos Hmax. unfold grpc_encode_timeout.
  assert ((Z.of_N d <=? 0)%Z = false) as E0 by (apply Z.leb_gt; lia). rewrite E0, N2Z.id.
  unfold int64_max in Hmax.
  (* generic finishing step for the unit that is chosen *)
  assert (Fin : forall size ch rest,
            0 < size ->
            unit_lookup grpc_timeout_units ch = Some size ->
            d / size < ten7 ->
            (size = hour_ns -> d / size <= grpc_timeout_max_hours) ->
            (size = 1 \/ (1000 <= size /\ ten7 * size <= 1000 * d)) ->
            exists s d',
              grpc_encode_units ((size, ch) :: rest) d = Some s /\
              (length s <= 8)%nat /\
              grpc_parse_timeout s = PDur (Z.of_N d') /\
              d' <= d /\ 10000 * (d - d') < d /\ (d < ten7 -> d' = d)).
  { intros size ch rest Hs Hu Hlt Hh Herr.
    assert (Hq : d / size < 18446744073709551616).
    { unfold ten7 in Hlt. lia. }
    exists (print_dec (d / size) ++ [ch]), (d / size * size).
    pose proof (N.div_mod d size ltac:(lia)) as Hdm.
    pose proof (N.mod_lt d size ltac:(lia)) as Hml.
    split; [apply enc_here; assumption|].
    split.
    { rewrite app_length. cbn [length].
      destruct (print_dec_spec _ Hq) as (_ & _ & _ & _ & Hub & _).
      specialize (Hub 7%nat ltac:(lia)). change (pow10 7) with ten7 in Hub. specialize (Hub Hlt). lia. }
    split.
    { rewrite (parse_encoded size ch (d / size) Hu Hlt Hh). f_equal. lia. }
    assert (Hle : d / size * size <= d) by (rewrite N.mul_comm; apply N.mul_div_le; lia).
    assert (Hrem : d - d / size * size < size).
    { replace (d / size * size) with (size * (d / size)) by lia.
      rewrite <- N.mod_eq by lia. exact Hml. }
    split; [exact Hle|].
    split.
    { destruct Herr as [H1|[H0 H1]].
      - subst size. rewrite N.div_1_r. lia.
      - unfold ten7 in *. lia. }
    { intro Hsmall. destruct Herr as [H1|[H0 H1]].
      - subst size. rewrite N.div_1_r. lia.
      - exfalso. unfold ten7 in *. lia. } }
  unfold grpc_timeout_units.
  assert (forall k, 0 < k -> d / k < 18446744073709551616) as Hdiv.
  { intros k Hk. apply N.div_lt_upper_bound; nia. }
  (* n *)
  destruct (N.lt_ge_cases (d / 1) ten7) as [L|G].
  { apply Fin; [lia | reflexivity | exact L | intro X; discriminate X | left; reflexivity]. }
  rewrite enc_skip by (try apply Hdiv; lia).
  rewrite N.div_1_r in G.
  (* u *)
  destruct (N.lt_ge_cases (d / 1000) ten7) as [L|G1].
  { apply Fin; [lia | reflexivity | exact L | intro X; discriminate X | right; unfold ten7 in *; split; lia]. }
  rewrite enc_skip by (try apply Hdiv; lia).
  assert (G1' : ten7 * 1000 <= d).
  { apply div_ge_mul; [lia | assumption]. }
  (* m *)
  destruct (N.lt_ge_cases (d / 1000000) ten7) as [L|G2].
  { apply Fin; [lia | reflexivity | exact L | intro X; discriminate X | right; unfold ten7 in *; split; lia]. }
  rewrite enc_skip by (try apply Hdiv; lia).
  assert (G2' : ten7 * 1000000 <= d).
  { apply div_ge_mul; [lia | assumption]. }
  (* S *)
  destruct (N.lt_ge_cases (d / 1000000000) ten7) as [L|G3].
  { apply Fin; [lia | reflexivity | exact L | intro X; discriminate X | right; unfold ten7 in *; split; lia]. }
  rewrite enc_skip by (try apply Hdiv; lia).
  assert (G3' : ten7 * 1000000000 <= d).
  { apply div_ge_mul; [lia | assumption]. }
  (* M *)
  destruct (N.lt_ge_cases (d / 60000000000) ten7) as [L|G4].
  { apply Fin; [lia | reflexivity | exact L | intro X; discriminate X | right; unfold ten7 in *; split; lia]. }
  rewrite enc_skip by (try apply Hdiv; lia).
  assert (G4' : ten7 * 60000000000 <= d).
  { apply div_ge_mul; [lia | assumption]. }
  (* H: always fits, because d <= 2^63-1 *)
  assert (L : d / 3600000000000 < ten7).
  { apply N.div_lt_upper_bound; unfold ten7; lia. }
  apply Fin; [lia | reflexivity | exact L | | right; unfold ten7 in *; split; lia].
  intros _. change grpc_timeout_max_hours with 2562047.
  apply N.lt_succ_r. apply N.div_lt_upper_bound; lia.
Qed.

Lemma grpc_encode_nonpositive d : (d <= 0)%Z ->
  grpc_encode_timeout d = Some [x30; x6e] /\ grpc_parse_timeout [x30; x6e] = PDur 0.
Proof.
  intro H. unfold grpc_encode_timeout. apply Z.leb_le in H. rewrite H. split; reflexivity.
Qed.

(* ---- grammar: 1..8 digits followed by a unit ---- *)

Lemma unit_lookup_In units : forall size ch,
  unit_lookup units ch = Some size -> In (size, ch) units.
Proof.
  induction units as [|[s c] r IH]; intros size ch H; cbn [unit_lookup] in H; [discriminate|].
  destruct (byte_eqb ch c) eqn:E.
  - inversion H; subst. apply byte_eqb_eq in E. subst. left. reflexivity.
  - right. apply IH. exact H.
Qed.

Lemma go_parse_int64_digits ds n :
  all_digits ds = true -> parse_dec ds = Some n -> n < two63 ->
  go_parse_int64 ds = Some (Z.of_N n).
Proof.
  intros Hd Hp Hn. unfold go_parse_int64. destruct ds as [|b r]; [discriminate|].
  assert (Hb : is_digit b = true) by (cbn [all_digits] in Hd; apply andb_true_iff in Hd; tauto).
  assert (byte_eqb b x2b = false) as E1.
  { apply byte_eqb_neq. intro; subst. vm_compute in Hb. discriminate Hb. }
  assert (byte_eqb b x2d = false) as E2.
  { apply byte_eqb_neq. intro; subst. vm_compute in Hb. discriminate Hb. }
  rewrite E1, E2, Hp. apply N.ltb_lt in Hn. rewrite Hn. reflexivity.
Qed.

Lemma grpc_parse_grammar_lemma : forall ds ch size,
  all_digits ds = true -> (1 <= length ds <= 8)%nat ->
  unit_lookup grpc_timeout_units ch = Some size ->
  exists n, parse_dec ds = Some n /\
    grpc_parse_timeout (ds ++ [ch]) =
      if (Z.of_N (n * size) <=? Z.of_N int64_max)%Z then PDur (Z.of_N (n * size)) else PNone.
Proof.
  intros ds ch size Hd Hl Hu.
  destruct ds as [|b r] eqn:Eds; [simpl in Hl; lia|]. rewrite <- Eds in *.
  destruct (parse_dec_aux_digits ds 0 Hd) as [n Hn].
  assert (Hp : parse_dec ds = Some n) by (unfold parse_dec; rewrite Eds in *; exact Hn).
  exists n. split; [exact Hp|].
  pose proof (parse_dec_aux_bound ds 0 n Hn) as Hb.
  assert (Hn8 : n < 100000000).
  { assert (pow10 (length ds) <= pow10 8).
    { clear - Hl. assert (forall a b, (a <= b)%nat -> pow10 a <= pow10 b) as Mono.
      { intros a b Hab. induction Hab; [lia|]. cbn [pow10]. pose proof (pow10_pos m). lia. }
      apply Mono. lia. }
    change (pow10 8) with 100000000 in H. lia. }
  unfold grpc_parse_timeout. rewrite rev_digits_unit, Hu, rev_involutive.
  rewrite (go_parse_int64_digits ds n Hd Hp) by (unfold two63; lia).
  assert ((Z.of_N n <? 0)%Z = false) as E1 by (apply Z.ltb_ge; lia).
  assert ((Z.of_N grpc_parse_max_num <? Z.of_N n)%Z = false) as E2.
  { apply Z.ltb_ge. change grpc_parse_max_num with 99999999. lia. }
  rewrite E1, E2.
  apply unit_lookup_In in Hu. unfold grpc_timeout_units in Hu. cbn [In] in Hu.
  unfold int64_max.
  destruct Hu as [Hu|[Hu|[Hu|[Hu|[Hu|[Hu|[]]]]]]]; inversion Hu; subst size ch; clear Hu;
    change grpc_timeout_max_hours with 2562047; unfold hour_ns.
  1-5: (match goal with |- context [(?a =? ?b) && _] => replace (a =? b) with false by reflexivity end;
        cbn [andb];
        match goal with |- context [(?x <=? ?y)%Z] =>
          assert ((x <=? y)%Z = true) as E3 by (apply Z.leb_le; lia); rewrite E3 end;
        f_equal; lia).
  replace (3600000000000 =? 3600000000000) with true by reflexivity. cbn [andb].
  destruct (Z.of_N 2562047 <? Z.of_N n)%Z eqn:E3.
  - apply Z.ltb_lt in E3.
    assert ((Z.of_N (n * 3600000000000) <=? Z.of_N 9223372036854775807)%Z = false) as E4
      by (apply Z.leb_gt; lia).
    rewrite E4. reflexivity.
  - apply Z.ltb_ge in E3.
    assert ((Z.of_N (n * 3600000000000) <=? Z.of_N 9223372036854775807)%Z = true) as E4
      by (apply Z.leb_le; lia).
    rewrite E4. f_equal. lia.
Qed.

(* ---- rejection of malformed values ---- *)

Lemma grpc_rejects_bad_unit : forall s c,
  unit_lookup grpc_timeout_units c = None -> grpc_parse_timeout (s ++ [c]) = PInvalid.
Proof. intros s c H. unfold grpc_parse_timeout. rewrite rev_digits_unit, H. reflexivity. Qed.

Lemma grpc_rejects_bad_number : forall num c,
  go_parse_int64 num = None -> grpc_parse_timeout (num ++ [c]) = PInvalid.
Proof.
  intros num c H. unfold grpc_parse_timeout. rewrite rev_digits_unit, rev_involutive.
  destruct (unit_lookup grpc_timeout_units c); [rewrite H|]; reflexivity.
Qed.

Lemma grpc_rejects_empty_number : forall c, grpc_parse_timeout [c] = PInvalid.
Proof. intro c. apply (grpc_rejects_bad_number [] c). reflexivity. Qed.

Lemma grpc_rejects_nondigit : forall num c,
  all_digits num = false ->
  (forall b r, num = b :: r -> b <> x2b /\ b <> x2d) ->
  grpc_parse_timeout (num ++ [c]) = PInvalid.
Proof.
  intros num c Hd Hs. apply grpc_rejects_bad_number.
  unfold go_parse_int64. destruct num as [|b r]; [reflexivity|].
  destruct (Hs b r eq_refl) as [N1 N2].
  apply byte_eqb_neq in N1. apply byte_eqb_neq in N2. rewrite N1, N2.
  assert (parse_dec (b :: r) = None) as E by (apply parse_dec_None_iff; right; exact Hd).
  rewrite E. reflexivity.
Qed.

Lemma grpc_rejects_too_long : forall num c z,
  go_parse_int64 num = Some z -> (Z.of_N grpc_parse_max_num < z)%Z ->
  grpc_parse_timeout (num ++ [c]) = PInvalid.
Proof.
  intros num c z Hz Hbig. unfold grpc_parse_timeout. rewrite rev_digits_unit, rev_involutive.
  destruct (unit_lookup grpc_timeout_units c); [|reflexivity]. rewrite Hz.
  destruct (z <? 0)%Z; [reflexivity|].
  apply Z.ltb_lt in Hbig. rewrite Hbig. reflexivity.
Qed.

Lemma grpc_rejects_negative : forall num c z,
  go_parse_int64 num = Some z -> (z < 0)%Z -> grpc_parse_timeout (num ++ [c]) = PInvalid.
Proof.
  intros num c z Hz Hneg. unfold grpc_parse_timeout. rewrite rev_digits_unit, rev_involutive.
  destruct (unit_lookup grpc_timeout_units c); [|reflexivity]. rewrite Hz.
  apply Z.ltb_lt in Hneg. rewrite Hneg. reflexivity.
Qed.

(* ---- Connect ---- *)

Lemma min_millis_zero : connect_client_min_millis = 0.
Proof. reflexivity. Qed.

Definition ten10 : N := 10000000000.

Lemma connect_parse_nonempty s : s <> [] ->
  connect_parse_timeout s =
    if connect_timeout_max_len_handler <? N.of_nat (length s) then PInvalid
    else match go_parse_int64 s with
         | None => PInvalid
         | Some millis => PDur (millis * Z.of_N ms_ns)
         end.
Proof. intro H. destruct s; [congruence | reflexivity]. Qed.

(* every remaining time d >= 0 expressible in 10 digits of milliseconds is sent,
   rounded down by less than 1 ms; larger ones are sent as no timeout. *)
Lemma connect_encode_sound_lemma : forall d : N, d <= int64_max ->
  let millis := d / ms_ns in
  if millis <? ten10 then
    exists s, connect_encode_timeout (Z.of_N d) = Some s /\
              (1 <= length s <= 10)%nat /\ all_digits s = true /\
              connect_parse_timeout s = PDur (Z.of_N (millis * ms_ns)) /\
              millis * ms_ns <= d /\ d - millis * ms_ns < ms_ns
  else connect_encode_timeout (Z.of_N d) = None.
Proof.
  intros d Hmax millis. unfold connect_encode_timeout.
  assert (Hq : (Z.of_N d ÷ Z.of_N ms_ns)%Z = Z.of_N millis).
  { subst millis. rewrite Z.quot_div_nonneg by (unfold ms_ns; lia). rewrite N2Z.inj_div. reflexivity. }
  rewrite Hq, min_millis_zero.
  assert ((Z.of_N 0 <=? Z.of_N millis)%Z = true) as E0 by (apply Z.leb_le; lia). rewrite E0, N2Z.id.
  assert (Hm64 : millis < 18446744073709551616).
  { subst millis. unfold int64_max, ms_ns in *. apply N.div_lt_upper_bound; lia. }
  destruct (print_dec_spec millis Hm64) as (Hne & Hdig & Hparse & _ & Hub & Hlb).
  change connect_timeout_max_len_client with 10.
  destruct (millis <? ten10) eqn:E.
  - apply N.ltb_lt in E.
    specialize (Hub 10%nat ltac:(lia)). change (pow10 10) with ten10 in Hub. specialize (Hub E).
    assert ((N.of_nat (length (print_dec millis)) <=? 10) = true) as E1 by (apply N.leb_le; lia).
    rewrite E1. exists (print_dec millis).
    split; [reflexivity|].
    split. { destruct (print_dec millis); [congruence | cbn [length] in *; lia]. }
    split; [exact Hdig|].
    split.
    { rewrite connect_parse_nonempty by exact Hne. change connect_timeout_max_len_handler with 10.
      assert ((10 <? N.of_nat (length (print_dec millis))) = false) as E2 by (apply N.ltb_ge; lia).
      rewrite E2.
      rewrite (go_parse_int64_digits _ millis Hdig Hparse) by (unfold two63, ten10 in *; lia).
      f_equal. lia. }
    subst millis. unfold ms_ns. split.
    + rewrite N.mul_comm. apply N.mul_div_le. lia.
    + replace (d / 1000000 * 1000000) with (1000000 * (d / 1000000)) by lia.
      rewrite <- N.mod_eq by lia. apply N.mod_lt. lia.
  - apply N.ltb_ge in E.
    specialize (Hlb 10%nat ltac:(lia)). change (pow10 10) with ten10 in Hlb. specialize (Hlb E).
    assert ((N.of_nat (length (print_dec millis)) <=? 10) = false) as E1 by (apply N.leb_gt; lia).
    rewrite E1. reflexivity.
Qed.

(* grammatical Connect-Timeout-Ms values (1..10 digits) are honoured exactly *)
Lemma connect_parse_grammar_lemma : forall ds,
  all_digits ds = true -> (1 <= length ds <= 10)%nat ->
  exists n, parse_dec ds = Some n /\ connect_parse_timeout ds = PDur (Z.of_N (n * ms_ns)).
Proof.
  intros ds Hd Hl.
  destruct ds as [|b r] eqn:Eds; [simpl in Hl; lia|]. rewrite <- Eds in *.
  destruct (parse_dec_aux_digits ds 0 Hd) as [n Hn].
  assert (Hp : parse_dec ds = Some n) by (unfold parse_dec; rewrite Eds in *; exact Hn).
  exists n. split; [exact Hp|].
  pose proof (parse_dec_aux_bound ds 0 n Hn) as Hb.
  assert (Hn10 : n < ten10).
  { assert (pow10 (length ds) <= pow10 10).
    { clear - Hl. assert (forall a b, (a <= b)%nat -> pow10 a <= pow10 b) as Mono.
      { intros a b Hab. induction Hab; [lia|]. cbn [pow10]. pose proof (pow10_pos m). lia. }
      apply Mono. lia. }
    change (pow10 10) with ten10 in H. lia. }
  rewrite connect_parse_nonempty by (rewrite Eds; discriminate).
  change connect_timeout_max_len_handler with 10.
  assert ((10 <? N.of_nat (length ds)) = false) as E by (apply N.ltb_ge; lia). rewrite E.
  rewrite (go_parse_int64_digits ds n Hd Hp) by (unfold two63, ten10 in *; lia).
  f_equal. lia.
Qed.

Lemma connect_rejects_long : forall s,
  (10 < length s)%nat -> connect_parse_timeout s = PInvalid.
Proof.
  intros s H. unfold connect_parse_timeout. destruct s as [|b r]; [simpl in H; lia|].
  change connect_timeout_max_len_handler with 10.
  assert ((10 <? N.of_nat (length (b :: r))) = true) as E by (apply N.ltb_lt; lia). rewrite E. reflexivity.
Qed.

Lemma connect_rejects_nonnumber : forall s,
  s <> [] -> go_parse_int64 s = None -> connect_parse_timeout s = PInvalid.
Proof.
  intros s Hne H. unfold connect_parse_timeout. destruct s as [|b r]; [congruence|].
  destruct (connect_timeout_max_len_handler <? N.of_nat (length (b :: r))); [reflexivity|].
  rewrite H. reflexivity.
Qed.

(* ================= the timeout header over the life of a request header map ================= *)

(* One client call made with a header map that may have been used before (a
   *connect.Request sent again). Times are absolute nanoseconds. The stream is
   created at [created] (NewConn), its request leaves at [sent_at] (the first
   Send; for unary calls the two coincide).

   NewConn: delete(header, timeout header)                         [client_timeout_cleared_in_new_conn]
   onRequestSend, run once inside sendRequestOnce.Do before the
   request is started: header := encode(deadline - now) if the
   context has a deadline                                          [client_timeout_set_only_at_send,
                                                                     duplex_on_request_send_inside_once]
   The three facts are extracted from the source by the translator; were one of
   them false the definitions below would compute what the code then does
   (keep the old value / use the creation time). *)
Record ccall := mkCcall {
  c_grpc : bool;
  c_deadline : option Z;
  c_created : Z;
  c_sent_at : Z
}.

Definition encode_remaining (grpc : bool) (remaining : Z) : option bytes :=
  if grpc then grpc_encode_timeout remaining else connect_encode_timeout remaining.

Definition call_header (before : option bytes) (c : ccall) : option bytes :=
  let cleared := if client_timeout_cleared_in_new_conn then None else before in
  let now := if client_timeout_set_only_at_send && duplex_on_request_send_inside_once
             then c_sent_at c else c_created c in
  match c_deadline c with
  | None => cleared
  | Some dl =>
    match encode_remaining (c_grpc c) (dl - now) with
    | Some s => Some s
    | None => cleared
    end
  end.

(* the header map is shared by the successive calls: what one call leaves is what the next finds *)
Fixpoint run_calls (h : option bytes) (cs : list ccall) : list (option bytes) :=
  match cs with
  | [] => []
  | c :: r => let h' := call_header h c in h' :: run_calls h' r
  end.

(* what a call announces is a function of that call alone *)
Lemma call_header_fresh : forall h c, call_header h c = call_header None c.
Proof. intros h c. unfold call_header. reflexivity. Qed.

Lemma reuse_independent_lemma : forall cs h,
  run_calls h cs = map (call_header None) cs.
Proof.
  induction cs as [|c r IH]; intro h; cbn [run_calls map]; [reflexivity|].
  rewrite IH. rewrite (call_header_fresh h c). reflexivity.
Qed.

Lemma no_deadline_no_header_lemma : forall h c, c_deadline c = None -> call_header h c = None.
Proof. intros h c H. unfold call_header. rewrite H. reflexivity. Qed.

Lemma header_is_remaining_at_send_lemma : forall h c dl,
  c_deadline c = Some dl ->
  call_header h c = encode_remaining (c_grpc c) (dl - c_sent_at c).
Proof.
  intros h c dl H. unfold call_header. rewrite H.
  cbv [client_timeout_set_only_at_send duplex_on_request_send_inside_once
       client_timeout_cleared_in_new_conn andb].
  destruct (encode_remaining (c_grpc c) (dl - c_sent_at c)); reflexivity.
Qed.

(* Connect: a remaining time too large to express leaves no header at all, whatever was there *)
Lemma inexpressible_sent_as_none_lemma : forall h c dl,
  c_grpc c = false -> c_deadline c = Some dl ->
  connect_encode_timeout (dl - c_sent_at c) = None ->
  call_header h c = None.
Proof.
  intros h c dl Hg Hd He. rewrite (header_is_remaining_at_send_lemma h c dl Hd).
  unfold encode_remaining. rewrite Hg. exact He.
Qed.

(* non-vacuity: the same header map through three calls — 5 s left, no deadline, 2 s left
   with the stream created 1 s before its request was sent *)
Example reuse_example :
  run_calls (Some [x39]) [mkCcall false (Some 5000000000%Z) 0 0; mkCcall false None 0 0;
                          mkCcall false (Some 3000000000%Z) 0 1000000000%Z]
  = [Some [x35; x30; x30; x30]; None; Some [x32; x30; x30; x30]].
Proof. vm_compute. reflexivity. Qed.
