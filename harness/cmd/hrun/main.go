// hrun runs the implementation side of the correspondence check for one
// property: it exercises /repo (built with -tags verif) on generated cases,
// evaluates the direct oracles, and writes Coq case files plus summary.json.
package main

import (
	"flag"
	"fmt"
	"os"

	"github.com/bufbuild/connect-go/verifharness/internal/h"
	"github.com/bufbuild/connect-go/verifharness/internal/props"
)

var families = map[string]func(*h.Run){
	"C01": props.C01,
	"C02": props.C02,
	"C03": props.C03,
	"C04": props.C04,
	"C05": props.C05,
	"C06": props.C06,
	"C07": props.C07,
	"C08": props.C08,
	"C09": props.C09,
	"C10": props.C10,
	"C11": props.C11,
	"C12": props.C12,
	"C13": props.C13,
	"C14": props.C14,
	"C15": props.C15,
	"C16": props.C16,
	"C17": props.C17,
	"C18": props.C18,
	"C19": props.C19,
}

func main() {
	prop := flag.String("prop", "", "property id")
	tier := flag.String("tier", "quick", "quick|thorough")
	seed := flag.Uint64("seed", 1, "seed")
	out := flag.String("out", "", "output directory")
	flag.Parse()
	f, ok := families[*prop]
	if !ok {
		fmt.Fprintf(os.Stderr, "hrun: unknown property %q\n", *prop)
		os.Exit(2)
	}
	r := h.NewRun(*prop, *tier, *seed, *out)
	f(r)
	r.Finish()
	fmt.Printf("hrun %s: evaluations=%d model_cases=%d oracle_failures=%d\n", *prop, r.Sum.Evaluations, r.Sum.ModelCases, len(r.Sum.Failures))
}
