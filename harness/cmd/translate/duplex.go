package main

import (
	"go/ast"
	"go/token"
	"sort"
	"strings"
)

// duplexFacts extracts, from duplex_http_call.go, the synchronisation facts
// that justify reading duplexHTTPCall's operations as atomic events in
// Duplex.v. Each fact is emitted as a boolean; Duplex.v proves they are all
// true by reflexivity, so a change that drops a lock or moves a write breaks
// that proof.
func duplexFacts(e *env, p func(format string, args ...any)) {
	const typ = "duplexHTTPCall"
	type method struct {
		name string
		recv string
		fd   *ast.FuncDecl
	}
	var methods []method
	for name, fd := range e.funcs {
		if !strings.HasPrefix(name, typ+".") {
			continue
		}
		recv := ""
		if len(fd.Recv.List[0].Names) == 1 {
			recv = fd.Recv.List[0].Names[0].Name
		}
		methods = append(methods, method{strings.TrimPrefix(name, typ+"."), recv, fd})
	}
	sort.Slice(methods, func(i, j int) bool { return methods[i].name < methods[j].name })
	if len(methods) == 0 {
		e.fail("duplexHTTPCall: no methods found")
		return
	}
	isField := func(x ast.Expr, recv, field string) bool {
		se, ok := x.(*ast.SelectorExpr)
		if !ok || se.Sel.Name != field {
			return false
		}
		id, ok := se.X.(*ast.Ident)
		return ok && id.Name == recv
	}
	// call of recv.field.meth()
	isFieldCall := func(n ast.Node, recv, field, meth string) bool {
		ce, ok := n.(*ast.CallExpr)
		if !ok {
			return false
		}
		se, ok := ce.Fun.(*ast.SelectorExpr)
		if !ok || se.Sel.Name != meth {
			return false
		}
		return isField(se.X, recv, field)
	}
	isMethodCall := func(n ast.Node, recv, meth string) bool {
		ce, ok := n.(*ast.CallExpr)
		if !ok {
			return false
		}
		return isField(ce.Fun, recv, meth)
	}

	// 1. d.err only between errMu.Lock() and errMu.Unlock()
	errLocked := true
	var errNotes []string
	sawErr := false
	for _, m := range methods {
		var refs, locks, unlocks []token.Pos
		deferUnlock := false
		ast.Inspect(m.fd.Body, func(n ast.Node) bool {
			if n == nil {
				return true
			}
			if x, ok := n.(ast.Expr); ok && isField(x, m.recv, "err") {
				refs = append(refs, n.Pos())
			}
			if isFieldCall(n, m.recv, "errMu", "Lock") {
				locks = append(locks, n.Pos())
			}
			if isFieldCall(n, m.recv, "errMu", "Unlock") {
				unlocks = append(unlocks, n.Pos())
			}
			if ds, ok := n.(*ast.DeferStmt); ok && isFieldCall(ds.Call, m.recv, "errMu", "Unlock") {
				deferUnlock = true
			}
			return true
		})
		if len(refs) == 0 {
			continue
		}
		sawErr = true
		ok := len(locks) == 1 && locks[0] < refs[0]
		if ok && !deferUnlock {
			ok = len(unlocks) == 1 && unlocks[0] > refs[len(refs)-1]
		}
		if !ok {
			errLocked = false
			errNotes = append(errNotes, m.name+" "+e.pos(refs[0]))
		}
	}
	if !sawErr {
		e.fail("duplexHTTPCall: no method references the err field")
	}
	// also no other code in the package touches a duplexHTTPCall's err: the
	// field is only reachable through a *duplexHTTPCall value; look for
	// `.err` selectors on identifiers named duplexCall in other functions.
	for name, fd := range e.funcs {
		if strings.HasPrefix(name, typ+".") || fd.Body == nil {
			continue
		}
		ast.Inspect(fd.Body, func(n ast.Node) bool {
			se, ok := n.(*ast.SelectorExpr)
			if !ok {
				return true
			}
			if se.Sel.Name != "err" && se.Sel.Name != "response" {
				return true
			}
			if inner, ok := se.X.(*ast.SelectorExpr); ok && inner.Sel.Name == "duplexCall" {
				errLocked = false
				errNotes = append(errNotes, name+" "+e.pos(se.Pos()))
			}
			if id, ok := se.X.(*ast.Ident); ok && id.Name == "duplexCall" {
				errLocked = false
				errNotes = append(errNotes, name+" "+e.pos(se.Pos()))
			}
			return true
		})
	}

	// 2./3. response written only in makeRequest; read elsewhere only after BlockUntilResponseReady
	respWriteOK, respReadOK := true, true
	var respNotes []string
	for _, m := range methods {
		var refs []token.Pos
		var block token.Pos
		written := false
		ast.Inspect(m.fd.Body, func(n ast.Node) bool {
			if n == nil {
				return true
			}
			if x, ok := n.(ast.Expr); ok && isField(x, m.recv, "response") {
				refs = append(refs, n.Pos())
			}
			if as, ok := n.(*ast.AssignStmt); ok {
				for _, l := range as.Lhs {
					if isField(l, m.recv, "response") {
						written = true
					}
				}
			}
			if ue, ok := n.(*ast.UnaryExpr); ok && ue.Op == token.AND && isField(ue.X, m.recv, "response") {
				written = true
			}
			if block == 0 && isMethodCall(n, m.recv, "BlockUntilResponseReady") {
				block = n.Pos()
			}
			return true
		})
		if m.name == "makeRequest" {
			continue
		}
		if written {
			respWriteOK = false
			respNotes = append(respNotes, "write in "+m.name)
		}
		if len(refs) > 0 {
			// the block call must be the first statement of the body
			first := false
			if len(m.fd.Body.List) > 0 {
				if es, ok := m.fd.Body.List[0].(*ast.ExprStmt); ok && isMethodCall(es.X, m.recv, "BlockUntilResponseReady") {
					first = true
				}
			}
			if !first || block == 0 || block > refs[0] {
				respReadOK = false
				respNotes = append(respNotes, "unguarded read in "+m.name+" "+e.pos(refs[0]))
			}
		}
	}
	// BlockUntilResponseReady is `<-d.responseReady`
	if fd, ok := e.funcs[typ+".BlockUntilResponseReady"]; ok {
		good := false
		if len(fd.Body.List) == 1 {
			if es, ok := fd.Body.List[0].(*ast.ExprStmt); ok {
				if ue, ok := es.X.(*ast.UnaryExpr); ok && ue.Op == token.ARROW {
					recv := fd.Recv.List[0].Names[0].Name
					good = isField(ue.X, recv, "responseReady")
				}
			}
		}
		if !good {
			respReadOK = false
			respNotes = append(respNotes, "BlockUntilResponseReady is not a receive from responseReady")
		}
	} else {
		e.fail("duplexHTTPCall.BlockUntilResponseReady not found")
	}

	// 4. responseReady closed exactly once, by the first deferred call of makeRequest
	readyOK := false
	closes := 0
	for _, f := range e.files {
		ast.Inspect(f, func(n ast.Node) bool {
			ce, ok := n.(*ast.CallExpr)
			if !ok {
				return true
			}
			if id, ok := ce.Fun.(*ast.Ident); ok && id.Name == "close" && len(ce.Args) == 1 {
				if se, ok := ce.Args[0].(*ast.SelectorExpr); ok && se.Sel.Name == "responseReady" {
					closes++
				}
			}
			return true
		})
	}
	if fd, ok := e.funcs[typ+".makeRequest"]; ok && len(fd.Body.List) > 0 {
		if ds, ok := fd.Body.List[0].(*ast.DeferStmt); ok {
			if id, ok := ds.Call.Fun.(*ast.Ident); ok && id.Name == "close" && len(ds.Call.Args) == 1 {
				recv := fd.Recv.List[0].Names[0].Name
				readyOK = isField(ds.Call.Args[0], recv, "responseReady") && closes == 1
			}
		}
	} else {
		e.fail("duplexHTTPCall.makeRequest not found")
	}

	// 5. makeRequest is only started as `go d.makeRequest()` inside sendRequestOnce.Do(func(){...})
	onceOK := true
	calls := 0
	for _, f := range e.files {
		ast.Inspect(f, func(n ast.Node) bool {
			ce, ok := n.(*ast.CallExpr)
			if !ok {
				return true
			}
			if se, ok := ce.Fun.(*ast.SelectorExpr); ok && se.Sel.Name == "makeRequest" {
				calls++
			}
			return true
		})
	}
	inOnce := 0
	if fd, ok := e.funcs[typ+".ensureRequestMade"]; ok {
		recv := fd.Recv.List[0].Names[0].Name
		ast.Inspect(fd.Body, func(n ast.Node) bool {
			if !isFieldCall(n, recv, "sendRequestOnce", "Do") {
				return true
			}
			ce := n.(*ast.CallExpr)
			if len(ce.Args) != 1 {
				return true
			}
			fl, ok := ce.Args[0].(*ast.FuncLit)
			if !ok {
				return true
			}
			for _, st := range fl.Body.List {
				if gs, ok := st.(*ast.GoStmt); ok && isMethodCall(gs.Call, recv, "makeRequest") {
					inOnce++
				}
			}
			return true
		})
	} else {
		e.fail("duplexHTTPCall.ensureRequestMade not found")
	}
	if calls != 1 || inOnce != 1 {
		onceOK = false
	}

	// 6. every other channel of the call is closed in one place only, and that place is the
	// function literal handed to a sync.Once's Do (two goroutines may want to close it)
	otherCloses, otherInOnce := 0, 0
	for _, m := range methods {
		// closes inside <recv>.<x>Once.Do(func() { ... })
		inside := map[*ast.CallExpr]bool{}
		ast.Inspect(m.fd.Body, func(n ast.Node) bool {
			ce, ok := n.(*ast.CallExpr)
			if !ok || len(ce.Args) != 1 {
				return true
			}
			se, ok := ce.Fun.(*ast.SelectorExpr)
			if !ok || se.Sel.Name != "Do" {
				return true
			}
			fse, ok := se.X.(*ast.SelectorExpr)
			if !ok || !strings.HasSuffix(fse.Sel.Name, "Once") {
				return true
			}
			if id, ok := fse.X.(*ast.Ident); !ok || id.Name != m.recv {
				return true
			}
			if fl, ok := ce.Args[0].(*ast.FuncLit); ok {
				ast.Inspect(fl.Body, func(k ast.Node) bool {
					if c, ok := k.(*ast.CallExpr); ok {
						inside[c] = true
					}
					return true
				})
			}
			return true
		})
		ast.Inspect(m.fd.Body, func(n ast.Node) bool {
			ce, ok := n.(*ast.CallExpr)
			if !ok {
				return true
			}
			id, ok := ce.Fun.(*ast.Ident)
			if !ok || id.Name != "close" || len(ce.Args) != 1 {
				return true
			}
			if se, ok := ce.Args[0].(*ast.SelectorExpr); ok && se.Sel.Name == "responseReady" {
				return true
			}
			otherCloses++
			if inside[ce] {
				otherInOnce++
			}
			return true
		})
	}
	otherOK := otherCloses == otherInOnce

	b := func(v bool) string {
		if v {
			return "true"
		}
		return "false"
	}
	p("\n(* ---- duplex_http_call.go: synchronisation facts (structural, from the AST) ---- *)\n")
	p("Definition duplex_err_only_under_mutex : bool := %s. (* every reference to d.err lies between errMu.Lock and errMu.Unlock %s *)\n", b(errLocked), strings.Join(errNotes, "; "))
	p("Definition duplex_response_written_only_in_make_request : bool := %s. (* %s *)\n", b(respWriteOK), strings.Join(respNotes, "; "))
	p("Definition duplex_response_read_only_after_ready : bool := %s.\n", b(respReadOK))
	p("Definition duplex_ready_closed_by_defer_in_make_request : bool := %s. (* close(responseReady) occurrences: %d *)\n", b(readyOK), closes)
	p("Definition duplex_goroutine_started_through_once : bool := %s. (* makeRequest call sites: %d, inside sendRequestOnce.Do: %d *)\n", b(onceOK), calls, inOnce)
	p("Definition duplex_other_channels_closed_through_once : bool := %s. (* close() of channels other than responseReady: %d, inside a sync.Once's Do: %d *)\n", b(otherOK), otherCloses, otherInOnce)
}
