// translate regenerates coq/theories/Generated.v from the current /repo source.
//
// It reads the Go sources with go/parser (no type checking) and extracts, by
// name and shape, the constants and finite tables the Coq model depends on.
// Every extracted item records file:line. If an item is missing or no longer
// has the expected shape the program exits 2 and names it.
package main

import (
	"flag"
	"fmt"
	"go/ast"
	"go/constant"
	"go/parser"
	"go/token"
	"os"
	"path/filepath"
	"regexp"
	"sort"
	"strconv"
	"strings"
)

type env struct {
	fset   *token.FileSet
	files  []*ast.File
	consts map[string]ast.Expr // name -> defining expr
	cpos   map[string]token.Pos
	funcs  map[string]*ast.FuncDecl // "Recv.Name" or "Name"
	vars   map[string]ast.Expr
	errs   []string
}

func (e *env) fail(format string, args ...any) {
	e.errs = append(e.errs, fmt.Sprintf(format, args...))
}

func (e *env) pos(p token.Pos) string {
	pp := e.fset.Position(p)
	return fmt.Sprintf("%s:%d", filepath.Base(pp.Filename), pp.Line)
}

var timeConsts = map[string]int64{
	"Nanosecond": 1, "Microsecond": 1000, "Millisecond": 1000000,
	"Second": 1000000000, "Minute": 60000000000, "Hour": 3600000000000,
}

// eval evaluates a constant expression built from literals, named package
// constants, time.X, math.MaxInt64, conversions T(x) and + - * / .
func (e *env) eval(x ast.Expr, depth int) (constant.Value, bool) {
	if depth > 20 {
		return nil, false
	}
	switch v := x.(type) {
	case *ast.BasicLit:
		return constant.MakeFromLiteral(v.Value, v.Kind, 0), true
	case *ast.ParenExpr:
		return e.eval(v.X, depth+1)
	case *ast.Ident:
		if d, ok := e.consts[v.Name]; ok {
			return e.eval(d, depth+1)
		}
		return nil, false
	case *ast.SelectorExpr:
		if id, ok := v.X.(*ast.Ident); ok {
			if id.Name == "time" {
				if n, ok := timeConsts[v.Sel.Name]; ok {
					return constant.MakeInt64(n), true
				}
			}
			if id.Name == "math" && v.Sel.Name == "MaxInt64" {
				return constant.MakeInt64(1<<63 - 1), true
			}
			if id.Name == "http" && v.Sel.Name == "TrailerPrefix" {
				return constant.MakeString("Trailer:"), true
			}
		}
		return nil, false
	case *ast.CallExpr: // conversion like int64(time.Hour) or Code(1)
		if len(v.Args) == 1 {
			return e.eval(v.Args[0], depth+1)
		}
		return nil, false
	case *ast.BinaryExpr:
		a, ok1 := e.eval(v.X, depth+1)
		b, ok2 := e.eval(v.Y, depth+1)
		if !ok1 || !ok2 {
			return nil, false
		}
		op := v.Op
		if op == token.QUO && a.Kind() == constant.Int && b.Kind() == constant.Int {
			op = token.QUO_ASSIGN // integer division
		}
		defer func() { recover() }()
		return constant.BinaryOp(a, op, b), true
	}
	return nil, false
}

func (e *env) constInt(name string) (int64, string) {
	d, ok := e.consts[name]
	if !ok {
		e.fail("constant %s not found", name)
		return 0, "?"
	}
	v, ok := e.eval(d, 0)
	if !ok || v == nil || v.Kind() != constant.Int {
		e.fail("constant %s is not an integer constant expression", name)
		return 0, "?"
	}
	n, _ := constant.Int64Val(v)
	return n, e.pos(e.cpos[name])
}

func (e *env) constStr(name string) (string, string) {
	d, ok := e.consts[name]
	if !ok {
		e.fail("constant %s not found", name)
		return "", "?"
	}
	v, ok := e.eval(d, 0)
	if !ok || v == nil || v.Kind() != constant.String {
		e.fail("constant %s is not a string constant expression", name)
		return "", "?"
	}
	return constant.StringVal(v), e.pos(e.cpos[name])
}

func (e *env) exprInt(x ast.Expr) (int64, bool) {
	v, ok := e.eval(x, 0)
	if !ok || v == nil || v.Kind() != constant.Int {
		return 0, false
	}
	n, _ := constant.Int64Val(v)
	return n, true
}

func (e *env) exprStr(x ast.Expr) (string, bool) {
	v, ok := e.eval(x, 0)
	if !ok || v == nil || v.Kind() != constant.String {
		return "", false
	}
	return constant.StringVal(v), true
}

func (e *env) fn(name string) *ast.FuncDecl {
	f, ok := e.funcs[name]
	if !ok {
		e.fail("function %s not found", name)
		return nil
	}
	return f
}

// firstSwitch returns the first switch statement in a function body.
func firstSwitch(f *ast.FuncDecl) *ast.SwitchStmt {
	var sw *ast.SwitchStmt
	ast.Inspect(f.Body, func(n ast.Node) bool {
		if sw != nil {
			return false
		}
		if s, ok := n.(*ast.SwitchStmt); ok {
			sw = s
			return false
		}
		return true
	})
	return sw
}

// retExpr returns the expression of the first return statement in a clause body.
func firstReturn(body []ast.Stmt) ast.Expr {
	for _, st := range body {
		if r, ok := st.(*ast.ReturnStmt); ok && len(r.Results) >= 1 {
			return r.Results[0]
		}
	}
	return nil
}

type pairNN struct{ k, v int64 }
type pairNS struct {
	k int64
	s string
}

// switchIntInt: switch x { case A, B: return V ... default: return D }
func (e *env) switchIntInt(fname string) (tbl []pairNN, def int64, where string) {
	f := e.fn(fname)
	if f == nil {
		return nil, 0, "?"
	}
	where = e.pos(f.Pos())
	sw := firstSwitch(f)
	if sw == nil {
		e.fail("%s: no switch statement", fname)
		return
	}
	hasDef := false
	for _, st := range sw.Body.List {
		cc := st.(*ast.CaseClause)
		r := firstReturn(cc.Body)
		if r == nil {
			e.fail("%s: case without return", fname)
			continue
		}
		v, ok := e.exprInt(r)
		if !ok {
			e.fail("%s: non-constant return at %s", fname, e.pos(r.Pos()))
			continue
		}
		if cc.List == nil {
			def, hasDef = v, true
			continue
		}
		for _, c := range cc.List {
			k, ok := e.exprInt(c)
			if !ok {
				e.fail("%s: non-constant case at %s", fname, e.pos(c.Pos()))
				continue
			}
			tbl = append(tbl, pairNN{k, v})
		}
	}
	if !hasDef {
		// default may be a trailing return after the switch
		for i := len(f.Body.List) - 1; i >= 0; i-- {
			if r, ok := f.Body.List[i].(*ast.ReturnStmt); ok && len(r.Results) == 1 {
				if v, ok := e.exprInt(r.Results[0]); ok {
					def, hasDef = v, true
				}
				break
			}
		}
	}
	if !hasDef {
		e.fail("%s: no default result", fname)
	}
	return
}

func coqBytes(s string) string {
	var b strings.Builder
	b.WriteString("[")
	for i := 0; i < len(s); i++ {
		if i > 0 {
			b.WriteString("; ")
		}
		fmt.Fprintf(&b, "x%02x", s[i])
	}
	b.WriteString("]")
	return b.String()
}

func main() {
	repo := flag.String("repo", "/repo", "repository root")
	out := flag.String("out", "", "output .v file")
	flag.Parse()
	e := &env{
		fset:   token.NewFileSet(),
		consts: map[string]ast.Expr{},
		cpos:   map[string]token.Pos{},
		funcs:  map[string]*ast.FuncDecl{},
		vars:   map[string]ast.Expr{},
	}
	matches, _ := filepath.Glob(filepath.Join(*repo, "*.go"))
	sort.Strings(matches)
	for _, m := range matches {
		if strings.HasSuffix(m, "_test.go") || strings.HasPrefix(filepath.Base(m), "verif_") {
			continue
		}
		f, err := parser.ParseFile(e.fset, m, nil, 0)
		if err != nil {
			fmt.Fprintf(os.Stderr, "translate: parse %s: %v\n", m, err)
			os.Exit(2)
		}
		e.files = append(e.files, f)
		for _, d := range f.Decls {
			switch dd := d.(type) {
			case *ast.GenDecl:
				for _, sp := range dd.Specs {
					vs, ok := sp.(*ast.ValueSpec)
					if !ok {
						continue
					}
					for i, n := range vs.Names {
						if i < len(vs.Values) {
							if dd.Tok == token.CONST {
								e.consts[n.Name] = vs.Values[i]
								e.cpos[n.Name] = n.Pos()
							} else {
								e.vars[n.Name] = vs.Values[i]
								e.cpos[n.Name] = n.Pos()
							}
						}
					}
				}
			case *ast.FuncDecl:
				name := dd.Name.Name
				if dd.Recv != nil && len(dd.Recv.List) == 1 {
					t := dd.Recv.List[0].Type
					if st, ok := t.(*ast.StarExpr); ok {
						t = st.X
					}
					switch x := t.(type) { // generic receivers: Client[Req, Res]
					case *ast.IndexExpr:
						t = x.X
					case *ast.IndexListExpr:
						t = x.X
					}
					if id, ok := t.(*ast.Ident); ok {
						name = id.Name + "." + name
					}
				}
				e.funcs[name] = dd
			}
		}
	}

	var w strings.Builder
	p := func(format string, args ...any) { fmt.Fprintf(&w, format, args...) }
	p("(* Generated.v — GENERATED by harness/cmd/translate from %s; do not edit.\n", *repo)
	p("   Regenerated on every run of bin/check; theorems downstream are re-checked. *)\n")
	p("From Coq Require Import List NArith ZArith.\nFrom Coq.Strings Require Import Byte.\nFrom Connect Require Import Bytes.\nImport ListNotations.\nLocal Open Scope N_scope.\n\n")

	intConst := func(coq, goName string) {
		n, where := e.constInt(goName)
		p("Definition %s : N := %d. (* %s %s *)\n", coq, n, goName, where)
	}
	strConst := func(coq, goName string) {
		s, where := e.constStr(goName)
		p("Definition %s : bytes := %s. (* %s = %q %s *)\n", coq, coqBytes(s), goName, s, where)
	}

	p("(* ---- flags and sizes ---- *)\n")
	intConst("flag_compressed", "flagEnvelopeCompressed")
	intConst("connect_flag_end_stream", "connectFlagEnvelopeEndStream")
	intConst("grpc_flag_trailer", "grpcFlagEnvelopeTrailer")
	intConst("initial_buffer_size", "initialBufferSize")
	intConst("max_recycle_buffer_size", "maxRecycleBufferSize")
	intConst("discard_limit", "discardLimit")
	intConst("grpc_max_timeout_chars", "grpcMaxTimeoutChars")
	intConst("grpc_timeout_max_hours", "grpcTimeoutMaxHours")
	intConst("min_code", "minCode")
	intConst("max_code", "maxCode")

	p("\n(* ---- header names and content types ---- *)\n")
	for _, pr := range [][2]string{
		{"hdr_grpc_encoding", "grpcHeaderCompression"},
		{"hdr_grpc_accept_encoding", "grpcHeaderAcceptCompression"},
		{"hdr_grpc_timeout", "grpcHeaderTimeout"},
		{"hdr_grpc_status", "grpcHeaderStatus"},
		{"hdr_grpc_message", "grpcHeaderMessage"},
		{"hdr_grpc_details", "grpcHeaderDetails"},
		{"ct_grpc", "grpcContentTypeDefault"},
		{"ct_grpc_web", "grpcWebContentTypeDefault"},
		{"ct_grpc_prefix", "grpcContentTypePrefix"},
		{"ct_grpc_web_prefix", "grpcWebContentTypePrefix"},
		{"hdr_connect_unary_encoding", "connectUnaryHeaderCompression"},
		{"hdr_connect_unary_accept_encoding", "connectUnaryHeaderAcceptCompression"},
		{"connect_unary_trailer_prefix", "connectUnaryTrailerPrefix"},
		{"hdr_connect_stream_encoding", "connectStreamingHeaderCompression"},
		{"hdr_connect_stream_accept_encoding", "connectStreamingHeaderAcceptCompression"},
		{"hdr_connect_timeout", "connectHeaderTimeout"},
		{"ct_connect_unary_prefix", "connectUnaryContentTypePrefix"},
		{"ct_connect_unary_json", "connectUnaryContentTypeJSON"},
		{"ct_connect_stream_prefix", "connectStreamingContentTypePrefix"},
		{"hdr_content_type", "headerContentType"},
		{"compression_identity", "compressionIdentity"},
		{"compression_gzip", "compressionGzip"},
		{"codec_name_proto", "codecNameProto"},
		{"codec_name_json", "codecNameJSON"},
	} {
		strConst(pr[0], pr[1])
	}

	// ---- Code.String ----
	p("\n(* ---- code names: Code.String / Code.UnmarshalText ---- *)\n")
	if f := e.fn("Code.String"); f != nil {
		sw := firstSwitch(f)
		var rows []pairNS
		if sw == nil {
			e.fail("Code.String: no switch")
		} else {
			for _, st := range sw.Body.List {
				cc := st.(*ast.CaseClause)
				r := firstReturn(cc.Body)
				if cc.List == nil || r == nil {
					continue
				}
				s, ok := e.exprStr(r)
				if !ok {
					e.fail("Code.String: non-constant name at %s", e.pos(r.Pos()))
					continue
				}
				for _, c := range cc.List {
					k, ok := e.exprInt(c)
					if !ok {
						e.fail("Code.String: non-constant case at %s", e.pos(c.Pos()))
						continue
					}
					rows = append(rows, pairNS{k, s})
				}
			}
		}
		p("Definition code_names : list (N * bytes) := (* Code.String %s *)\n  [", e.pos(f.Pos()))
		for i, r := range rows {
			if i > 0 {
				p(";\n   ")
			}
			p("(%d, %s (* %q *))", r.k, coqBytes(r.s), r.s)
		}
		p("].\n")
		// fallback format: fmt.Sprintf("code_%d", c)
		found := ""
		ast.Inspect(f.Body, func(n ast.Node) bool {
			if bl, ok := n.(*ast.BasicLit); ok && bl.Kind == token.STRING {
				s, _ := strconv.Unquote(bl.Value)
				if strings.HasSuffix(s, "%d") {
					found = strings.TrimSuffix(s, "%d")
				}
			}
			return true
		})
		if found == "" {
			e.fail("Code.String: fallback format \"<prefix>%%d\" not found")
		}
		p("Definition code_string_prefix : bytes := %s. (* %q *)\n", coqBytes(found), found)
	}
	if f := e.fn("Code.UnmarshalText"); f != nil {
		sw := firstSwitch(f)
		type row struct {
			s string
			k int64
		}
		var rows []row
		if sw == nil {
			e.fail("Code.UnmarshalText: no switch")
		} else {
			for _, st := range sw.Body.List {
				cc := st.(*ast.CaseClause)
				if cc.List == nil {
					continue
				}
				// body: *c = CodeX; return nil
				var val int64
				okv := false
				for _, b := range cc.Body {
					if as, ok := b.(*ast.AssignStmt); ok && len(as.Rhs) == 1 {
						if v, ok := e.exprInt(as.Rhs[0]); ok {
							val, okv = v, true
						}
					}
				}
				if !okv {
					e.fail("Code.UnmarshalText: case without constant assignment at %s", e.pos(cc.Pos()))
					continue
				}
				for _, c := range cc.List {
					s, ok := e.exprStr(c)
					if !ok {
						e.fail("Code.UnmarshalText: non-constant case at %s", e.pos(c.Pos()))
						continue
					}
					rows = append(rows, row{s, val})
				}
			}
		}
		p("Definition code_parse_names : list (bytes * N) := (* Code.UnmarshalText %s *)\n  [", e.pos(f.Pos()))
		for i, r := range rows {
			if i > 0 {
				p(";\n   ")
			}
			p("(%s (* %q *), %d)", coqBytes(r.s), r.s, r.k)
		}
		p("].\n")
		// strings.HasPrefix(dataStr, "code_")
		pref := ""
		ast.Inspect(f.Body, func(n ast.Node) bool {
			if ce, ok := n.(*ast.CallExpr); ok {
				if se, ok := ce.Fun.(*ast.SelectorExpr); ok && se.Sel.Name == "HasPrefix" && len(ce.Args) == 2 {
					if s, ok := e.exprStr(ce.Args[1]); ok {
						pref = s
					}
				}
			}
			return true
		})
		if pref == "" {
			e.fail("Code.UnmarshalText: strings.HasPrefix literal not found")
		}
		p("Definition code_parse_prefix : bytes := %s. (* %q *)\n", coqBytes(pref), pref)
	}

	// ---- status tables ----
	p("\n(* ---- status tables ---- *)\n")
	for _, t := range [][2]string{
		{"connect_code_to_http", "connectCodeToHTTP"},
		{"connect_http_to_code", "connectHTTPToCode"},
		{"grpc_http_to_code", "grpcHTTPToCode"},
	} {
		tbl, def, where := e.switchIntInt(t[1])
		p("Definition %s_table : list (N * N) := (* %s %s *)\n  [", t[0], t[1], where)
		for i, r := range tbl {
			if i > 0 {
				p("; ")
			}
			p("(%d, %d)", r.k, r.v)
		}
		p("].\nDefinition %s_default : N := %d.\n", t[0], def)
	}

	// ---- grpc timeout units ----
	p("\n(* ---- gRPC timeout ---- *)\n")
	if d, ok := e.vars["grpcTimeoutUnits"]; ok {
		cl, ok := d.(*ast.CompositeLit)
		if !ok {
			e.fail("grpcTimeoutUnits: not a composite literal")
		} else {
			p("Definition grpc_timeout_units : list (N * byte) := (* grpcTimeoutUnits %s *)\n  [", e.pos(d.Pos()))
			for i, el := range cl.Elts {
				ec, ok := el.(*ast.CompositeLit)
				if !ok || len(ec.Elts) != 2 {
					e.fail("grpcTimeoutUnits: element %d has unexpected shape", i)
					continue
				}
				sz, ok1 := e.exprInt(ec.Elts[0])
				ch, ok2 := e.exprInt(ec.Elts[1])
				if !ok1 || !ok2 {
					e.fail("grpcTimeoutUnits: element %d not constant", i)
					continue
				}
				if i > 0 {
					p("; ")
				}
				p("(%d, x%02x (* %q *))", sz, ch, rune(ch))
			}
			p("].\n")
		}
	} else {
		e.fail("variable grpcTimeoutUnits not found")
	}
	// literal bound in grpcParseTimeout:  num > 99999999
	if f := e.fn("grpcParseTimeout"); f != nil {
		var bound int64 = -1
		ast.Inspect(f.Body, func(n ast.Node) bool {
			if be, ok := n.(*ast.BinaryExpr); ok && be.Op == token.GTR {
				if id, ok := be.X.(*ast.Ident); ok && id.Name == "num" {
					if v, ok := e.exprInt(be.Y); ok && bound < 0 {
						if _, isLit := be.Y.(*ast.BasicLit); isLit {
							bound = v
						}
					}
				}
			}
			return true
		})
		if bound < 0 {
			e.fail("grpcParseTimeout: digit bound `num > <literal>` not found")
		}
		p("Definition grpc_parse_max_num : N := %d. (* grpcParseTimeout %s *)\n", bound, e.pos(f.Pos()))
	}
	// connectHandler.SetTimeout: len(timeout) > 10
	findLenBound := func(fname string, op token.Token) int64 {
		f := e.fn(fname)
		if f == nil {
			return -1
		}
		var bound int64 = -1
		ast.Inspect(f.Body, func(n ast.Node) bool {
			if be, ok := n.(*ast.BinaryExpr); ok && be.Op == op {
				if ce, ok := be.X.(*ast.CallExpr); ok {
					if id, ok := ce.Fun.(*ast.Ident); ok && id.Name == "len" {
						if v, ok := e.exprInt(be.Y); ok && bound < 0 {
							bound = v
						}
					}
				}
			}
			return true
		})
		if bound < 0 {
			e.fail("%s: bound `len(x) %s <literal>` not found", fname, op)
		}
		return bound
	}
	p("Definition connect_timeout_max_len_handler : N := %d. (* connectHandler.SetTimeout: len(timeout) > N rejects *)\n",
		findLenBound("connectHandler.SetTimeout", token.GTR))
	p("Definition connect_timeout_max_len_client : N := %d. (* connectClient.NewConn: len(encoded) <= N sends *)\n",
		findLenBound("connectClient.NewConn", token.LEQ))

	// connectClient.NewConn: `millis > 0` (or `>= 0`) guards sending Connect-Timeout-Ms
	if f := e.fn("connectClient.NewConn"); f != nil {
		min := int64(-1)
		ast.Inspect(f.Body, func(n ast.Node) bool {
			if be, ok := n.(*ast.BinaryExpr); ok {
				if id, ok := be.X.(*ast.Ident); ok && id.Name == "millis" {
					if v, ok := e.exprInt(be.Y); ok && min < 0 {
						switch be.Op {
						case token.GTR:
							min = v + 1
						case token.GEQ:
							min = v
						}
					}
				}
			}
			return true
		})
		if min < 0 {
			e.fail("connectClient.NewConn: guard `millis > <n>` / `millis >= <n>` not found")
		}
		p("Definition connect_client_min_millis : N := %d. (* connectClient.NewConn sends the header iff millis >= this *)\n", min)
	}

	// ---- percent encoding alphabet: c < ' ' || c > '~' || c == '%' ----
	p("\n(* ---- gRPC percent-encoding alphabet ---- *)\n")
	for _, fname := range []string{"grpcPercentEncode", "grpcPercentEncodeSlow"} {
		f := e.fn(fname)
		if f == nil {
			continue
		}
		var lo, hi, esc int64 = -1, -1, -1
		ast.Inspect(f.Body, func(n ast.Node) bool {
			be, ok := n.(*ast.BinaryExpr)
			if !ok {
				return true
			}
			bl, ok := be.Y.(*ast.BasicLit)
			if !ok || bl.Kind != token.CHAR {
				return true
			}
			v, _ := e.exprInt(bl)
			switch be.Op {
			case token.LSS:
				if lo < 0 {
					lo = v
				}
			case token.GTR:
				if hi < 0 {
					hi = v
				}
			case token.EQL:
				if esc < 0 {
					esc = v
				}
			}
			return true
		})
		if lo < 0 || hi < 0 || esc < 0 {
			e.fail("%s: escape predicate `c < lo || c > hi || c == esc` not found", fname)
		}
		suffix := ""
		if fname == "grpcPercentEncodeSlow" {
			suffix = "_slow"
		}
		p("Definition percent_lo%s : N := %d. Definition percent_hi%s : N := %d. Definition percent_esc%s : N := %d. (* %s %s *)\n",
			suffix, lo, suffix, hi, suffix, esc, fname, e.pos(f.Pos()))
	}

	// ---- RST_STREAM table in wrapIfRSTError ----
	p("\n(* ---- RST_STREAM code table ---- *)\n")
	if f := e.fn("wrapIfRSTError"); f != nil {
		sw := firstSwitch(f)
		p("Definition rst_table : list (bytes * N) := (* wrapIfRSTError %s *)\n  [", e.pos(f.Pos()))
		first := true
		if sw == nil {
			e.fail("wrapIfRSTError: no switch")
		} else {
			for _, st := range sw.Body.List {
				cc := st.(*ast.CaseClause)
				if cc.List == nil {
					continue
				}
				r := firstReturn(cc.Body)
				ce, ok := r.(*ast.CallExpr)
				if !ok || len(ce.Args) < 1 {
					e.fail("wrapIfRSTError: case does not return NewError(Code, ...) at %s", e.pos(cc.Pos()))
					continue
				}
				code, ok := e.exprInt(ce.Args[0])
				if !ok {
					e.fail("wrapIfRSTError: non-constant code at %s", e.pos(ce.Pos()))
					continue
				}
				for _, c := range cc.List {
					s, ok := e.exprStr(c)
					if !ok {
						continue
					}
					if !first {
						p(";\n   ")
					}
					first = false
					p("(%s (* %q *), %d)", coqBytes(s), s, code)
				}
			}
		}
		p("].\n")
	}

	// ---- generator: keyword escaping in unexport, procedure format ----
	p("\n(* ---- cmd/protoc-gen-connect-go ---- *)\n")
	{
		gf, err := parser.ParseFile(e.fset, filepath.Join(*repo, "cmd", "protoc-gen-connect-go", "main.go"), nil, 0)
		if err != nil {
			e.fail("generator: cannot parse cmd/protoc-gen-connect-go/main.go: %v", err)
		} else {
			var kws []string
			prefix := ""
			procFmt := ""
			for _, d := range gf.Decls {
				fd, ok := d.(*ast.FuncDecl)
				if !ok {
					continue
				}
				switch fd.Name.Name {
				case "unexport":
					ast.Inspect(fd.Body, func(n ast.Node) bool {
						cc, ok := n.(*ast.CaseClause)
						if !ok || cc.List == nil {
							return true
						}
						for _, c := range cc.List {
							if s, ok := e.exprStr(c); ok {
								kws = append(kws, s)
							}
						}
						if r := firstReturn(cc.Body); r != nil {
							if be, ok := r.(*ast.BinaryExpr); ok && be.Op == token.ADD {
								if s, ok := e.exprStr(be.X); ok {
									prefix = s
								}
							}
						}
						return true
					})
				case "procedureName":
					ast.Inspect(fd.Body, func(n ast.Node) bool {
						if bl, ok := n.(*ast.BasicLit); ok && bl.Kind == token.STRING && procFmt == "" {
							procFmt, _ = strconv.Unquote(bl.Value)
						}
						return true
					})
				}
			}
			p("Definition gen_keywords : list bytes := (* unexport: names escaped because they are Go keywords *)\n  [")
			for i, k := range kws {
				if i > 0 {
					p("; ")
				}
				p("%s (* %q *)", coqBytes(k), k)
			}
			p("].\n")
			p("Definition gen_keyword_prefix : bytes := %s. (* %q *)\n", coqBytes(prefix), prefix)
			p("Definition gen_procedure_format : bytes := %s. (* procedureName: %q *)\n", coqBytes(procFmt), procFmt)
		}
	}

	duplexFacts(e, p)
	plumbingFacts(e, p)
	timeoutFacts(e, p)
	structFacts(e, p)

	if len(e.errs) > 0 {
		for _, m := range e.errs {
			fmt.Fprintf(os.Stderr, "translate: SHAPE %s\n", m)
		}
		os.Exit(2)
	}
	text := w.String()
	if *out == "" {
		fmt.Print(text)
		return
	}
	// The line numbers in the comments move with every edit of the source above them, and
	// Generated.v is at the root of the development's dependency graph: keep them in a sidecar
	// file so that an edit which changes no extracted value does not rebuild every proof.
	_ = os.WriteFile(*out+".positions", []byte(text), 0o644)
	text = regexp.MustCompile(`(\w+\.go):\d+`).ReplaceAllString(text, "$1")
	old, err := os.ReadFile(*out)
	if err == nil && string(old) == text {
		return // unchanged: keep timestamps so make does not rebuild
	}
	if err := os.WriteFile(*out, []byte(text), 0o644); err != nil {
		fmt.Fprintf(os.Stderr, "translate: %v\n", err)
		os.Exit(2)
	}
}
