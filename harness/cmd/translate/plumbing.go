package main

import (
	"go/ast"
	"sort"
	"strings"
)

// plumbingFacts checks that every composite literal of the envelope reader /
// writer types and of the Connect unary marshaler / unmarshaler passes the
// configured limits, thresholds, pools and codec on: the model's functions take
// these as parameters, so a literal that drops one (the handler's read limit,
// the compress-min-bytes threshold) silently runs the modelled code with a
// different configuration than the one the user set.
func plumbingFacts(e *env, p func(format string, args ...any)) {
	type rule struct {
		typ      string
		required []string          // fields every literal must set
		suffix   map[string]string // field -> the value must be a selector ending in this name
		ifField  string            // if non-empty: `required` applies only to literals that set this field
	}
	rules := []rule{
		{"envelopeWriter", []string{"writer", "codec", "compressMinBytes", "compressionPool", "bufferPool"}, map[string]string{"compressMinBytes": "CompressMinBytes", "bufferPool": "BufferPool"}, ""},
		{"envelopeReader", []string{"reader", "codec", "bufferPool", "readMaxBytes"}, map[string]string{"readMaxBytes": "ReadMaxBytes", "bufferPool": "BufferPool"}, ""},
		{"connectUnaryMarshaler", []string{"writer", "codec", "compressMinBytes", "compressionName", "compressionPool", "bufferPool", "header"}, map[string]string{"compressMinBytes": "CompressMinBytes"}, ""},
		// the unmarshaler of a non-200 JSON error body has no codec; every other one carries the read limit
		{"connectUnaryUnmarshaler", []string{"reader", "codec", "bufferPool", "readMaxBytes"}, map[string]string{"readMaxBytes": "ReadMaxBytes"}, "codec"},
	}
	p("\n(* ---- configuration plumbing: composite literals of the reader / writer types (structural, from the AST) ---- *)\n")
	for _, ru := range rules {
		ok := true
		count := 0
		var notes []string
		for _, f := range e.files {
			ast.Inspect(f, func(n ast.Node) bool {
				cl, isLit := n.(*ast.CompositeLit)
				if !isLit {
					return true
				}
				id, isIdent := cl.Type.(*ast.Ident)
				if !isIdent || id.Name != ru.typ {
					return true
				}
				fields := map[string]ast.Expr{}
				for _, el := range cl.Elts {
					kv, isKV := el.(*ast.KeyValueExpr)
					if !isKV {
						ok = false
						notes = append(notes, "positional literal at "+e.pos(cl.Pos()))
						return true
					}
					if k, isK := kv.Key.(*ast.Ident); isK {
						fields[k.Name] = kv.Value
					}
				}
				if ru.ifField != "" {
					if _, has := fields[ru.ifField]; !has {
						// still must have reader and bufferPool
						for _, req := range []string{"reader", "bufferPool"} {
							if _, has := fields[req]; !has {
								ok = false
								notes = append(notes, req+" missing at "+e.pos(cl.Pos()))
							}
						}
						return true
					}
				}
				count++
				for _, req := range ru.required {
					v, has := fields[req]
					if !has {
						ok = false
						notes = append(notes, req+" missing at "+e.pos(cl.Pos()))
						continue
					}
					if suf, want := ru.suffix[req]; want {
						se, isSel := v.(*ast.SelectorExpr)
						if !isSel || se.Sel.Name != suf {
							ok = false
							notes = append(notes, req+" is not taken from ."+suf+" at "+e.pos(cl.Pos()))
						}
					}
				}
				return true
			})
		}
		if count == 0 {
			e.fail("plumbing: no composite literal of %s found", ru.typ)
		}
		sort.Strings(notes)
		b := "false"
		if ok {
			b = "true"
		}
		p("Definition plumbing_%s_complete : bool := %s. (* %d literal(s) carrying %s %s *)\n", snake(ru.typ), b, count, strings.Join(ru.required, ", "), strings.Join(notes, "; "))
	}
}

func snake(s string) string {
	var b strings.Builder
	for i, c := range s {
		if c >= 'A' && c <= 'Z' {
			if i > 0 {
				b.WriteByte('_')
			}
			b.WriteRune(c + 32)
		} else {
			b.WriteRune(c)
		}
	}
	return b.String()
}
