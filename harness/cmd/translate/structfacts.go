package main

import (
	"go/ast"
	"go/token"
)

// structFacts extracts a few more structural facts that the models take for granted:
// where per-call state lives, which context reaches the protocol client, how the
// caller's headers are merged, who owns an error's metadata, and that the
// decompressed-size limit is a parameter of each reader rather than state of a
// (shareable) compression pool.
func structFacts(e *env, p func(format string, args ...any)) {
	b := func(v bool) string {
		if v {
			return "true"
		}
		return "false"
	}
	// (1) recover.go: `panicked` is declared inside the function literal that WrapUnary /
	// WrapStreamingHandler RETURN (one flag per call), not in the Wrap* body (one per procedure)
	perCall := true
	nFlags := 0
	for _, fn := range []string{"recoverHandlerInterceptor.WrapUnary", "recoverHandlerInterceptor.WrapStreamingHandler"} {
		fd, ok := e.funcs[fn]
		if !ok {
			e.fail("%s not found", fn)
			perCall = false
			continue
		}
		declaredIn := func(body *ast.BlockStmt) int {
			n := 0
			for _, st := range body.List {
				switch x := st.(type) {
				case *ast.AssignStmt:
					if x.Tok.String() == ":=" {
						for _, l := range x.Lhs {
							if id, ok := l.(*ast.Ident); ok && id.Name == "panicked" {
								n++
							}
						}
					}
				case *ast.DeclStmt:
					if gd, ok := x.Decl.(*ast.GenDecl); ok {
						for _, sp := range gd.Specs {
							if vs, ok := sp.(*ast.ValueSpec); ok {
								for _, nm := range vs.Names {
									if nm.Name == "panicked" {
										n++
									}
								}
							}
						}
					}
				}
			}
			return n
		}
		if declaredIn(fd.Body) > 0 {
			perCall = false // declared at the Wrap* level: shared by all calls
		}
		inLit := 0
		for _, st := range fd.Body.List {
			if rs, ok := st.(*ast.ReturnStmt); ok && len(rs.Results) == 1 {
				if fl, ok := rs.Results[0].(*ast.FuncLit); ok {
					inLit += declaredIn(fl.Body)
				}
			}
		}
		if inLit != 1 {
			perCall = false
		}
		nFlags += inLit
	}
	// (2) Client.newConn: the innermost StreamingClientFunc hands ITS context parameter to
	// protocolClient.NewConn (the context the interceptor chain passed down)
	chainCtx := false
	if fd, ok := e.funcs["Client.newConn"]; ok {
		ast.Inspect(fd.Body, func(n ast.Node) bool {
			fl, ok := n.(*ast.FuncLit)
			if !ok || fl.Type.Params == nil || len(fl.Type.Params.List) == 0 || len(fl.Type.Params.List[0].Names) == 0 {
				return true
			}
			param := fl.Type.Params.List[0].Names[0].Name
			if param == "_" {
				return true
			}
			ast.Inspect(fl.Body, func(k ast.Node) bool {
				ce, ok := k.(*ast.CallExpr)
				if !ok || len(ce.Args) == 0 {
					return true
				}
				if se, ok := ce.Fun.(*ast.SelectorExpr); ok && se.Sel.Name == "NewConn" {
					if id, ok := ce.Args[0].(*ast.Ident); ok && id.Name == param {
						chainCtx = true
					}
				}
				return true
			})
			return true
		})
	} else {
		e.fail("Client.newConn not found")
	}
	// (3) Client.CallServerStream merges the caller's request headers into the conn's
	// (mergeHeaders), it does not assign them key by key
	merges := false
	if fd, ok := e.funcs["Client.CallServerStream"]; ok {
		assigns := 0
		ast.Inspect(fd.Body, func(n ast.Node) bool {
			switch x := n.(type) {
			case *ast.CallExpr:
				if id, ok := x.Fun.(*ast.Ident); ok && id.Name == "mergeHeaders" && len(x.Args) == 2 {
					merges = true
				}
			case *ast.AssignStmt:
				for _, l := range x.Lhs {
					if _, ok := l.(*ast.IndexExpr); ok {
						assigns++
					}
				}
			}
			return true
		})
		if assigns > 0 {
			merges = false
		}
	} else {
		e.fail("Client.CallServerStream not found")
	}
	// (4) the handler-side writers never write INTO an error's metadata: in MarshalEndStream,
	// grpcErrorToTrailer and connectUnaryHandlerConn.writeResponseHeader the first argument of
	// mergeHeaders is never <x>.meta / <x>.Meta(), nothing is assigned to <x>.meta, and Meta()
	// (which allocates lazily) is not called
	metaUntouched := true
	for _, fn := range []string{"connectStreamingMarshaler.MarshalEndStream", "grpcErrorToTrailer", "connectUnaryHandlerConn.writeResponseHeader", "connectUnaryHandlerConn.Close"} {
		fd, ok := e.funcs[fn]
		if !ok {
			e.fail("%s not found", fn)
			metaUntouched = false
			continue
		}
		isMeta := func(x ast.Expr) bool {
			switch y := x.(type) {
			case *ast.SelectorExpr:
				return y.Sel.Name == "meta"
			case *ast.CallExpr:
				if se, ok := y.Fun.(*ast.SelectorExpr); ok && se.Sel.Name == "Meta" {
					return true
				}
			case *ast.IndexExpr:
				if se, ok := y.X.(*ast.SelectorExpr); ok && se.Sel.Name == "meta" {
					return true
				}
			}
			return false
		}
		ast.Inspect(fd.Body, func(n ast.Node) bool {
			switch x := n.(type) {
			case *ast.CallExpr:
				if id, ok := x.Fun.(*ast.Ident); ok && (id.Name == "mergeHeaders" || id.Name == "mergeMetadataHeaders") && len(x.Args) == 2 && isMeta(x.Args[0]) {
					metaUntouched = false
				}
				if se, ok := x.Fun.(*ast.SelectorExpr); ok && se.Sel.Name == "Meta" {
					metaUntouched = false
				}
			case *ast.AssignStmt:
				for _, l := range x.Lhs {
					if isMeta(l) {
						metaUntouched = false
					}
				}
			}
			return true
		})
	}
	// (5) the decompressed-size limit is a parameter of compressionPool.Decompress and the
	// compressionPool struct holds nothing but its two pools
	limitIsParam := false
	if fd, ok := e.funcs["compressionPool.Decompress"]; ok && fd.Type.Params != nil {
		for _, f := range fd.Type.Params.List {
			for _, nm := range f.Names {
				if nm.Name == "readMaxBytes" {
					limitIsParam = true
				}
			}
		}
	} else {
		e.fail("compressionPool.Decompress not found")
	}
	poolFields := -1
	for _, f := range e.files {
		ast.Inspect(f, func(n ast.Node) bool {
			ts, ok := n.(*ast.TypeSpec)
			if !ok || ts.Name.Name != "compressionPool" {
				return true
			}
			if st, ok := ts.Type.(*ast.StructType); ok {
				poolFields = 0
				for _, fl := range st.Fields.List {
					poolFields += len(fl.Names)
				}
			}
			return true
		})
	}
	if poolFields != 2 {
		limitIsParam = false
	}
	// (6) the response accessors of the three client conns wait for the response before they hand
	// out the header / trailer maps that the request goroutine fills
	accessorsWait := true
	nAcc := 0
	for _, typ := range []string{"grpcClientConn", "connectStreamingClientConn", "connectUnaryClientConn"} {
		for _, m := range []string{"ResponseHeader", "ResponseTrailer"} {
			fd, ok := e.funcs[typ+"."+m]
			if !ok {
				e.fail("%s.%s not found", typ, m)
				accessorsWait = false
				continue
			}
			first := false
			if len(fd.Body.List) > 0 {
				if es, ok := fd.Body.List[0].(*ast.ExprStmt); ok {
					if ce, ok := es.X.(*ast.CallExpr); ok {
						if se, ok := ce.Fun.(*ast.SelectorExpr); ok && se.Sel.Name == "BlockUntilResponseReady" {
							first = true
						}
					}
				}
			}
			if first {
				nAcc++
			} else {
				accessorsWait = false
			}
		}
	}
	// (7) the header names mergeMetadataHeaders leaves out when an error's metadata is written
	// to a response (header.go); without that function the list is empty and the model merges
	// everything, as mergeHeaders does
	var excluded []string
	viaFilter := 0
	if fd, ok := e.funcs["mergeMetadataHeaders"]; ok {
		ast.Inspect(fd.Body, func(n ast.Node) bool {
			cc, ok := n.(*ast.CaseClause)
			if !ok || cc.List == nil {
				return true
			}
			skips := false
			for _, st := range cc.Body {
				if br, ok := st.(*ast.BranchStmt); ok && br.Tok == token.CONTINUE {
					skips = true
				}
			}
			if !skips {
				return true
			}
			for _, c := range cc.List {
				if s, ok := e.exprStr(c); ok {
					excluded = append(excluded, s)
				} else {
					e.fail("mergeMetadataHeaders: case expression is not a constant string")
				}
			}
			return true
		})
	}
	// the three places that write an error's metadata to the wire and what they call to do it
	for _, fn := range []string{"connectStreamingMarshaler.MarshalEndStream", "grpcErrorToTrailer", "connectUnaryHandlerConn.writeResponseHeader"} {
		fd, ok := e.funcs[fn]
		if !ok {
			continue
		}
		through := false
		plain := false
		ast.Inspect(fd.Body, func(n ast.Node) bool {
			x, ok := n.(*ast.CallExpr)
			if !ok || len(x.Args) != 2 {
				return true
			}
			id, ok := x.Fun.(*ast.Ident)
			if !ok {
				return true
			}
			isMeta := false
			if se, ok := x.Args[1].(*ast.SelectorExpr); ok && se.Sel.Name == "meta" {
				isMeta = true
			}
			if isMeta && id.Name == "mergeMetadataHeaders" {
				through = true
			}
			if isMeta && id.Name == "mergeHeaders" {
				plain = true
			}
			return true
		})
		if through && !plain {
			viaFilter++
		}
	}
	if viaFilter != 3 {
		// some writer merges the metadata unfiltered: the model must do the same
		excluded = nil
	}
	// (8) duplexHTTPCall.makeRequest replaces the body of a 101 response (the connection itself,
	// which the context does not govern) before the response is published
	bodyReplaced := false
	if fd, ok := e.funcs["duplexHTTPCall.makeRequest"]; ok {
		replacedAt, publishedAt := token.NoPos, token.NoPos
		ast.Inspect(fd.Body, func(n ast.Node) bool {
			switch x := n.(type) {
			case *ast.IfStmt:
				mentions := false
				ast.Inspect(x.Cond, func(k ast.Node) bool {
					if se, ok := k.(*ast.SelectorExpr); ok && se.Sel.Name == "StatusSwitchingProtocols" {
						mentions = true
					}
					return true
				})
				if !mentions {
					return true
				}
				closes, replaces := false, false
				ast.Inspect(x.Body, func(k ast.Node) bool {
					switch y := k.(type) {
					case *ast.CallExpr:
						if se, ok := y.Fun.(*ast.SelectorExpr); ok && se.Sel.Name == "Close" {
							closes = true
						}
					case *ast.AssignStmt:
						if len(y.Lhs) == 1 && len(y.Rhs) == 1 {
							l, lok := y.Lhs[0].(*ast.SelectorExpr)
							rr, rok := y.Rhs[0].(*ast.SelectorExpr)
							if lok && rok && l.Sel.Name == "Body" && rr.Sel.Name == "NoBody" {
								replaces = true
							}
						}
					}
					return true
				})
				if closes && replaces && replacedAt == token.NoPos {
					replacedAt = x.Pos()
				}
			case *ast.AssignStmt:
				if len(x.Lhs) == 1 {
					if se, ok := x.Lhs[0].(*ast.SelectorExpr); ok && se.Sel.Name == "response" && publishedAt == token.NoPos {
						publishedAt = x.Pos()
					}
				}
			}
			return true
		})
		bodyReplaced = replacedAt != token.NoPos && publishedAt != token.NoPos && replacedAt < publishedAt
	} else {
		e.fail("duplexHTTPCall.makeRequest not found")
	}
	// (9) the error a client's construction failed with is never handed to a caller as it is:
	// in the four Call methods of Client, `c.err` occurs only in the nil test
	errPrivate := true
	nCallMethods := 0
	for _, m := range []string{"Client.CallUnary", "Client.CallClientStream", "Client.CallServerStream", "Client.CallBidiStream"} {
		fd, ok := e.funcs[m]
		if !ok {
			e.fail("%s not found", m)
			errPrivate = false
			continue
		}
		nCallMethods++
		isClientErr := func(x ast.Expr) bool {
			se, ok := x.(*ast.SelectorExpr)
			if !ok || se.Sel.Name != "err" {
				return false
			}
			id, ok := se.X.(*ast.Ident)
			return ok && id.Name == "c"
		}
		ast.Inspect(fd.Body, func(n ast.Node) bool {
			switch x := n.(type) {
			case *ast.ReturnStmt:
				for _, res := range x.Results {
					ast.Inspect(res, func(k ast.Node) bool {
						if ex, ok := k.(ast.Expr); ok && isClientErr(ex) {
							errPrivate = false
						}
						return true
					})
				}
			case *ast.AssignStmt:
				for _, rhs := range x.Rhs {
					if isClientErr(rhs) {
						errPrivate = false
					}
				}
			}
			return true
		})
	}
	p("\n(* ---- further structural facts (from the AST) ---- *)\n")
	p("Definition client_construction_error_is_private : bool := %s. (* Client.Call*: c.err is tested, never returned or stored in what is returned: %d of 4 methods found *)\n", b(errPrivate), nCallMethods)
	p("Definition duplex_101_body_replaced : bool := %s. (* makeRequest: `if ... StatusSwitchingProtocols { Body.Close(); Body = http.NoBody }` before d.response is assigned *)\n", b(bodyReplaced))
	p("Definition metadata_excluded_headers : list bytes := (* mergeMetadataHeaders header.go; writers going through it: %d of 3 *)\n  [", viaFilter)
	for i, k := range excluded {
		if i > 0 {
			p("; ")
		}
		p("%s (* %q *)", coqBytes(k), k)
	}
	p("].\n")
	p("Definition client_accessors_wait_for_response : bool := %s. (* ResponseHeader / ResponseTrailer of the three client conns start with BlockUntilResponseReady: %d of 6 *)\n", b(accessorsWait), nAcc)
	p("Definition recover_flag_is_per_call : bool := %s. (* `panicked` declared inside the returned function literal of WrapUnary / WrapStreamingHandler: %d of 2 *)\n", b(perCall), nFlags)
	p("Definition client_new_conn_uses_chain_context : bool := %s. (* Client.newConn: the innermost function hands its own ctx parameter to NewConn *)\n", b(chainCtx))
	p("Definition server_stream_merges_request_headers : bool := %s. (* Client.CallServerStream uses mergeHeaders, no per-key assignment *)\n", b(merges))
	p("Definition handler_never_writes_error_meta : bool := %s. (* MarshalEndStream, grpcErrorToTrailer, connectUnaryHandlerConn.{writeResponseHeader,Close} *)\n", b(metaUntouched))
	p("Definition decompress_limit_is_a_parameter : bool := %s. (* compressionPool.Decompress(..., readMaxBytes); compressionPool has %d fields *)\n", b(limitIsParam), poolFields)
}
