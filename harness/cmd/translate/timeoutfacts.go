package main

import (
	"go/ast"
	"go/token"
	"strings"
)

// timeoutFacts extracts how the clients write their timeout header, the facts
// Timeout.v's call_header is built from: NewConn clears the header (the map may
// be a re-sent Request's), the value is assigned only inside the callback given
// to duplexHTTPCall.onRequestSend, and that callback is run inside
// sendRequestOnce.Do before the request goroutine is started.
func timeoutFacts(e *env, p func(format string, args ...any)) {
	clients := []struct{ fn, konst string }{
		{"connectClient.NewConn", "connectHeaderTimeout"},
		{"grpcClient.NewConn", "grpcHeaderTimeout"},
	}
	cleared, setAtSend := true, true
	nDeletes, nSets, nSetsInCallback := 0, 0, 0
	for _, c := range clients {
		fd, ok := e.funcs[c.fn]
		if !ok {
			e.fail("%s not found", c.fn)
			return
		}
		// delete(header, <const>) as a top-level statement of NewConn
		found := false
		for _, st := range fd.Body.List {
			es, ok := st.(*ast.ExprStmt)
			if !ok {
				continue
			}
			ce, ok := es.X.(*ast.CallExpr)
			if !ok || len(ce.Args) != 2 {
				continue
			}
			if id, ok := ce.Fun.(*ast.Ident); !ok || id.Name != "delete" {
				continue
			}
			if id, ok := ce.Args[1].(*ast.Ident); ok && id.Name == c.konst {
				found = true
				nDeletes++
			}
		}
		if !found {
			cleared = false
		}
		// assignments x[<const>] = ... : all of them inside the func literal assigned to <y>.onRequestSend
		inCallback := map[ast.Node]bool{}
		ast.Inspect(fd.Body, func(n ast.Node) bool {
			as, ok := n.(*ast.AssignStmt)
			if !ok || len(as.Lhs) != 1 || len(as.Rhs) != 1 {
				return true
			}
			se, ok := as.Lhs[0].(*ast.SelectorExpr)
			if !ok || se.Sel.Name != "onRequestSend" {
				return true
			}
			if fl, ok := as.Rhs[0].(*ast.FuncLit); ok {
				ast.Inspect(fl.Body, func(k ast.Node) bool {
					if k != nil {
						inCallback[k] = true
					}
					return true
				})
			}
			return true
		})
		sets := 0
		ast.Inspect(fd.Body, func(n ast.Node) bool {
			as, ok := n.(*ast.AssignStmt)
			if !ok {
				return true
			}
			for _, lhs := range as.Lhs {
				ie, ok := lhs.(*ast.IndexExpr)
				if !ok {
					continue
				}
				if id, ok := ie.Index.(*ast.Ident); ok && id.Name == c.konst {
					sets++
					nSets++
					if inCallback[as] {
						nSetsInCallback++
					} else {
						setAtSend = false
					}
				}
			}
			return true
		})
		if sets == 0 {
			setAtSend = false
		}
	}
	// duplexHTTPCall.ensureRequestMade: inside sendRequestOnce.Do(func(){...}) the call
	// <recv>.onRequestSend(...) precedes `go <recv>.makeRequest()`; onRequestSend is called nowhere else
	insideOnce := false
	callsElsewhere := 0
	fd, ok := e.funcs["duplexHTTPCall.ensureRequestMade"]
	if !ok {
		e.fail("duplexHTTPCall.ensureRequestMade not found")
		return
	}
	recv := fd.Recv.List[0].Names[0].Name
	isCallbackCall := func(n ast.Node) bool {
		ce, ok := n.(*ast.CallExpr)
		if !ok {
			return false
		}
		se, ok := ce.Fun.(*ast.SelectorExpr)
		return ok && se.Sel.Name == "onRequestSend"
	}
	allowed := map[ast.Node]bool{}
	ast.Inspect(fd.Body, func(n ast.Node) bool {
		ce, ok := n.(*ast.CallExpr)
		if !ok || len(ce.Args) != 1 {
			return true
		}
		se, ok := ce.Fun.(*ast.SelectorExpr)
		if !ok || se.Sel.Name != "Do" {
			return true
		}
		fse, ok := se.X.(*ast.SelectorExpr)
		if !ok || fse.Sel.Name != "sendRequestOnce" {
			return true
		}
		if id, ok := fse.X.(*ast.Ident); !ok || id.Name != recv {
			return true
		}
		fl, ok := ce.Args[0].(*ast.FuncLit)
		if !ok {
			return true
		}
		seenCallback := false
		for _, st := range fl.Body.List {
			if gs, ok := st.(*ast.GoStmt); ok {
				if se, ok := gs.Call.Fun.(*ast.SelectorExpr); ok && se.Sel.Name == "makeRequest" {
					insideOnce = seenCallback
					break
				}
			}
			ast.Inspect(st, func(k ast.Node) bool {
				if isCallbackCall(k) {
					seenCallback = true
					allowed[k] = true
				}
				return true
			})
		}
		return true
	})
	for _, f := range e.files {
		ast.Inspect(f, func(n ast.Node) bool {
			if isCallbackCall(n) && !allowed[n] {
				callsElsewhere++
			}
			return true
		})
	}
	if callsElsewhere > 0 {
		insideOnce = false
	}
	// connectClient.NewConn clears the unary Content-Encoding header before the marshaler decides
	encCleared := false
	if fd, ok := e.funcs["connectClient.NewConn"]; ok {
		ast.Inspect(fd.Body, func(n ast.Node) bool {
			ce, ok := n.(*ast.CallExpr)
			if !ok || len(ce.Args) != 2 {
				return true
			}
			if id, ok := ce.Fun.(*ast.Ident); !ok || id.Name != "delete" {
				return true
			}
			if id, ok := ce.Args[1].(*ast.Ident); ok && id.Name == "connectUnaryHeaderCompression" {
				encCleared = true
			}
			return true
		})
	}
	// NewClient: the function literal assigned to client.callUnary starts by stamping the
	// request's spec, as a top-level statement (not under a condition)
	stamps := false
	if fd, ok := e.funcs["NewClient"]; ok {
		ast.Inspect(fd.Body, func(n ast.Node) bool {
			as, ok := n.(*ast.AssignStmt)
			if !ok || len(as.Lhs) != 1 || len(as.Rhs) != 1 {
				return true
			}
			se, ok := as.Lhs[0].(*ast.SelectorExpr)
			if !ok || se.Sel.Name != "callUnary" {
				return true
			}
			fl, ok := as.Rhs[0].(*ast.FuncLit)
			if !ok {
				return true
			}
			for _, st := range fl.Body.List {
				a2, ok := st.(*ast.AssignStmt)
				if !ok || len(a2.Lhs) != 1 {
					continue
				}
				if s2, ok := a2.Lhs[0].(*ast.SelectorExpr); ok && s2.Sel.Name == "spec" {
					stamps = true
				}
			}
			return true
		})
	} else {
		e.fail("NewClient not found")
	}
	// the declared Content-Length is never consulted: no selector .ContentLength and no
	// "Content-Length" string literal anywhere in the library's (non-test, non-hook) sources
	// (a case label of a clause that does nothing but `continue` names a key to pass over: it
	// reads no value)
	clUses := 0
	for _, f := range e.files {
		skipLabels := map[ast.Node]bool{}
		ast.Inspect(f, func(n ast.Node) bool {
			if cc, ok := n.(*ast.CaseClause); ok && len(cc.Body) == 1 {
				if br, ok := cc.Body[0].(*ast.BranchStmt); ok && br.Tok == token.CONTINUE && br.Label == nil {
					for _, l := range cc.List {
						skipLabels[l] = true
					}
				}
			}
			return true
		})
		ast.Inspect(f, func(n ast.Node) bool {
			if skipLabels[n] {
				return false
			}
			switch x := n.(type) {
			case *ast.SelectorExpr:
				if x.Sel.Name == "ContentLength" {
					clUses++
				}
			case *ast.BasicLit:
				if strings.EqualFold(strings.Trim(x.Value, "\"`"), "content-length") {
					clUses++
				}
			}
			return true
		})
	}
	// the streaming client conns merge the trailers into responseTrailer only under `if !<recv>.trailersRead`
	mergedOnce := true
	nMerges := 0
	for _, fn := range []string{"grpcClientConn.Receive", "connectStreamingClientConn.Receive"} {
		fd, ok := e.funcs[fn]
		if !ok {
			e.fail("%s not found", fn)
			continue
		}
		guarded := map[ast.Node]bool{}
		ast.Inspect(fd.Body, func(n ast.Node) bool {
			is, ok := n.(*ast.IfStmt)
			if !ok {
				return true
			}
			mentions := false
			ast.Inspect(is.Cond, func(k ast.Node) bool {
				if ue, ok := k.(*ast.UnaryExpr); ok && ue.Op.String() == "!" {
					if se, ok := ue.X.(*ast.SelectorExpr); ok && se.Sel.Name == "trailersRead" {
						mentions = true
					}
				}
				return true
			})
			if mentions {
				ast.Inspect(is.Body, func(k ast.Node) bool {
					if k != nil {
						guarded[k] = true
					}
					return true
				})
			}
			return true
		})
		found := false
		ast.Inspect(fd.Body, func(n ast.Node) bool {
			ce, ok := n.(*ast.CallExpr)
			if !ok || len(ce.Args) != 2 {
				return true
			}
			if id, ok := ce.Fun.(*ast.Ident); !ok || id.Name != "mergeHeaders" {
				return true
			}
			if se, ok := ce.Args[0].(*ast.SelectorExpr); ok && se.Sel.Name == "responseTrailer" {
				found = true
				nMerges++
				if !guarded[ce] {
					mergedOnce = false
				}
			}
			return true
		})
		if !found {
			mergedOnce = false
		}
	}
	b := func(v bool) string {
		if v {
			return "true"
		}
		return "false"
	}
	p("\n(* ---- the clients' timeout header (structural, from the AST of the two NewConn and of ensureRequestMade) ---- *)\n")
	p("Definition client_timeout_cleared_in_new_conn : bool := %s. (* delete(header, <timeout header>) at the top level of both NewConn: %d of 2 *)\n", b(cleared), nDeletes)
	p("Definition client_timeout_set_only_at_send : bool := %s. (* assignments to header[<timeout header>] in the two NewConn: %d, inside the onRequestSend callback: %d *)\n", b(setAtSend), nSets, nSetsInCallback)
	p("Definition connect_unary_encoding_cleared_in_new_conn : bool := %s. (* delete(header, connectUnaryHeaderCompression) in connectClient.NewConn *)\n", b(encCleared))
	p("Definition client_call_unary_stamps_spec_unconditionally : bool := %s. (* NewClient: callUnary's literal assigns request.spec at its top level *)\n", b(stamps))
	p("Definition content_length_never_consulted : bool := %s. (* uses of .ContentLength / \"Content-Length\" in the sources: %d *)\n", b(clUses == 0), clUses)
	p("Definition client_trailers_merged_once : bool := %s. (* mergeHeaders(<conn>.responseTrailer, ...) in the two streaming client Receive functions: %d, all under `if !...trailersRead` *)\n", b(mergedOnce), nMerges)
	p("Definition duplex_on_request_send_inside_once : bool := %s. (* onRequestSend called inside sendRequestOnce.Do before go makeRequest; calls elsewhere: %d *)\n", b(insideOnce), callsElsewhere)
}
