module github.com/bufbuild/connect-go/verifharness

go 1.18

require (
	github.com/bufbuild/connect-go v0.0.0
	google.golang.org/protobuf v1.28.0
)

require github.com/google/go-cmp v0.5.8 // indirect

replace github.com/bufbuild/connect-go => /repo
