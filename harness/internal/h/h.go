// Package h holds what every property family of the correspondence harness
// shares: the single PRNG, the Coq case emitter, the summary/evidence record and
// the direct-oracle failure list.
package h

import (
	"encoding/hex"
	"encoding/json"
	"fmt"
	"os"
	"path/filepath"
	"sort"
	"strings"
)

// ---------- PRNG: splitmix64, one state per run ----------

type Rng struct{ s uint64 }

func NewRng(seed uint64) *Rng { return &Rng{s: seed*0x9E3779B97F4A7C15 + 0x1234567} }

func (r *Rng) U64() uint64 {
	r.s += 0x9E3779B97F4A7C15
	z := r.s
	z = (z ^ (z >> 30)) * 0xBF58476D1CE4E5B9
	z = (z ^ (z >> 27)) * 0x94D049BB133111EB
	return z ^ (z >> 31)
}
func (r *Rng) Intn(n int) int {
	if n <= 0 {
		return 0
	}
	return int(r.U64() % uint64(n))
}
func (r *Rng) Bool() bool        { return r.U64()&1 == 1 }
func (r *Rng) Chance(p int) bool { return r.Intn(100) < p }
func (r *Rng) Bytes(n int) []byte {
	b := make([]byte, n)
	for i := range b {
		b[i] = byte(r.U64())
	}
	return b
}
func (r *Rng) Pick(xs []string) string { return xs[r.Intn(len(xs))] }

// Fork derives an independent generator (so that adding cases to one family
// does not shift the random choices of another).
func (r *Rng) Fork(label string) *Rng {
	var hsh uint64 = 1469598103934665603
	for i := 0; i < len(label); i++ {
		hsh = (hsh ^ uint64(label[i])) * 1099511628211
	}
	return &Rng{s: r.s ^ hsh}
}

// ---------- Coq literals ----------

func CoqBytes(b []byte) string {
	var sb strings.Builder
	sb.WriteString("[")
	for i, c := range b {
		if i > 0 {
			sb.WriteString(";")
		}
		fmt.Fprintf(&sb, "x%02x", c)
	}
	sb.WriteString("]")
	return sb.String()
}
func CoqStr(s string) string { return CoqBytes([]byte(s)) }
func CoqN(n uint64) string   { return fmt.Sprintf("%d", n) }
func CoqZ(z int64) string {
	if z < 0 {
		return fmt.Sprintf("(%d)%%Z", z)
	}
	return fmt.Sprintf("%d%%Z", z)
}
func CoqBool(b bool) string {
	if b {
		return "true"
	}
	return "false"
}
func CoqOptBytes(b []byte, ok bool) string {
	if !ok {
		return "None"
	}
	return "(Some " + CoqBytes(b) + ")"
}
func CoqOptN(n uint64, ok bool) string {
	if !ok {
		return "None"
	}
	return fmt.Sprintf("(Some %d)", n)
}
func CoqList(items []string) string { return "[" + strings.Join(items, "; ") + "]" }
func CoqBytesList(bs [][]byte) string {
	items := make([]string, len(bs))
	for i, b := range bs {
		items[i] = CoqBytes(b)
	}
	return CoqList(items)
}

func Hex(b []byte) string { return hex.EncodeToString(b) }

// ---------- run record ----------

type Failure struct {
	Key      string `json:"key"`  // stable finding key (matched against known_findings.txt)
	What     string `json:"what"` // one line
	Family   string `json:"family"`
	Input    any    `json:"input"`
	Expected any    `json:"expected,omitempty"`
	Actual   any    `json:"actual,omitempty"`
}

type Summary struct {
	Property     string          `json:"property"`
	Tier         string          `json:"tier"`
	Seed         uint64          `json:"seed"`
	Evaluations  int             `json:"evaluations"`
	Distinct     int             `json:"distinct_nontrivial"`
	Rule         string          `json:"rule"`
	Samples      []any           `json:"samples"`
	Distribution map[string]int  `json:"distribution"`
	Exhaustive   map[string]bool `json:"exhaustive_subdomains"`
	ModelCases   int             `json:"model_cases"`
	Shards       []string        `json:"shards"`
	CheckFn      string          `json:"check_fn"`
	Failures     []Failure       `json:"oracle_failures"`
	Notes        []string        `json:"notes,omitempty"`
	// families whose Coq-side check IS the property's oracle (e.g. the spec
	// reader of SpecWire.v accepting a recorded exchange): a failing case there
	// is a concrete failing input, not merely a model/implementation difference
	OracleFamilies map[string]string `json:"oracle_families,omitempty"`
}

type Run struct {
	Prop, Tier string
	Seed       uint64
	Out        string
	Rng        *Rng
	Sum        Summary

	caseType string // Coq type of a case
	checkFn  string // Coq function case -> bool
	buf      []string
	nextID   int
	shard    int
	index    *os.File
	distinct map[string]struct{}
	perShard int
	bufBytes int
	sampleBy map[string]int
}

func NewRun(prop, tier string, seed uint64, out string) *Run {
	_ = os.MkdirAll(out, 0o755)
	r := &Run{Prop: prop, Tier: tier, Seed: seed, Out: out, Rng: NewRng(seed),
		distinct: map[string]struct{}{}, perShard: 120, sampleBy: map[string]int{}}
	r.Sum = Summary{Property: prop, Tier: tier, Seed: seed,
		Distribution: map[string]int{}, Exhaustive: map[string]bool{}}
	f, err := os.Create(filepath.Join(out, "cases_index.jsonl"))
	if err != nil {
		panic(err)
	}
	r.index = f
	return r
}

func (r *Run) Thorough() bool { return r.Tier == "thorough" }

// Pick returns q for the quick tier and t for the thorough tier.
func (r *Run) N(q, t int) int {
	if r.Thorough() {
		return t
	}
	return q
}

// Model declares the Coq case type and check function for this run.
func (r *Run) Model(caseType, checkFn string) {
	r.caseType, r.checkFn = caseType, checkFn
	r.Sum.CheckFn = checkFn
}

// Eval counts one evaluation of the implementation; key identifies the
// (input, branch) for the distinct-nontrivial count ("" = trivial, not counted).
func (r *Run) Eval(family, key string) {
	r.Sum.Evaluations++
	r.Sum.Distribution[family]++
	if key != "" {
		r.distinct[family+"|"+key] = struct{}{}
	}
}

// Sample records up to 3 written-out cases per family.
func (r *Run) Sample(family string, v any) {
	if r.sampleBy[family] < 3 {
		r.sampleBy[family]++
		r.Sum.Samples = append(r.Sum.Samples, map[string]any{"family": family, "case": v})
	}
}

// Case adds a model case (a Coq term of the declared case type) together with a
// human-readable description used when Coq reports a mismatch.
func (r *Run) Case(family, coqTerm string, desc any) {
	r.nextID++
	id := r.nextID
	r.buf = append(r.buf, fmt.Sprintf("(%d, %s)", id, coqTerm))
	line, _ := json.Marshal(map[string]any{"id": id, "family": family, "desc": desc})
	r.index.Write(append(line, '\n'))
	r.Sum.ModelCases++
	r.bufBytes += len(coqTerm)
	// (a shard of a hundred large bodies is one term of a hundred thousand characters: coqc's
	// stack does not survive it — cut by size as well as by count)
	if len(r.buf) >= r.perShard || r.bufBytes > 60000 {
		r.flush()
	}
}

func (r *Run) flush() {
	if len(r.buf) == 0 {
		return
	}
	r.shard++
	r.bufBytes = 0
	name := fmt.Sprintf("cases_%s_%03d.v", r.Prop, r.shard)
	var sb strings.Builder
	sb.WriteString("From Coq Require Import List NArith ZArith.\nFrom Coq.Strings Require Import Byte.\n")
	fmt.Fprintf(&sb, "From Connect Require Import Bytes Exec%s.\nImport ListNotations.\nLocal Open Scope N_scope.\n", r.Prop)
	fmt.Fprintf(&sb, "Definition cases : list (N * %s) := [\n", r.caseType)
	sb.WriteString(strings.Join(r.buf, ";\n"))
	sb.WriteString("].\n")
	fmt.Fprintf(&sb, "Definition M := Eval vm_compute in (mismatches %s cases).\nPrint M.\n", r.checkFn)
	if err := os.WriteFile(filepath.Join(r.Out, name), []byte(sb.String()), 0o644); err != nil {
		panic(err)
	}
	r.Sum.Shards = append(r.Sum.Shards, name)
	r.buf = r.buf[:0]
}

// Fail records a direct-oracle failure (the property read literally on the
// implementation does not hold for this input).
func (r *Run) Fail(f Failure) {
	// keep at most 5 per key so a systematic defect does not flood the report
	n := 0
	for _, g := range r.Sum.Failures {
		if g.Key == f.Key {
			n++
		}
	}
	if n < 5 {
		r.Sum.Failures = append(r.Sum.Failures, f)
		// also on disk at once: if the library later takes the whole process down
		// (a panic on one of its own goroutines, an allocation of gigabytes), what
		// was found until then is still reported with its input
		if fh, err := os.OpenFile(filepath.Join(r.Out, "failures.jsonl"), os.O_CREATE|os.O_WRONLY|os.O_APPEND, 0o644); err == nil {
			if data, err := json.Marshal(f); err == nil {
				_, _ = fh.Write(append(data, '\n'))
			}
			_ = fh.Close()
		}
	}
}

// Attempt records, before a call that can take the whole process down (an allocation of
// terabytes is a fatal runtime error, not a panic), the failure to report if it does; Survived
// withdraws it. bin/check reads the file when hrun dies.
func (r *Run) Attempt(f Failure) {
	if data, err := json.Marshal(f); err == nil {
		_ = os.WriteFile(filepath.Join(r.Out, "inflight.json"), data, 0o644)
	}
}

func (r *Run) Survived() { _ = os.Remove(filepath.Join(r.Out, "inflight.json")) }

// OracleFamily declares that a failing Coq case of this family is a violation
// of the property itself; what says what it means.
func (r *Run) OracleFamily(family, what string) {
	if r.Sum.OracleFamilies == nil {
		r.Sum.OracleFamilies = map[string]string{}
	}
	r.Sum.OracleFamilies[family] = what
}

func (r *Run) Note(format string, a ...any) {
	r.Sum.Notes = append(r.Sum.Notes, fmt.Sprintf(format, a...))
}

func (r *Run) Finish() {
	r.flush()
	r.index.Close()
	r.Sum.Distinct = len(r.distinct)
	if r.Sum.Failures == nil {
		r.Sum.Failures = []Failure{}
	}
	sort.Strings(r.Sum.Shards)
	data, _ := json.MarshalIndent(r.Sum, "", " ")
	if err := os.WriteFile(filepath.Join(r.Out, "summary.json"), data, 0o644); err != nil {
		panic(err)
	}
}

// RandUTF8 returns a valid UTF-8 string of n runes mixing ASCII, control
// characters, '%', and multi-byte runes.
func RandUTF8(r *Rng, n int) string {
	pool := []rune{'a', 'Z', '0', ' ', '%', '~', '\t', '\n', '\r', 0, 0x7f, 0x80, 0xe9, 0x4f60, 0x597d, 0x1F600, 0xFFFD, '"', '\\', ':', ',', '+', '/', '='}
	rs := make([]rune, n)
	for i := range rs {
		if r.Intn(3) == 0 {
			rs[i] = rune(0x20 + r.Intn(0x5f))
		} else {
			rs[i] = pool[r.Intn(len(pool))]
		}
	}
	return string(rs)
}
