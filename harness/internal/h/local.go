package h

import (
	"net/http"
	"net/http/httptest"
)

// LocalClient is an HTTPClient that serves each request by calling the handler
// in-process with a recording ResponseWriter (no sockets). Request bodies are
// read by the handler while the caller writes them (the connect client runs Do
// on its own goroutine), so unary, client- and server-streaming calls work;
// the response becomes visible when the handler returns.
type LocalClient struct {
	Handler http.Handler
	// Mutate, if set, may alter the recorded response before it is returned.
	Mutate func(*http.Response)
	Proto  int // ProtoMajor seen by the handler (default 2)
}

func (c *LocalClient) Do(req *http.Request) (*http.Response, error) {
	rec := httptest.NewRecorder()
	r2 := req.Clone(req.Context())
	r2.Body = req.Body
	major := c.Proto
	if major == 0 {
		major = 2
	}
	r2.ProtoMajor, r2.ProtoMinor = major, 0
	if major == 1 {
		r2.ProtoMinor = 1
	}
	r2.RequestURI = req.URL.RequestURI()
	c.Handler.ServeHTTP(rec, r2)
	if req.Body != nil {
		_ = req.Body.Close()
	}
	res := rec.Result()
	res.Request = req
	res.ProtoMajor, res.ProtoMinor = r2.ProtoMajor, r2.ProtoMinor
	if c.Mutate != nil {
		c.Mutate(res)
	}
	return res, nil
}
