package h

import (
	"bytes"
	"encoding/binary"
	"errors"
	"fmt"
	"io"
	"net/http"
	"runtime"
	"sync"
	"sync/atomic"
	"time"

	connect "github.com/bufbuild/connect-go"
)

// ---------- toy codec: the message IS its payload ----------

// Raw is the message type of the toy codec.
type Raw struct{ B []byte }

type ToyCodec struct {
	CodecName string
	// Poison, when set, scribbles over the data slice after Unmarshal copied it
	// (a codec may not retain its input; nor may the library rely on that).
	Poison bool
}

func (c ToyCodec) Name() string {
	if c.CodecName == "" {
		return "toy"
	}
	return c.CodecName
}

func (c ToyCodec) Marshal(m any) ([]byte, error) {
	r, ok := m.(*Raw)
	if !ok {
		return nil, fmt.Errorf("toy codec: unexpected %T", m)
	}
	if len(r.B) > 0 && r.B[0] == 0xEE && len(r.B) == 3 && r.B[1] == 0xEE && r.B[2] == 0xEE {
		return nil, errors.New("toy codec: refusing to marshal")
	}
	return append([]byte(nil), r.B...), nil
}

// Unmarshal rejects payloads that start with 0xFF ("undecodable payload").
func (c ToyCodec) Unmarshal(data []byte, m any) error {
	r, ok := m.(*Raw)
	if !ok {
		return fmt.Errorf("toy codec: unexpected %T", m)
	}
	if len(data) > 0 && data[0] == 0xFF {
		return errors.New("toy codec: payload starts with 0xFF")
	}
	r.B = append([]byte(nil), data...)
	if c.Poison {
		for i := range data {
			data[i] = 0xDD
		}
	}
	return nil
}

// ---------- toy compressors ----------

// Tag compression: one tag byte in front of the payload.
type tagCompressor struct {
	tag   byte
	w     io.Writer
	wrote bool
}

func (t *tagCompressor) Write(p []byte) (int, error) {
	if !t.wrote {
		t.wrote = true
		if _, err := t.w.Write([]byte{t.tag}); err != nil {
			return 0, err
		}
	}
	return t.w.Write(p)
}
func (t *tagCompressor) Close() error {
	if !t.wrote {
		t.wrote = true
		_, err := t.w.Write([]byte{t.tag})
		return err
	}
	return nil
}
func (t *tagCompressor) Reset(w io.Writer) { t.w, t.wrote = w, false }

type tagDecompressor struct {
	tag   byte
	r     io.Reader
	begun bool
}

func (t *tagDecompressor) Read(p []byte) (int, error) {
	if t.r == nil {
		return 0, io.EOF
	}
	if !t.begun {
		t.begun = true
		var b [1]byte
		if _, err := io.ReadFull(t.r, b[:]); err != nil {
			return 0, errors.New("tag compression: missing tag")
		}
		if b[0] != t.tag {
			return 0, fmt.Errorf("tag compression: wrong tag %#x", b[0])
		}
	}
	return t.r.Read(p)
}
func (t *tagDecompressor) Close() error            { return nil }
func (t *tagDecompressor) Reset(r io.Reader) error { t.r, t.begun = r, false; return nil }

// WithTag registers the tag algorithm `name` (tag byte = first letter upper-cased).
func TagByte(name string) byte { return name[len(name)-1] }

func WithTag(name string) connect.HandlerOption {
	tag := TagByte(name)
	return connect.WithCompression(name,
		func() connect.Decompressor { return &tagDecompressor{tag: tag} },
		func() connect.Compressor { return &tagCompressor{tag: tag} })
}

func WithAcceptTag(name string) connect.ClientOption {
	tag := TagByte(name)
	return connect.WithAcceptCompression(name,
		func() connect.Decompressor { return &tagDecompressor{tag: tag} },
		func() connect.Compressor { return &tagCompressor{tag: tag} })
}

// Tracked tag compression: as WithTag / WithAcceptTag, but every pooled
// decompressor records being handed to a call (Reset) while another call still
// holds it (no Close since its last Reset): the symptom of an object that was
// returned to its pool twice. Reads yield the processor to widen the overlap.
type Tracker struct {
	mu       sync.Mutex
	Problems []string
	Resets   atomic.Int64
	events   []string // "R" Reset(source), "C" Close, "P" parking Reset, in order
}

func (t *Tracker) event(e string) {
	t.mu.Lock()
	t.events = append(t.events, e)
	t.mu.Unlock()
}

// Events returns and clears the event log.
func (t *Tracker) Events() []string {
	t.mu.Lock()
	defer t.mu.Unlock()
	e := t.events
	t.events = nil
	return e
}

func (t *Tracker) problem(s string) {
	t.mu.Lock()
	if len(t.Problems) < 8 {
		t.Problems = append(t.Problems, s)
	}
	t.mu.Unlock()
}

func (t *Tracker) Snapshot() []string {
	t.mu.Lock()
	defer t.mu.Unlock()
	return append([]string(nil), t.Problems...)
}

type trackedDecompressor struct {
	inner connect.Decompressor
	tr    *Tracker
	mu    sync.Mutex
	// the pool's protocol (compression.go): Get, Reset(source) ... Close, Reset(empty), Put
	state int // 0 fresh or parked in the pool, 1 acquired, 2 closed (about to be parked)
}

func (d *trackedDecompressor) Reset(r io.Reader) error {
	d.tr.Resets.Add(1)
	d.mu.Lock()
	parking := false
	switch d.state {
	case 0:
		d.state = 1
		d.tr.event("R")
	case 2:
		d.state = 0 // the parking Reset of putDecompressor
		d.tr.event("P")
		parking = true
	default:
		d.tr.problem("a pooled decompressor was handed to a call while another call still held it")
		d.tr.event("R")
	}
	d.mu.Unlock()
	if parking {
		// the decompressor is still its holder's while it is parked: take some time over it, so
		// that a pool which already offers it to others shows
		runtime.Gosched()
		time.Sleep(100 * time.Microsecond)
	}
	// a source that announces itself as unreadable: Reset fails (as gzip.Reader.Reset
	// does on a bad header)
	if bb, ok := r.(*bytes.Buffer); ok && bb.Len() > 0 && bb.Bytes()[0] == '!' {
		return errors.New("tracked decompressor: bad header")
	}
	return d.inner.Reset(r)
}

func (d *trackedDecompressor) Read(p []byte) (int, error) {
	runtime.Gosched()
	time.Sleep(20 * time.Microsecond)
	return d.inner.Read(p)
}

func (d *trackedDecompressor) Close() error {
	d.mu.Lock()
	if d.state != 1 {
		d.tr.problem("a pooled decompressor was released twice for one acquisition (it is now in the pool twice)")
	}
	d.tr.event("C")
	d.state = 2
	d.mu.Unlock()
	return nil
}

func WithTrackedTag(name string, tr *Tracker) connect.HandlerOption {
	tag := TagByte(name)
	return connect.WithCompression(name,
		func() connect.Decompressor { return &trackedDecompressor{inner: &tagDecompressor{tag: tag}, tr: tr} },
		func() connect.Compressor { return &tagCompressor{tag: tag} })
}

// WithTrackedRLE registers the run-length "bomb" algorithm with tracked decompressors.
func WithTrackedRLE(tr *Tracker) connect.HandlerOption {
	return connect.WithCompression("rle",
		func() connect.Decompressor { return &trackedDecompressor{inner: &rleDecompressor{}, tr: tr} },
		func() connect.Compressor { return &rleCompressor{} })
}

// WithAcceptTrackedRLE is WithTrackedRLE for clients.
func WithAcceptTrackedRLE(tr *Tracker) connect.ClientOption {
	return connect.WithAcceptCompression("rle",
		func() connect.Decompressor { return &trackedDecompressor{inner: &rleDecompressor{}, tr: tr} },
		func() connect.Compressor { return &rleCompressor{} })
}

func WithAcceptTrackedTag(name string, tr *Tracker) connect.ClientOption {
	tag := TagByte(name)
	return connect.WithAcceptCompression(name,
		func() connect.Decompressor { return &trackedDecompressor{inner: &tagDecompressor{tag: tag}, tr: tr} },
		func() connect.Compressor { return &tagCompressor{tag: tag} })
}

// Bomb ("rle"): run-length decoding, pairs (count, value). Compression emits
// one pair per run (count <= 255).
type rleCompressor struct{ w io.Writer }

func (c *rleCompressor) Write(p []byte) (int, error) {
	i := 0
	for i < len(p) {
		j := i
		for j < len(p) && p[j] == p[i] && j-i < 255 {
			j++
		}
		if _, err := c.w.Write([]byte{byte(j - i), p[i]}); err != nil {
			return i, err
		}
		i = j
	}
	return len(p), nil
}
func (c *rleCompressor) Close() error      { return nil }
func (c *rleCompressor) Reset(w io.Writer) { c.w = w }

type rleDecompressor struct {
	r       io.Reader
	pending int
	val     byte
	err     error
}

func (d *rleDecompressor) Read(p []byte) (int, error) {
	if d.r == nil {
		return 0, io.EOF
	}
	if d.err != nil {
		return 0, d.err
	}
	n := 0
	for n < len(p) {
		if d.pending == 0 {
			var b [2]byte
			k, err := io.ReadFull(d.r, b[:])
			if k == 0 && (err == io.EOF) {
				d.err = io.EOF
				if n > 0 {
					return n, nil
				}
				return 0, io.EOF
			}
			if err != nil {
				d.err = errors.New("rle: truncated pair")
				if n > 0 {
					return n, nil // report the data first; the error comes on the next call
				}
				return 0, d.err
			}
			d.pending, d.val = int(b[0]), b[1]
			continue
		}
		p[n] = d.val
		n++
		d.pending--
	}
	return n, nil
}
func (d *rleDecompressor) Close() error            { return nil }
func (d *rleDecompressor) Reset(r io.Reader) error { d.r, d.pending, d.err = r, 0, nil; return nil }

func WithRLE() connect.HandlerOption {
	return connect.WithCompression("rle",
		func() connect.Decompressor { return &rleDecompressor{} },
		func() connect.Compressor { return &rleCompressor{} })
}
func WithAcceptRLE() connect.ClientOption {
	return connect.WithAcceptCompression("rle",
		func() connect.Decompressor { return &rleDecompressor{} },
		func() connect.Compressor { return &rleCompressor{} })
}

// ---------- frames ----------

func Frame(flags byte, payload []byte) []byte {
	out := make([]byte, 5+len(payload))
	out[0] = flags
	binary.BigEndian.PutUint32(out[1:5], uint32(len(payload)))
	copy(out[5:], payload)
	return out
}

// FrameLie declares `declared` bytes but carries payload.
func FrameLie(flags byte, declared uint32, payload []byte) []byte {
	out := make([]byte, 5+len(payload))
	out[0] = flags
	binary.BigEndian.PutUint32(out[1:5], declared)
	copy(out[5:], payload)
	return out
}

// ---------- chunked bodies ----------

type FinKind int

const (
	FinCleanEOF FinKind = iota
	FinEOFWithData
	FinUnexpectedEOF
	FinOther
	// the error text net/http's HTTP/2 transport produces when the peer resets the stream
	FinRSTNoError // RST_STREAM(NO_ERROR): the library codes it internal
	FinRSTCancel  // RST_STREAM(CANCEL): the library codes it canceled
)

func (f FinKind) Coq() string {
	switch f {
	case FinCleanEOF:
		return "CleanEOF"
	case FinEOFWithData:
		return "EOFWithData"
	case FinUnexpectedEOF:
		return "(Fail EUnexpectedEOF)"
	case FinRSTNoError:
		return "(Fail (ECoded 13))"
	case FinRSTCancel:
		return "(Fail (ECoded 1))"
	}
	return "(Fail EOther)"
}

// ErrRST mimics golang.org/x/net/http2.StreamError as received from the peer.
type ErrRST struct{ Code string }

func (e ErrRST) Error() string {
	return "stream error: stream ID 7; " + e.Code + "; received from peer"
}

var ErrTransport = errors.New("verif: injected transport error")

// ChunkBody delivers the chunks one per Read (splitting a chunk only when the
// caller's buffer is smaller) and then ends as Fin says.
type ChunkBody struct {
	Chunks [][]byte
	Fin    FinKind
	Closed atomic.Int32
	Reads  int
	ended  bool
	// net/http makes a response's trailers visible when the body read reaches
	// io.EOF, not before, and never if the body fails
	resp           *http.Response
	pendingTrailer http.Header
}

func (b *ChunkBody) deliverTrailers(err error) {
	if err == io.EOF && b.resp != nil && b.pendingTrailer != nil {
		b.resp.Trailer = b.pendingTrailer
		b.pendingTrailer = nil
	}
}

func NewChunkBody(chunks [][]byte, fin FinKind) *ChunkBody {
	cp := make([][]byte, 0, len(chunks))
	for _, c := range chunks {
		cp = append(cp, append([]byte(nil), c...))
	}
	return &ChunkBody{Chunks: cp, Fin: fin}
}

func (b *ChunkBody) endErr() error {
	switch b.Fin {
	case FinCleanEOF, FinEOFWithData:
		return io.EOF
	case FinUnexpectedEOF:
		return io.ErrUnexpectedEOF
	case FinRSTNoError:
		return ErrRST{"NO_ERROR"}
	case FinRSTCancel:
		return ErrRST{"CANCEL"}
	}
	return ErrTransport
}

func (b *ChunkBody) Read(p []byte) (int, error) {
	b.Reads++
	for len(b.Chunks) > 0 && len(b.Chunks[0]) == 0 {
		b.Chunks = b.Chunks[1:]
	}
	if len(b.Chunks) == 0 || b.ended {
		b.ended = true
		b.deliverTrailers(b.endErr())
		return 0, b.endErr()
	}
	if len(p) == 0 {
		return 0, nil
	}
	n := copy(p, b.Chunks[0])
	if n == len(b.Chunks[0]) {
		b.Chunks = b.Chunks[1:]
		if len(b.Chunks) == 0 && b.Fin == FinEOFWithData {
			b.ended = true
			b.deliverTrailers(io.EOF)
			return n, io.EOF
		}
	} else {
		b.Chunks[0] = b.Chunks[0][n:]
	}
	return n, nil
}

func (b *ChunkBody) Close() error { b.Closed.Add(1); return nil }

// SplitAt cuts b at the given ascending offsets.
func SplitAt(b []byte, cuts []int) [][]byte {
	var out [][]byte
	prev := 0
	for _, c := range cuts {
		if c <= prev || c >= len(b) {
			continue
		}
		out = append(out, b[prev:c])
		prev = c
	}
	out = append(out, b[prev:])
	return out
}

// AllSplits enumerates all 2^(n-1) segmentations of b into non-empty chunks.
func AllSplits(b []byte, f func([][]byte)) {
	n := len(b)
	if n == 0 {
		f(nil)
		return
	}
	for mask := 0; mask < 1<<(n-1); mask++ {
		var cuts []int
		for i := 1; i < n; i++ {
			if mask&(1<<(i-1)) != 0 {
				cuts = append(cuts, i)
			}
		}
		f(SplitAt(b, cuts))
	}
}

func OneByteChunks(b []byte) [][]byte {
	out := make([][]byte, len(b))
	for i := range b {
		out[i] = b[i : i+1]
	}
	return out
}

// ---------- crafted responses ----------

// CannedClient returns a fixed response (built per request by Build).
type CannedClient struct {
	Build func(req *http.Request) (*http.Response, error)
	// ReqBody, if non-nil, receives the full request body the client wrote.
	ReqBody *bytes.Buffer
	ReqHdr  http.Header
}

func (c *CannedClient) Do(req *http.Request) (*http.Response, error) {
	c.ReqHdr = req.Header.Clone()
	if req.Body != nil {
		if c.ReqBody != nil {
			_, _ = io.Copy(c.ReqBody, req.Body)
		} else {
			_, _ = io.Copy(io.Discard, req.Body)
		}
		_ = req.Body.Close()
	}
	res, err := c.Build(req)
	if res != nil {
		res.Request = req
	}
	return res, err
}

func NewResponse(status int, hdr http.Header, body io.ReadCloser, trailer http.Header) *http.Response {
	if hdr == nil {
		hdr = http.Header{}
	}
	if trailer == nil {
		trailer = http.Header{}
	}
	res := &http.Response{
		Status: fmt.Sprintf("%d %s", status, http.StatusText(status)), StatusCode: status,
		Proto: "HTTP/2.0", ProtoMajor: 2, ProtoMinor: 0,
		Header: hdr, Body: body, Trailer: trailer, ContentLength: -1,
	}
	if cb, ok := body.(*ChunkBody); ok {
		// as net/http does: the trailers appear when the body read reaches io.EOF
		cb.resp, cb.pendingTrailer = res, trailer
		res.Trailer = http.Header{}
		// keys announced in the "Trailer" header are present, with nil values, from the start
		// (net/http pre-fills them); a nil-valued key in trailer stands for "announced, never sent"
		for k, vs := range trailer {
			if vs == nil {
				res.Trailer[k] = nil
			}
		}
	}
	return res
}
