package props

import (
	"bytes"
	"context"
	"encoding/json"
	"fmt"
	"math"
	"net/http"
	"net/http/httptest"
	"sync/atomic"
	"time"

	connect "github.com/bufbuild/connect-go"
	"github.com/bufbuild/connect-go/verifharness/internal/h"
	"google.golang.org/protobuf/encoding/protojson"
	proto2 "google.golang.org/protobuf/proto"
	"google.golang.org/protobuf/types/known/structpb"
	"google.golang.org/protobuf/types/known/wrapperspb"
)

func seqPayload(rng *h.Rng, class int) []byte {
	switch class {
	case 0:
		return nil
	case 1:
		return genPayload(rng, 1)
	case 2:
		return genPayload(rng, 2+rng.Intn(20))
	case 3:
		return genPayload(rng, 511)
	case 4:
		return genPayload(rng, 512)
	default:
		return genPayload(rng, 513)
	}
}

// C01 — every message sent is received intact, in order, exactly once.
func C01(r *h.Run) {
	r.Model("envcase", "env_ok")
	r.Sum.Rule = "boundary level (toy codec/compressors, model cases): every sequence over 6 payload classes {0 B, 1 B, small, 511, 512, 513 B} up to length 3 (thorough 4) fed as frames to real streaming handlers of the 3 protocols; bodies written by real clients/handlers decoded by the model (cross-decoding). End to end (direct oracle): 4 RPC kinds x 3 protocols x {toy, proto, json} x {identity, gzip, tagA; send compression; compress-min-bytes around the sizes} over the in-process transport and over real HTTP/1.1 and HTTP/2 servers, sequences incl. zero-valued messages after non-zero ones; thorough adds 5 MiB and 8 MiB+-1 payloads. distinct = distinct (cfg, sequence)"
	rng := r.Rng.Fork("c01")

	// ---- 1. handler boundary: all sequences over the payload classes ----
	maxLen := r.N(3, 4)
	var seqs [][]int
	var rec func(prefix []int)
	rec = func(prefix []int) {
		seqs = append(seqs, append([]int(nil), prefix...))
		if len(prefix) == maxLen {
			return
		}
		for c := 0; c < 6; c++ {
			rec(append(prefix, c))
		}
	}
	rec(nil)
	protos := []string{"connect", "grpc", "grpcweb"}
	for si, seq := range seqs {
		cfg := envCfg{Proto: protos[si%3]}
		if si%4 == 1 {
			cfg.Algo = "tagA"
		}
		if si%4 == 3 {
			cfg.ExplicitIdentity = true // "identity" named in the encoding header rather than left out
		}
		minBytes := []int{0, 1, 512, 513, 100000}[si%5]
		var body []byte
		var msgs [][]byte
		for _, c := range seq {
			p := seqPayload(rng, c)
			msgs = append(msgs, p)
			if cfg.Algo != "" && len(p) >= minBytes {
				body = append(body, h.Frame(1, compressToy(cfg.Algo, p))...)
			} else {
				body = append(body, h.Frame(0, p)...)
			}
		}
		model := len(body) < 1700 && (len(seq) <= 2 || si%r.N(3, 2) == 0)
		obs := envRun(r, "handler_seq", cfg, false, [][]byte{body}, h.FinCleanEOF, model, fmt.Sprint("sequence classes ", seq))
		if obs == nil {
			continue
		}
		want := make([]obsItem, 0, len(msgs)+1)
		for _, m := range msgs {
			want = append(want, obsItem{Kind: "msg", B: m})
		}
		want = append(want, obsItem{Kind: "eof"})
		if !obsEqual(obs, want) {
			r.Fail(h.Failure{Key: "roundtrip/handler-receives-other-than-sent", Family: "handler_seq",
				What:  "the handler's Receive sequence differs from the messages framed in the request (count, order or content), or does not end cleanly",
				Input: map[string]any{"cfg": cfg, "sent": hexList(msgs)}, Expected: obsStrings(want), Actual: obsStrings(obs)})
		}
	}
	r.Sum.Exhaustive[fmt.Sprintf("all sequences over 6 payload classes up to length %d at the handler boundary", maxLen)] = true

	// ---- 2. cross-decoding: bodies written by the implementation, decoded by the model ----
	for i := 0; i < r.N(90, 600); i++ {
		cfg := envCfg{Proto: protos[i%3]}
		send := ""
		if i%3 != 0 {
			send = []string{"tagA", "tagB"}[rng.Intn(2)]
			cfg.Algo = send
		}
		minBytes := []int{0, 1, 3, 8, 100}[rng.Intn(5)]
		n := rng.Intn(5)
		var msgs [][]byte
		for k := 0; k < n; k++ {
			msgs = append(msgs, seqPayload(rng, []int{0, 1, 2, 2, 2}[rng.Intn(5)]))
		}
		// (a) request body written by a real client
		var reqBody bytes.Buffer
		canned := &h.CannedClient{ReqBody: &reqBody, Build: func(*http.Request) (*http.Response, error) {
			hdr, term, trailer := responseParts(envCfg{Proto: cfg.Proto})
			return h.NewResponse(200, hdr, h.NewChunkBody([][]byte{append(h.Frame(0, []byte("r")), term...)}, h.FinCleanEOF), trailer), nil
		}}
		copts := append(clientOpts(envCfg{Proto: cfg.Proto}, send), connect.WithCompressMinBytes(minBytes))
		client := connect.NewClient[h.Raw, h.Raw](canned, "http://verif.local/verif.Svc/Client", copts...)
		if p := safely(func() {
			st := client.CallClientStream(context.Background())
			for _, m := range msgs {
				_ = st.Send(&h.Raw{B: m})
			}
			_, _ = st.CloseAndReceive()
		}); p != nil {
			r.Fail(h.Failure{Key: "roundtrip/panic", Family: "xdecode_request", What: fmt.Sprint("panic: ", p), Input: hexList(msgs)})
			continue
		}
		r.Eval("xdecode_request", fmt.Sprintf("%v|%d|%v", cfg, minBytes, hexList(msgs)))
		r.Sample("xdecode_request", map[string]any{"cfg": cfg, "min_bytes": minBytes, "sent": hexList(msgs), "wire_hex": h.Hex(reqBody.Bytes())})
		r.Case("xdecode_request", fmt.Sprintf("XDecode %s %s %s None", cfg.coqAlgo(), h.CoqBytes(reqBody.Bytes()), h.CoqBytesList(msgs)),
			map[string]any{"cfg": cfg, "min_bytes": minBytes, "sent": hexList(msgs), "impl_wire_hex": h.Hex(reqBody.Bytes())})
		// (b) response body written by a real handler
		hopts := append(envCfg{}.handlerOpts(), connect.WithCompressMinBytes(minBytes))
		handler := connect.NewServerStreamHandler("/verif.Svc/Server",
			func(_ context.Context, _ *connect.Request[h.Raw], s *connect.ServerStream[h.Raw]) error {
				for _, m := range msgs {
					if err := s.Send(&h.Raw{B: m}); err != nil {
						return err
					}
				}
				return nil
			}, hopts...)
		req := httptest.NewRequest(http.MethodPost, "/verif.Svc/Server", bytes.NewReader(h.Frame(0, []byte("q"))))
		req.Header.Set("Content-Type", cfg.contentType(false))
		if send != "" {
			switch cfg.Proto {
			case "connect":
				req.Header.Set("Connect-Accept-Encoding", send)
			default:
				req.Header.Set("Grpc-Accept-Encoding", send)
			}
		}
		rec := httptest.NewRecorder()
		if p := safely(func() { handler.ServeHTTP(rec, req) }); p != nil {
			r.Fail(h.Failure{Key: "roundtrip/panic", Family: "xdecode_response", What: fmt.Sprint("panic: ", p), Input: hexList(msgs)})
			continue
		}
		term := "None"
		switch cfg.Proto {
		case "connect":
			term = "(Some 2)"
		case "grpcweb":
			if len(msgs) > 0 { // a body-less gRPC-Web response carries its trailers in the HTTP headers
				term = "(Some 128)"
			}
		}
		r.Eval("xdecode_response", fmt.Sprintf("%v|%d|%v", cfg, minBytes, hexList(msgs)))
		r.Sample("xdecode_response", map[string]any{"cfg": cfg, "min_bytes": minBytes, "sent": hexList(msgs), "wire_hex": h.Hex(rec.Body.Bytes())})
		r.Case("xdecode_response", fmt.Sprintf("XDecode %s %s %s %s", cfg.coqAlgo(), h.CoqBytes(rec.Body.Bytes()), h.CoqBytesList(msgs), term),
			map[string]any{"cfg": cfg, "min_bytes": minBytes, "sent": hexList(msgs), "impl_wire_hex": h.Hex(rec.Body.Bytes())})
	}

	// ---- 3. end to end ----
	type e2eCfg struct {
		Proto, Codec, Compression, Kind string
		SendCompression                 bool
		MinBytes                        int
		Via                             e2eTransport
		HugeLimit                       bool `json:",omitempty"` // WithReadMaxBytes(math.MaxInt) on both sides
	}
	runCfg := func(c e2eCfg, reqMsgs, resMsgs [][]byte, fam string) {
		var copts []connect.ClientOption
		var hopts []connect.HandlerOption
		switch c.Proto {
		case "grpc":
			copts = append(copts, connect.WithGRPC())
		case "grpcweb":
			copts = append(copts, connect.WithGRPCWeb())
		}
		switch c.Compression {
		case "tagA":
			copts = append(copts, h.WithAcceptTag("tagA"))
			hopts = append(hopts, h.WithTag("tagA"))
		}
		if c.SendCompression && c.Compression != "identity" {
			copts = append(copts, connect.WithSendCompression(c.Compression))
		}
		copts = append(copts, connect.WithCompressMinBytes(c.MinBytes))
		hopts = append(hopts, connect.WithCompressMinBytes(c.MinBytes))
		if c.HugeLimit {
			// "as large as it goes" is a read limit too
			copts = append(copts, connect.WithReadMaxBytes(math.MaxInt))
			hopts = append(hopts, connect.WithReadMaxBytes(math.MaxInt))
		}
		var res e2eResult
		switch c.Codec {
		case "toy":
			copts = append(copts, connect.WithCodec(h.ToyCodec{Poison: true}))
			hopts = append(hopts, connect.WithCodec(h.ToyCodec{Poison: true}))
			res = runE2E(rawKind, c.Kind, c.Via, copts, hopts, reqMsgs, resMsgs, nil, 0, nil)
		case "json":
			copts = append(copts, connect.WithProtoJSON())
			res = runE2E(bytesValueKind, c.Kind, c.Via, copts, hopts, reqMsgs, resMsgs, nil, 0, nil)
		default:
			res = runE2E(bytesValueKind, c.Kind, c.Via, copts, hopts, reqMsgs, resMsgs, nil, 0, nil)
		}
		r.Eval(fam, fmt.Sprintf("%v|%v|%v", c, hexList(reqMsgs), hexList(resMsgs)))
		r.Sample(fam, map[string]any{"cfg": c, "request_msgs": hexList(reqMsgs), "response_msgs": hexList(resMsgs),
			"handler_got": hexList(res.HandlerGot), "client_got": hexList(res.ClientGot), "client_end": res.ClientEnd})
		in := map[string]any{"cfg": c, "request_msgs": hexList(reqMsgs), "response_msgs": hexList(resMsgs)}
		if res.Panic != nil {
			r.Fail(h.Failure{Key: "roundtrip/panic-or-hang", Family: fam, What: fmt.Sprint(res.Panic), Input: in})
			return
		}
		wantReq, wantRes := reqMsgs, resMsgs
		if c.Kind == "unary" || c.Kind == "server" {
			wantReq = reqMsgs[:1]
		}
		if c.Kind == "unary" || c.Kind == "client" {
			wantRes = resMsgs[:1]
		}
		if !bytesListEq(res.HandlerGot, wantReq) || (res.HandlerEnd != "" && res.HandlerEnd != "eof") {
			r.Fail(h.Failure{Key: "roundtrip/request-direction", Family: fam, What: "messages received by the handler differ from those the client sent (or the request stream did not end cleanly)",
				Input: in, Expected: hexList(wantReq), Actual: map[string]any{"got": hexList(res.HandlerGot), "end": res.HandlerEnd}})
		}
		if !bytesListEq(res.ClientGot, wantRes) || res.ClientEnd != "eof" {
			r.Fail(h.Failure{Key: "roundtrip/response-direction", Family: fam, What: "messages received by the client differ from those the handler sent (or the response stream did not end cleanly)",
				Input: in, Expected: hexList(wantRes), Actual: map[string]any{"got": hexList(res.ClientGot), "end": res.ClientEnd}})
		}
	}
	kinds := []string{"unary", "client", "server", "bidi"}
	codecs := []string{"toy", "proto", "json"}
	comps := []string{"identity", "gzip", "tagA"}
	i := 0
	for _, proto := range protos {
		for _, codec := range codecs {
			for _, comp := range comps {
				for _, kind := range kinds {
					i++
					n := 1 + rng.Intn(4)
					var reqMsgs, resMsgs [][]byte
					for k := 0; k < n; k++ {
						reqMsgs = append(reqMsgs, seqPayload(rng, []int{2, 0, 0, 1, 3, 4, 5}[rng.Intn(7)]))
						resMsgs = append(resMsgs, seqPayload(rng, []int{2, 0, 0, 1, 3, 4, 5}[rng.Intn(7)]))
					}
					// the classic: a zero-valued message after a non-zero one
					if i%2 == 0 {
						reqMsgs = [][]byte{{7}, {}, {}, {3}}
						resMsgs = [][]byte{{9, 9}, {}, {1}, {}}
					}
					c := e2eCfg{Proto: proto, Codec: codec, Compression: comp, Kind: kind, SendCompression: i%3 != 0,
						MinBytes: []int{0, 1, 2, 512, 513, 1 << 20}[rng.Intn(6)], Via: viaLocal, HugeLimit: rng.Intn(4) == 0}
					runCfg(c, reqMsgs, resMsgs, "e2e_local")
				}
			}
		}
	}
	// around the compress-min-bytes threshold, both directions, every protocol and kind:
	// messages below the threshold travel uncompressed next to compressed ones
	for _, proto := range protos {
		for _, kind := range kinds {
			for _, comp := range []string{"gzip", "tagA"} {
				for _, codec := range []string{"toy", "proto"} {
					sizes := []int{1, 7, 0, 8, 9, 3}
					var reqMsgs, resMsgs [][]byte
					for k, sz := range sizes {
						reqMsgs = append(reqMsgs, seqPayload(rng, sz))
						resMsgs = append(resMsgs, seqPayload(rng, sizes[(k+3)%len(sizes)]))
					}
					if kind == "unary" || kind == "server" {
						// the single request message: once below, once at the threshold
						for _, sz := range []int{1, 5, 8, 20} {
							rm := append([][]byte{seqPayload(rng, sz)}, reqMsgs[1:]...)
							runCfg(e2eCfg{Proto: proto, Codec: codec, Compression: comp, Kind: kind, SendCompression: true, MinBytes: 8, Via: viaLocal}, rm, resMsgs, "e2e_threshold")
						}
						continue
					}
					runCfg(e2eCfg{Proto: proto, Codec: codec, Compression: comp, Kind: kind, SendCompression: true, MinBytes: 8, Via: viaLocal}, reqMsgs, resMsgs, "e2e_threshold")
				}
			}
		}
	}
	// the same exchanges with both bodies re-chunked into 1- and 3-byte reads (a proxy,
	// a slow link): envelope prefixes and payloads arrive in pieces
	fi := 0
	for _, proto := range protos {
		for _, kind := range []string{"unary", "client", "server"} {
			for _, comp := range []string{"identity", "gzip"} {
				fi++
				via := []e2eTransport{viaLocalFrag1, viaLocalFrag3}[fi%2]
				reqMsgs := [][]byte{seqPayload(rng, 3), {}, seqPayload(rng, 40), seqPayload(rng, 1)}
				resMsgs := [][]byte{seqPayload(rng, 2), seqPayload(rng, 33), {}, seqPayload(rng, 5)}
				runCfg(e2eCfg{Proto: proto, Codec: []string{"toy", "proto"}[fi%2], Compression: comp, Kind: kind, SendCompression: comp != "identity", MinBytes: 0, Via: via}, reqMsgs, resMsgs, "e2e_fragmented")
			}
		}
	}
	// lockstep exchanges over a real HTTP/2 connection: the client needs each answer before it
	// sends the next message, so every message the handler Sends must actually leave the server,
	// whether or not it was compressed (compress-min-bytes above and below the message size)
	for _, proto := range protos {
		for _, minBytes := range []int{0, 1024} {
			for _, big := range []bool{false, true} {
				var copts []connect.ClientOption
				switch proto {
				case "grpc":
					copts = append(copts, connect.WithGRPC())
				case "grpcweb":
					copts = append(copts, connect.WithGRPCWeb())
				}
				copts = append(copts, connect.WithCodec(h.ToyCodec{}))
				hopts := []connect.HandlerOption{connect.WithCodec(h.ToyCodec{}), connect.WithCompressMinBytes(minBytes)}
				mux := http.NewServeMux()
				mux.Handle("/verif.Svc/Echo", connect.NewBidiStreamHandler("/verif.Svc/Echo", func(_ context.Context, st *connect.BidiStream[h.Raw, h.Raw]) error {
					for {
						m, err := st.Receive()
						if err != nil {
							return nil
						}
						if err := st.Send(&h.Raw{B: append([]byte("re:"), m.B...)}); err != nil {
							return err
						}
					}
				}, hopts...))
				srv := httptest.NewUnstartedServer(mux)
				srv.EnableHTTP2 = true
				srv.StartTLS()
				client := connect.NewClient[h.Raw, h.Raw](srv.Client(), srv.URL+"/verif.Svc/Echo", copts...)
				ctx, cancel := context.WithCancel(context.Background())
				st := client.CallBidiStream(ctx)
				var got, want [][]byte
				stuck := -1
				for k := 0; k < 4 && stuck < 0; k++ {
					msg := seqPayload(rng, 3+k)
					if big {
						msg = bytes.Repeat(msg, 600) // above 1024 bytes
					}
					want = append(want, append([]byte("re:"), msg...))
					if err := st.Send(&h.Raw{B: msg}); err != nil {
						stuck = k
						break
					}
					type res struct {
						m   *h.Raw
						err error
					}
					ch := make(chan res, 1)
					go func() { m, err := st.Receive(); ch <- res{m, err} }()
					select {
					case x := <-ch:
						if x.err != nil {
							stuck = k
						} else {
							got = append(got, x.m.B)
						}
					case <-time.After(3 * time.Second):
						stuck = k
					}
				}
				cancel()
				_ = st.CloseRequest()
				_ = st.CloseResponse()
				srv.Close()
				in := map[string]any{"proto": proto, "handler_compress_min_bytes": minBytes, "message_bytes_about": map[bool]int{false: 5, true: 3000}[big], "pattern": "bidi over HTTP/2: Send one, Receive its answer, four times"}
				r.Eval("e2e_lockstep", fmt.Sprint(proto, minBytes, big))
				r.Sample("e2e_lockstep", map[string]any{"in": in, "answers_received": len(got)})
				if stuck >= 0 || !bytesListEq(got, want) {
					r.Fail(h.Failure{Key: "roundtrip/response-direction", Family: "e2e_lockstep", What: fmt.Sprintf("the answer to message %d did not arrive within 3s of the handler sending it (received %d of 4)", stuck+1, len(got)), Input: in, Expected: len(want), Actual: len(got)})
				}
			}
		}
	}
	// real servers (sockets): HTTP/1.1 (no bidi) and HTTP/2
	nReal := r.N(18, 120)
	for k := 0; k < nReal; k++ {
		via := viaHTTP2
		kind := kinds[rng.Intn(4)]
		if k%3 == 0 {
			via = viaHTTP1
			kind = kinds[rng.Intn(3)]
		}
		c := e2eCfg{Proto: protos[(k+k/3)%3], Codec: codecs[rng.Intn(3)], Compression: comps[rng.Intn(3)], Kind: kind,
			SendCompression: rng.Bool(), MinBytes: []int{0, 1, 512, 513}[rng.Intn(4)], Via: via}
		reqMsgs := [][]byte{{7}, {}, {}, {3}}
		resMsgs := [][]byte{seqPayload(rng, 5), {}, seqPayload(rng, 3), {}}
		runCfg(c, reqMsgs, resMsgs, "e2e_http")
	}
	if r.Thorough() {
		for k, size := range []int{5 << 20, 8<<20 - 1, 8 << 20, 8<<20 + 1} {
			big := bytes.Repeat([]byte{byte(0x41 + k)}, size)
			c := e2eCfg{Proto: protos[k%3], Codec: "proto", Compression: []string{"gzip", "identity"}[k%2], Kind: kinds[k%4], SendCompression: true, Via: viaHTTP2}
			runCfg(c, [][]byte{big, {}, {1}}, [][]byte{{2}, big, {}}, "e2e_large")
		}
	}

	// ---- 3b. nested messages (length-prefixed sub-messages, maps, lists) through the real codecs ----
	for pi, proto := range protos {
		for _, codec := range []string{"proto", "json"} {
			var copts []connect.ClientOption
			switch proto {
			case "grpc":
				copts = append(copts, connect.WithGRPC())
			case "grpcweb":
				copts = append(copts, connect.WithGRPCWeb())
			}
			if codec == "json" {
				copts = append(copts, connect.WithProtoJSON())
			}
			if pi%2 == 0 {
				copts = append(copts, connect.WithSendCompression("gzip"))
			}
			for k := 0; k < r.N(4, 20); k++ {
				reqMsg := genStruct(rng, 3)
				var resMsgs []*structpb.Struct
				for j := 0; j < 1+rng.Intn(3); j++ {
					resMsgs = append(resMsgs, genStruct(rng, 3))
				}
				unknown := ""
				if codec == "proto" && k%2 == 1 {
					// fields the receiver's generated type does not declare (schema skew, a relay
					// forwarding what it received) are content of a binary message too
					u := []byte{0xc0, 0x3e, byte(1 + rng.Intn(100)), 0xca, 0x3e, 0x03, 'a', 'b', byte('a' + rng.Intn(26))}
					reqMsg.ProtoReflect().SetUnknown(u)
					resMsgs[len(resMsgs)-1].ProtoReflect().SetUnknown(u[:3])
					unknown = h.Hex(u)
				}
				var handlerGot *structpb.Struct
				mux := http.NewServeMux()
				mux.Handle("/verif.Svc/Nested", connect.NewServerStreamHandler("/verif.Svc/Nested",
					func(_ context.Context, req *connect.Request[structpb.Struct], st *connect.ServerStream[structpb.Struct]) error {
						handlerGot = proto2.Clone(req.Msg).(*structpb.Struct)
						for _, m := range resMsgs {
							if err := st.Send(proto2.Clone(m).(*structpb.Struct)); err != nil {
								return err
							}
						}
						return nil
					}))
				cl := connect.NewClient[structpb.Struct, structpb.Struct](&h.LocalClient{Handler: mux}, "http://verif.local/verif.Svc/Nested", copts...)
				var clientGot []*structpb.Struct
				var callErr error
				p := safely(func() {
					st, err := cl.CallServerStream(context.Background(), connect.NewRequest(proto2.Clone(reqMsg).(*structpb.Struct)))
					if err != nil {
						callErr = err
						return
					}
					for st.Receive() {
						clientGot = append(clientGot, proto2.Clone(st.Msg()).(*structpb.Struct))
					}
					callErr = st.Err()
					_ = st.Close()
				})
				in := map[string]any{"proto": proto, "codec": codec, "request": structText(reqMsg), "responses": len(resMsgs)}
				if unknown != "" {
					in["undeclared_fields_hex"] = unknown + " (fields 1000 and 1001 on the request, field 1000 on the last response)"
				}
				r.Eval("e2e_nested", fmt.Sprint(proto, codec, structText(reqMsg), len(resMsgs)))
				r.Sample("e2e_nested", in)
				if p != nil {
					r.Fail(h.Failure{Key: "roundtrip/panic-or-hang", Family: "e2e_nested", What: fmt.Sprint(p), Input: in})
					continue
				}
				if handlerGot == nil || !proto2.Equal(handlerGot, reqMsg) {
					r.Fail(h.Failure{Key: "roundtrip/request-direction", Family: "e2e_nested", What: "a message with nested sub-messages reached the handler changed (or not at all)",
						Input: in, Expected: structText(reqMsg), Actual: fmt.Sprint(structText(handlerGot), " err=", callErr)})
				}
				okRes := callErr == nil && len(clientGot) == len(resMsgs)
				for j := 0; okRes && j < len(resMsgs); j++ {
					okRes = proto2.Equal(clientGot[j], resMsgs[j])
				}
				if !okRes {
					var want, got []string
					for _, m := range resMsgs {
						want = append(want, structText(m))
					}
					for _, m := range clientGot {
						got = append(got, structText(m))
					}
					r.Fail(h.Failure{Key: "roundtrip/response-direction", Family: "e2e_nested", What: "messages with nested sub-messages reached the client changed, or the stream did not end cleanly",
						Input: in, Expected: want, Actual: map[string]any{"got": got, "err": fmt.Sprint(callErr)}})
				}
			}
		}
	}

	// ---- 3b'. what a refused message leaves behind: a stream whose compressed message cannot be
	// inflated (or inflates beyond the limit) is refused; every buffer it took from the pool goes
	// back ONCE. A buffer that is in the pool twice is later handed to two overlapping calls, whose
	// messages then overwrite each other ----
	for _, proto := range protos {
		for what, bad := range map[string][]byte{
			"a compressed message that cannot be inflated":        h.Frame(1, []byte{0x42, 1, 2, 3}),
			"a compressed message that inflates beyond the limit": h.Frame(1, compressToy("tagA", bytes.Repeat([]byte{7}, 63))),
			"a compressed message within the limit (the control)": h.Frame(1, compressToy("tagA", []byte{1, 2, 3})),
		} {
			cfg := envCfg{Proto: proto, Algo: "tagA", Max: 63}
			handler := connect.NewClientStreamHandler("/verif.Svc/M", func(_ context.Context, st *connect.ClientStream[h.Raw]) (*connect.Response[h.Raw], error) {
				for st.Receive() {
				}
				if err := st.Err(); err != nil {
					return nil, err
				}
				return connect.NewResponse(&h.Raw{B: []byte("ok")}), nil
			}, cfg.handlerOpts()...)
			body := append(h.Frame(0, []byte{9}), bad...)
			req := httptest.NewRequest("POST", "/verif.Svc/M", bytes.NewReader(body))
			req.Header.Set("Content-Type", cfg.contentType(false))
			req.Header.Set(cfg.encodingHeader(false), "tagA")
			tr := &poolTrace{state: map[*bytes.Buffer]int{}}
			connect.VerifSetPoolHooks(tr.hooks(false))
			rec := httptest.NewRecorder()
			p := safely(func() { handler.ServeHTTP(rec, req) })
			connect.VerifSetPoolHooks(nil)
			in := map[string]any{"proto": proto, "kind": "client", "request_encoding": "tagA", "read_limit": 63, "request": "message {09}, then " + what}
			r.Eval("buffers_after_refused_message", fmt.Sprint(proto, what))
			if p != nil {
				r.Fail(h.Failure{Key: "roundtrip/panic-or-hang", Family: "buffers_after_refused_message", What: fmt.Sprint(p), Input: in})
				continue
			}
			r.Sample("buffers_after_refused_message", map[string]any{"in": in, "pool_gets": tr.gets, "pool_puts": tr.puts})
			for _, pr := range tr.problems {
				r.Fail(h.Failure{Key: "roundtrip/pooled-buffer-shared", Family: "buffers_after_refused_message", What: pr + " — two later calls can be handed the same buffer, and each then reads the other's message bytes", Input: in})
			}
		}
	}

	// ---- 3c. one *Request value sent several times (a retry, a caller re-using it) with
	// messages on either side of compress-min-bytes: each attempt's message arrives intact ----
	for _, proto := range protos {
		for _, comp := range []string{"gzip", "tagA"} {
			copts := []connect.ClientOption{connect.WithCodec(h.ToyCodec{}), connect.WithCompressMinBytes(100)}
			hopts := []connect.HandlerOption{connect.WithCodec(h.ToyCodec{})}
			switch proto {
			case "grpc":
				copts = append(copts, connect.WithGRPC())
			case "grpcweb":
				copts = append(copts, connect.WithGRPCWeb())
			}
			if comp == "tagA" {
				copts = append(copts, h.WithAcceptTag("tagA"))
				hopts = append(hopts, h.WithTag("tagA"))
			}
			copts = append(copts, connect.WithSendCompression(comp))
			var handlerGot [][]byte
			mux := http.NewServeMux()
			mux.Handle("/verif.Svc/Unary", connect.NewUnaryHandler("/verif.Svc/Unary", func(_ context.Context, req *connect.Request[h.Raw]) (*connect.Response[h.Raw], error) {
				handlerGot = append(handlerGot, append([]byte(nil), req.Msg.B...))
				return connect.NewResponse(&h.Raw{B: req.Msg.B}), nil
			}, hopts...))
			cl := connect.NewClient[h.Raw, h.Raw](&h.LocalClient{Handler: mux}, "http://verif.local/verif.Svc/Unary", copts...)
			req := connect.NewRequest(&h.Raw{})
			sizes := []int{500, 3, 100, 99, 0, 2000}
			var sent [][]byte
			var errs []string
			for _, n := range sizes {
				req.Msg.B = genPayload(rng, n)
				sent = append(sent, append([]byte(nil), req.Msg.B...))
				res, err := cl.CallUnary(context.Background(), req)
				switch {
				case err != nil:
					errs = append(errs, fmt.Sprintf("attempt with %d bytes: %v", n, err))
				case !bytes.Equal(res.Msg.B, req.Msg.B):
					errs = append(errs, fmt.Sprintf("attempt with %d bytes: the echo differs", n))
				}
			}
			in := map[string]any{"proto": proto, "send_compression": comp, "compress_min_bytes": 100, "one_request_value_sent_with_message_sizes": sizes}
			r.Eval("request_reuse", fmt.Sprint(proto, comp))
			r.Sample("request_reuse", map[string]any{"in": in, "failures": errs})
			if len(errs) > 0 || !bytesListEq(handlerGot, sent) {
				r.Fail(h.Failure{Key: "roundtrip/request-direction", Family: "request_reuse", What: "a Request value sent again with another message: the handler did not receive each attempt's message intact", Input: in, Expected: len(sent), Actual: map[string]any{"handler_received": len(handlerGot), "failures": errs}})
			}
		}
	}

	// ---- 3d. a reader that skips messages: Receive, Receive, Msg — the message looked at is
	// the one received last, also when it is zero-valued and the one skipped was not ----
	for _, proto := range protos {
		for _, side := range []string{"client reads a server stream", "handler reads a client stream"} {
			for _, codec := range []string{"toy", "proto"} {
				var copts []connect.ClientOption
				switch proto {
				case "grpc":
					copts = append(copts, connect.WithGRPC())
				case "grpcweb":
					copts = append(copts, connect.WithGRPCWeb())
				}
				hopts := []connect.HandlerOption{connect.WithCompressMinBytes(1 << 20)}
				copts = append(copts, connect.WithCompressMinBytes(1<<20))
				seq := [][]byte{{7}, {}, {3, 3}, {}}
				var looked [][]byte
				var callErr error
				var pnc any
				if codec == "toy" {
					copts = append(copts, connect.WithCodec(h.ToyCodec{}))
					hopts = append(hopts, connect.WithCodec(h.ToyCodec{}))
					mux := http.NewServeMux()
					mux.Handle("/verif.Svc/Server", connect.NewServerStreamHandler("/verif.Svc/Server", func(_ context.Context, _ *connect.Request[h.Raw], st *connect.ServerStream[h.Raw]) error {
						for _, m := range seq {
							if err := st.Send(&h.Raw{B: m}); err != nil {
								return err
							}
						}
						return nil
					}, hopts...))
					mux.Handle("/verif.Svc/Client", connect.NewClientStreamHandler("/verif.Svc/Client", func(_ context.Context, st *connect.ClientStream[h.Raw]) (*connect.Response[h.Raw], error) {
						for st.Receive() { // first of a pair: not looked at
							if !st.Receive() {
								break
							}
							looked = append(looked, append([]byte{}, st.Msg().B...))
						}
						return connect.NewResponse(&h.Raw{}), st.Err()
					}, hopts...))
					lc := &h.LocalClient{Handler: mux}
					pnc = safely(func() {
						if side == "client reads a server stream" {
							st, err := connect.NewClient[h.Raw, h.Raw](lc, "http://verif.local/verif.Svc/Server", copts...).CallServerStream(context.Background(), connect.NewRequest(&h.Raw{B: []byte("q")}))
							if err != nil {
								callErr = err
								return
							}
							for st.Receive() {
								if !st.Receive() {
									break
								}
								looked = append(looked, append([]byte{}, st.Msg().B...))
							}
							callErr = st.Err()
							_ = st.Close()
						} else {
							st := connect.NewClient[h.Raw, h.Raw](lc, "http://verif.local/verif.Svc/Client", copts...).CallClientStream(context.Background())
							for _, m := range seq {
								_ = st.Send(&h.Raw{B: m})
							}
							_, callErr = st.CloseAndReceive()
						}
					})
				} else {
					mux := http.NewServeMux()
					mux.Handle("/verif.Svc/Server", connect.NewServerStreamHandler("/verif.Svc/Server", func(_ context.Context, _ *connect.Request[wrapperspb.BytesValue], st *connect.ServerStream[wrapperspb.BytesValue]) error {
						for _, m := range seq {
							if err := st.Send(&wrapperspb.BytesValue{Value: m}); err != nil {
								return err
							}
						}
						return nil
					}, hopts...))
					mux.Handle("/verif.Svc/Client", connect.NewClientStreamHandler("/verif.Svc/Client", func(_ context.Context, st *connect.ClientStream[wrapperspb.BytesValue]) (*connect.Response[wrapperspb.BytesValue], error) {
						for st.Receive() {
							if !st.Receive() {
								break
							}
							looked = append(looked, append([]byte{}, st.Msg().Value...))
						}
						return connect.NewResponse(&wrapperspb.BytesValue{}), st.Err()
					}, hopts...))
					lc := &h.LocalClient{Handler: mux}
					pnc = safely(func() {
						if side == "client reads a server stream" {
							st, err := connect.NewClient[wrapperspb.BytesValue, wrapperspb.BytesValue](lc, "http://verif.local/verif.Svc/Server", copts...).CallServerStream(context.Background(), connect.NewRequest(&wrapperspb.BytesValue{}))
							if err != nil {
								callErr = err
								return
							}
							for st.Receive() {
								if !st.Receive() {
									break
								}
								looked = append(looked, append([]byte{}, st.Msg().Value...))
							}
							callErr = st.Err()
							_ = st.Close()
						} else {
							st := connect.NewClient[wrapperspb.BytesValue, wrapperspb.BytesValue](lc, "http://verif.local/verif.Svc/Client", copts...).CallClientStream(context.Background())
							for _, m := range seq {
								_ = st.Send(&wrapperspb.BytesValue{Value: m})
							}
							_, callErr = st.CloseAndReceive()
						}
					})
				}
				want := [][]byte{{}, {}} // the 2nd and the 4th
				in := map[string]any{"proto": proto, "codec": codec, "side": side, "sent": hexList(seq), "reader": "Receive, Receive, Msg (twice)"}
				r.Eval("skip_reading", fmt.Sprint(proto, side, codec))
				r.Sample("skip_reading", map[string]any{"in": in, "looked_at": hexList(looked)})
				if pnc != nil || callErr != nil {
					r.Fail(h.Failure{Key: "roundtrip/panic-or-hang", Family: "skip_reading", What: fmt.Sprint("panic or failed call: ", pnc, callErr), Input: in})
					continue
				}
				if !bytesListEq(looked, want) {
					key := "roundtrip/response-direction"
					if side != "client reads a server stream" {
						key = "roundtrip/request-direction"
					}
					r.Fail(h.Failure{Key: key, Family: "skip_reading", What: "a reader that calls Receive twice before Msg is shown another message than the one received last (a zero-valued message after a skipped non-zero one)", Input: in, Expected: hexList(want), Actual: hexList(looked)})
				}
			}
		}
	}

	// ---- 3e. a request message the codec refuses to marshal: the client's call fails, and the
	// handler's user code does not run on a message nobody sent ----
	for _, proto := range protos {
		for _, via := range []e2eTransport{viaLocal, viaHTTP1, viaHTTP2} {
			for _, kind := range []string{"unary", "server"} {
				var copts []connect.ClientOption
				switch proto {
				case "grpc":
					copts = append(copts, connect.WithGRPC())
				case "grpcweb":
					copts = append(copts, connect.WithGRPCWeb())
				}
				copts = append(copts, connect.WithCodec(h.ToyCodec{}))
				var ran atomic.Int64
				var sawLen atomic.Int64
				sawLen.Store(-1)
				mux := http.NewServeMux()
				mux.Handle("/verif.Svc/Unary", connect.NewUnaryHandler("/verif.Svc/Unary", func(_ context.Context, req *connect.Request[h.Raw]) (*connect.Response[h.Raw], error) {
					ran.Add(1)
					sawLen.Store(int64(len(req.Msg.B)))
					return connect.NewResponse(&h.Raw{B: []byte("ok")}), nil
				}, connect.WithCodec(h.ToyCodec{})))
				mux.Handle("/verif.Svc/Server", connect.NewServerStreamHandler("/verif.Svc/Server", func(_ context.Context, req *connect.Request[h.Raw], st *connect.ServerStream[h.Raw]) error {
					ran.Add(1)
					sawLen.Store(int64(len(req.Msg.B)))
					return st.Send(&h.Raw{B: []byte("ok")})
				}, connect.WithCodec(h.ToyCodec{})))
				var hc connect.HTTPClient = &h.LocalClient{Handler: mux}
				base := "http://verif.local"
				var srv *httptest.Server
				if via != viaLocal {
					srv = httptest.NewUnstartedServer(mux)
					if via == viaHTTP2 {
						srv.EnableHTTP2 = true
						srv.StartTLS()
					} else {
						srv.Start()
					}
					hc, base = srv.Client(), srv.URL
				}
				bad := &h.Raw{B: []byte{0xEE, 0xEE, 0xEE}}
				var callErr error
				p := safely(func() {
					if kind == "unary" {
						_, callErr = connect.NewClient[h.Raw, h.Raw](hc, base+"/verif.Svc/Unary", copts...).CallUnary(context.Background(), connect.NewRequest(bad))
					} else {
						st, err := connect.NewClient[h.Raw, h.Raw](hc, base+"/verif.Svc/Server", copts...).CallServerStream(context.Background(), connect.NewRequest(bad))
						callErr = err
						if err == nil {
							for st.Receive() {
							}
							callErr = st.Err()
							_ = st.Close()
						}
					}
				})
				time.Sleep(20 * time.Millisecond) // (a handler started by a request in flight)
				if srv != nil {
					srv.Close()
				}
				in := map[string]any{"proto": proto, "kind": kind, "via": via, "request_message": "one the client's codec refuses to marshal"}
				r.Eval("unmarshalable_request", fmt.Sprint(proto, kind, via))
				r.Sample("unmarshalable_request", map[string]any{"in": in, "client_error": fmt.Sprint(callErr), "handler_user_code_ran": ran.Load()})
				if p != nil {
					r.Fail(h.Failure{Key: "roundtrip/panic-or-hang", Family: "unmarshalable_request", What: fmt.Sprint(p), Input: in})
					continue
				}
				if callErr == nil {
					r.Fail(h.Failure{Key: "roundtrip/request-direction", Family: "unmarshalable_request", What: "a call whose request message could not be marshalled succeeded", Input: in})
				}
				if ran.Load() > 0 {
					key := "roundtrip/request-direction"
					r.Fail(h.Failure{Key: key, Family: "unmarshalable_request", What: fmt.Sprintf("the client sent no message (marshalling failed), yet the handler's user code ran, on a message of %d bytes", sawLen.Load()), Input: in, Expected: "user code does not run", Actual: fmt.Sprint("ran ", ran.Load(), " time(s)")})
				}
			}
		}
	}

	// ---- 4. the API-level reused-holder case with the proto codec ([7,0,0,3]) ----
	for _, proto := range protos {
		var copts []connect.ClientOption
		switch proto {
		case "grpc":
			copts = append(copts, connect.WithGRPC())
		case "grpcweb":
			copts = append(copts, connect.WithGRPCWeb())
		}
		var sum int64
		var seen []int64
		mux := http.NewServeMux()
		mux.Handle("/verif.Svc/Sum", connect.NewClientStreamHandler("/verif.Svc/Sum",
			func(_ context.Context, s *connect.ClientStream[wrapperspb.Int64Value]) (*connect.Response[wrapperspb.Int64Value], error) {
				for s.Receive() {
					sum += s.Msg().GetValue()
					seen = append(seen, s.Msg().GetValue())
				}
				return connect.NewResponse(&wrapperspb.Int64Value{Value: sum}), s.Err()
			}))
		cl := connect.NewClient[wrapperspb.Int64Value, wrapperspb.Int64Value](&h.LocalClient{Handler: mux}, "http://verif.local/verif.Svc/Sum", copts...)
		st := cl.CallClientStream(context.Background())
		in := []int64{7, 0, 0, 3}
		for _, v := range in {
			_ = st.Send(&wrapperspb.Int64Value{Value: v})
		}
		resp, err := st.CloseAndReceive()
		r.Eval("sum_7_0_0_3", proto)
		if err != nil || resp.Msg.GetValue() != 10 {
			r.Fail(h.Failure{Key: "roundtrip/stale-holder", Family: "sum_7_0_0_3", What: "client stream [7,0,0,3] (proto codec): zero-valued messages are delivered as the previous message",
				Input: map[string]any{"proto": proto, "sent": in}, Expected: "handler sees 7,0,0,3 (sum 10)", Actual: fmt.Sprint(seen, " err=", err)})
		}
	}
}

// genStruct builds a google.protobuf.Struct with nested structs and lists (sub-messages whose
// length prefixes the marshaler has to compute).
func genStruct(rng *h.Rng, depth int) *structpb.Struct {
	s := &structpb.Struct{Fields: map[string]*structpb.Value{}}
	n := 1 + rng.Intn(4)
	for i := 0; i < n; i++ {
		s.Fields[fmt.Sprintf("k%d", i)] = genValue(rng, depth)
	}
	return s
}

func genValue(rng *h.Rng, depth int) *structpb.Value {
	k := rng.Intn(6)
	if depth == 0 && k >= 4 {
		k = rng.Intn(4)
	}
	switch k {
	case 0:
		return structpb.NewNumberValue(float64(rng.Intn(1000)))
	case 1:
		return structpb.NewStringValue(string(genPayloadASCII(rng, rng.Intn(12))))
	case 2:
		return structpb.NewBoolValue(rng.Bool())
	case 3:
		return structpb.NewNullValue()
	case 4:
		return structpb.NewStructValue(genStruct(rng, depth-1))
	}
	l := &structpb.ListValue{}
	for i := 0; i < rng.Intn(4); i++ {
		l.Values = append(l.Values, genValue(rng, depth-1))
	}
	return structpb.NewListValue(l)
}

func genPayloadASCII(rng *h.Rng, n int) []byte {
	out := make([]byte, n)
	for i := range out {
		out[i] = byte('a' + rng.Intn(26))
	}
	return out
}

func structText(s *structpb.Struct) string {
	if s == nil {
		return "<nil>"
	}
	b, err := protojson.Marshal(s)
	if err != nil {
		return "<" + err.Error() + ">"
	}
	var c bytes.Buffer
	if json.Compact(&c, b) == nil {
		return c.String()
	}
	return string(b)
}
