package props

import (
	"bytes"
	"context"
	"errors"
	"fmt"
	"io"
	"net/http"
	"net/http/httptest"
	"strings"
	"time"

	connect "github.com/bufbuild/connect-go"
	"github.com/bufbuild/connect-go/verifharness/internal/h"
	"google.golang.org/protobuf/proto"
	"google.golang.org/protobuf/types/known/anypb"
	"google.golang.org/protobuf/types/known/wrapperspb"
)

var errMessages = []string{"", "simple", "héllo wörld 你好 \U0001F600", "nul\x00 and control \x01\x1f\x7f", "%", "50% off %41 %zz", "line1\r\nline2\n", "  leading and trailing  ", "colon: comma, quote\" backslash\\", strings.Repeat("long message ", 640)}

func mkDetails(n int) []*anypb.Any {
	var out []*anypb.Any
	for i := 0; i < n; i++ {
		var m proto.Message
		switch i % 3 {
		case 0:
			m = wrapperspb.String(fmt.Sprintf("detail-%d é", i))
		case 1:
			m = wrapperspb.Int64(int64(i) * 1000003)
		default:
			m = wrapperspb.Bytes([]byte{0, 1, 2, byte(i)})
		}
		a, _ := anypb.New(m)
		out = append(out, a)
	}
	return out
}

func mkError(code connect.Code, msg string, ndetails int, meta http.Header) *connect.Error {
	e := connect.NewError(code, errors.New(msg))
	for _, d := range mkDetails(ndetails) {
		e.AddDetail(d)
	}
	for k, vs := range meta {
		for _, v := range vs {
			e.Meta().Add(k, v)
		}
	}
	return e
}

func sublist(want, got []string) bool {
	i := 0
	for _, g := range got {
		if i < len(want) && g == want[i] {
			i++
		}
	}
	return i == len(want)
}

// checkError compares what the client got with what the handler returned.
func checkError(r *h.Run, fam string, in any, clientErr error, code connect.Code, msg string, details []*anypb.Any, meta ...http.Header) {
	if clientErr == nil {
		r.Fail(h.Failure{Key: "error/delivered-as-success", Family: fam, What: "the handler's error was delivered as success", Input: in})
		return
	}
	var ce *connect.Error
	if !errors.As(clientErr, &ce) {
		r.Fail(h.Failure{Key: "error/not-connect-error", Family: fam, What: "client error is not a *connect.Error", Input: in, Actual: clientErr.Error()})
		return
	}
	if ce.Code() != code {
		r.Fail(h.Failure{Key: "error/code", Family: fam, What: "error code changed in transit", Input: in, Expected: code.String(), Actual: ce.Code().String()})
	}
	if ce.Message() != msg {
		r.Fail(h.Failure{Key: "error/message", Family: fam, What: "error message is not byte-identical", Input: in, Expected: h.Hex([]byte(msg)), Actual: h.Hex([]byte(ce.Message()))})
	}
	got := ce.Details()
	ok := len(got) == len(details)
	for i := 0; ok && i < len(got); i++ {
		a, isAny := got[i].(*anypb.Any)
		ok = isAny && a.GetTypeUrl() == details[i].GetTypeUrl() && bytes.Equal(a.GetValue(), details[i].GetValue())
	}
	if !ok {
		r.Fail(h.Failure{Key: "error/details", Family: fam, What: "error details differ (count, order or content)", Input: in, Expected: len(details), Actual: len(got)})
	}
	for _, m := range meta {
		for k, vs := range m {
			if !sublist(vs, ce.Meta().Values(k)) {
				r.Fail(h.Failure{Key: "error/metadata", Family: fam, What: "a metadata key/value the handler attached is missing from the error's metadata (or per-key order changed)", Input: in, Expected: map[string]any{k: vs}, Actual: ce.Meta().Values(k)})
			}
		}
	}
}

// C02 — handler errors reach the client.
func C02(r *h.Run) {
	r.Model("c02case", "c02_ok")
	r.Sum.Rule = "codes 1..16 x messages {empty, ASCII, non-ASCII, NUL/control, '%', CR/LF, blanks, 8 KiB} x details (0..3 Any) x metadata multimaps x 3 protocols x {proto, json} x 4 RPC kinds x k in {0,1,3} messages before the error, interceptor-returned and plain Go errors, over the in-process transport and real HTTP/1.1 + HTTP/2 servers (client-side oracle on the four fields); what real handlers write for an error at the HTTP boundary and what real clients read from crafted status headers (model cases). distinct = distinct tuple"
	rng := r.Rng.Fork("c02")
	protos := []string{"connect", "grpc", "grpcweb"}

	// ---- 1. handler boundary: what is written for (code, message) ----
	codes := []connect.Code{}
	for c := 1; c <= 16; c++ {
		codes = append(codes, connect.Code(c))
	}
	codes = append(codes, 17, 100, 4294967295)
	for ci, code := range codes {
		for mi, msg := range errMessages {
			if len(msg) > 1000 && ci%4 != 0 {
				continue
			}
			for pi, proto := range protos {
				for _, unary := range []bool{true, false} {
					if !r.Thorough() && (ci+mi+pi)%2 == 1 && code <= 16 {
						continue
					}
					cfg := envCfg{Proto: proto}
					retErr := connect.NewError(code, errors.New(msg))
					var handler *connect.Handler
					if unary {
						handler = connect.NewUnaryHandler("/verif.Svc/M", func(context.Context, *connect.Request[h.Raw]) (*connect.Response[h.Raw], error) {
							return nil, retErr
						}, cfg.handlerOpts()...)
					} else {
						handler = connect.NewServerStreamHandler("/verif.Svc/M", func(_ context.Context, _ *connect.Request[h.Raw], s *connect.ServerStream[h.Raw]) error {
							_ = s.Send(&h.Raw{B: []byte("one")})
							return retErr
						}, cfg.handlerOpts()...)
					}
					body := h.Frame(0, []byte("q"))
					if unary && proto == "connect" {
						body = []byte("q")
					}
					req := httptest.NewRequest(http.MethodPost, "/verif.Svc/M", bytes.NewReader(body))
					req.Header.Set("Content-Type", cfg.contentType(unary))
					rec := httptest.NewRecorder()
					if p := safely(func() { handler.ServeHTTP(rec, req) }); p != nil {
						r.Fail(h.Failure{Key: "error/panic", Family: "handler_error", What: fmt.Sprint("panic: ", p), Input: map[string]any{"code": code, "msg": msg}})
						continue
					}
					in := map[string]any{"proto": proto, "unary": unary, "code": uint32(code), "message_hex": h.Hex([]byte(msg))}
					r.Eval("handler_error", fmt.Sprint(in))
					switch {
					case proto == "connect" && unary:
						if rec.Code >= 200 && rec.Code < 300 {
							r.Fail(h.Failure{Key: "error/unary-connect-2xx", Family: "handler_error", What: "a failed unary Connect call has a 2xx HTTP status", Input: in, Actual: rec.Code})
						}
						ctext, _ := jsonErr(rec.Body.Bytes(), false)
						r.Sample("handler_error", map[string]any{"in": in, "http_status": rec.Code, "code_text": ctext})
						r.Case("handler_error", fmt.Sprintf("ErrConnectUnary %d %d %s", uint32(code), rec.Code, h.CoqStr(ctext)), map[string]any{"in": in, "impl_status": rec.Code, "impl_code_text": ctext})
					case proto == "connect":
						ctext, _ := peerError(proto, "server", rec)
						r.Case("handler_error", fmt.Sprintf("ErrConnectStream %d %s", uint32(code), h.CoqStr(ctext)), map[string]any{"in": in, "impl_code_text": ctext})
					default:
						st, mh := grpcStatusFields(proto, rec)
						r.Sample("handler_error", map[string]any{"in": in, "grpc_status": st, "grpc_message": mh})
						r.Case("handler_error", fmt.Sprintf("ErrGrpc %d %s %s %s", uint32(code), h.CoqStr(msg), h.CoqStr(st), h.CoqStr(mh)), map[string]any{"in": in, "impl_status": st, "impl_message": mh})
						if rec.Code != 200 {
							r.Fail(h.Failure{Key: "error/grpc-not-200", Family: "handler_error", What: "gRPC response with a non-200 HTTP status", Input: in, Actual: rec.Code})
						}
					}
				}
			}
		}
	}

	// ---- 1b. the metadata a handler writes for an error (application keys next to names of the
	// HTTP message vocabulary and near misses of them) ----
	errorMetaWritten(r, rng.Fork("meta"), false, "error/metadata-not-written")

	// ---- 1c. the handler's first Send failed before anything was written (the codec refused the
	// message); the error the handler then returns is what the client receives ----
	for _, proto := range protos {
		cerr, _, p := failedFirstSendCall(proto, false)
		in := map[string]any{"proto": proto, "kind": "server", "handler": "its first Send fails in the codec; it then returns data_loss 'after the failed send' with metadata X-E: e1"}
		r.Eval("error_after_failed_send", proto)
		if p != nil {
			r.Fail(h.Failure{Key: "error/panic-or-hang", Family: "error_after_failed_send", What: fmt.Sprint(p), Input: in})
			continue
		}
		r.Sample("error_after_failed_send", map[string]any{"in": in, "client_error": fmt.Sprint(cerr)})
		checkError(r, "error_after_failed_send", in, cerr, connect.CodeDataLoss, "after the failed send", nil, http.Header{"X-E": {"e1"}})
	}

	// ---- 2. client decodes crafted status headers ----
	for _, st := range []string{"1", "5", "16", "17", "4294967295", "05", "016"} {
		for _, mh := range []string{"", "plain", "50%25%20off", "%E4%BD%A0%e5%a5%bd", "%zz%4", "a%0D%0Ab", "%00%01", "trailing%"} {
			cfg := envCfg{Proto: "grpc"}
			hdr, _, _ := responseParts(cfg)
			trailer := http.Header{"Grpc-Status": {st}, "Grpc-Message": {mh}}
			res := doCall(cfg, "server", func() *http.Response {
				return h.NewResponse(200, hdr.Clone(), h.NewChunkBody([][]byte{h.Frame(0, []byte("m"))}, h.FinCleanEOF), trailer.Clone())
			})
			r.Eval("grpc_decode", st+"|"+mh)
			var ce *connect.Error
			if res.err == nil || !errors.As(res.err, &ce) {
				r.Fail(h.Failure{Key: "error/delivered-as-success", Family: "grpc_decode", What: "non-zero grpc-status not reported as an error", Input: map[string]any{"status": st, "message": mh}})
				continue
			}
			r.Case("grpc_decode", fmt.Sprintf("GrpcDecode %s %s %d %s", h.CoqStr(st), h.CoqStr(mh), uint32(ce.Code()), h.CoqStr(ce.Message())),
				map[string]any{"status": st, "message_header": mh, "impl_code": uint32(ce.Code()), "impl_message_hex": h.Hex([]byte(ce.Message()))})
		}
	}

	// ---- 3. end to end: the four fields at the client ----
	kinds := []string{"unary", "client", "server", "bidi"}
	metas := []http.Header{{}, {"X-Err": {"v1"}}, {"X-Err": {"v1", "v2", "v1"}, "X-Other-Key": {"a b c"}}, {"X-Data-Bin": {connect.EncodeBinaryHeader([]byte{0, 1, 2, 255})}, "X-Err": {"z"}}}
	n := 0
	for ci, code := range codes[:16] {
		for mi, msg := range errMessages {
			for pi, proto := range protos {
				if !r.Thorough() && (ci+2*mi+pi)%3 != 0 {
					continue // quick: one protocol per (code, message), rotating
				}
				n++
				kind := kinds[(ci+mi+pi)%4]
				codec := []string{"proto", "json"}[(ci+mi)%2]
				k := []int{0, 1, 3}[(ci+pi)%3]
				nd := (ci + mi) % 4
				meta := metas[(ci+mi+pi)%len(metas)]
				via := viaLocal
				if n%11 == 0 {
					via = viaHTTP2
				} else if n%13 == 0 && kind != "bidi" {
					via = viaHTTP1
				}
				if via != viaLocal && strings.ContainsAny(msg, "\x00\r\n") && proto != "grpc" {
					// header-safe on every carrier we use over sockets: messages travel percent-encoded or in JSON bodies
				}
				var copts []connect.ClientOption
				switch proto {
				case "grpc":
					copts = append(copts, connect.WithGRPC())
				case "grpcweb":
					copts = append(copts, connect.WithGRPCWeb())
				}
				if codec == "json" {
					copts = append(copts, connect.WithProtoJSON())
				}
				retErr := mkError(code, msg, nd, meta)
				var resMsgs [][]byte
				for i := 0; i < k; i++ {
					resMsgs = append(resMsgs, []byte{byte(i), 7})
				}
				if len(resMsgs) == 0 {
					resMsgs = [][]byte{} // none sent before the error
				}
				ex := &e2eExtras{ResHeader: http.Header{"X-Hdr": {"h1"}}, ResTrailer: http.Header{"X-Trl": {"t1"}}}
				if n%2 == 0 {
					// the handler's trailers (and headers) use a key the error's metadata uses too:
					// the values of both must arrive
					ex.ResTrailer.Add("X-Err", "from-trailer")
					ex.ResHeader.Add("X-Other-Key", "from-header")
				}
				smallLimit := kind == "unary" && n%4 < 2
				if smallLimit {
					// the client limits the size of response MESSAGES; the error is not one
					copts = append(copts, connect.WithReadMaxBytes(16))
				}
				send := resMsgs
				if kind == "unary" || kind == "client" {
					send = [][]byte{{1}} // never sent: these kinds return the error instead of a response
				}
				res := runE2E(bytesValueKind, kind, via, copts, nil, [][]byte{{1}, {2}}, send, retErr, 0, ex)
				in := map[string]any{"proto": proto, "codec": codec, "kind": kind, "code": code.String(), "message_hex": h.Hex([]byte(msg[:minInt(len(msg), 40)])), "details": nd, "meta": meta, "messages_before_error": len(res.ClientGot), "via": via,
					"handler_trailers": ex.ResTrailer, "handler_headers": ex.ResHeader, "client_read_max_bytes": map[bool]int{true: 16}[smallLimit]}
				r.Eval("e2e_error", fmt.Sprint(n))
				if res.Panic != nil {
					r.Fail(h.Failure{Key: "error/panic-or-hang", Family: "e2e_error", What: fmt.Sprint(res.Panic), Input: in})
					continue
				}
				r.Sample("e2e_error", map[string]any{"in": in, "client_error": fmt.Sprint(ex.ClientErr)})
				// headers and trailers set before the error must be in the error's metadata for streaming kinds
				extra := []http.Header{meta}
				if kind == "server" || kind == "bidi" {
					extra = append(extra, ex.ResHeader, ex.ResTrailer)
				}
				checkError(r, "e2e_error", in, ex.ClientErr, code, msg, mkDetails(nd), extra...)
			}
		}
	}
	// coded errors whose CAUSE is a context error (a handler whose own backend call timed out):
	// the code, message, details and metadata the handler chose must arrive, not a re-coded error
	for pi, proto := range protos {
		for ki, kind := range kinds {
			for ci, cause := range []error{context.DeadlineExceeded, context.Canceled, io.EOF, io.ErrUnexpectedEOF, io.ErrClosedPipe, http.ErrHandlerTimeout} {
				var copts []connect.ClientOption
				switch proto {
				case "grpc":
					copts = append(copts, connect.WithGRPC())
				case "grpcweb":
					copts = append(copts, connect.WithGRPCWeb())
				}
				code := []connect.Code{connect.CodeUnavailable, connect.CodeInternal, connect.CodeAborted, connect.CodeDeadlineExceeded, connect.CodeCanceled}[(pi+ki+ci)%5]
				wrapped := fmt.Errorf("backend call: %w", cause)
				retErr := connect.NewError(code, wrapped)
				for _, d := range mkDetails(1) {
					retErr.AddDetail(d)
				}
				retErr.Meta().Add("X-Err", "kept")
				send := [][]byte{{1}, {2}}
				if kind == "unary" || kind == "client" {
					send = [][]byte{{1}}
				}
				ex := &e2eExtras{}
				res := runE2E(bytesValueKind, kind, viaLocal, copts, nil, [][]byte{{1}}, send, retErr, 0, ex)
				in := map[string]any{"proto": proto, "kind": kind, "code": code.String(), "cause": cause.Error(), "source": "handler error wrapping a context error or one of the sentinel errors of io / net/http"}
				r.Eval("e2e_ctx_cause", fmt.Sprint(pi, kind, ci))
				if res.Panic != nil {
					r.Fail(h.Failure{Key: "error/panic-or-hang", Family: "e2e_ctx_cause", What: fmt.Sprint(res.Panic), Input: in})
					continue
				}
				r.Sample("e2e_ctx_cause", map[string]any{"in": in, "client_error": fmt.Sprint(ex.ClientErr)})
				checkError(r, "e2e_ctx_cause", in, ex.ClientErr, code, wrapped.Error(), mkDetails(1), http.Header{"X-Err": {"kept"}})
			}
		}
	}
	// the coded error travels inside a multi-error (errors.Join, several %w): errors.As finds
	// it, so its code, message, details and metadata are what the client must get
	for pi, proto := range protos {
		for ki, kind := range kinds {
			for shape := 0; shape < 3; shape++ {
				var copts []connect.ClientOption
				switch proto {
				case "grpc":
					copts = append(copts, connect.WithGRPC())
				case "grpcweb":
					copts = append(copts, connect.WithGRPCWeb())
				}
				code := connect.Code(1 + (pi*5+ki*3+shape)%16)
				inner := mkError(code, "the real failure", 1, http.Header{"X-Err": {"kept"}})
				cleanup := errors.New("cleanup also failed")
				var retErr error
				switch shape {
				case 0:
					retErr = errors.Join(inner, cleanup)
				case 1:
					retErr = fmt.Errorf("%w; and then %w", inner, cleanup)
				default:
					retErr = errors.Join(cleanup, fmt.Errorf("wrapped: %w", inner))
				}
				send := [][]byte{{1}, {2}}
				if kind == "unary" || kind == "client" {
					send = [][]byte{{1}}
				}
				ex := &e2eExtras{}
				res := runE2E(bytesValueKind, kind, viaLocal, copts, nil, [][]byte{{1}}, send, retErr, 0, ex)
				in := map[string]any{"proto": proto, "kind": kind, "code": code.String(), "shape": []string{"errors.Join(coded, other)", "fmt.Errorf with two %w", "errors.Join(other, wrapped coded)"}[shape]}
				r.Eval("e2e_multi_error", fmt.Sprint(pi, kind, shape))
				if res.Panic != nil {
					r.Fail(h.Failure{Key: "error/panic-or-hang", Family: "e2e_multi_error", What: fmt.Sprint(res.Panic), Input: in})
					continue
				}
				r.Sample("e2e_multi_error", map[string]any{"in": in, "client_error": fmt.Sprint(ex.ClientErr)})
				checkError(r, "e2e_multi_error", in, ex.ClientErr, code, "the real failure", mkDetails(1), http.Header{"X-Err": {"kept"}})
			}
		}
	}
	// the handler side (an interceptor) answers with its error before it has read a LARGE request
	// message, which the client is still writing: the client stops writing and reports that error
	for _, proto := range protos {
		for _, kind := range []string{"server", "client", "bidi"} {
			cfg := envCfg{Proto: proto}
			code := connect.CodePermissionDenied
			retErr := mkError(code, "not for you", 1, http.Header{"X-Err": {"kept"}})
			// what a real handler writes for this error, recorded once
			var handler *connect.Handler
			hopts := []connect.HandlerOption{connect.WithCodec(h.ToyCodec{}), connect.WithInterceptors(errIcpt{retErr})}
			switch kind {
			case "server":
				handler = connect.NewServerStreamHandler("/verif.Svc/M", func(context.Context, *connect.Request[h.Raw], *connect.ServerStream[h.Raw]) error { return nil }, hopts...)
			case "client":
				handler = connect.NewClientStreamHandler("/verif.Svc/M", func(context.Context, *connect.ClientStream[h.Raw]) (*connect.Response[h.Raw], error) {
					return connect.NewResponse(&h.Raw{}), nil
				}, hopts...)
			default:
				handler = connect.NewBidiStreamHandler("/verif.Svc/M", func(context.Context, *connect.BidiStream[h.Raw, h.Raw]) error { return nil }, hopts...)
			}
			hreq := httptest.NewRequest(http.MethodPost, "/verif.Svc/M", bytes.NewReader(nil))
			hreq.ProtoMajor, hreq.ProtoMinor = 2, 0
			hreq.Header.Set("Content-Type", cfg.contentType(false))
			rec := httptest.NewRecorder()
			if p := safely(func() { handler.ServeHTTP(rec, hreq) }); p != nil {
				r.Fail(h.Failure{Key: "error/panic", Family: "e2e_early_error", What: fmt.Sprint("panic: ", p), Input: proto})
				continue
			}
			rhdr, rtrailer := splitTrailers(rec)
			rbody := append([]byte(nil), rec.Body.Bytes()...)
			big := bytes.Repeat([]byte("x"), 1<<20)
			ec := &earlyClient{readBytes: 32 << 10, build: func() *http.Response {
				return h.NewResponse(rec.Code, rhdr.Clone(), h.NewChunkBody([][]byte{rbody}, h.FinCleanEOF), rtrailer.Clone())
			}}
			var callErr error
			timedOut, p := withWatchdog(5*time.Second, func() {
				cl := connect.NewClient[h.Raw, h.Raw](ec, "http://verif.local/verif.Svc/M", clientOpts(cfg, "")...)
				switch kind {
				case "server":
					st, err := cl.CallServerStream(context.Background(), connect.NewRequest(&h.Raw{B: big}))
					if err != nil {
						callErr = err
						return
					}
					for st.Receive() {
					}
					callErr = st.Err()
					_ = st.Close()
				case "client":
					st := cl.CallClientStream(context.Background())
					_ = st.Send(&h.Raw{B: big})
					_, callErr = st.CloseAndReceive()
				default:
					st := cl.CallBidiStream(context.Background())
					_ = st.Send(&h.Raw{B: big})
					_ = st.CloseRequest()
					_, callErr = st.Receive()
					_ = st.CloseResponse()
				}
			})
			in := map[string]any{"proto": proto, "kind": kind, "code": code.String(), "source": "handler-side interceptor, before the request was read", "request_message_bytes": len(big), "peer_read_before_answering": 32 << 10}
			r.Eval("e2e_early_error", fmt.Sprint(proto, kind))
			if timedOut || p != nil {
				r.Fail(h.Failure{Key: "error/panic-or-hang", Family: "e2e_early_error", What: fmt.Sprint("hang or panic: ", p), Input: in})
				continue
			}
			r.Sample("e2e_early_error", map[string]any{"in": in, "client_error": fmt.Sprint(callErr)})
			checkError(r, "e2e_early_error", in, callErr, code, "not for you", mkDetails(1), http.Header{"X-Err": {"kept"}})
		}
	}
	// details whose message type is not linked into either binary (a gateway passing on the
	// details of an upstream service): they are opaque Any values, and travel as such
	for _, proto := range protos {
		for _, kind := range []string{"unary", "server"} {
			var copts []connect.ClientOption
			switch proto {
			case "grpc":
				copts = append(copts, connect.WithGRPC())
			case "grpcweb":
				copts = append(copts, connect.WithGRPCWeb())
			}
			retErr := connect.NewError(connect.CodeNotFound, errors.New("no such thing"))
			unknown := &anypb.Any{TypeUrl: "type.googleapis.com/acme.upstream.v1.Reason", Value: []byte{0x0a, 0x03, 'a', 'b', 'c'}}
			retErr.AddDetail(unknown)
			ex := &e2eExtras{}
			send := [][]byte{{1}}
			res := runE2E(bytesValueKind, kind, viaLocal, copts, nil, [][]byte{{1}}, send, retErr, 0, ex)
			in := map[string]any{"proto": proto, "kind": kind, "code": "not_found", "detail": "Any{type_url: type.googleapis.com/acme.upstream.v1.Reason} (a type linked into neither side)"}
			r.Eval("e2e_unlinked_detail", fmt.Sprint(proto, kind))
			if res.Panic != nil {
				r.Fail(h.Failure{Key: "error/panic-or-hang", Family: "e2e_unlinked_detail", What: fmt.Sprint(res.Panic), Input: in})
				continue
			}
			r.Sample("e2e_unlinked_detail", map[string]any{"in": in, "client_error": fmt.Sprint(ex.ClientErr)})
			var ce *connect.Error
			okAll := errors.As(ex.ClientErr, &ce) && ce.Code() == connect.CodeNotFound && ce.Message() == "no such thing" && len(ce.Details()) == 1
			if okAll {
				a, isAny := ce.Details()[0].(*anypb.Any)
				okAll = isAny && a.GetTypeUrl() == unknown.TypeUrl && bytes.Equal(a.GetValue(), unknown.Value)
			}
			if !okAll {
				key := "error/unlinked-detail-type"
				if proto == "connect" {
					key = "error/connect/unlinked-detail-type"
				}
				r.Fail(h.Failure{Key: key, Family: "e2e_unlinked_detail", What: "an error whose detail is an Any of a message type not linked into the binary did not arrive with its code, message and that detail", Input: in, Expected: "not_found: no such thing + 1 detail", Actual: fmt.Sprint(ex.ClientErr)})
			}
		}
	}
	// the REQUEST's own context is ended by the server side (a per-route budget middleware, a
	// draining server's BaseContext) while the peer is still connected, and the handler returns
	// its error: the error is written all the same
	for _, proto := range protos {
		for _, k := range []int{-1, 0, 2} { // -1: unary; else server stream with k messages sent before the error
			cfg := envCfg{Proto: proto}
			code := connect.CodeResourceExhausted
			retErr := mkError(code, "budget exhausted", 1, http.Header{"X-Err": {"kept"}})
			ctx, cancel := context.WithCancel(context.Background())
			var handler *connect.Handler
			if k < 0 {
				handler = connect.NewUnaryHandler("/verif.Svc/M", func(_ context.Context, _ *connect.Request[h.Raw]) (*connect.Response[h.Raw], error) {
					cancel()
					return nil, retErr
				}, connect.WithCodec(h.ToyCodec{}))
			} else {
				handler = connect.NewServerStreamHandler("/verif.Svc/M", func(_ context.Context, _ *connect.Request[h.Raw], st *connect.ServerStream[h.Raw]) error {
					for i := 0; i < k; i++ {
						_ = st.Send(&h.Raw{B: []byte{byte(i)}})
					}
					cancel()
					return retErr
				}, connect.WithCodec(h.ToyCodec{}))
			}
			unary := k < 0 && proto == "connect"
			body := h.Frame(0, []byte("q"))
			if unary {
				body = []byte("q")
			}
			req := httptest.NewRequest(http.MethodPost, "/verif.Svc/M", bytes.NewReader(body)).WithContext(ctx)
			req.ProtoMajor, req.ProtoMinor = 2, 0
			req.Header.Set("Content-Type", cfg.contentType(k < 0))
			rec := httptest.NewRecorder()
			p := safely(func() { handler.ServeHTTP(rec, req) })
			cancel()
			kind := "server"
			if unary {
				kind = "unary"
			}
			in := map[string]any{"proto": proto, "kind": map[bool]string{true: "unary", false: "server stream"}[k < 0], "messages_before_error": k, "code": code.String(),
				"request_context": "cancelled by the server side just before the handler returns its error; the peer is still connected"}
			r.Eval("error_after_request_ctx_ended", fmt.Sprint(proto, k))
			if p != nil {
				r.Fail(h.Failure{Key: "error/panic", Family: "error_after_request_ctx_ended", What: fmt.Sprint("panic: ", p), Input: in})
				continue
			}
			gotCode, gotMsg := peerError(proto, kind, rec)
			r.Sample("error_after_request_ctx_ended", map[string]any{"in": in, "status": rec.Code, "peer_code": gotCode, "peer_message": gotMsg})
			if gotCode == "" {
				r.Fail(h.Failure{Key: "error/delivered-as-success", Family: "error_after_request_ctx_ended", What: "the handler's error did not reach the wire: the peer sees no error status", Input: in, Actual: fmt.Sprint("HTTP ", rec.Code, " body ", h.Hex(rec.Body.Bytes()))})
			} else if gotCode != code.String() || gotMsg != "budget exhausted" {
				r.Fail(h.Failure{Key: "error/code", Family: "error_after_request_ctx_ended", What: "the handler's error reached the wire changed", Input: in, Expected: code.String() + ": budget exhausted", Actual: gotCode + ": " + gotMsg})
			}
		}
	}
	// interceptor-returned and plain errors
	for pi, proto := range protos {
		for _, kind := range kinds {
			var copts []connect.ClientOption
			switch proto {
			case "grpc":
				copts = append(copts, connect.WithGRPC())
			case "grpcweb":
				copts = append(copts, connect.WithGRPCWeb())
			}
			ie := mkError(connect.CodeFailedPrecondition, "from interceptor é%", 1, http.Header{"X-I": {"1"}})
			ex := &e2eExtras{IcptErr: ie}
			res := runE2E(bytesValueKind, kind, viaLocal, copts, nil, [][]byte{{1}}, [][]byte{{2}}, nil, 0, ex)
			in := map[string]any{"proto": proto, "kind": kind, "source": "interceptor"}
			r.Eval("e2e_icpt_error", fmt.Sprint(pi, kind))
			if res.Panic != nil {
				r.Fail(h.Failure{Key: "error/panic-or-hang", Family: "e2e_icpt_error", What: fmt.Sprint(res.Panic), Input: in})
			} else {
				checkError(r, "e2e_icpt_error", in, ex.ClientErr, connect.CodeFailedPrecondition, "from interceptor é%", mkDetails(1), http.Header{"X-I": {"1"}})
			}
			for _, plain := range []error{errors.New("plain go error: 100% \x01 é"), fmt.Errorf("read config: %w", io.EOF), io.ErrUnexpectedEOF} {
				ex = &e2eExtras{}
				res = runE2E(bytesValueKind, kind, viaLocal, copts, nil, [][]byte{{1}}, [][]byte{{2}}, plain, 0, ex)
				in = map[string]any{"proto": proto, "kind": kind, "source": "plain Go error", "error": fmt.Sprintf("%q (%T)", plain.Error(), plain)}
				r.Eval("e2e_plain_error", fmt.Sprint(pi, kind, plain))
				if res.Panic != nil {
					r.Fail(h.Failure{Key: "error/panic-or-hang", Family: "e2e_plain_error", What: fmt.Sprint(res.Panic), Input: in})
				} else {
					checkError(r, "e2e_plain_error", in, ex.ClientErr, connect.CodeUnknown, plain.Error(), nil)
				}
			}
		}
	}
	_ = rng
}

// grpcStatusFields extracts Grpc-Status / Grpc-Message from a recorded gRPC or gRPC-Web response.
func grpcStatusFields(proto string, rec *httptest.ResponseRecorder) (status, message string) {
	if v := rec.Header().Get(http.TrailerPrefix + "Grpc-Status"); v != "" {
		return v, rec.Header().Get(http.TrailerPrefix + "Grpc-Message")
	}
	if v := rec.Header().Get("Grpc-Status"); v != "" {
		return v, rec.Header().Get("Grpc-Message")
	}
	body := rec.Body.Bytes()
	for len(body) >= 5 {
		n := int(uint32(body[1])<<24 | uint32(body[2])<<16 | uint32(body[3])<<8 | uint32(body[4]))
		if 5+n > len(body) {
			break
		}
		if body[0]&0x80 != 0 {
			for _, line := range bytes.Split(body[5:5+n], []byte("\r\n")) {
				kv := bytes.SplitN(line, []byte(": "), 2)
				if len(kv) != 2 {
					continue
				}
				switch http.CanonicalHeaderKey(string(kv[0])) {
				case "Grpc-Status":
					status = string(kv[1])
				case "Grpc-Message":
					message = string(kv[1])
				}
			}
			return
		}
		body = body[5+n:]
	}
	return
}
