package props

import (
	"bytes"
	"context"
	"encoding/json"
	"fmt"
	"net/http"

	connect "github.com/bufbuild/connect-go"
	"github.com/bufbuild/connect-go/verifharness/internal/h"
)

// clientOpts builds the client options for a protocol/limit/algorithm.
func clientOpts(cfg envCfg, sendAlgo string) []connect.ClientOption {
	opts := []connect.ClientOption{connect.WithCodec(h.ToyCodec{}), h.WithAcceptTag("tagA"), h.WithAcceptTag("tagB"), h.WithAcceptRLE()}
	switch cfg.Proto {
	case "grpc":
		opts = append(opts, connect.WithGRPC())
	case "grpcweb":
		opts = append(opts, connect.WithGRPCWeb())
	}
	if cfg.Max > 0 {
		opts = append(opts, connect.WithReadMaxBytes(cfg.Max))
	}
	if sendAlgo != "" {
		opts = append(opts, connect.WithSendCompression(sendAlgo))
	}
	return opts
}

// responseParts returns headers, terminator bytes and trailers of a well-formed
// successful streaming response in the given protocol.
func responseParts(cfg envCfg) (hdr http.Header, term []byte, trailer http.Header) {
	hdr, trailer = http.Header{}, http.Header{}
	hdr.Set("Content-Type", cfg.contentType(false))
	switch cfg.Proto {
	case "grpc":
		if cfg.Algo != "" {
			hdr.Set("Grpc-Encoding", cfg.Algo)
		}
		trailer.Set("Grpc-Status", "0")
	case "grpcweb":
		if cfg.Algo != "" {
			hdr.Set("Grpc-Encoding", cfg.Algo)
		}
		term = h.Frame(0x80, []byte("grpc-status: 0\r\n"))
	default:
		if cfg.Algo != "" {
			hdr.Set("Connect-Content-Encoding", cfg.Algo)
		}
		term = h.Frame(0x02, []byte("{}"))
	}
	return
}

// clientStreamRecv runs a server-streaming call against a canned response and
// returns what the caller observed: messages, then "eof" or an error code.
func clientStreamRecv(cfg envCfg, status int, hdr http.Header, body *h.ChunkBody, trailer http.Header, declaredLength ...int64) (obs []obsItem, panicked any) {
	canned := &h.CannedClient{Build: func(*http.Request) (*http.Response, error) {
		resp := h.NewResponse(status, hdr.Clone(), body, trailer.Clone())
		if len(declaredLength) == 1 {
			// the peer declared the length of its body (HTTP/2 allows Content-Length next to trailers)
			resp.ContentLength = declaredLength[0]
			resp.Header.Set("Content-Length", fmt.Sprint(declaredLength[0]))
		}
		return resp, nil
	}}
	panicked = safely(func() {
		client := connect.NewClient[h.Raw, h.Raw](canned, "http://verif.local/verif.Svc/Stream", clientOpts(cfg, "")...)
		stream, err := client.CallServerStream(context.Background(), connect.NewRequest(&h.Raw{B: []byte("q")}))
		if err != nil {
			obs = append(obs, obsItem{Kind: "err", Code: connect.CodeOf(err)})
			return
		}
		for stream.Receive() {
			obs = append(obs, obsItem{Kind: "msg", B: append([]byte(nil), stream.Msg().B...)})
		}
		if err := stream.Err(); err != nil {
			obs = append(obs, obsItem{Kind: "err", Code: connect.CodeOf(err)})
		} else {
			obs = append(obs, obsItem{Kind: "eof"})
		}
		_ = stream.Close()
	})
	return
}

// C03 — segmentation independence.
func C03(r *h.Run) {
	r.Model("envcase", "env_ok")
	r.Sum.Rule = "request bodies (valid and malformed, 3 protocols, optional read limit, optional toy compression) delivered to real handlers through a fragmenting Body: all 2^(n-1) segmentations for bodies of <= 10 bytes (thorough: <= 12), every 2-chunk split and 1-byte chunks for bodies up to 4 KiB, random splits; x {EOF on a separate read, EOF with the last data}; unary Connect bodies likewise; response bodies delivered to real clients through HTTPClient.Do likewise (oracle only). Oracle: outcome == outcome of the unfragmented body. distinct = distinct (cfg, body, chunking, end)"
	rng := r.Rng.Fork("c03")
	maxSmall := r.N(10, 12)

	check := func(fam string, cfg envCfg, body []byte, whole []obsItem, got []obsItem, chunks [][]byte, fin h.FinKind, what string) {
		if got != nil && !obsEqual(whole, got) {
			key := "segmentation/handler-outcome-differs"
			if fam == "client_split" {
				key = "segmentation/client-outcome-differs"
			}
			r.Fail(h.Failure{Key: key, Family: fam, What: "outcome under fragmentation differs from the outcome of the same bytes in one piece (" + what + ")",
				Input:    map[string]any{"cfg": cfg, "body_hex": h.Hex(body), "chunk_sizes": chunkSizes(chunks), "fin": fin.Coq()},
				Expected: obsStrings(whole), Actual: obsStrings(got)})
		}
	}

	// 1. small bodies, all segmentations
	nSmall := r.N(36, 120)
	for i := 0; i < nSmall; i++ {
		cfg := randomCfg(rng)
		var body []byte
		var parseOK bool
		var what string
		for tries := 0; ; tries++ {
			body, _, parseOK, what = genBody(rng, cfg, rng.Intn(3), rng.Intn(3) == 0, true)
			if len(body) <= maxSmall && len(body) > 0 && !declaredTooLarge(body, cfg.Max) {
				break
			}
			if tries > 50 {
				body, parseOK, what = h.Frame(0, []byte{1, 2}), false, "valid"
				break
			}
		}
		whole := envRun(r, "handler_small_whole", cfg, parseOK, [][]byte{body}, h.FinCleanEOF, true, what)
		n := 0
		h.AllSplits(body, func(chunks [][]byte) {
			for _, fin := range []h.FinKind{h.FinCleanEOF, h.FinEOFWithData} {
				n++
				got := envRun(r, "handler_small_allsplits", cfg, parseOK, chunks, fin, n%r.N(12, 8) == 0, what)
				check("handler_small_allsplits", cfg, body, whole, got, chunks, fin, what)
			}
		})
	}
	r.Sum.Exhaustive[fmt.Sprintf("all 2^(n-1) segmentations x 2 EOF styles of every generated body of <= %d bytes", maxSmall)] = true

	// 2. larger bodies: every 2-chunk split, 1-byte chunks, random splits
	for i := 0; i < r.N(30, 150); i++ {
		cfg := randomCfg(rng)
		body, _, parseOK, what := genBody(rng, cfg, 1+rng.Intn(5), rng.Intn(3) == 0, false)
		if declaredTooLarge(body, cfg.Max) || len(body) == 0 || len(body) > 4096 {
			continue
		}
		whole := envRun(r, "handler_large_whole", cfg, parseOK, [][]byte{body}, h.FinCleanEOF, true, what)
		step := 1
		if len(body) > 64 && !r.Thorough() {
			step = len(body) / 48
		}
		for cut := 1; cut < len(body); cut += step {
			fin := h.FinCleanEOF
			if cut%2 == 0 {
				fin = h.FinEOFWithData
			}
			chunks := h.SplitAt(body, []int{cut})
			got := envRun(r, "handler_two_chunks", cfg, parseOK, chunks, fin, cut%7 == 0 && len(body) < 600, what)
			check("handler_two_chunks", cfg, body, whole, got, chunks, fin, what)
		}
		one := h.OneByteChunks(body)
		got := envRun(r, "handler_one_byte", cfg, parseOK, one, h.FinEOFWithData, len(body) < 300, what)
		check("handler_one_byte", cfg, body, whole, got, one, h.FinEOFWithData, what)
		for k := 0; k < 4; k++ {
			var cuts []int
			pos := 0
			for pos < len(body) {
				pos += 1 + rng.Intn(9)
				if rng.Intn(4) == 0 {
					pos += rng.Intn(600)
				}
				cuts = append(cuts, pos)
			}
			chunks := h.SplitAt(body, cuts)
			fin := []h.FinKind{h.FinCleanEOF, h.FinEOFWithData}[k%2]
			got := envRun(r, "handler_random_split", cfg, parseOK, chunks, fin, len(body) < 600, what)
			check("handler_random_split", cfg, body, whole, got, chunks, fin, what)
		}
	}

	// 2b. a handler that keeps receiving after a message beyond the read limit: the reader
	// skips the oversize payload and must land exactly on the next envelope however the
	// transport cut the bytes
	for i := 0; i < r.N(24, 120); i++ {
		cfg := envCfg{Proto: []string{"grpc", "grpcweb", "connect"}[i%3], Max: 8 + rng.Intn(24), KeepReceiving: true}
		var body []byte
		for k := 0; k < 2+rng.Intn(4); k++ {
			n := rng.Intn(cfg.Max + 1)
			if k == 1 || rng.Intn(3) == 0 {
				n = cfg.Max + 1 + rng.Intn(60) // beyond the limit
			}
			body = append(body, h.Frame(0, genPayload(rng, n))...)
		}
		what := "messages beyond the read limit followed by further messages; the handler keeps receiving"
		whole := envRun(r, "handler_keep_receiving", cfg, false, [][]byte{body}, h.FinCleanEOF, len(body) < 400, what)
		variants := [][][]byte{h.OneByteChunks(body)}
		for _, sz := range []int{2, 3, 7, 100} {
			var cuts []int
			for pos := sz; pos < len(body); pos += sz {
				cuts = append(cuts, pos)
			}
			variants = append(variants, h.SplitAt(body, cuts))
		}
		for k := 0; k < 4 && len(body) > 1; k++ {
			variants = append(variants, h.SplitAt(body, []int{1 + rng.Intn(len(body)-1)}))
		}
		for vi, chunks := range variants {
			fin := []h.FinKind{h.FinCleanEOF, h.FinEOFWithData}[vi%2]
			got := envRun(r, "handler_keep_receiving", cfg, false, chunks, fin, vi < 2 && len(body) < 300, what)
			check("handler_keep_receiving", cfg, body, whole, got, chunks, fin, what)
		}
	}

	// 3. unary Connect bodies
	for i := 0; i < r.N(40, 200); i++ {
		cfg := randomCfg(rng)
		cfg.Proto = "connect"
		p := genPayload(rng, []int{0, 1, 2, 5, 9, 40, 512, 513}[rng.Intn(8)])
		if rng.Intn(6) == 0 && len(p) > 0 {
			p[0] = 0xFF
		}
		body := compressToy(cfg.Algo, p)
		if cfg.Algo != "" && rng.Intn(5) == 0 {
			body = p // corrupt for the algorithm
		}
		whole := envRunUnary(r, "unary_whole", cfg, [][]byte{body}, h.FinCleanEOF, true, "unary")
		variants := [][][]byte{h.OneByteChunks(body)}
		for k := 0; k < 3 && len(body) > 1; k++ {
			variants = append(variants, h.SplitAt(body, []int{1 + rng.Intn(len(body)-1)}))
		}
		for vi, chunks := range variants {
			fin := []h.FinKind{h.FinCleanEOF, h.FinEOFWithData}[vi%2]
			got := envRunUnary(r, "unary_split", cfg, chunks, fin, len(body) < 200, "unary")
			if got.Kind != whole.Kind || got.Code != whole.Code || !bytes.Equal(got.B, whole.B) {
				r.Fail(h.Failure{Key: "segmentation/unary-outcome-differs", Family: "unary_split", What: "unary outcome under fragmentation differs from the unfragmented outcome",
					Input: map[string]any{"cfg": cfg, "body_hex": h.Hex(body), "chunk_sizes": chunkSizes(chunks), "fin": fin.Coq()}, Expected: whole.String(), Actual: got.String()})
			}
		}
	}

	// 4. response bodies through HTTPClient.Do (direct oracle)
	for i := 0; i < r.N(40, 200); i++ {
		cfg := randomCfg(rng)
		frames, _, _, what := genBody(rng, cfg, rng.Intn(4), rng.Intn(5) == 0, rng.Intn(2) == 0)
		if declaredTooLarge(frames, cfg.Max) || len(frames) > 4096 {
			continue
		}
		hdr, term, trailer := responseParts(cfg)
		body := append(append([]byte(nil), frames...), term...)
		whole, p := clientStreamRecv(cfg, 200, hdr, h.NewChunkBody([][]byte{body}, h.FinCleanEOF), trailer)
		r.Eval("client_whole", fmt.Sprintf("%v|%x", cfg, body))
		if p != nil {
			r.Fail(h.Failure{Key: "client/panic", Family: "client_whole", What: fmt.Sprint("panic: ", p), Input: map[string]any{"cfg": cfg, "body_hex": h.Hex(body)}})
			continue
		}
		r.Sample("client_whole", map[string]any{"cfg": cfg, "body_hex": h.Hex(body), "observed": obsStrings(whole), "what": what})
		var variants [][][]byte
		variants = append(variants, h.OneByteChunks(body))
		if len(body) <= 9 {
			h.AllSplits(body, func(c [][]byte) { variants = append(variants, c) })
		}
		for k := 0; k < 6 && len(body) > 1; k++ {
			variants = append(variants, h.SplitAt(body, []int{1 + rng.Intn(len(body)-1)}))
			variants = append(variants, h.SplitAt(body, []int{1 + rng.Intn(len(body)-1), 1 + rng.Intn(len(body)-1) + len(body)/2}))
		}
		for vi, chunks := range variants {
			fin := []h.FinKind{h.FinCleanEOF, h.FinEOFWithData}[vi%2]
			var declared []int64
			if (vi/2)%2 == 1 && len(body) > 0 {
				declared = []int64{int64(len(body))} // an honest Content-Length
			}
			got, p := clientStreamRecv(cfg, 200, hdr, h.NewChunkBody(chunks, fin), trailer, declared...)
			r.Eval("client_split", fmt.Sprintf("%v|%x|%v|%d|%v", cfg, body, chunkSizes(chunks), fin, declared))
			if p != nil {
				r.Fail(h.Failure{Key: "client/panic", Family: "client_split", What: fmt.Sprint("panic: ", p), Input: map[string]any{"cfg": cfg, "body_hex": h.Hex(body)}})
				continue
			}
			check("client_split", cfg, body, whole, got, chunks, fin, what)
		}
	}
	// 4b. unary Connect ERROR responses: the JSON error document is the body of a non-200
	// response; however the transport cuts it, the client reports the same code and message
	for i := 0; i < r.N(16, 120); i++ {
		code := connect.Code(1 + rng.Intn(16))
		msg := string(genPayloadASCII(rng, 1+rng.Intn(60)))
		doc, _ := json.Marshal(map[string]any{"code": code.String(), "message": msg})
		status := []int{400, 404, 409, 412, 429, 500, 503}[rng.Intn(7)]
		hdr := http.Header{"Content-Type": {"application/json"}}
		variants := [][][]byte{{doc}, h.OneByteChunks(doc), h.SplitAt(doc, []int{1}), h.SplitAt(doc, []int{len(doc) - 1}), h.SplitAt(doc, []int{len(doc) / 2})}
		var whole string
		for vi, chunks := range variants {
			for _, fin := range []h.FinKind{h.FinCleanEOF, h.FinEOFWithData} {
				res := doCall(envCfg{Proto: "connect"}, "unary", func() *http.Response {
					return h.NewResponse(status, hdr.Clone(), h.NewChunkBody(chunks, fin), nil)
				})
				got := fmt.Sprint(res.err)
				if res.panicked != nil || res.timedOut {
					got = fmt.Sprint("panic or hang: ", res.panicked)
				}
				r.Eval("unary_error_split", fmt.Sprintf("%d|%s|%v|%d", status, doc, chunkSizes(chunks), fin))
				if vi == 0 && fin == h.FinCleanEOF {
					whole = got
					r.Sample("unary_error_split", map[string]any{"status": status, "error_json": string(doc), "client_error": got})
					continue
				}
				if got != whole {
					r.Fail(h.Failure{Key: "segmentation/client-outcome-differs", Family: "unary_error_split", What: "the error a unary Connect client reports for a non-200 response depends on how the transport cut its body",
						Input: map[string]any{"status": status, "error_json": string(doc), "chunk_sizes": chunkSizes(chunks), "fin": fin.Coq()}, Expected: whole, Actual: got})
				}
			}
		}
	}
	// 5. a read limit, a last message beyond it, and the call's status (ok or an error)
	// in the terminator / trailers: the client's outcome must not depend on whether the
	// transport reports io.EOF together with the last bytes or on a separate read
	for i := 0; i < r.N(36, 240); i++ {
		cfg := envCfg{Proto: []string{"grpc", "grpcweb", "connect"}[i%3], Max: 16}
		var frames []byte
		for k := rng.Intn(3); k > 0; k-- {
			frames = append(frames, h.Frame(0, genPayload(rng, rng.Intn(12)))...)
		}
		frames = append(frames, h.Frame(0, genPayload(rng, 17+rng.Intn(40)))...)
		if i%4 >= 2 {
			// more of the response follows the oversize message: the client throws it away,
			// in however many reads it takes, before it reads the status
			for k := 0; k < 3+rng.Intn(3); k++ {
				frames = append(frames, h.Frame(0, genPayload(rng, 150+rng.Intn(200)))...)
			}
		}
		v := verdict{Kind: "ok"}
		if i%2 == 0 {
			v = verdict{Kind: "err", Code: connect.Code(1 + rng.Intn(16))}
		}
		hdr, _, _ := responseParts(cfg)
		term, trailer := terminatorFor(cfg, v)
		body := append(append([]byte(nil), frames...), term...)
		whole, p := clientStreamRecv(cfg, 200, hdr, h.NewChunkBody([][]byte{body}, h.FinCleanEOF), trailer)
		r.Eval("client_limit_whole", fmt.Sprintf("%v|%x|%v", cfg, body, v))
		if p != nil {
			r.Fail(h.Failure{Key: "client/panic", Family: "client_limit_whole", What: fmt.Sprint("panic: ", p), Input: map[string]any{"cfg": cfg, "body_hex": h.Hex(body)}})
			continue
		}
		r.Sample("client_limit_whole", map[string]any{"cfg": cfg, "body_hex": h.Hex(body), "status": v, "observed": obsStrings(whole)})
		variants := [][][]byte{{body}, h.OneByteChunks(body)}
		for k := 0; k < 4; k++ {
			variants = append(variants, h.SplitAt(body, []int{1 + rng.Intn(len(body)-1)}))
		}
		if len(term) > 0 {
			variants = append(variants, h.SplitAt(body, []int{len(frames)})) // exactly before the terminator
		}
		for _, chunks := range variants {
			for _, fin := range []h.FinKind{h.FinCleanEOF, h.FinEOFWithData} {
				got, p := clientStreamRecv(cfg, 200, hdr, h.NewChunkBody(chunks, fin), trailer)
				r.Eval("client_limit_split", fmt.Sprintf("%v|%x|%v|%d|%v", cfg, body, chunkSizes(chunks), fin, v))
				if p != nil {
					r.Fail(h.Failure{Key: "client/panic", Family: "client_limit_split", What: fmt.Sprint("panic: ", p), Input: map[string]any{"cfg": cfg, "body_hex": h.Hex(body)}})
					continue
				}
				if !obsEqual(whole, got) {
					r.Fail(h.Failure{Key: "segmentation/client-outcome-differs", Family: "client_limit_split", What: "outcome under fragmentation / EOF placement differs from the outcome of the same bytes in one piece (last message beyond the read limit)",
						Input: map[string]any{"cfg": cfg, "body_hex": h.Hex(body), "status": v, "chunk_sizes": chunkSizes(chunks), "fin": fin.Coq()}, Expected: obsStrings(whole), Actual: obsStrings(got)})
				}
			}
		}
	}

	c03LargeMessages(r)
}

// c03LargeMessages: messages around the sizes at which the library treats buffers differently
// (maxRecycleBufferSize, 8 MiB; discardLimit, 4 MiB), as the LAST thing in a body, delivered in
// one piece, in two pieces and in 1 MiB pieces, with EOF on a separate read and together with
// the last bytes (what net/http does for bodies with a Content-Length): one outcome.
func c03LargeMessages(r *h.Run) {
	sizes := []int{8 << 20, 8<<20 + 1, 4<<20 + 1}
	if r.Thorough() {
		sizes = append(sizes, 8<<20-1, 9<<20, 4<<20, 16<<20+3)
	}
	brief := func(obs []obsItem) []string {
		out := make([]string, len(obs))
		for i, o := range obs {
			if o.Kind == "msg" {
				out[i] = fmt.Sprintf("msg of %d bytes", len(o.B))
			} else {
				out[i] = o.String()
			}
		}
		return out
	}
	for si, size := range sizes {
		proto := []string{"grpc", "grpcweb", "connect"}[si%3]
		cfg := envCfg{Proto: proto}
		big := bytes.Repeat([]byte{byte(0x61 + si)}, size)
		for _, side := range []string{"client", "handler"} {
			body := append(h.Frame(0, []byte("first")), h.Frame(0, big)...)
			hdr, term, trailer := responseParts(cfg)
			if side == "client" && proto != "connect" {
				body = append(body, term...) // (nil for gRPC: the message is the last thing in the body)
			}
			run := func(chunks [][]byte, fin h.FinKind) ([]obsItem, any) {
				if side == "client" {
					return clientStreamRecv(cfg, 200, hdr, h.NewChunkBody(chunks, fin), trailer)
				}
				obs, _, _, p := serveStream(cfg, h.NewChunkBody(chunks, fin))
				return obs, p
			}
			whole, p0 := run([][]byte{body}, h.FinCleanEOF)
			var mib [][]byte
			for off := 0; off < len(body); off += 1 << 20 {
				end := off + 1<<20
				if end > len(body) {
					end = len(body)
				}
				mib = append(mib, body[off:end])
			}
			for di, chunks := range [][][]byte{{body}, {body[:len(body)-1], body[len(body)-1:]}, mib} {
				for _, fin := range []h.FinKind{h.FinCleanEOF, h.FinEOFWithData} {
					if di == 0 && fin == h.FinCleanEOF {
						continue
					}
					in := map[string]any{"side": side, "proto": proto, "body": fmt.Sprintf("envelope of 5 bytes, then an envelope of %d bytes%s", size, map[bool]string{true: ", then the end-of-stream marker", false: ", nothing after it"}[side == "client" && proto == "grpcweb"]),
						"chunk_sizes": chunkSizes(chunks), "fin": fin.Coq()}
					r.Eval("large_last_message", fmt.Sprint(side, proto, size, di, fin))
					got, p := run(chunks, fin)
					if p0 != nil || p != nil {
						r.Fail(h.Failure{Key: "envelope/panic", Family: "large_last_message", What: fmt.Sprint("panic: ", p0, p), Input: in})
						continue
					}
					r.Sample("large_last_message", map[string]any{"in": in, "observed": brief(got)})
					if !obsEqual(whole, got) {
						key := "segmentation/handler-outcome-differs"
						if side == "client" {
							key = "segmentation/client-outcome-differs"
						}
						r.Fail(h.Failure{Key: key, Family: "large_last_message", What: "outcome under fragmentation / EOF placement differs from the outcome of the same bytes in one piece with EOF on a separate read (large last message)",
							Input: in, Expected: brief(whole), Actual: brief(got)})
					}
				}
			}
		}
	}
}
