package props

import (
	"bytes"
	"compress/gzip"
	"context"
	"errors"
	"fmt"
	"io"
	"net/http"
	"net/http/httptest"
	"time"

	connect "github.com/bufbuild/connect-go"
	"github.com/bufbuild/connect-go/verifharness/internal/h"
)

type verdict struct {
	Kind string // "malformed" | "ok" | "err"
	Code connect.Code
}

func (v verdict) coq() string {
	switch v.Kind {
	case "ok":
		return "VOk"
	case "err":
		return fmt.Sprintf("(VErr %d)", uint32(v.Code))
	}
	return "VMalformed"
}

// terminatorFor builds the protocol's in-band terminator (nil for gRPC) and
// the HTTP trailers for the given verdict.
func terminatorFor(cfg envCfg, v verdict) (term []byte, trailer http.Header) {
	trailer = http.Header{}
	switch cfg.Proto {
	case "grpc":
		switch v.Kind {
		case "ok":
			trailer.Set("Grpc-Status", "0")
		case "err":
			trailer.Set("Grpc-Status", fmt.Sprint(uint32(v.Code)))
			trailer.Set("Grpc-Message", "boom")
		}
	case "grpcweb":
		switch v.Kind {
		case "ok":
			term = h.Frame(0x80, []byte("grpc-status: 0\r\n"))
		case "err":
			term = h.Frame(0x80, []byte(fmt.Sprintf("grpc-message: boom\r\ngrpc-status: %d\r\n", uint32(v.Code))))
		default:
			term = h.Frame(0x80, []byte("x-other: 1\r\n")) // no grpc-status
		}
	default:
		switch v.Kind {
		case "ok":
			term = h.Frame(0x02, []byte("{}"))
		case "err":
			term = h.Frame(0x02, []byte(fmt.Sprintf(`{"error":{"code":"%s","message":"boom"}}`, v.Code.String())))
		default:
			term = h.Frame(0x02, []byte("{not json"))
		}
	}
	return
}

func withWatchdog(d time.Duration, f func()) (timedOut bool, panicked any) {
	done := make(chan any, 1)
	go func() { done <- safely(f) }()
	select {
	case p := <-done:
		return false, p
	case <-time.After(d):
		return true, nil
	}
}

func clientUnaryRecv(cfg envCfg, status int, hdr http.Header, body *h.ChunkBody, trailer http.Header) (obs obsItem, panicked any) {
	canned := &h.CannedClient{Build: func(*http.Request) (*http.Response, error) {
		return h.NewResponse(status, hdr.Clone(), body, trailer.Clone()), nil
	}}
	panicked = safely(func() {
		client := connect.NewClient[h.Raw, h.Raw](canned, "http://verif.local/verif.Svc/Unary", clientOpts(cfg, "")...)
		// a unary RPC carried by the streaming (enveloped) protocols: client-stream with one message
		st := client.CallClientStream(context.Background())
		_ = st.Send(&h.Raw{B: []byte("q")})
		resp, err := st.CloseAndReceive()
		if err != nil {
			obs = obsItem{Kind: "err", Code: connect.CodeOf(err)}
			return
		}
		obs = obsItem{Kind: "msg", B: append([]byte(nil), resp.Msg.B...)}
	})
	return
}

type failingWriter struct {
	hdr     http.Header
	failAt  int // the k-th Write (1-based) and all later ones fail
	writes  int
	written bytes.Buffer
	status  int
}

func (w *failingWriter) Header() http.Header { return w.hdr }
func (w *failingWriter) WriteHeader(s int) {
	if w.status == 0 {
		w.status = s
	}
}
func (w *failingWriter) Write(p []byte) (int, error) {
	w.writes++
	if w.status == 0 {
		w.status = 200
	}
	if w.writes >= w.failAt {
		return 0, h.ErrTransport
	}
	w.written.Write(p)
	return len(p), nil
}
func (w *failingWriter) Flush() {}

// C04 — a call succeeds only if the peer's end-of-stream marker arrived.
func C04(r *h.Run) {
	r.Model("envcase", "env_ok")
	r.Sum.Rule = "valid response bodies (frames + the protocol's terminator, verdict ok / explicit error / malformed) cut at EVERY byte offset 0..len x {clean EOF, unexpected EOF, transport error} x {status trailers present, absent} x 3 protocols x {server-stream, unary-over-envelopes}, through a crafted HTTPClient; request bodies cut likewise into real handlers; the k-th Write of the ResponseWriter failing for every k; the request body reader failing after j bytes. Watchdog and recover() around every call. distinct = distinct (cfg, body, cut, end, trailers)"
	rng := r.Rng.Fork("c04")
	protos := []string{"connect", "grpc", "grpcweb"}
	fins := []h.FinKind{h.FinCleanEOF, h.FinUnexpectedEOF, h.FinOther}
	// on the client side the transport may also report that the peer reset the stream
	clientFins := []h.FinKind{h.FinCleanEOF, h.FinUnexpectedEOF, h.FinOther, h.FinRSTNoError, h.FinRSTCancel}

	nBodies := r.N(18, 90)
	for bi := 0; bi < nBodies; bi++ {
		cfg := envCfg{Proto: protos[bi%3]}
		if bi%4 == 3 {
			cfg.Algo = "tagA"
		}
		if bi%5 == 2 {
			cfg.Max = 8 // the 9- and 20-byte messages are beyond the reader's limit: it skips them
		}
		nm := rng.Intn(4)
		var msgs [][]byte
		var frames []byte
		for k := 0; k < nm; k++ {
			p := genPayload(rng, []int{0, 1, 3, 9, 20}[rng.Intn(5)])
			msgs = append(msgs, p)
			if cfg.Algo != "" && rng.Bool() {
				frames = append(frames, h.Frame(1, compressToy(cfg.Algo, p))...)
			} else {
				frames = append(frames, h.Frame(0, p)...)
			}
		}
		v := verdict{Kind: "ok"}
		switch bi % 7 {
		case 5:
			v = verdict{Kind: "err", Code: connect.Code(1 + rng.Intn(16))}
		case 6:
			v = verdict{Kind: "malformed"}
		}
		term, trailer := terminatorFor(cfg, v)
		hdr, _, _ := responseParts(cfg)
		body := append(append([]byte(nil), frames...), term...)
		boundaries := map[int]int{0: 0} // offset -> number of whole messages before it
		off := 0
		for i := range msgs {
			n := 5 + int(uint32(frames[off+1])<<24|uint32(frames[off+2])<<16|uint32(frames[off+3])<<8|uint32(frames[off+4]))
			off += n
			boundaries[off] = i + 1
		}
		for cut := 0; cut <= len(body); cut++ {
			for _, fin := range clientFins {
				for trailerMode, withTrailers := range []bool{true, false, false} {
					if cfg.Proto != "grpc" && !withTrailers {
						continue // trailers are in band
					}
					tr := trailer
					tv := v
					if !withTrailers {
						tr, tv = http.Header{}, verdict{Kind: "malformed"}
					}
					if fin != h.FinCleanEOF && fin != h.FinEOFWithData {
						// net/http makes the trailers visible when the body read reaches io.EOF: after a
						// failed read the client has none to look at, whatever the peer had sent
						tv = verdict{Kind: "malformed"}
					}
					announced := trailerMode == 2
					if announced {
						// the response announced its trailers ("Trailer: Grpc-Status, Grpc-Message":
						// net/http pre-fills Response.Trailer with those keys, nil-valued) and they never came
						tr = http.Header{"Grpc-Status": nil, "Grpc-Message": nil}
					}
					chunks := [][]byte{body[:cut]}
					if cut > 3 && cut%2 == 0 {
						chunks = [][]byte{body[:cut/2], body[cut/2 : cut]}
					}
					var obs []obsItem
					timedOut, p := withWatchdog(5*time.Second, func() {
						var pp any
						obs, pp = clientStreamRecv(cfg, 200, hdr, h.NewChunkBody(chunks, fin), tr)
						if pp != nil {
							panic(pp)
						}
					})
					in := map[string]any{"cfg": cfg, "body_hex": h.Hex(body), "cut": cut, "fin": fin.Coq(), "trailers": withTrailers, "trailers_announced_only": announced, "verdict": v}
					r.Eval("client_cut_stream", fmt.Sprintf("%v|%x|%d|%d|%v|%v", cfg, body, cut, fin, withTrailers, announced))
					if timedOut || p != nil {
						r.Fail(h.Failure{Key: "cut/hang-or-panic", Family: "client_cut_stream", What: fmt.Sprint("hang or panic: ", p, " timeout=", timedOut), Input: in})
						continue
					}
					if len(obs) == 0 {
						continue
					}
					sp := v
					if cfg.Proto == "grpc" {
						sp = verdict{Kind: "malformed"}
					}
					model := (cut%3 == bi%3) || cut == len(body) || boundaries[cut] > 0
					if model {
						items := make([]string, len(obs))
						for i, o := range obs {
							items[i] = o.coq()
						}
						r.Case("client_cut_stream", fmt.Sprintf("CRecv %s %d %s %s %s %s %s %s", cfg.coqProto(), cfg.Max, cfg.coqAlgo(), h.CoqBytesList(chunks), fin.Coq(), tv.coq(), sp.coq(), h.CoqList(items)),
							map[string]any{"in": in, "impl_observed": obsStrings(obs)})
					}
					r.Sample("client_cut_stream", map[string]any{"in": in, "observed": obsStrings(obs)})
					// ---- direct oracle ----
					last := obs[len(obs)-1]
					got := obs[:len(obs)-1]
					// delivered messages are a prefix of those sent
					prefixOK := len(got) <= len(msgs)
					for i := 0; prefixOK && i < len(got); i++ {
						prefixOK = got[i].Kind == "msg" && bytes.Equal(got[i].B, msgs[i])
					}
					if !prefixOK {
						r.Fail(h.Failure{Key: "cut/not-a-prefix", Family: "client_cut_stream", What: "messages delivered before the failure are not a prefix of those sent", Input: in, Actual: obsStrings(obs)})
					}
					_, atBoundary := boundaries[cut]
					terminatorSeen := false
					switch cfg.Proto {
					case "grpc":
						terminatorSeen = withTrailers && v.Kind == "ok" && fin == h.FinCleanEOF && (atBoundary || cut == len(body))
					default:
						terminatorSeen = cut == len(body) && v.Kind == "ok"
					}
					if last.Kind == "eof" && !terminatorSeen {
						key := "cut/success-without-terminator"
						if cfg.Proto == "connect" {
							key = "cut/connect-stream-success-without-end-of-stream"
						}
						r.Fail(h.Failure{Key: key, Family: "client_cut_stream", What: "the call reported successful completion although the protocol's terminator did not arrive", Input: in, Actual: obsStrings(obs)})
					}
					if last.Kind == "err" && last.Code == 0 {
						r.Fail(h.Failure{Key: "cut/zero-code", Family: "client_cut_stream", What: "failure reported with the zero code", Input: in, Actual: obsStrings(obs)})
					}
					if last.Kind == "msg" {
						r.Fail(h.Failure{Key: "cut/no-end", Family: "client_cut_stream", What: "receive loop ended without an outcome", Input: in})
					}
				}
			}
		}
		// unary-over-envelopes on the same kind of body (exactly one message)
		if bi%2 == 0 {
			one := genPayload(rng, 1+rng.Intn(6))
			ubody := append(h.Frame(0, one), term...)
			for cut := 0; cut <= len(ubody); cut++ {
				for _, fin := range clientFins {
					chunks := [][]byte{ubody[:cut]}
					var o obsItem
					timedOut, p := withWatchdog(5*time.Second, func() {
						var pp any
						o, pp = clientUnaryRecv(cfg, 200, hdr, h.NewChunkBody(chunks, fin), trailer)
						if pp != nil {
							panic(pp)
						}
					})
					in := map[string]any{"cfg": cfg, "body_hex": h.Hex(ubody), "cut": cut, "fin": fin.Coq(), "verdict": v}
					r.Eval("client_cut_unary", fmt.Sprintf("%v|%x|%d|%d", cfg, ubody, cut, fin))
					if timedOut || p != nil {
						r.Fail(h.Failure{Key: "cut/hang-or-panic", Family: "client_cut_unary", What: fmt.Sprint("hang or panic: ", p, " timeout=", timedOut), Input: in})
						continue
					}
					sp := v
					if cfg.Proto == "grpc" {
						sp = verdict{Kind: "malformed"}
					}
					utv := v
					if fin != h.FinCleanEOF && fin != h.FinEOFWithData {
						utv = verdict{Kind: "malformed"} // no trailers become visible after a failed read
					}
					r.Case("client_cut_unary", fmt.Sprintf("CUnary %s %d %s %s %s %s %s (%s)", cfg.coqProto(), cfg.Max, cfg.coqAlgo(), h.CoqBytesList(chunks), fin.Coq(), utv.coq(), sp.coq(), o.coq()),
						map[string]any{"in": in, "impl_observed": o.String()})
					r.Sample("client_cut_unary", map[string]any{"in": in, "observed": o.String()})
					complete := cut == len(ubody) && v.Kind == "ok" && (cfg.Proto != "grpc" || fin == h.FinCleanEOF)
					if cfg.Proto == "grpc" && cut == 5+len(one) && fin == h.FinCleanEOF && v.Kind == "ok" {
						complete = true
					}
					if o.Kind == "msg" && !complete {
						r.Fail(h.Failure{Key: "cut/unary-success-without-terminator", Family: "client_cut_unary", What: "unary call succeeded although the response was cut before its terminator", Input: in, Actual: o.String()})
					}
					if o.Kind == "msg" && !bytes.Equal(o.B, one) {
						r.Fail(h.Failure{Key: "cut/unary-wrong-message", Family: "client_cut_unary", What: "unary call delivered a different message", Input: in, Actual: o.String()})
					}
					if o.Kind == "err" && o.Code == 0 {
						r.Fail(h.Failure{Key: "cut/zero-code", Family: "client_cut_unary", What: "failure reported with the zero code", Input: in})
					}
				}
			}
		}
		// request side: the same frames cut into a real handler
		for cut := 0; cut <= len(frames); cut++ {
			for _, fin := range fins {
				obs := envRun(r, "handler_cut", cfg, false, [][]byte{frames[:cut]}, fin, cut%2 == 0, "request cut")
				if len(obs) == 0 {
					continue
				}
				last := obs[len(obs)-1]
				_, atBoundary := boundaries[cut]
				if last.Kind == "eof" && !(atBoundary && fin == h.FinCleanEOF) {
					r.Fail(h.Failure{Key: "cut/handler-clean-eof", Family: "handler_cut", What: "the handler saw a clean end of the request stream although the body failed or stopped mid-message",
						Input: map[string]any{"cfg": cfg, "body_hex": h.Hex(frames), "cut": cut, "fin": fin.Coq()}, Actual: obsStrings(obs)})
				}
				if last.Kind == "err" && last.Code == 0 {
					r.Fail(h.Failure{Key: "cut/zero-code", Family: "handler_cut", What: "failure reported with the zero code", Input: h.Hex(frames[:cut])})
				}
			}
		}
	}
	r.Sum.Exhaustive["every cut offset of every generated body x 3 end kinds"] = true

	// ---- Connect unary responses (CallUnary): the body carries no terminator of its own; the
	// transport's clean end of body is the marker. A body that FAILS — short, reset by the peer
	// with any code, a transport error — at any offset must never be reported as success ----
	for i := 0; i < r.N(12, 80); i++ {
		payload := genPayload(rng, 1+rng.Intn(24))
		for _, algo := range []string{"", "tagA"} {
			wire := compressToy(algo, payload)
			hdr := http.Header{"Content-Type": {"application/toy"}}
			if algo != "" {
				hdr.Set("Content-Encoding", algo)
			}
			for cut := 0; cut <= len(wire); cut++ {
				for _, fin := range clientFins {
					var got []byte
					var err error
					timedOut, p := withWatchdog(5*time.Second, func() {
						canned := &h.CannedClient{Build: func(*http.Request) (*http.Response, error) {
							return h.NewResponse(200, hdr.Clone(), h.NewChunkBody([][]byte{wire[:cut]}, fin), nil), nil
						}}
						client := connect.NewClient[h.Raw, h.Raw](canned, "http://verif.local/verif.Svc/Unary", clientOpts(envCfg{Proto: "connect", Max: []int{0, 64}[i%2]}, "")...)
						var resp *connect.Response[h.Raw]
						resp, err = client.CallUnary(context.Background(), connect.NewRequest(&h.Raw{B: []byte("q")}))
						if err == nil {
							got = resp.Msg.B
						}
					})
					in := map[string]any{"proto": "connect", "kind": "unary (CallUnary)", "algo": algo, "body_hex": h.Hex(wire), "cut": cut, "fin": fin.Coq(), "client_read_max_bytes": []int{0, 64}[i%2]}
					r.Eval("client_cut_connect_unary", fmt.Sprintf("%x|%s|%d|%d", wire, algo, cut, fin))
					if timedOut || p != nil {
						r.Fail(h.Failure{Key: "cut/hang-or-panic", Family: "client_cut_connect_unary", What: fmt.Sprint("hang or panic: ", p, " timeout=", timedOut), Input: in})
						continue
					}
					failed := fin != h.FinCleanEOF && fin != h.FinEOFWithData
					if err == nil && failed {
						r.Fail(h.Failure{Key: "cut/unary-success-without-terminator", Family: "client_cut_connect_unary", What: "a unary Connect call succeeded although its response body failed before its end", Input: in, Actual: h.Hex(got)})
					}
					if err == nil && !failed && cut == len(wire) && !bytes.Equal(got, payload) {
						r.Fail(h.Failure{Key: "cut/unary-wrong-message", Family: "client_cut_connect_unary", What: "unary call delivered a different message", Input: in, Actual: h.Hex(got)})
					}
					if err != nil && connect.CodeOf(err) == 0 {
						r.Fail(h.Failure{Key: "cut/zero-code", Family: "client_cut_connect_unary", What: "failure reported with the zero code", Input: in})
					}
				}
			}
		}
	}

	// ---- the same on the handler side: a unary Connect REQUEST body that fails at any offset
	// (with and without a read limit above the message size) never reaches user code as a message ----
	for i := 0; i < r.N(10, 60); i++ {
		payload := genPayload(rng, 1+rng.Intn(24))
		for _, algo := range []string{"", "tagA"} {
			for _, max := range []int{0, 64} {
				wire := compressToy(algo, payload)
				cfg := envCfg{Proto: "connect", Algo: algo, Max: max}
				for cut := 0; cut <= len(wire); cut++ {
					for _, fin := range []h.FinKind{h.FinUnexpectedEOF, h.FinOther} {
						o := envRunUnary(r, "handler_cut_connect_unary", cfg, [][]byte{wire[:cut]}, fin, cut%3 == 0, "unary request cut")
						if o.Kind == "msg" {
							r.Fail(h.Failure{Key: "cut/handler-clean-eof", Family: "handler_cut_connect_unary", What: "user code received a message from a unary request body that failed before its end",
								Input: map[string]any{"cfg": cfg, "body_hex": h.Hex(wire), "cut": cut, "fin": fin.Coq()}, Actual: o.String()})
						}
					}
				}
			}
		}
	}

	// ---- write side: the k-th Write of the ResponseWriter fails ----
	for _, proto := range protos {
		cfg := envCfg{Proto: proto}
		for failAt := 1; failAt <= 9; failAt++ {
			var sendErrs []error
			handler := connect.NewServerStreamHandler("/verif.Svc/Server",
				func(_ context.Context, _ *connect.Request[h.Raw], s *connect.ServerStream[h.Raw]) error {
					for i := 0; i < 3; i++ {
						err := s.Send(&h.Raw{B: []byte{byte(i), 1, 2}})
						sendErrs = append(sendErrs, err)
						if err != nil {
							return err
						}
					}
					return nil
				}, cfg.handlerOpts()...)
			req := httptest.NewRequest(http.MethodPost, "/verif.Svc/Server", bytes.NewReader(h.Frame(0, []byte("q"))))
			req.Header.Set("Content-Type", cfg.contentType(false))
			w := &failingWriter{hdr: http.Header{}, failAt: failAt}
			timedOut, p := withWatchdog(5*time.Second, func() { handler.ServeHTTP(w, req) })
			r.Eval("writer_fails", fmt.Sprintf("%s|%d", proto, failAt))
			in := map[string]any{"proto": proto, "fail_at_write": failAt}
			if timedOut || p != nil {
				r.Fail(h.Failure{Key: "write/hang-or-panic", Family: "writer_fails", What: fmt.Sprint("hang or panic: ", p), Input: in})
				continue
			}
			// each Send performs two Writes (prefix, payload): Send i covers writes 2i+1, 2i+2
			for i, err := range sendErrs {
				hit := failAt <= 2*i+2
				if hit && err == nil {
					r.Fail(h.Failure{Key: "write/send-succeeds-after-failed-write", Family: "writer_fails", What: "Send reported success although a Write of its data failed", Input: in, Actual: fmt.Sprint("send #", i)})
				}
				if err != nil && connect.CodeOf(err) == 0 {
					r.Fail(h.Failure{Key: "write/zero-code", Family: "writer_fails", What: "Send failed with the zero code", Input: in})
				}
			}
			r.Sample("writer_fails", map[string]any{"in": in, "send_errors": fmt.Sprint(sendErrs)})
		}
	}

	// ---- write side: the transport stops reading the request body after j bytes ----
	for _, proto := range protos {
		cfg := envCfg{Proto: proto}
		for j := 0; j <= 24; j += 3 {
			doer := roundTripFunc(func(req *http.Request) (*http.Response, error) {
				buf := make([]byte, j)
				_, _ = io.ReadFull(req.Body, buf)
				_ = req.Body.Close()
				return nil, errors.New("verif: connection reset by peer")
			})
			var sendErr, recvErr error
			timedOut, p := withWatchdog(5*time.Second, func() {
				client := connect.NewClient[h.Raw, h.Raw](doer, "http://verif.local/verif.Svc/Client", clientOpts(cfg, "")...)
				st := client.CallClientStream(context.Background())
				for i := 0; i < 6 && sendErr == nil; i++ {
					sendErr = st.Send(&h.Raw{B: []byte{1, 2, 3, 4}})
				}
				_, recvErr = st.CloseAndReceive()
			})
			r.Eval("request_write_fails", fmt.Sprintf("%s|%d", proto, j))
			in := map[string]any{"proto": proto, "transport_reads_bytes": j}
			if timedOut || p != nil {
				r.Fail(h.Failure{Key: "write/hang-or-panic", Family: "request_write_fails", What: fmt.Sprint("hang or panic: ", p, " timeout=", timedOut), Input: in})
				continue
			}
			if recvErr == nil {
				r.Fail(h.Failure{Key: "write/call-succeeds-after-transport-failure", Family: "request_write_fails", What: "call reported success although the transport failed while the request was being written", Input: in})
			} else if connect.CodeOf(recvErr) == 0 {
				r.Fail(h.Failure{Key: "write/zero-code", Family: "request_write_fails", What: "failure with the zero code", Input: in})
			}
			r.Sample("request_write_fails", map[string]any{"in": in, "send_err": fmt.Sprint(sendErr), "recv_err": fmt.Sprint(recvErr)})
		}
	}

	// ---- unary Connect with a COMPRESSED body that is cut, the transport reporting a clean end (a
	// close-delimited HTTP/1.x body): the end marker of the compressed stream is the only thing
	// that says the body is complete. Every strict prefix fails, on the client and in the handler ----
	{
		msg := append([]byte("payload "), bytes.Repeat([]byte("0123456789abcdef"), 12)...)
		msg = append(msg, []byte(" the tail that a cut must not lose")...)
		var zb bytes.Buffer
		zw := gzip.NewWriter(&zb)
		_, _ = zw.Write(msg)
		_ = zw.Close()
		full := zb.Bytes()
		// (cut 0 is left out: an EMPTY body is the zero-valued message in this protocol, whatever
		// the encoding header says — the documented zero-length shortcut, modelled in Envelope.v)
		for cut := 1; cut <= len(full); cut++ {
			if !r.Thorough() && cut > 12 && cut < len(full)-12 && cut%5 != 0 {
				continue
			}
			body := full[:cut]
			// client side
			canned := &h.CannedClient{Build: func(*http.Request) (*http.Response, error) {
				hdr := http.Header{"Content-Type": {"application/toy"}, "Content-Encoding": {"gzip"}}
				return h.NewResponse(200, hdr, h.NewChunkBody([][]byte{body}, h.FinCleanEOF), nil), nil
			}}
			var got []byte
			var cerr error
			p := safely(func() {
				res, err := connect.NewClient[h.Raw, h.Raw](canned, "http://verif.local/verif.Svc/M", connect.WithCodec(h.ToyCodec{})).CallUnary(context.Background(), connect.NewRequest(&h.Raw{B: []byte("q")}))
				cerr = err
				if err == nil {
					got = res.Msg.B
				}
			})
			in := map[string]any{"proto": "connect", "kind": "unary", "side": "client", "content_encoding": "gzip", "compressed_body_bytes": len(full), "cut_after": cut, "end": "clean EOF"}
			r.Eval("compressed_unary_cut", fmt.Sprint("client", cut))
			if p != nil {
				r.Fail(h.Failure{Key: "terminator/hang-or-panic", Family: "compressed_unary_cut", What: fmt.Sprint("panic: ", p), Input: in})
			} else if cut < len(full) && cerr == nil {
				r.Fail(h.Failure{Key: "cut/connect-unary-success-on-cut-body", Family: "compressed_unary_cut", What: "a unary call succeeded on a compressed response body that was cut", Input: in, Actual: map[string]any{"message_bytes": len(got), "of": len(msg)}})
			} else if cut == len(full) && (cerr != nil || !bytes.Equal(got, msg)) {
				r.Fail(h.Failure{Key: "cut/complete-body-refused", Family: "compressed_unary_cut", What: "the complete compressed body is not accepted", Input: in, Actual: fmt.Sprint(cerr)})
			}
			// handler side
			ran := false
			handler := connect.NewUnaryHandler("/verif.Svc/M", func(_ context.Context, req *connect.Request[h.Raw]) (*connect.Response[h.Raw], error) {
				ran = true
				got = req.Msg.B
				return connect.NewResponse(&h.Raw{B: []byte("ok")}), nil
			}, connect.WithCodec(h.ToyCodec{}))
			req := httptest.NewRequest("POST", "/verif.Svc/M", nil)
			req.Body = h.NewChunkBody([][]byte{body}, h.FinCleanEOF)
			req.ContentLength = -1
			req.Header.Set("Content-Type", "application/toy")
			req.Header.Set("Content-Encoding", "gzip")
			rec := httptest.NewRecorder()
			p = safely(func() { handler.ServeHTTP(rec, req) })
			in = map[string]any{"proto": "connect", "kind": "unary", "side": "handler", "content_encoding": "gzip", "compressed_body_bytes": len(full), "cut_after": cut, "end": "clean EOF"}
			r.Eval("compressed_unary_cut", fmt.Sprint("handler", cut))
			if p != nil {
				r.Fail(h.Failure{Key: "terminator/hang-or-panic", Family: "compressed_unary_cut", What: fmt.Sprint("panic: ", p), Input: in})
			} else if cut < len(full) && (ran || rec.Code == 200) {
				r.Fail(h.Failure{Key: "cut/connect-unary-success-on-cut-body", Family: "compressed_unary_cut", What: "a unary handler ran (or answered 200) on a compressed request body that was cut", Input: in, Actual: map[string]any{"status": rec.Code, "user_code_ran": ran}})
			}
		}
	}

	// ---- unary Connect: the whole message has arrived and the transport then reports anything but
	// a clean end (a reset of the stream - NO_ERROR included -, an unexpected EOF): the body may
	// have been longer; the call fails ----
	for _, fin := range []h.FinKind{h.FinRSTNoError, h.FinRSTCancel, h.FinUnexpectedEOF, h.FinOther} {
		for _, n := range []int{1, 40} {
			msg := bytes.Repeat([]byte("m"), n)
			canned := &h.CannedClient{Build: func(*http.Request) (*http.Response, error) {
				return h.NewResponse(200, http.Header{"Content-Type": {"application/toy"}}, h.NewChunkBody([][]byte{msg}, fin), nil), nil
			}}
			var cerr error
			p := safely(func() {
				_, cerr = connect.NewClient[h.Raw, h.Raw](canned, "http://verif.local/verif.Svc/M", connect.WithCodec(h.ToyCodec{})).CallUnary(context.Background(), connect.NewRequest(&h.Raw{B: []byte("q")}))
			})
			in := map[string]any{"proto": "connect", "kind": "unary", "body_bytes": n, "end": fin.Coq()}
			r.Eval("unary_unclean_end", fmt.Sprint(fin, n))
			if p != nil {
				r.Fail(h.Failure{Key: "terminator/hang-or-panic", Family: "unary_unclean_end", What: fmt.Sprint("panic: ", p), Input: in})
			} else if cerr == nil {
				r.Fail(h.Failure{Key: "cut/unary-success-without-terminator", Family: "unary_unclean_end", What: "a unary Connect call succeeded although its response body did not end cleanly", Input: in})
			}
		}
	}

	// ---- no response at all: HTTPClient.Do itself fails, with errors of the shapes net/http
	// produces (a server that closes the connection before answering: `Post "...": EOF`) and
	// that wrapping clients produce; all RPC kinds, all protocols: never a success ----
	for _, proto := range []string{"connect", "grpc", "grpcweb"} {
		for ei, doErr := range []error{
			io.EOF, fmt.Errorf("Post %q: %w", "http://verif.local/verif.Svc/M", io.EOF), io.ErrUnexpectedEOF,
			fmt.Errorf("round trip: %w", io.ErrUnexpectedEOF), errors.New("connection refused"), fmt.Errorf("proxy: %w", io.ErrClosedPipe),
		} {
			for _, kind := range []string{"unary", "client", "server", "bidi"} {
				doer := roundTripFunc(func(req *http.Request) (*http.Response, error) {
					if req.Body != nil {
						_, _ = io.Copy(io.Discard, req.Body)
						_ = req.Body.Close()
					}
					return nil, doErr
				})
				cfg := envCfg{Proto: proto}
				var opts []connect.ClientOption
				opts = append(opts, clientOpts(cfg, "")...)
				switch ei % 3 {
				case 1:
					opts = append(opts, connect.WithReadMaxBytes(64))
				case 2:
					opts = append(opts, connect.WithSendGzip())
				}
				client := connect.NewClient[h.Raw, h.Raw](doer, "http://verif.local/verif.Svc/M", opts...)
				var err error
				var got []byte
				timedOut, p := withWatchdog(10*time.Second, func() {
					switch kind {
					case "unary":
						var res *connect.Response[h.Raw]
						if res, err = client.CallUnary(context.Background(), connect.NewRequest(&h.Raw{B: []byte("q")})); err == nil {
							got = res.Msg.B
						}
					case "client":
						st := client.CallClientStream(context.Background())
						_ = st.Send(&h.Raw{B: []byte("q")})
						var res *connect.Response[h.Raw]
						if res, err = st.CloseAndReceive(); err == nil {
							got = res.Msg.B
						}
					case "server":
						var st *connect.ServerStreamForClient[h.Raw]
						if st, err = client.CallServerStream(context.Background(), connect.NewRequest(&h.Raw{B: []byte("q")})); err == nil {
							for st.Receive() {
							}
							err = st.Err()
							_ = st.Close()
						}
					default:
						st := client.CallBidiStream(context.Background())
						_ = st.Send(&h.Raw{B: []byte("q")})
						_ = st.CloseRequest()
						for err == nil {
							_, err = st.Receive()
						}
						if errors.Is(err, io.EOF) {
							err = nil // a clean end of the stream
						}
						_ = st.CloseResponse()
					}
				})
				in := map[string]any{"proto": proto, "kind": kind, "HTTPClient.Do returns": fmt.Sprintf("%q", doErr.Error()), "options": []string{"default", "WithReadMaxBytes(64)", "WithSendGzip"}[ei%3]}
				r.Eval("do_fails", fmt.Sprint(proto, kind, ei))
				if timedOut || p != nil {
					r.Fail(h.Failure{Key: "terminator/hang-or-panic", Family: "do_fails", What: fmt.Sprint("hang or panic: ", p, " timeout=", timedOut), Input: in})
					continue
				}
				r.Sample("do_fails", map[string]any{"in": in, "err": fmt.Sprint(err)})
				if err == nil {
					r.Fail(h.Failure{Key: "terminator/success-without-response", Family: "do_fails", What: "the call reported success although there was no HTTP response at all", Input: in, Actual: map[string]any{"message_hex": h.Hex(got)}})
				} else if connect.CodeOf(err) == 0 {
					r.Fail(h.Failure{Key: "terminator/zero-code", Family: "do_fails", What: "failure with the zero code", Input: in})
				}
			}
		}
	}
}
