package props

import (
	"bytes"
	"compress/gzip"
	"context"
	"encoding/json"
	"errors"
	"fmt"
	"net/http"
	"net/http/httptest"
	"sort"
	"strings"

	connect "github.com/bufbuild/connect-go"
	statusv1 "github.com/bufbuild/connect-go/internal/gen/connectext/grpc/status/v1"
	"github.com/bufbuild/connect-go/verifharness/internal/h"
	"google.golang.org/protobuf/proto"
	"google.golang.org/protobuf/types/known/wrapperspb"
)

// jsumOf summarises a JSON payload with encoding/json (independent of protojson).
func jsumOf(payload []byte, endStream bool) string {
	var obj map[string]json.RawMessage
	if err := json.Unmarshal(payload, &obj); err != nil || obj == nil {
		return "JNotObject"
	}
	errObj := obj
	if endStream {
		raw, ok := obj["error"]
		if !ok || string(raw) == "null" {
			return "JNoError"
		}
		errObj = nil
		if json.Unmarshal(raw, &errObj) != nil || errObj == nil {
			return "JNotObject"
		}
	}
	var code string
	if raw, ok := errObj["code"]; ok {
		if json.Unmarshal(raw, &code) != nil {
			return "JNotObject"
		}
	}
	return "(JError " + h.CoqStr(code) + ")"
}

func coqHeaderAll(hd http.Header, strip string) string {
	var keys []string
	for k := range hd {
		if strip != "" && strings.HasPrefix(k, strip) {
			continue
		}
		keys = append(keys, k)
	}
	sort.Strings(keys)
	return coqHmap(hd, keys)
}

// splitTrailers separates a recorded header map into headers and HTTP trailers.
func splitTrailers(rec *httptest.ResponseRecorder) (hdr, trailer http.Header) {
	hdr, trailer = http.Header{}, http.Header{}
	for k, vs := range rec.Header() {
		if strings.HasPrefix(k, http.TrailerPrefix) {
			trailer[strings.TrimPrefix(k, http.TrailerPrefix)] = vs
		} else {
			hdr[k] = vs
		}
	}
	return
}

func lastFrameFlags(body []byte) (flags byte, payload []byte, ok bool) {
	for len(body) >= 5 {
		n := int(uint32(body[1])<<24 | uint32(body[2])<<16 | uint32(body[3])<<8 | uint32(body[4]))
		if 5+n > len(body) {
			return 0, nil, false
		}
		flags, payload, ok = body[0], body[5:5+n], true
		body = body[5+n:]
	}
	return
}

// C05 — wire conformance.
func C05(r *h.Run) {
	r.Model("c05case", "c05_ok")
	r.Sum.Rule = "handler programs (set headers/trailers, send k messages, return nil or an error with one of the 16 codes) x 3 protocols x {unary, server-stream} x {identity, tag compression with thresholds}: the recorded raw response must be accepted by the strictly spec-following reader evaluated in Coq and yield the messages and status the application supplied; client programs likewise for the requests they write; conformant-peer vectors (lower-case hex escapes, padded base64, any per-message compression choice, trailer key case and order, trailers-only vs normal, end-of-stream key case) are validated by the same Coq reader and fed to real clients, which must decode the same values. distinct = distinct (program, cfg)"
	rng := r.Rng.Fork("c05")
	protos := []string{"connect", "grpc", "grpcweb"}
	r.OracleFamily("handler_response", "a response written by a real handler is rejected by the strictly spec-following reader (SpecWire.v), or does not yield the messages/status the application supplied")
	r.OracleFamily("client_request", "a request written by a real client is rejected by the strictly spec-following reader (SpecWire.v), or does not yield the messages the application supplied")

	// ---- (a) responses written by real handlers ----
	for i := 0; i < r.N(240, 2400); i++ {
		proto := protos[i%3]
		unary := rng.Intn(3) == 0
		cfg := envCfg{Proto: proto}
		accept := ""
		if rng.Intn(2) == 0 {
			accept = "tagA"
		}
		minBytes := []int{0, 2, 6, 1000}[rng.Intn(4)]
		nm := rng.Intn(4)
		if unary {
			nm = 1
		}
		var msgs [][]byte
		for k := 0; k < nm; k++ {
			msgs = append(msgs, genPayload(rng, []int{0, 1, 3, 9, 40}[rng.Intn(5)]))
		}
		var retErr error
		final := 0
		if rng.Intn(3) == 0 {
			code := connect.Code(1 + rng.Intn(16))
			emeta := http.Header{"X-Err": {"e"}}
			if rng.Intn(3) == 0 {
				// a gateway returning the error of an upstream gRPC call: its metadata holds the
				// upstream's own status trailers
				emeta["Grpc-Status"] = []string{fmt.Sprint(1 + rng.Intn(16))}
				emeta["Grpc-Message"] = []string{"upstream said no"}
				if rng.Bool() {
					emeta["Grpc-Status-Details-Bin"] = []string{"CAUSBXN0YWxl"}
				}
			}
			retErr = mkError(code, errMessages[rng.Intn(len(errMessages)-1)], rng.Intn(3), emeta)
			final = int(code)
			if unary {
				msgs = nil
			}
		}
		sendFailsAt := -1
		if retErr == nil && len(msgs) > 0 && rng.Intn(6) == 0 {
			// a response message the codec refuses to marshal: Send fails before anything of
			// that message is written, and the call ends with code internal
			sendFailsAt = rng.Intn(len(msgs))
			msgs[sendFailsAt] = []byte{0xEE, 0xEE, 0xEE}
			final = int(connect.CodeInternal)
		}
		resH, resT := genMeta(rng, "X-Res"), genMeta(rng, "X-Trl")
		hopts := append(cfg.handlerOpts(), connect.WithCompressMinBytes(minBytes))
		var handler *connect.Handler
		if unary {
			handler = connect.NewUnaryHandler("/verif.Svc/M", func(_ context.Context, _ *connect.Request[h.Raw]) (*connect.Response[h.Raw], error) {
				if retErr != nil {
					return nil, retErr
				}
				resp := connect.NewResponse(&h.Raw{B: msgs[0]})
				copyHeader(resp.Header(), resH)
				copyHeader(resp.Trailer(), resT)
				return resp, nil
			}, hopts...)
		} else {
			handler = connect.NewServerStreamHandler("/verif.Svc/M", func(_ context.Context, _ *connect.Request[h.Raw], s *connect.ServerStream[h.Raw]) error {
				copyHeader(s.ResponseHeader(), resH)
				copyHeader(s.ResponseTrailer(), resT)
				for _, m := range msgs {
					if err := s.Send(&h.Raw{B: m}); err != nil {
						return err
					}
				}
				return retErr
			}, hopts...)
		}
		body := h.Frame(0, []byte("q"))
		if unary && proto == "connect" {
			body = []byte("q")
		}
		reqCT := cfg.contentType(unary)
		req := httptest.NewRequest(http.MethodPost, "/verif.Svc/M", bytes.NewReader(body))
		req.Header.Set("Content-Type", reqCT)
		if accept != "" {
			switch {
			case proto == "connect" && unary:
				req.Header.Set("Accept-Encoding", accept)
			case proto == "connect":
				req.Header.Set("Connect-Accept-Encoding", accept)
			default:
				req.Header.Set("Grpc-Accept-Encoding", accept)
			}
		}
		rec := httptest.NewRecorder()
		if p := safely(func() { handler.ServeHTTP(rec, req) }); p != nil {
			r.Fail(h.Failure{Key: "conformance/panic", Family: "handler_response", What: fmt.Sprint("panic: ", p)})
			continue
		}
		hdr, trailer := splitTrailers(rec)
		raw := rec.Body.Bytes()
		kind, js := "WGrpc", "JNoError"
		wantMsgs := msgs
		if sendFailsAt >= 0 {
			wantMsgs = msgs[:sendFailsAt]
		}
		finalCoq := fmt.Sprint(final)
		switch {
		case proto == "connect" && unary:
			kind = "WConnectUnary"
			if rec.Code != 200 {
				js = jsumOf(raw, false)
			}
			// a compressed unary body is opaque to the spec reader: give it the wire bytes
			if rec.Code == 200 {
				wantMsgs = [][]byte{raw}
			}
		case proto == "connect":
			kind = "WConnectStream"
			if fl, pay, ok := lastFrameFlags(raw); ok && fl&0x02 != 0 {
				js = jsumOf(toyInflate(hdr.Get("Connect-Content-Encoding"), fl, pay), true)
			}
		case proto == "grpcweb":
			kind = "WGrpcWeb"
			if fl, _, ok := lastFrameFlags(raw); ok && fl == 0x81 {
				finalCoq = "4294967296" // compressed trailer block: status checked below by the harness
			}
		}
		tag := "None"
		if accept != "" {
			tag = fmt.Sprintf("(Some x%02x)", h.TagByte(accept))
		}
		in := map[string]any{"proto": proto, "unary": unary, "accept": accept, "min_bytes": minBytes, "messages": hexList(msgs), "error_code": final, "send_fails_at_message": sendFailsAt}
		r.Eval("handler_response", fmt.Sprint(i))
		r.Sample("handler_response", map[string]any{"in": in, "status": rec.Code, "header": hdr, "trailer": trailer, "body_hex": h.Hex(raw)})
		r.Case("handler_response", fmt.Sprintf("SpecResp %s %s %s %d %s %s %s %s %s %s", kind, h.CoqStr(reqCT), tag, rec.Code, coqHeaderAll(hdr, ""), coqHeaderAll(trailer, ""), h.CoqBytes(raw), js, h.CoqBytesList(wantMsgs), finalCoq),
			map[string]any{"in": in, "impl_status": rec.Code, "impl_header": hdr, "impl_trailer": trailer, "impl_body_hex": h.Hex(raw)})
	}

	// ---- (a') the response Content-Type echoes the request's, bare media types included
	// (grpc-go and grpc-web peers send "application/grpc" / "application/grpc-web" for protobuf) ----
	{
		echoUnary := connect.NewUnaryHandler("/verif.Svc/E", func(_ context.Context, req *connect.Request[wrapperspb.BytesValue]) (*connect.Response[wrapperspb.BytesValue], error) {
			return connect.NewResponse(&wrapperspb.BytesValue{Value: req.Msg.Value}), nil
		})
		echoStream := connect.NewServerStreamHandler("/verif.Svc/E", func(_ context.Context, req *connect.Request[wrapperspb.BytesValue], st *connect.ServerStream[wrapperspb.BytesValue]) error {
			return st.Send(&wrapperspb.BytesValue{Value: req.Msg.Value})
		})
		protoMsg, _ := proto.Marshal(&wrapperspb.BytesValue{Value: []byte("abc")})
		jsonMsg := []byte(`"YWJj"`)
		type ctCase struct {
			ct      string
			unary   bool // Connect unary (no envelope)
			payload []byte
		}
		cases := []ctCase{
			{"application/grpc", false, protoMsg}, {"application/grpc+proto", false, protoMsg}, {"application/grpc+json", false, jsonMsg},
			{"application/grpc-web", false, protoMsg}, {"application/grpc-web+proto", false, protoMsg}, {"application/grpc-web+json", false, jsonMsg},
			{"application/connect+proto", false, protoMsg}, {"application/connect+json", false, jsonMsg},
			{"application/proto", true, protoMsg}, {"application/json", true, jsonMsg},
		}
		for _, c := range cases {
			for _, streamHandler := range []bool{false, true} {
				if c.unary && streamHandler {
					continue
				}
				if !c.unary && !streamHandler && strings.HasPrefix(c.ct, "application/connect+") {
					continue // the unary handler does not speak the Connect streaming media types
				}
				handler := echoUnary
				if streamHandler {
					handler = echoStream
				}
				body := h.Frame(0, c.payload)
				if c.unary {
					body = c.payload
				}
				req := httptest.NewRequest(http.MethodPost, "/verif.Svc/E", bytes.NewReader(body))
				req.Header.Set("Content-Type", c.ct)
				rec := httptest.NewRecorder()
				if p := safely(func() { handler.ServeHTTP(rec, req) }); p != nil {
					r.Fail(h.Failure{Key: "conformance/panic", Family: "content_type_echo", What: fmt.Sprint("panic: ", p), Input: c.ct})
					continue
				}
				in := map[string]any{"request_content_type": c.ct, "stream_handler": streamHandler}
				r.Eval("content_type_echo", fmt.Sprint(c.ct, streamHandler))
				r.Sample("content_type_echo", map[string]any{"in": in, "status": rec.Code, "response_content_type": rec.Header().Get("Content-Type")})
				if rec.Code != 200 {
					r.Fail(h.Failure{Key: "conformance/content-type-not-served", Family: "content_type_echo", What: fmt.Sprintf("a request with a media type of the protocol was answered with HTTP %d", rec.Code), Input: in})
					continue
				}
				if got := rec.Header().Get("Content-Type"); got != c.ct {
					r.Fail(h.Failure{Key: "conformance/content-type-echo", Family: "content_type_echo", What: "the response Content-Type does not echo the request's", Input: in, Expected: c.ct, Actual: got})
				}
			}
		}
	}

	// ---- (b) requests written by real clients ----
	for i := 0; i < r.N(120, 1200); i++ {
		proto := protos[i%3]
		unary := rng.Intn(3) == 0
		send := ""
		if rng.Intn(2) == 0 {
			send = "tagA"
		}
		minBytes := []int{0, 2, 6, 1000}[rng.Intn(4)]
		nm := 1 + rng.Intn(3)
		if unary {
			nm = 1
		}
		var msgs [][]byte
		for k := 0; k < nm; k++ {
			msgs = append(msgs, genPayload(rng, []int{0, 1, 3, 9, 40}[rng.Intn(5)]))
		}
		var reqBody bytes.Buffer
		canned := &h.CannedClient{ReqBody: &reqBody, Build: func(*http.Request) (*http.Response, error) { return nil, errors.New("stop") }}
		copts := append(clientOpts(envCfg{Proto: proto}, send), connect.WithCompressMinBytes(minBytes))
		ctx := context.Background()
		var cancel context.CancelFunc = func() {}
		if rng.Intn(2) == 0 {
			ctx, cancel = context.WithTimeout(ctx, []durationT{5e6, 3e9, 7200e9, 400 * 24 * 3600e9}[rng.Intn(4)])
		}
		client := connect.NewClient[h.Raw, h.Raw](canned, "http://verif.local/verif.Svc/M", copts...)
		if unary {
			_, _ = client.CallUnary(ctx, connect.NewRequest(&h.Raw{B: msgs[0]}))
		} else {
			st := client.CallClientStream(ctx)
			for _, m := range msgs {
				_ = st.Send(&h.Raw{B: m})
			}
			_, _ = st.CloseAndReceive()
		}
		cancel()
		kind, prefix := "WGrpc", "application/grpc+"
		switch {
		case proto == "connect" && unary:
			kind, prefix = "WConnectUnary", "application/"
		case proto == "connect":
			kind, prefix = "WConnectStream", "application/connect+"
		case proto == "grpcweb":
			kind, prefix = "WGrpcWeb", "application/grpc-web+"
		}
		tag := "None"
		if send != "" {
			tag = fmt.Sprintf("(Some x%02x)", h.TagByte(send))
		}
		in := map[string]any{"proto": proto, "unary": unary, "send_compression": send, "min_bytes": minBytes, "messages": hexList(msgs)}
		r.Eval("client_request", fmt.Sprint(i))
		r.Sample("client_request", map[string]any{"in": in, "header": canned.ReqHdr, "body_hex": h.Hex(reqBody.Bytes())})
		r.Case("client_request", fmt.Sprintf("SpecReq %s %s %s %s %s %s", kind, h.CoqStr(prefix), tag, coqHeaderAll(canned.ReqHdr, ""), h.CoqBytes(reqBody.Bytes()), h.CoqBytesList(msgs)),
			map[string]any{"in": in, "impl_header": canned.ReqHdr, "impl_body_hex": h.Hex(reqBody.Bytes())})
	}

	// ---- (c) conformant-peer vectors: validated by the Coq spec reader, decoded by real clients ----
	lowerHex := func(s string) string { // percent-encode with lower-case hex digits
		var b strings.Builder
		for i := 0; i < len(s); i++ {
			c := s[i]
			if c < ' ' || c > '~' || c == '%' {
				fmt.Fprintf(&b, "%%%02x", c)
			} else {
				b.WriteByte(c)
			}
		}
		return b.String()
	}
	for i := 0; i < r.N(180, 1800); i++ {
		proto := protos[i%3]
		cfg := envCfg{Proto: proto}
		withAlg := rng.Intn(2) == 0
		if withAlg {
			cfg.Algo = "tagA"
		}
		nm := rng.Intn(4)
		var msgs [][]byte
		var frames []byte
		for k := 0; k < nm; k++ {
			p := genPayload(rng, []int{0, 1, 3, 9, 40}[rng.Intn(5)])
			msgs = append(msgs, p)
			if withAlg && rng.Bool() { // per-message choice
				frames = append(frames, h.Frame(1, compressToy("tagA", p))...)
			} else {
				frames = append(frames, h.Frame(0, p)...)
			}
		}
		code := connect.Code(0)
		msg := ""
		if rng.Intn(2) == 0 {
			code = connect.Code(1 + rng.Intn(16))
			msg = errMessages[1+rng.Intn(len(errMessages)-2)]
		}
		hdr := http.Header{"Content-Type": {cfg.contentType(false)}}
		trailer := http.Header{}
		var body []byte
		js := "JNoError"
		meta := http.Header{"X-Peer-Meta": {"v1", "v2"}}
		splitSpelling := false
		switch proto {
		case "grpc", "grpcweb":
			if withAlg {
				hdr.Set("Grpc-Encoding", "tagA")
			}
			fields := [][2]string{{"grpc-status", fmt.Sprint(uint32(code))}}
			if code != 0 {
				fields = append(fields, [2]string{"grpc-message", lowerHex(msg)})
				st, _ := proto_Marshal(&statusv1.Status{Code: int32(code), Message: msg})
				enc := connect.EncodeBinaryHeader(st)
				for len(enc)%4 != 0 { // padded base64 is conformant
					enc += "="
				}
				fields = append(fields, [2]string{"grpc-status-details-bin", enc})
			}
			fields = append(fields, [2]string{"x-peer-meta", "v1"}, [2]string{"x-peer-meta", "v2"})
			trailersOnly := nm == 0 && rng.Bool()
			switch {
			case proto == "grpc" && trailersOnly:
				for _, f := range fields {
					hdr.Add(f[0], f[1])
				}
				body = nil
			case proto == "grpc":
				for _, f := range fields {
					trailer.Add(f[0], f[1])
				}
				body = frames
			case trailersOnly:
				for _, f := range fields {
					hdr.Add(f[0], f[1])
				}
			default:
				// trailer block: any key case, any order
				rng2 := rng.Fork(fmt.Sprint("block", i))
				perm := append([][2]string(nil), fields...)
				for a := len(perm) - 1; a > 0; a-- {
					b := rng2.Intn(a + 1)
					perm[a], perm[b] = perm[b], perm[a]
				}
				// restore the original relative order of values under the same key
				orig := map[string][]string{}
				for _, f := range fields {
					orig[f[0]] = append(orig[f[0]], f[1])
				}
				for a := range perm {
					k := perm[a][0]
					perm[a][1] = orig[k][0]
					orig[k] = orig[k][1:]
				}
				var block strings.Builder
				for _, f := range perm {
					k := f[0]
					switch rng2.Intn(3) {
					case 0:
						k = strings.ToUpper(k)
					case 1:
						k = http.CanonicalHeaderKey(k)
					}
					block.WriteString(k + ": " + f[1] + "\r\n")
				}
				body = append(append([]byte(nil), frames...), h.Frame(0x80, []byte(block.String()))...)
			}
		default:
			if withAlg {
				hdr.Set("Connect-Content-Encoding", "tagA")
			}
			end := map[string]any{}
			mdKey := []string{"x-peer-meta", "X-Peer-Meta", "X-PEER-META"}[rng.Intn(3)]
			end["metadata"] = map[string][]string{mdKey: {"v1", "v2"}}
			if rng.Intn(3) == 0 {
				// one field name under two spellings (names are case-insensitive: the peer supplied
				// two values for X-Peer-Meta; a JSON object has no order, so either order is right)
				end["metadata"] = map[string][]string{"x-peer-meta": {"v1"}, "X-Peer-Meta": {"v2"}}
				splitSpelling = true
				meta = http.Header{}
			}
			if code != 0 {
				end["error"] = map[string]any{"code": code.String(), "message": msg}
			}
			payload, _ := json.Marshal(end)
			js = jsumOf(payload, true)
			body = append(append([]byte(nil), frames...), h.Frame(0x02, payload)...)
		}
		tag := "None"
		if withAlg {
			tag = fmt.Sprintf("(Some x%02x)", h.TagByte("tagA"))
		}
		kind := map[string]string{"grpc": "WGrpc", "grpcweb": "WGrpcWeb", "connect": "WConnectStream"}[proto]
		in := map[string]any{"proto": proto, "messages": hexList(msgs), "code": uint32(code), "message": msg, "header": hdr, "trailer": trailer, "body_hex": h.Hex(body)}
		r.Eval("peer_vector", fmt.Sprint(i))
		// 1. the vector is conformant: the Coq spec reader accepts it with these values
		r.Case("peer_vector", fmt.Sprintf("SpecResp %s %s %s 200 %s %s %s %s %s %d", kind, h.CoqStr(cfg.contentType(false)), tag, coqHeaderAll(canonHeader(hdr), ""), coqHeaderAll(canonHeader(trailer), ""), h.CoqBytes(body), js, h.CoqBytesList(msgs), uint32(code)),
			map[string]any{"vector": in})
		// 2. the implementation decodes it to the same values
		var got [][]byte
		var cerr error
		var resTrailer, resHeader http.Header
		canned := &h.CannedClient{Build: func(*http.Request) (*http.Response, error) {
			return h.NewResponse(200, canonHeader(hdr), h.NewChunkBody([][]byte{body}, h.FinCleanEOF), canonHeader(trailer)), nil
		}}
		p := safely(func() {
			cl := connect.NewClient[h.Raw, h.Raw](canned, "http://verif.local/verif.Svc/M", clientOpts(envCfg{Proto: proto}, "")...)
			st, err := cl.CallServerStream(context.Background(), connect.NewRequest(&h.Raw{B: []byte("q")}))
			if err != nil {
				cerr = err
				return
			}
			for st.Receive() {
				got = append(got, append([]byte(nil), st.Msg().B...))
			}
			cerr = st.Err()
			resHeader, resTrailer = st.ResponseHeader(), st.ResponseTrailer()
		})
		if p != nil {
			r.Fail(h.Failure{Key: "conformance/panic", Family: "peer_vector", What: fmt.Sprint("panic: ", p), Input: in})
			continue
		}
		r.Sample("peer_vector", map[string]any{"vector": in, "decoded": hexList(got), "error": fmt.Sprint(cerr)})
		if !bytesListEq(got, msgs) {
			r.Fail(h.Failure{Key: "conformance/peer-messages", Family: "peer_vector", What: "a conformant response is not decoded to the messages the peer encoded", Input: in, Expected: hexList(msgs), Actual: hexList(got)})
		}
		if code == 0 {
			if cerr != nil {
				r.Fail(h.Failure{Key: "conformance/peer-success-rejected", Family: "peer_vector", What: "a conformant successful response is reported as an error", Input: in, Actual: cerr.Error()})
			} else if vs := append(resHeader.Values("X-Peer-Meta"), resTrailer.Values("X-Peer-Meta")...); !sublist([]string{"v1", "v2"}, vs) && !(splitSpelling && sublist([]string{"v2", "v1"}, vs)) {
				r.Fail(h.Failure{Key: "conformance/peer-metadata", Family: "peer_vector", What: "metadata of a conformant response is not visible", Input: in, Actual: vs})
			}
		} else {
			checkError(r, "peer_vector", in, cerr, code, msg, nil, meta)
			if ce := (*connect.Error)(nil); splitSpelling && errors.As(cerr, &ce) {
				if vs := ce.Meta().Values("X-Peer-Meta"); !sublist([]string{"v1", "v2"}, vs) && !sublist([]string{"v2", "v1"}, vs) {
					r.Fail(h.Failure{Key: "conformance/peer-metadata", Family: "peer_vector", What: "metadata of a conformant error response is not all in the error's metadata (one field name under two spellings)", Input: in, Actual: vs})
				}
			}
		}
	}
	// ---- a handler whose first Send failed before anything was written and which then returns an
	// error: the response still carries exactly one status, the handler's ----
	for _, proto := range protos {
		n := 0
		handler := failedFirstSendHandler(false, &n)
		cfg := envCfg{Proto: proto}
		req := httptest.NewRequest(http.MethodPost, "/verif.Svc/M", bytes.NewReader(h.Frame(0, []byte("q"))))
		req.ProtoMajor, req.ProtoMinor = 2, 0
		req.Header.Set("Content-Type", cfg.contentType(false))
		rec := httptest.NewRecorder()
		p := safely(func() { handler.ServeHTTP(rec, req) })
		in := map[string]any{"proto": proto, "kind": "server", "handler": "its first Send fails in the codec; it then returns data_loss 'after the failed send'"}
		r.Eval("status_after_failed_send", proto)
		if p != nil {
			r.Fail(h.Failure{Key: "conformance/panic", Family: "status_after_failed_send", What: fmt.Sprint("panic: ", p), Input: in})
			continue
		}
		// what went over the wire: the headers as they were when they were sent (the first
		// flush), the body, and the trailers
		sent := rec.Result()
		wire := httptest.NewRecorder()
		for k, vs := range sent.Header {
			wire.Header()[k] = vs
		}
		for k, vs := range sent.Trailer {
			wire.Header()[http.TrailerPrefix+k] = vs
		}
		wire.Body = rec.Body
		wire.Code = rec.Code
		hdr, trailer := splitTrailers(wire)
		code, msg := peerError(proto, "server", wire)
		r.Sample("status_after_failed_send", map[string]any{"in": in, "status": rec.Code, "header": hdr, "trailer": trailer, "body_hex": h.Hex(rec.Body.Bytes()), "peer_code": code})
		if code != "data_loss" || msg != "after the failed send" {
			r.Fail(h.Failure{Key: "conformance/status-after-failed-send", Family: "status_after_failed_send", What: "a spec-following peer does not find the handler's status in the response (the status went into headers that had already been sent, or nowhere)", Input: in, Expected: "data_loss: after the failed send", Actual: code + ": " + msg})
		}
	}
	c05UnaryVectors(r, rng.Fork("unary-vectors"))
	c05SentinelError(r)
	c05RequestVectors(r, rng.Fork("request-vectors"))
	c05RelayedError(r)
}

// c05RelayedError: a gateway handler returns, as it is, the error an upstream call gave it. The
// metadata of a client-side error holds the upstream RESPONSE's headers — Content-Type,
// Content-Length, Content-Encoding, Date — next to the application's own. The response the
// gateway writes is still a well-formed one of its own: those describe another message.
func c05RelayedError(r *h.Run) {
	for _, proto := range []string{"connect", "grpc", "grpcweb"} {
		for _, kind := range []string{"unary", "server"} {
			cfg := envCfg{Proto: proto}
			upstream := connect.NewError(connect.CodeNotFound, errors.New("no such thing upstream"))
			for k, vs := range map[string][]string{"Content-Type": {"application/grpc+proto"}, "Content-Length": {"38"}, "Content-Encoding": {"gzip"}, "Date": {"Mon, 01 Jan 2024 00:00:00 GMT"}, "X-Upstream": {"u1"}} {
				upstream.Meta()[k] = vs
			}
			var handler *connect.Handler
			if kind == "unary" {
				handler = connect.NewUnaryHandler("/verif.Svc/M", func(context.Context, *connect.Request[h.Raw]) (*connect.Response[h.Raw], error) {
					return nil, upstream
				}, connect.WithCodec(h.ToyCodec{}))
			} else {
				handler = connect.NewServerStreamHandler("/verif.Svc/M", func(_ context.Context, _ *connect.Request[h.Raw], s *connect.ServerStream[h.Raw]) error {
					_ = s.Send(&h.Raw{B: []byte("m")})
					return upstream
				}, connect.WithCodec(h.ToyCodec{}))
			}
			unary := kind == "unary" && proto == "connect"
			body := h.Frame(0, []byte("q"))
			if unary {
				body = []byte("q")
			}
			reqCT := cfg.contentType(kind == "unary")
			req := httptest.NewRequest(http.MethodPost, "/verif.Svc/M", bytes.NewReader(body))
			req.ProtoMajor, req.ProtoMinor = 2, 0
			req.Header.Set("Content-Type", reqCT)
			rec := httptest.NewRecorder()
			p := safely(func() { handler.ServeHTTP(rec, req) })
			in := map[string]any{"proto": proto, "kind": kind, "handler": "returns an error whose metadata holds an upstream response's Content-Type, Content-Length, Content-Encoding and Date next to X-Upstream"}
			r.Eval("relayed_error", fmt.Sprint(proto, kind))
			if p != nil {
				r.Fail(h.Failure{Key: "conformance/panic", Family: "relayed_error", What: fmt.Sprint("panic: ", p), Input: in})
				continue
			}
			hdr, trailer := splitTrailers(rec)
			r.Sample("relayed_error", map[string]any{"in": in, "status": rec.Code, "header": hdr, "trailer": trailer, "body_hex": h.Hex(rec.Body.Bytes())})
			wantCT := reqCT
			if unary {
				wantCT = "application/json"
			}
			var problems []string
			if got := hdr.Values("Content-Type"); len(got) != 1 || got[0] != wantCT {
				problems = append(problems, fmt.Sprintf("Content-Type is %q, not exactly [%q]", got, wantCT))
			}
			for _, where := range []http.Header{hdr, trailer} {
				for _, v := range where.Values("Content-Length") {
					if v != fmt.Sprint(rec.Body.Len()) {
						problems = append(problems, fmt.Sprintf("Content-Length: %s over a body of %d bytes", v, rec.Body.Len()))
					}
				}
			}
			if len(trailer.Values("Content-Length"))+len(trailer.Values("Content-Type")) > 0 {
				problems = append(problems, "Content-Length / Content-Type sent as HTTP trailers")
			}
			if enc := hdr.Get("Content-Encoding"); enc != "" && enc != "identity" {
				problems = append(problems, "Content-Encoding: "+enc+" over an uncompressed body")
			}
			if len(problems) > 0 {
				r.Fail(h.Failure{Key: "conformance/relayed-transport-headers", Family: "relayed_error", What: "headers describing ANOTHER message (the upstream response) were written into this response", Input: in, Actual: problems})
			}
			code, msg := peerError(proto, map[bool]string{true: "unary", false: "server"}[unary], rec)
			if code != "not_found" || msg != "no such thing upstream" {
				r.Fail(h.Failure{Key: "conformance/relayed-error-lost", Family: "relayed_error", What: "the relayed error does not arrive with its code and message", Input: in, Actual: code + ": " + msg})
			}
		}
	}
}

// c05RequestVectors: conformant client-streaming REQUESTS as a peer writes them (binary
// protobuf, where a zero-valued message is a zero-length frame; optionally each frame
// compressed) are decoded by a real handler to the values the peer encoded.
func c05RequestVectors(r *h.Run, rng *h.Rng) {
	for i := 0; i < r.N(36, 300); i++ {
		proto_ := []string{"connect", "grpc", "grpcweb"}[i%3]
		gz := i%4 == 3
		n := 1 + rng.Intn(5)
		var vals []int64
		var body []byte
		for k := 0; k < n; k++ {
			v := int64(0)
			if rng.Intn(2) == 0 {
				v = int64(1 + rng.Intn(1000))
			}
			vals = append(vals, v)
			enc, _ := proto_Marshal(&wrapperspb.Int64Value{Value: v})
			if gz && len(enc) > 0 {
				var zb bytes.Buffer
				zw := gzip.NewWriter(&zb)
				_, _ = zw.Write(enc)
				_ = zw.Close()
				body = append(body, h.Frame(1, zb.Bytes())...)
			} else {
				body = append(body, h.Frame(0, enc)...)
			}
		}
		var got []int64
		handler := connect.NewClientStreamHandler("/verif.Svc/Sum", func(_ context.Context, s *connect.ClientStream[wrapperspb.Int64Value]) (*connect.Response[wrapperspb.Int64Value], error) {
			for s.Receive() {
				got = append(got, s.Msg().GetValue())
			}
			return connect.NewResponse(&wrapperspb.Int64Value{}), s.Err()
		})
		ct := map[string]string{"connect": "application/connect+proto", "grpc": "application/grpc", "grpcweb": "application/grpc-web+proto"}[proto_]
		req := httptest.NewRequest(http.MethodPost, "/verif.Svc/Sum", bytes.NewReader(body))
		req.ProtoMajor, req.ProtoMinor = 2, 0
		req.Header.Set("Content-Type", ct)
		if gz {
			req.Header.Set(map[bool]string{true: "Connect-Content-Encoding", false: "Grpc-Encoding"}[proto_ == "connect"], "gzip")
		}
		rec := httptest.NewRecorder()
		p := safely(func() { handler.ServeHTTP(rec, req) })
		in := map[string]any{"proto": proto_, "kind": "client", "codec": "proto", "gzip": gz, "values_encoded_by_the_peer": vals, "body_hex": h.Hex(body)}
		r.Eval("request_vector", fmt.Sprint(proto_, gz, vals))
		if p != nil {
			r.Fail(h.Failure{Key: "conformance/panic", Family: "request_vector", What: fmt.Sprint("panic: ", p), Input: in})
			continue
		}
		r.Sample("request_vector", map[string]any{"in": in, "handler_decoded": got})
		if fmt.Sprint(got) != fmt.Sprint(vals) {
			r.Fail(h.Failure{Key: "conformance/peer-messages", Family: "request_vector", What: "a conformant request is not decoded to the messages the peer encoded (a zero-valued message is a zero-length frame)", Input: in, Expected: vals, Actual: got})
		}
	}
}

// c05SentinelError: one *connect.Error VALUE (a package-level sentinel, possibly wrapped) ends
// several calls in turn, each with trailers of its own: each response carries the metadata the
// application supplied for THAT call — nothing left over from earlier calls.
func c05SentinelError(r *h.Run) {
	for _, proto := range []string{"connect", "grpc", "grpcweb"} {
		for _, wrapped := range []bool{false, true} {
			sentinel := connect.NewError(connect.CodeNotFound, errors.New("no such thing"))
			call := 0
			handler := connect.NewServerStreamHandler("/verif.Svc/M", func(_ context.Context, _ *connect.Request[h.Raw], s *connect.ServerStream[h.Raw]) error {
				call++
				s.ResponseTrailer().Set("X-Request-Id", fmt.Sprint("call-", call))
				_ = s.Send(&h.Raw{B: []byte("m")})
				if wrapped {
					return fmt.Errorf("lookup: %w", sentinel)
				}
				return sentinel
			}, connect.WithCodec(h.ToyCodec{}))
			cfg := envCfg{Proto: proto}
			for k := 1; k <= 3; k++ {
				req := httptest.NewRequest(http.MethodPost, "/verif.Svc/M", bytes.NewReader(h.Frame(0, []byte("q"))))
				req.ProtoMajor, req.ProtoMinor = 2, 0
				req.Header.Set("Content-Type", cfg.contentType(false))
				rec := httptest.NewRecorder()
				p := safely(func() { handler.ServeHTTP(rec, req) })
				in := map[string]any{"proto": proto, "handler": "server stream: sets trailer X-Request-Id: call-<k>, sends one message, returns the SAME *connect.Error value every time", "wrapped_with_%w": wrapped, "call": k}
				r.Eval("sentinel_error", fmt.Sprint(proto, wrapped, k))
				if p != nil {
					r.Fail(h.Failure{Key: "conformance/panic", Family: "sentinel_error", What: fmt.Sprint("panic: ", p), Input: in})
					break
				}
				// all values of X-Request-Id anywhere in what the peer receives
				var ids []string
				hdr, trailer := splitTrailers(rec)
				ids = append(ids, hdr.Values("X-Request-Id")...)
				ids = append(ids, trailer.Values("X-Request-Id")...)
				raw := rec.Body.Bytes()
				for rest := raw; len(rest) >= 5; {
					n := int(rest[1])<<24 | int(rest[2])<<16 | int(rest[3])<<8 | int(rest[4])
					if n < 0 || len(rest)-5 < n {
						break
					}
					if rest[0]&0x82 != 0 { // Connect end-of-stream / gRPC-Web trailer block
						text := string(toyInflate("", rest[0], rest[5:5+n]))
						for i := 0; ; {
							j := strings.Index(text[i:], "call-")
							if j < 0 {
								break
							}
							e := i + j + 5
							for e < len(text) && text[e] >= '0' && text[e] <= '9' {
								e++
							}
							ids = append(ids, text[i+j:e])
							i = e
						}
					}
					rest = rest[5+n:]
				}
				want := fmt.Sprint("call-", k)
				r.Sample("sentinel_error", map[string]any{"in": in, "request_ids_received": ids})
				if len(ids) != 1 || ids[0] != want {
					r.Fail(h.Failure{Key: "conformance/metadata-of-another-call", Family: "sentinel_error", What: "the response carries metadata the application did not supply for this call (trailers of earlier calls that ended with the same error value)", Input: in, Expected: []string{want}, Actual: ids})
				}
			}
		}
	}
}

// c05UnaryVectors: unary Connect responses as a conformant peer writes them — the message (or
// the JSON error under the code's HTTP status) as the whole body, compressed when
// Content-Encoding says so, metadata as headers and Trailer- prefixed headers — are validated
// by the Coq spec reader and must be decoded by a real client to the same values.
func c05UnaryVectors(r *h.Run, rng *h.Rng) {
	httpOf := map[connect.Code]int{1: 408, 2: 500, 3: 400, 4: 408, 5: 404, 6: 409, 7: 403, 8: 429, 9: 412, 10: 409, 11: 400, 12: 404, 13: 500, 14: 503, 15: 500, 16: 401}
	for i := 0; i < r.N(90, 900); i++ {
		withAlg := i%2 == 0
		code := connect.Code(0)
		msg := ""
		if i%3 != 0 {
			code = connect.Code(1 + rng.Intn(16))
			msg = errMessages[1+rng.Intn(len(errMessages)-2)]
		}
		payload := genPayload(rng, []int{0, 1, 3, 9, 40}[rng.Intn(5)])
		hdr := http.Header{"X-Peer-Meta": {"v1", "v2"}, "Trailer-X-Peer-Trl": {"t1"}}
		status := 200
		plain := payload
		js := "JNoError"
		if code != 0 {
			status = httpOf[code]
			hdr.Set("Content-Type", "application/json")
			plain, _ = json.Marshal(map[string]any{"code": code.String(), "message": msg})
			js = jsumOf(plain, false)
		} else {
			hdr.Set("Content-Type", "application/toy")
		}
		body := plain
		if withAlg {
			hdr.Set("Content-Encoding", "tagA")
			body = compressToy("tagA", plain)
		}
		in := map[string]any{"proto": "connect", "kind": "unary", "status": status, "header": hdr, "body_hex": h.Hex(body), "code": uint32(code), "message": msg, "message_payload": h.Hex(payload)}
		r.Eval("peer_vector_unary", fmt.Sprint(i))
		if code != 0 || !withAlg { // (a compressed success body is opaque to the spec reader)
			want := "[]"
			if code == 0 {
				want = h.CoqBytesList([][]byte{payload})
			}
			r.Case("peer_vector_unary", fmt.Sprintf("SpecResp WConnectUnary %s None %d %s %s %s %s %s %d", h.CoqStr("application/toy"), status, coqHeaderAll(canonHeader(hdr), ""), coqHeaderAll(http.Header{}, ""), h.CoqBytes(body), js, want, uint32(code)),
				map[string]any{"vector": in})
		}
		var got []byte
		var cerr error
		var resHeader, resTrailer http.Header
		canned := &h.CannedClient{Build: func(*http.Request) (*http.Response, error) {
			return h.NewResponse(status, canonHeader(hdr), h.NewChunkBody([][]byte{body}, h.FinCleanEOF), nil), nil
		}}
		p := safely(func() {
			cl := connect.NewClient[h.Raw, h.Raw](canned, "http://verif.local/verif.Svc/M", clientOpts(envCfg{Proto: "connect"}, "")...)
			resp, err := cl.CallUnary(context.Background(), connect.NewRequest(&h.Raw{B: []byte("q")}))
			if err != nil {
				cerr = err
				return
			}
			got, resHeader, resTrailer = resp.Msg.B, resp.Header(), resp.Trailer()
		})
		if p != nil {
			r.Fail(h.Failure{Key: "conformance/panic", Family: "peer_vector_unary", What: fmt.Sprint("panic: ", p), Input: in})
			continue
		}
		r.Sample("peer_vector_unary", map[string]any{"vector": in, "decoded": h.Hex(got), "error": fmt.Sprint(cerr)})
		if code == 0 {
			switch {
			case cerr != nil:
				r.Fail(h.Failure{Key: "conformance/peer-success-rejected", Family: "peer_vector_unary", What: "a conformant successful response is reported as an error", Input: in, Actual: cerr.Error()})
			case !bytes.Equal(got, payload):
				r.Fail(h.Failure{Key: "conformance/peer-messages", Family: "peer_vector_unary", What: "a conformant response is not decoded to the message the peer encoded", Input: in, Expected: h.Hex(payload), Actual: h.Hex(got)})
			case !sublist([]string{"v1", "v2"}, resHeader.Values("X-Peer-Meta")) || !sublist([]string{"t1"}, resTrailer.Values("X-Peer-Trl")):
				r.Fail(h.Failure{Key: "conformance/peer-metadata", Family: "peer_vector_unary", What: "metadata of a conformant response is not visible", Input: in, Actual: map[string]any{"header": resHeader, "trailer": resTrailer}})
			}
		} else {
			checkError(r, "peer_vector_unary", in, cerr, code, msg, nil, http.Header{"X-Peer-Meta": {"v1", "v2"}})
		}
	}
}

type durationT = timeDuration

func canonHeader(hd http.Header) http.Header {
	out := http.Header{}
	for k, vs := range hd {
		for _, v := range vs {
			out.Add(k, v)
		}
	}
	return out
}

func proto_Marshal(m proto.Message) ([]byte, error) { return proto.Marshal(m) }
