package props

import (
	"bytes"
	"compress/gzip"
	"context"
	"encoding/json"
	"errors"
	"fmt"
	"net/http"
	"sort"
	"strings"
	"time"

	connect "github.com/bufbuild/connect-go"
	errorv1 "github.com/bufbuild/connect-go/internal/gen/connect/error/v1"
	statusv1 "github.com/bufbuild/connect-go/internal/gen/connectext/grpc/status/v1"
	"github.com/bufbuild/connect-go/verifharness/internal/h"
	"google.golang.org/protobuf/encoding/protojson"
	"google.golang.org/protobuf/proto"
)

// independent copies of the spec tables (HTTP status -> code)
func specConnectHTTPToCode(s int) connect.Code {
	switch s {
	case 400:
		return connect.CodeInvalidArgument
	case 401:
		return connect.CodeUnauthenticated
	case 403:
		return connect.CodePermissionDenied
	case 404:
		return connect.CodeUnimplemented
	case 408:
		return connect.CodeDeadlineExceeded
	case 412:
		return connect.CodeFailedPrecondition
	case 413:
		return connect.CodeResourceExhausted
	case 429:
		return connect.CodeUnavailable
	case 431:
		return connect.CodeResourceExhausted
	case 502, 503, 504:
		return connect.CodeUnavailable
	}
	return connect.CodeUnknown
}

func specGRPCHTTPToCode(s int) connect.Code {
	switch s {
	case 400:
		return connect.CodeInternal
	case 401:
		return connect.CodeUnauthenticated
	case 403:
		return connect.CodePermissionDenied
	case 404:
		return connect.CodeUnimplemented
	case 429, 502, 503, 504:
		return connect.CodeUnavailable
	}
	return connect.CodeUnknown
}

// jwireOf parses a JSON body the way an independent reader of the Connect error
// schema would (protojson into connect.error.v1.Error).
func jwireOf(body []byte) string {
	var w errorv1.Error
	if err := (protojson.UnmarshalOptions{}).Unmarshal(body, &w); err != nil {
		return "JInvalid"
	}
	return "(JWire " + h.CoqStr(w.Code) + ")"
}

type callResult struct {
	err      error
	msgs     int
	panicked any
	timedOut bool
	trailer  http.Header
	header   http.Header
}

// doCall performs a call of the given kind against a canned response.
func doCall(cfg envCfg, kind string, mk func() *http.Response) (res callResult) {
	canned := &h.CannedClient{Build: func(*http.Request) (*http.Response, error) { return mk(), nil }}
	res.timedOut, res.panicked = withWatchdog(5*time.Second, func() {
		opts := clientOpts(cfg, "")
		switch kind {
		case "unary":
			cl := connect.NewClient[h.Raw, h.Raw](canned, "http://verif.local/verif.Svc/M", opts...)
			resp, err := cl.CallUnary(context.Background(), connect.NewRequest(&h.Raw{B: []byte("q")}))
			res.err = err
			if err == nil {
				res.msgs = 1
				res.header, res.trailer = resp.Header(), resp.Trailer()
			}
		case "client":
			cl := connect.NewClient[h.Raw, h.Raw](canned, "http://verif.local/verif.Svc/M", opts...)
			st := cl.CallClientStream(context.Background())
			_ = st.Send(&h.Raw{B: []byte("q")})
			resp, err := st.CloseAndReceive()
			res.err = err
			if err == nil {
				res.msgs = 1
				res.header, res.trailer = resp.Header(), resp.Trailer()
			}
		case "server":
			cl := connect.NewClient[h.Raw, h.Raw](canned, "http://verif.local/verif.Svc/M", opts...)
			st, err := cl.CallServerStream(context.Background(), connect.NewRequest(&h.Raw{B: []byte("q")}))
			if err != nil {
				res.err = err
				return
			}
			for st.Receive() {
				res.msgs++
			}
			res.err = st.Err()
			res.header, res.trailer = st.ResponseHeader(), st.ResponseTrailer()
			_ = st.Close()
		default: // bidi
			cl := connect.NewClient[h.Raw, h.Raw](canned, "http://verif.local/verif.Svc/M", opts...)
			st := cl.CallBidiStream(context.Background())
			_ = st.Send(&h.Raw{B: []byte("q")})
			_ = st.CloseRequest()
			for {
				_, err := st.Receive()
				if err != nil {
					if !errors.Is(err, errEOF) {
						res.err = err
					}
					break
				}
				res.msgs++
			}
			res.header, res.trailer = st.ResponseHeader(), st.ResponseTrailer()
			_ = st.CloseResponse()
		}
	})
	return
}

var errEOF = fmt.Errorf("placeholder")

func init() { errEOF = ioEOF() }

func coqOptCode(err error) string {
	if err == nil {
		return "None"
	}
	return fmt.Sprintf("(Some %d)", uint32(connect.CodeOf(err)))
}

// C06 — whatever a server sends.
func C06(r *h.Run) {
	r.Model("c06case", "c06_ok")
	r.Sum.Rule = "crafted *http.Response values through HTTPClient.Do: unary Connect with every status 100..599 x {empty, JSON error variants (missing/empty/unknown/zero/numeric code, wrong types), garbage} bodies; streaming Connect / gRPC / gRPC-Web with every status; grpc-status in {'', 0, 00, 000, 1..17, -1, +1, 4294967295, 4294967296, x, ' 5'} x details-bin {absent, bad base64, bad proto, code 0, code k} in headers (trailers-only), HTTP trailers and the gRPC-Web trailer frame; Connect end-of-stream JSON variants; lower/upper/mixed-case metadata keys in the in-body carriers; random header/trailer multimaps and random bodies; all 4 RPC kinds. Oracle: no panic, returns within the watchdog, errors.As *connect.Error, Code != 0, status-derived code per the spec tables. distinct = distinct response"
	rng := r.Rng.Fork("c06")

	check := func(fam string, in any, res callResult) bool {
		if res.timedOut || res.panicked != nil {
			r.Fail(h.Failure{Key: "client/hang-or-panic", Family: fam, What: fmt.Sprint("hang or panic: ", res.panicked, " timeout=", res.timedOut), Input: in})
			return false
		}
		if res.err != nil {
			var ce *connect.Error
			if !errors.As(res.err, &ce) {
				r.Fail(h.Failure{Key: "client/not-a-connect-error", Family: fam, What: "error cannot be inspected as a *connect.Error", Input: in, Actual: res.err.Error()})
				return false
			}
			if ce.Code() == 0 {
				r.Fail(h.Failure{Key: "client/zero-code", Family: fam, What: "non-nil error whose code is the zero (OK) code", Input: in, Actual: res.err.Error()})
				return false
			}
		}
		return true
	}

	// ---- unary Connect: every status x body variants ----
	bodies := []string{``, `{}`, `{"message":"Forbidden"}`, `{"code":""}`, `{"code":"code_0"}`, `{"code":"code_17","message":"m"}`, `{"code":"not_found","message":"gone"}`,
		`{"code":"NOT_FOUND"}`, `{"code":"canceled"}`, `{"code":5}`, `{"code":"unauthenticated","details":[]}`, `{"code":"internal","details":[{"type":"x","value":"!!"}]}`,
		`{"code":"code_4294967296"}`, `{"code":"code_-1"}`, `{"code":"code_+5"}`, `not json`, `[]`, `null`, `"x"`, `{"code":"unknown","extra":1}`, `{"message":null,"code":"aborted"}`, "\x00\x01", `{"code":"code_00"}`, `{"code":"code_000017"}`}
	statuses := []int{}
	for s := 100; s <= 599; s++ {
		statuses = append(statuses, s)
	}
	for _, status := range statuses {
		for bi, body := range bodies {
			if !r.Thorough() && status != 200 && (status+bi)%6 != 0 && !(status == 403 || status == 500 || status == 404 || status == 429) {
				continue
			}
			for _, enc := range []string{"", "zstd"} {
				if enc != "" && bi%5 != 0 {
					continue
				}
				cfg := envCfg{Proto: "connect"}
				hdr := http.Header{"Content-Type": {"application/json"}}
				if status == 200 {
					hdr.Set("Content-Type", "application/toy")
				}
				if enc != "" {
					hdr.Set("Content-Encoding", enc)
				}
				b := []byte(body)
				res := doCall(cfg, "unary", func() *http.Response {
					return h.NewResponse(status, hdr.Clone(), h.NewChunkBody([][]byte{b}, h.FinCleanEOF), nil)
				})
				in := map[string]any{"proto": "connect", "kind": "unary", "status": status, "body": body, "content_encoding": enc}
				r.Eval("unary_connect", fmt.Sprint(status, body, enc))
				if !check("unary_connect", in, res) {
					continue
				}
				r.Sample("unary_connect", map[string]any{"in": in, "error": fmt.Sprint(res.err)})
				if status != 200 || enc != "" {
					r.Case("unary_connect", fmt.Sprintf("UnaryConnect %d %s %s %s", status, h.CoqBool(enc == ""), jwireOf(b), coqOptCode(res.err)),
						map[string]any{"in": in, "impl_error": fmt.Sprint(res.err)})
				}
				if status != 200 && enc != "" {
					// a body in an encoding the client does not know cannot carry a protocol-level
					// error it could read (a proxy's brotli-compressed error page): the HTTP status decides
					if got, want := connect.CodeOf(res.err), specConnectHTTPToCode(status); res.err == nil || got != want {
						r.Fail(h.Failure{Key: "client/status-derived-code", Family: "unary_connect", What: "non-200 response whose body is in an encoding the client does not know: the code is not the one derived from the HTTP status", Input: in, Expected: want.String(), Actual: fmt.Sprint(res.err)})
					}
				}
				if status != 200 && enc == "" {
					if res.err == nil {
						r.Fail(h.Failure{Key: "client/non200-success", Family: "unary_connect", What: "non-200 unary response reported as success", Input: in})
						continue
					}
					// valid protocol-level error: JSON with one of the 16 names
					var w struct {
						Code string `json:"code"`
					}
					valid := false
					if json.Unmarshal(b, &w) == nil {
						for _, n := range codeNames {
							valid = valid || n == w.Code
						}
					}
					if !valid && jwireOf(b) == "JInvalid" || (!valid && (w.Code == "" || w.Code == "code_0" || w.Code == "code_00")) {
						if got, want := connect.CodeOf(res.err), specConnectHTTPToCode(status); got != want {
							key := "client/status-derived-code"
							r.Fail(h.Failure{Key: key, Family: "unary_connect", What: "non-200 response without a valid protocol-level error: the code is not the one derived from the HTTP status", Input: in, Expected: want.String(), Actual: got.String()})
						}
					}
				}
			}
		}
	}
	r.Sum.Exhaustive["HTTP statuses 100..599 for unary Connect (sampled bodies per status; all bodies for 200/403/404/429/500; thorough: all)"] = true

	// ---- the declared Content-Length is a header value like any other: whatever it says, and
	// however little of it arrives, the call returns (largest values last: trusting them for an
	// allocation kills the process rather than panicking) ----
	for _, proto := range []string{"connect", "grpc", "grpcweb"} {
		for _, kind := range []string{"unary", "server"} {
			for _, declared := range []int64{0, 1, 3, 1 << 20, 1 << 31, 1<<63 - 1, 1 << 62, 1 << 40} {
				cfg := envCfg{Proto: proto}
				hdr, term, trailer := responseParts(cfg)
				if proto == "connect" && kind == "unary" {
					hdr = http.Header{"Content-Type": {"application/toy"}}
					term = nil
				}
				hdr.Set("Content-Length", fmt.Sprint(declared))
				body := append([]byte("ab"), term...)
				if !(proto == "connect" && kind == "unary") {
					body = append(h.Frame(0, []byte("ab")), term...)
				}
				fin := h.FinUnexpectedEOF // what net/http reports when the body is shorter than declared
				if int64(len(body)) >= declared {
					fin = h.FinCleanEOF
				}
				in := map[string]any{"proto": proto, "kind": kind, "status": 200, "declared_content_length": declared, "body_bytes_present": len(body)}
				r.Eval("declared_length", fmt.Sprint(proto, kind, declared))
				if declared >= 1<<36 {
					r.Attempt(h.Failure{Key: "client/hang-or-panic", Family: "declared_length", What: "the process died (fatal runtime error, e.g. out of memory) during this call", Input: in})
				}
				res := doCall(cfg, kind, func() *http.Response {
					resp := h.NewResponse(200, hdr.Clone(), h.NewChunkBody([][]byte{body}, fin), trailer)
					resp.ContentLength = declared
					return resp
				})
				r.Survived()
				if !check("declared_length", in, res) {
					continue
				}
				r.Sample("declared_length", map[string]any{"in": in, "error": fmt.Sprint(res.err)})
			}
		}
	}

	// ---- the response arrives while a LARGE request message is still being written (the peer
	// read 32 KiB of it and answered): the write is cut short, and what the call reports is still
	// what the response says ----
	for _, proto := range []string{"connect", "grpc", "grpcweb"} {
		for _, kind := range []string{"unary", "server", "client", "bidi"} {
			if proto == "connect" && kind == "unary" {
				continue // (not enveloped; covered by unary_connect)
			}
			for _, shape := range []string{"403", "503", "200-status-in-headers"} {
				cfg := envCfg{Proto: proto}
				hdr, _, _ := responseParts(cfg)
				status, want := 200, connect.CodePermissionDenied
				switch shape {
				case "403":
					status = 403
				case "503":
					status, want = 503, connect.CodeUnavailable
				default:
					if proto == "connect" {
						continue
					}
					hdr.Set("Grpc-Status", "7")
					hdr.Set("Grpc-Message", "denied")
				}
				big := bytes.Repeat([]byte("x"), 1<<20)
				ec := &earlyClient{readBytes: 32 << 10, build: func() *http.Response {
					return h.NewResponse(status, hdr.Clone(), h.NewChunkBody(nil, h.FinCleanEOF), nil)
				}}
				var callErr error
				timedOut, p := withWatchdog(5*time.Second, func() {
					cl := connect.NewClient[h.Raw, h.Raw](ec, "http://verif.local/verif.Svc/M", clientOpts(cfg, "")...)
					switch kind {
					case "unary":
						_, callErr = cl.CallUnary(context.Background(), connect.NewRequest(&h.Raw{B: big}))
					case "server":
						st, err := cl.CallServerStream(context.Background(), connect.NewRequest(&h.Raw{B: big}))
						if err != nil {
							callErr = err
							return
						}
						for st.Receive() {
						}
						callErr = st.Err()
						_ = st.Close()
					case "client":
						st := cl.CallClientStream(context.Background())
						_ = st.Send(&h.Raw{B: big})
						_, callErr = st.CloseAndReceive()
					default:
						st := cl.CallBidiStream(context.Background())
						_ = st.Send(&h.Raw{B: big})
						_ = st.CloseRequest()
						_, callErr = st.Receive()
						_ = st.CloseResponse()
					}
				})
				in := map[string]any{"proto": proto, "kind": kind, "response": shape, "request_message_bytes": len(big), "peer_read_before_answering": 32 << 10}
				r.Eval("early_response_large_request", fmt.Sprint(proto, kind, shape))
				if !check("early_response_large_request", in, callResult{err: callErr, timedOut: timedOut, panicked: p}) {
					continue
				}
				r.Sample("early_response_large_request", map[string]any{"in": in, "error": fmt.Sprint(callErr)})
				if callErr == nil || connect.CodeOf(callErr) != want {
					r.Fail(h.Failure{Key: "client/status-derived-code", Family: "early_response_large_request", What: "the response was judged while a large request message was still being written: the call does not report what the response says", Input: in, Expected: want.String(), Actual: fmt.Sprint(callErr)})
				}
			}
		}
	}

	// ---- streaming Connect / gRPC / gRPC-Web: every status ----
	for _, proto := range []string{"connect", "grpc", "grpcweb"} {
		for _, status := range statuses {
			if !r.Thorough() && status%7 != 0 && status != 200 && status != 403 && status != 404 && status != 503 {
				continue
			}
			for _, enc := range []string{"", "zstd"} {
				if enc != "" && status%5 != 0 {
					continue
				}
				cfg := envCfg{Proto: proto}
				hdr, term, trailer := responseParts(cfg)
				if enc != "" {
					hdr.Set(cfg.encodingHeader(false), enc)
				}
				body := append(h.Frame(0, []byte("m")), term...)
				res := doCall(cfg, "server", func() *http.Response {
					return h.NewResponse(status, hdr.Clone(), h.NewChunkBody([][]byte{body}, h.FinCleanEOF), trailer.Clone())
				})
				in := map[string]any{"proto": proto, "kind": "server", "status": status, "encoding": enc}
				r.Eval("stream_status", fmt.Sprint(proto, status, enc))
				if !check("stream_status", in, res) {
					continue
				}
				if status != 200 || enc != "" {
					if proto == "connect" {
						r.Case("stream_status", fmt.Sprintf("StreamConnectValidate %d %s %s", status, h.CoqBool(enc == ""), coqOptCode(res.err)), map[string]any{"in": in, "impl_error": fmt.Sprint(res.err)})
					} else {
						r.Case("stream_status", fmt.Sprintf("GrpcValidate %d %s [] DAbsent %s", status, h.CoqBool(enc == ""), coqOptCode(res.err)), map[string]any{"in": in, "impl_error": fmt.Sprint(res.err)})
					}
				}
				if status != 200 {
					want := specConnectHTTPToCode(status)
					if proto != "connect" {
						want = specGRPCHTTPToCode(status)
					}
					if res.err == nil || connect.CodeOf(res.err) != want {
						r.Fail(h.Failure{Key: "client/status-derived-code", Family: "stream_status", What: "non-200 response: the code is not the one derived from the HTTP status", Input: in, Expected: want.String(), Actual: fmt.Sprint(res.err)})
					}
				}
			}
		}
	}

	// ---- gRPC status text x details-bin, in headers / HTTP trailers / web trailer frame ----
	statusTexts := []string{"", "0", "00", "000", "1", "5", "16", "17", "05", "-1", "+1", "4294967295", "4294967296", "x", " 5", "5 ", "0x5", "1e1"}
	mkDetails := func(kind string) (string, string) {
		switch kind {
		case "absent", "announced":
			// ("announced": the key is in the map with no values, as net/http leaves a trailer
			// that the Trailer header announced and the peer never sent)
			return "", "DAbsent"
		case "badb64":
			return "!!!not base64", "DInvalid"
		case "badproto":
			return connect.EncodeBinaryHeader([]byte{0xff, 0xff, 0xff}), "DInvalid"
		case "code0":
			b, _ := proto.Marshal(&statusv1.Status{Code: 0, Message: "m"})
			return connect.EncodeBinaryHeader(b), "(DStatus 0)"
		default:
			b, _ := proto.Marshal(&statusv1.Status{Code: 9, Message: "nine"})
			return connect.EncodeBinaryHeader(b), "(DStatus 9)"
		}
	}
	for _, st := range statusTexts {
		for _, dk := range []string{"absent", "announced", "badb64", "badproto", "code0", "code9"} {
			dval, dcoq := mkDetails(dk)
			// (a) trailers-only: status in the HTTP headers
			for _, proto := range []string{"grpc", "grpcweb"} {
				cfg := envCfg{Proto: proto}
				hdr, _, _ := responseParts(cfg)
				if st != "" {
					hdr["Grpc-Status"] = []string{st}
				}
				if dval != "" {
					hdr["Grpc-Status-Details-Bin"] = []string{dval}
				}
				if dk == "announced" {
					hdr["Grpc-Status-Details-Bin"] = nil
				}
				hdr.Set("Grpc-Message", "boom")
				for _, kind := range []string{"unary", "server"} {
					in := map[string]any{"proto": proto, "kind": kind, "grpc_status_header": st, "details": dk, "placement": "headers"}
					// (response validation runs on the library's request goroutine: a panic there cannot be recovered)
					r.Attempt(h.Failure{Key: "client/hang-or-panic", Family: "grpc_headers", What: "the process died during this call (a panic on the library's request goroutine)", Input: in})
					res := doCall(cfg, kind, func() *http.Response {
						return h.NewResponse(200, hdr.Clone(), h.NewChunkBody(nil, h.FinCleanEOF), nil)
					})
					r.Survived()
					r.Eval("grpc_headers", fmt.Sprint(in))
					if !check("grpc_headers", in, res) {
						continue
					}
					// with no body a "no error in headers" response still fails (no messages/trailers): model only the validate step
					if tsIsErr(st) {
						r.Case("grpc_headers", fmt.Sprintf("GrpcValidate 200 true %s %s %s", h.CoqStr(st), dcoq, coqOptCode(res.err)), map[string]any{"in": in, "impl_error": fmt.Sprint(res.err)})
					}
					// a body-less OK response is a legitimate empty stream; a unary call needs a message
					if res.err == nil && kind == "unary" {
						r.Fail(h.Failure{Key: "client/bodyless-success", Family: "grpc_headers", What: "body-less response reported as a successful unary call", Input: in})
					}
				}
			}
			// (b) one message, then the status in HTTP trailers (gRPC) or the trailer frame (gRPC-Web)
			for _, web := range []bool{false, true} {
				cfg := envCfg{Proto: "grpc"}
				if web {
					cfg.Proto = "grpcweb"
				}
				hdr, _, _ := responseParts(cfg)
				trailer := http.Header{}
				body := h.Frame(0, []byte("m"))
				if web {
					block := "grpc-message: boom\r\n"
					if st != "" {
						block += "grpc-status: " + st + "\r\n"
					}
					if dval != "" {
						block += "grpc-status-details-bin: " + dval + "\r\n"
					}
					body = append(body, h.Frame(0x80, []byte(block))...)
				} else {
					trailer.Set("Grpc-Message", "boom")
					if st != "" {
						trailer["Grpc-Status"] = []string{st}
					}
					if dval != "" {
						trailer["Grpc-Status-Details-Bin"] = []string{dval}
					}
					if dk == "announced" {
						trailer["Grpc-Status-Details-Bin"] = nil
					}
				}
				in := map[string]any{"proto": cfg.Proto, "kind": "server", "grpc_status": st, "details": dk, "placement": "trailers"}
				r.Attempt(h.Failure{Key: "client/hang-or-panic", Family: "grpc_trailers", What: "the process died during this call", Input: in})
				res := doCall(cfg, "server", func() *http.Response {
					return h.NewResponse(200, hdr.Clone(), h.NewChunkBody([][]byte{body}, h.FinCleanEOF), trailer.Clone())
				})
				r.Survived()
				r.Eval("grpc_trailers", fmt.Sprint(in))
				if !check("grpc_trailers", in, res) {
					continue
				}
				stModel := st
				if web {
					stModel = strings.TrimSpace(st) // the MIME block parser trims optional whitespace around values
				}
				r.Sample("grpc_trailers", map[string]any{"in": in, "error": fmt.Sprint(res.err), "messages": res.msgs})
				r.Case("grpc_trailers", fmt.Sprintf("GrpcEnd %s %s %s %s", h.CoqBool(web), h.CoqStr(stModel), dcoq, coqOptCode(res.err)), map[string]any{"in": in, "impl_error": fmt.Sprint(res.err)})
			}
		}
	}

	// ---- Connect end-of-stream variants ----
	// ---- responses labelled as compressed whose payload is not a valid stream of that
	// algorithm, on a FRESH client each time (cold pools: the first thing a pooled
	// decompressor ever sees is the bad input) ----
	{
		badPayloads := [][]byte{{0x00}, []byte("not gzip at all"), {0x1f}, {0x1f, 0x8b}, {0x1f, 0x8b, 0x08, 0, 0, 0, 0, 0, 0, 0xff}, {0x1f, 0x8b, 0x08, 0, 0, 0, 0, 0, 0, 0xff, 0xde, 0xad, 0xbe, 0xef}, bytes.Repeat([]byte{0xff}, 40)}
		for _, algo := range []string{"gzip", "tagA", "rle"} {
			for pi, pay := range badPayloads {
				survived := true
				for _, proto := range []string{"connect", "grpc", "grpcweb"} {
					for _, kind := range []string{"server", "unary"} {
						cfg := envCfg{Proto: proto}
						hdr, term, trailer := responseParts(cfg)
						status := 200
						var body []byte
						unaryConnect := kind == "unary" && proto == "connect"
						switch {
						case unaryConnect:
							hdr = http.Header{"Content-Type": {cfg.contentType(true)}, "Content-Encoding": {algo}}
							body = pay
						case proto == "connect":
							hdr.Set("Connect-Content-Encoding", algo)
							body = append(h.Frame(1, pay), term...)
						default:
							hdr.Set("Grpc-Encoding", algo)
							body = append(h.Frame(1, pay), term...)
						}
						res := doCall(cfg, kind, func() *http.Response {
							return h.NewResponse(status, hdr.Clone(), h.NewChunkBody([][]byte{body}, h.FinCleanEOF), trailer.Clone())
						})
						in := map[string]any{"proto": proto, "kind": kind, "encoding": algo, "payload_hex": h.Hex(pay), "status": status}
						r.Eval("bad_compressed", fmt.Sprint(algo, pi, proto, kind))
						if !check("bad_compressed", in, res) {
							survived = false
							continue
						}
						if res.err == nil && algo == "gzip" {
							r.Fail(h.Failure{Key: "client/corrupt-compressed-accepted", Family: "bad_compressed", What: "a payload that is not a gzip stream was accepted as a gzip-compressed message", Input: in})
						}
					}
				}
				if !survived {
					continue
				}
				// unary Connect error responses are decoded on the request goroutine: only
				// tried for inputs the caller-goroutine paths survived
				cfg := envCfg{Proto: "connect"}
				hdr := http.Header{"Content-Type": {"application/json"}, "Content-Encoding": {algo}}
				res := doCall(cfg, "unary", func() *http.Response {
					return h.NewResponse(500, hdr.Clone(), h.NewChunkBody([][]byte{pay}, h.FinCleanEOF), nil)
				})
				in := map[string]any{"proto": "connect", "kind": "unary", "encoding": algo, "payload_hex": h.Hex(pay), "status": 500}
				r.Eval("bad_compressed", fmt.Sprint(algo, pi, "connect-unary-500"))
				if check("bad_compressed", in, res) && res.err == nil {
					r.Fail(h.Failure{Key: "client/error-status-accepted", Family: "bad_compressed", What: "HTTP 500 reported as success", Input: in})
				}
			}
		}
	}

	// ---- unary Connect: a non-200 response whose JSON error body is compressed with an encoding
	// the client knows (a gateway or another implementation compressing every body): the error
	// is the one in the body, as it is for the same body sent uncompressed ----
	for si, status := range []int{400, 404, 409, 429, 500, 503} {
		for bi, body := range []string{`{"code":"not_found","message":"gone"}`, `{"code":"resource_exhausted","message":"slow down"}`, `{"code":"aborted"}`,
			`{"code":"unauthenticated","message":"who are you","details":[]}`, `{"message":"no code"}`, `not json`} {
			if !r.Thorough() && (si+bi)%2 != 0 {
				continue
			}
			var zb bytes.Buffer
			zw := gzip.NewWriter(&zb)
			_, _ = zw.Write([]byte(body))
			_ = zw.Close()
			cfg := envCfg{Proto: "connect"}
			call := func(enc string, b []byte) callResult {
				hdr := http.Header{"Content-Type": {"application/json"}}
				if enc != "" {
					hdr.Set("Content-Encoding", enc)
				}
				return doCall(cfg, "unary", func() *http.Response {
					return h.NewResponse(status, hdr.Clone(), h.NewChunkBody([][]byte{b}, h.FinCleanEOF), nil)
				})
			}
			plain := call("", []byte(body))
			zipped := call("gzip", zb.Bytes())
			in := map[string]any{"proto": "connect", "kind": "unary", "status": status, "body": body, "content_encoding": "gzip", "body_hex": h.Hex(zb.Bytes())}
			r.Eval("unary_connect_compressed_error", fmt.Sprint(status, body))
			if !check("unary_connect_compressed_error", in, zipped) {
				continue
			}
			r.Sample("unary_connect_compressed_error", map[string]any{"in": in, "error": fmt.Sprint(zipped.err), "error_of_the_uncompressed_body": fmt.Sprint(plain.err)})
			r.Case("unary_connect_compressed_error", fmt.Sprintf("UnaryConnect %d true %s %s", status, jwireOf([]byte(body)), coqOptCode(zipped.err)),
				map[string]any{"in": in, "impl_error": fmt.Sprint(zipped.err)})
			if zipped.err == nil || plain.err == nil || connect.CodeOf(zipped.err) != connect.CodeOf(plain.err) || zipped.err.Error() != plain.err.Error() {
				r.Fail(h.Failure{Key: "client/compressed-error-body", Family: "unary_connect_compressed_error", What: "the error read from a compressed error body differs from the error read from the same body uncompressed",
					Input: in, Expected: fmt.Sprint(plain.err), Actual: fmt.Sprint(zipped.err)})
			}
		}
	}

	// ---- what a safely failed response leaves behind: after compressed responses that the client
	// refuses (corrupt; inflating beyond its read limit), overlapping calls through the same client
	// each get their own message - no panic, no foreign or empty message ----
	for round := 0; round < r.N(4, 24); round++ {
		bomb := []byte{255, 'x', 255, 'y'} // run-length pairs: 4 wire bytes, 510 bytes inflated, limit 256
		bomb2 := []byte{255, 'x', 2, 'y'}
		corrupt := []byte{3, 'a', 7}
		triggers := [][][]byte{{bomb}, {corrupt}, {bomb2, corrupt}, {bomb, bomb, corrupt}}[round%4]
		probs, wrong, first := clientDecompressorSharing(triggers, 16, 10)
		in := map[string]any{"first": []string{"a response that inflates beyond the client's read limit", "a corrupt compressed response", "one of each", "two oversize responses and a corrupt one"}[round%4] + " (each call fails safely)", "then": "16 goroutines x 10 calls on the same client, each answered with the compressed echo of its request"}
		r.Eval("after_refused_compressed_response", fmt.Sprint(round))
		r.Sample("after_refused_compressed_response", map[string]any{"in": in, "calls_with_a_wrong_result": wrong, "tracker_findings": len(probs)})
		for _, pr := range probs {
			r.Fail(h.Failure{Key: "client/pooled-decompressor-shared", Family: "after_refused_compressed_response", What: pr, Input: in})
		}
		if wrong > 0 {
			r.Fail(h.Failure{Key: "client/wrong-result-after-refusal", Family: "after_refused_compressed_response", What: fmt.Sprintf("%d call(s) panicked, failed, or returned a message that is not theirs", wrong), Input: in, Actual: first})
		}
	}

	// ---- Grpc-Message values, well-formed or not, in trailers first (a panic there is
	// recovered on the caller's goroutine), then in headers (decoded on the request
	// goroutine: only tried for values the trailer placement survived) ----
	msgs := []string{"", "plain", "100%", "%", "%4", "%41", "%41%", "%%%", "%%", "a%zz", "%zz%zz", "%e9", "%E9%", "disk 95%25 full, quota 100%",
		"%25%", "%2", "ok%20ok%", "%41%4", "\xe9", "tab\there", "%00", "%0", "%C3%A9", "%c3%a9%", "%%41", "%4%41"}
	mr := rng.Fork("grpc_message")
	for i := 0; i < r.N(80, 1500); i++ {
		n := 1 + mr.Intn(12)
		b := make([]byte, n)
		for j := range b {
			switch mr.Intn(4) {
			case 0:
				b[j] = '%'
			case 1:
				b[j] = "0123456789abcdefABCDEFgz"[mr.Intn(24)]
			default:
				b[j] = byte(0x20 + mr.Intn(0x5f))
			}
		}
		msgs = append(msgs, string(b))
	}
	for _, m := range msgs {
		survived := true
		for _, web := range []bool{false, true} {
			cfg := envCfg{Proto: "grpc"}
			if web {
				cfg.Proto = "grpcweb"
			}
			hdr, _, _ := responseParts(cfg)
			trailer := http.Header{}
			body := h.Frame(0, []byte("m"))
			if web {
				body = append(body, h.Frame(0x80, []byte("grpc-message: "+m+"\r\ngrpc-status: 5\r\n"))...)
			} else {
				trailer["Grpc-Message"] = []string{m}
				trailer["Grpc-Status"] = []string{"5"}
			}
			for _, kind := range []string{"server", "unary"} {
				res := doCall(cfg, kind, func() *http.Response {
					return h.NewResponse(200, hdr.Clone(), h.NewChunkBody([][]byte{body}, h.FinCleanEOF), trailer.Clone())
				})
				in := map[string]any{"proto": cfg.Proto, "kind": kind, "grpc_message": m, "grpc_message_hex": h.Hex([]byte(m)), "placement": "trailers"}
				r.Eval("grpc_message", fmt.Sprint(in))
				if !check("grpc_message", in, res) {
					survived = false
					continue
				}
				// (a unary call that got a message AND an error status reports unknown wrapping it: still a coded failure)
				if res.err == nil || (kind == "server" && connect.CodeOf(res.err) != connect.CodeNotFound) {
					r.Fail(h.Failure{Key: "client/status-lost", Family: "grpc_message", What: "grpc-status 5 with this grpc-message was not reported as not_found", Input: in, Actual: fmt.Sprint(res.err)})
				}
			}
		}
		if !survived {
			continue
		}
		for _, proto := range []string{"grpc", "grpcweb"} {
			cfg := envCfg{Proto: proto}
			hdr, _, _ := responseParts(cfg)
			hdr["Grpc-Status"] = []string{"5"}
			hdr["Grpc-Message"] = []string{m}
			res := doCall(cfg, "server", func() *http.Response {
				return h.NewResponse(200, hdr.Clone(), h.NewChunkBody(nil, h.FinCleanEOF), nil)
			})
			in := map[string]any{"proto": proto, "kind": "server", "grpc_message": m, "grpc_message_hex": h.Hex([]byte(m)), "placement": "headers"}
			r.Eval("grpc_message", fmt.Sprint(in))
			if check("grpc_message", in, res) && (res.err == nil || connect.CodeOf(res.err) != connect.CodeNotFound) {
				r.Fail(h.Failure{Key: "client/status-lost", Family: "grpc_message", What: "grpc-status 5 with this grpc-message was not reported as not_found", Input: in, Actual: fmt.Sprint(res.err)})
			}
		}
	}

	ends := []string{`{}`, `{"error":null}`, `{"error":{"code":"not_found","message":"m"}}`, `{"error":{"message":"boom"}}`, `{"error":{}}`, `{"error":{"code":""}}`, `{"error":{"code":"code_0"}}`,
		`{"error":{"code":"code_17"}}`, `{"error":{"code":"bogus"}}`, `{"error":"x"}`, `{"metadata":{"x-foo":["bar"]}}`, `{"metadata":{"X-Foo":["bar"],"x-foo":["baz"]}}`, `{"metadata":"x"}`, `not json`, ``, `[]`, `{"error":{"code":"internal"},"metadata":{"x-a":["1","2"]}}`}
	for _, e := range ends {
		cfg := envCfg{Proto: "connect"}
		hdr, _, _ := responseParts(cfg)
		body := append(h.Frame(0, []byte("m")), h.Frame(0x02, []byte(e))...)
		res := doCall(cfg, "server", func() *http.Response {
			return h.NewResponse(200, hdr.Clone(), h.NewChunkBody([][]byte{body}, h.FinCleanEOF), nil)
		})
		in := map[string]any{"proto": "connect", "kind": "server", "end_stream": e}
		r.Eval("connect_end", e)
		if !check("connect_end", in, res) {
			continue
		}
		// independent parse of the end-of-stream object
		jend := "JEndInvalid"
		var obj struct {
			Error    json.RawMessage     `json:"error"`
			Metadata map[string][]string `json:"metadata"`
		}
		if json.Unmarshal([]byte(e), &obj) == nil {
			switch {
			case len(obj.Error) == 0 || string(obj.Error) == "null":
				jend = "(JEnd None)"
			default:
				jend = "(JEnd (Some " + jwireOf(obj.Error) + "))"
			}
		}
		r.Sample("connect_end", map[string]any{"in": in, "error": fmt.Sprint(res.err)})
		r.Case("connect_end", fmt.Sprintf("ConnectEnd %s %s", jend, coqOptCode(res.err)), map[string]any{"in": in, "impl_error": fmt.Sprint(res.err)})
		// case-insensitive lookup of in-body metadata
		// two spellings of one field: both values belong to it
		if strings.Contains(e, `"X-Foo":["bar"],"x-foo":["baz"]`) && res.err == nil {
			vals := append([]string(nil), res.trailer.Values("X-Foo")...)
			sort.Strings(vals)
			if len(vals) != 2 || vals[0] != "bar" || vals[1] != "baz" {
				r.Fail(h.Failure{Key: "client/end-stream-metadata-case", Family: "connect_end", What: "one trailer field spelled in two casings in the end-of-stream metadata: not both values are visible under the field", Input: in, Expected: []string{"bar", "baz"}, Actual: vals})
			}
		}
		if strings.Contains(e, `"x-foo":["bar"]`) && res.err == nil {
			if got := res.trailer.Get("X-Foo"); got != "bar" {
				r.Fail(h.Failure{Key: "client/end-stream-metadata-case", Family: "connect_end", What: "trailer sent with a lower-case key in the end-of-stream metadata is invisible to Header.Get", Input: in, Expected: "bar", Actual: got})
			}
		}
	}
	// gRPC-Web trailer block with odd casing
	{
		cfg := envCfg{Proto: "grpcweb"}
		hdr, _, _ := responseParts(cfg)
		body := append(h.Frame(0, []byte("m")), h.Frame(0x80, []byte("GRPC-STATUS: 0\r\nx-foo: bar\r\nX-fOO: baz\r\n"))...)
		res := doCall(cfg, "server", func() *http.Response {
			return h.NewResponse(200, hdr.Clone(), h.NewChunkBody([][]byte{body}, h.FinCleanEOF), nil)
		})
		r.Eval("web_trailer_case", "mixed")
		if check("web_trailer_case", "mixed-case trailer block", res) {
			if res.err != nil || len(res.trailer.Values("X-Foo")) != 2 {
				r.Fail(h.Failure{Key: "client/web-trailer-case", Family: "web_trailer_case", What: "gRPC-Web trailer block with non-canonical key casing is not looked up case-insensitively", Input: "GRPC-STATUS / x-foo / X-fOO", Actual: fmt.Sprint(res.err, res.trailer)})
			}
		}
	}
	// canonical key model vs net/http
	for i := 0; i < r.N(200, 2000); i++ {
		n := 1 + rng.Intn(12)
		alpha := "abcXYZ019-"
		b := make([]byte, n)
		for j := range b {
			b[j] = alpha[rng.Intn(len(alpha))]
		}
		k := string(b)
		r.Eval("canon_key", k)
		r.Case("canon_key", fmt.Sprintf("CanonKey %s %s", h.CoqStr(k), h.CoqStr(http.CanonicalHeaderKey(k))), map[string]any{"key": k, "go": http.CanonicalHeaderKey(k)})
	}

	// ---- random responses: all kinds ----
	reserved := []string{"Grpc-Status", "Grpc-Message", "Grpc-Status-Details-Bin", "Grpc-Encoding", "Content-Encoding", "Connect-Content-Encoding", "Content-Type", "Trailer-X", "Grpc-Accept-Encoding", "X-Custom"}
	values := []string{"", "0", "00", "1", "17", "-1", "x", "gzip", "identity", "zstd", "application/json", "application/grpc", "application/connect+toy", "%zz", "AA==", "!!", "4294967296"}
	for i := 0; i < r.N(400, 6000); i++ {
		cfg := envCfg{Proto: []string{"connect", "grpc", "grpcweb"}[rng.Intn(3)]}
		kind := []string{"unary", "client", "server", "bidi"}[rng.Intn(4)]
		status := []int{200, 200, 200, 204, 301, 400, 403, 404, 500, 503, 100 + rng.Intn(500)}[rng.Intn(11)]
		hdr, trailer := http.Header{}, http.Header{}
		if rng.Intn(3) != 0 {
			hdr.Set("Content-Type", cfg.contentType(kind == "unary"))
		}
		for k := rng.Intn(4); k > 0; k-- {
			hdr[reserved[rng.Intn(len(reserved))]] = []string{values[rng.Intn(len(values))]}
		}
		for k := rng.Intn(3); k > 0; k-- {
			trailer[reserved[rng.Intn(len(reserved))]] = []string{values[rng.Intn(len(values))]}
		}
		var body []byte
		switch rng.Intn(5) {
		case 0:
			body = rng.Bytes(rng.Intn(40))
		case 1:
			body, _, _, _ = genBody(rng, cfg, rng.Intn(3), true, true)
		case 2:
			b, _, _, _ := genBody(rng, cfg, rng.Intn(3), false, true)
			_, term, _ := responseParts(cfg)
			body = append(b, term...)
		case 3:
			body = []byte(bodies[rng.Intn(len(bodies))])
		}
		if declaredTooLarge(body, 0) {
			continue
		}
		fin := []h.FinKind{h.FinCleanEOF, h.FinCleanEOF, h.FinUnexpectedEOF, h.FinOther}[rng.Intn(4)]
		res := doCall(cfg, kind, func() *http.Response {
			return h.NewResponse(status, hdr.Clone(), h.NewChunkBody([][]byte{body}, fin), trailer.Clone())
		})
		in := map[string]any{"proto": cfg.Proto, "kind": kind, "status": status, "header": hdr, "trailer": trailer, "body_hex": h.Hex(body), "fin": fin.Coq()}
		r.Eval("random_response", fmt.Sprint(in))
		check("random_response", in, res)
		if i < 3 {
			r.Sample("random_response", map[string]any{"in": in, "error": fmt.Sprint(res.err)})
		}
	}
}

func tsIsErr(st string) bool {
	// headers carrying a grpc-status that the validate step turns into an error
	return st != "" && st != "0" && st != "00" && st != "000"
}
