package props

import (
	"bytes"
	"compress/gzip"
	"context"
	"encoding/json"
	"errors"
	"fmt"
	"google.golang.org/protobuf/types/known/wrapperspb"
	"io"
	"net/http/httptest"
	"strings"
	"time"

	connect "github.com/bufbuild/connect-go"
	"github.com/bufbuild/connect-go/verifharness/internal/h"
)

// C07 — whatever a client sends.
func C07(r *h.Run) {
	r.Model("c07case", "c07_ok")
	r.Sum.Rule = "crafted *http.Request values at ServeHTTP with a recording writer: a structured-valid stream and a malformed stream (method, HTTP version, Content-Type near misses, timeout headers with boundary values, request/accept encodings known and unknown, bodies with bad flags, length lies, truncation, garbage, compressed flag without encoding, undecodable payloads, oversize messages, transport failures) x 4 RPC kinds x {no read limit, limit}; counters in user code. Oracle: no panic, returns within the watchdog, at most one invocation, only decodable messages reach user code, documented codes; every response where a protocol was selected is parsed by the Coq spec reader. distinct = distinct request"
	rng := r.Rng.Fork("c07")
	r.OracleFamily("wellformed", "the response to this request is not well-formed for the selected protocol under the strictly spec-following reader (SpecWire.v)")
	protos := []string{"connect", "grpc", "grpcweb"}
	kinds := []string{"unary", "client", "server", "bidi"}
	timeouts := []string{"", "", "", "5000", "1", "0", "abc", "-5", "99999999999", "5S", "1n", "5s", "S", "100000000n", "+5S",
		"00000005000", "00000000000000060000", "09999999999", "+0000060000", "1.5", "1h30", "0000000000", "9999999999"}
	// (names are matched exactly: a registered name in another letter case, or with blanks, is unknown)
	sents := []string{"", "", "", "", "identity", "identity", "tagA", "tagA", "rle", "rle", "zstd", "zstd", "gzip", "gzip", "GZIP", "Gzip", "TagA", "TAGA", "Rle", "Identity", "gzip ", "tagA,gzip"}
	accepts := []string{"", "tagA", "gzip,tagA", "zstd", "identity"}

	c07GzipTruncated(r, rng.Fork("gzip-truncated"))
	c07NilCompression(r)
	c07ReceiveAfterFailure(r)
	c07RepeatedHeaders(r)
	// what a refused request leaves behind: after compressed requests that are refused in each way
	// Decompress can fail (corrupt stream; inflates beyond the read limit), overlapping VALID
	// requests on the same handler are each served with their own message
	for round := 0; round < r.N(4, 24); round++ {
		bomb := []byte{255, 'x', 255, 'y'} // run-length pairs: 4 wire bytes, 510 bytes inflated, limit 256
		bomb2 := []byte{255, 'x', 2, 'y'}
		corrupt := []byte{3, 'a', 7} // dangling count: fails while it is read
		triggers := [][][]byte{{corrupt}, {bomb}, {bomb2, corrupt}, {corrupt, corrupt, bomb}}[round%4]
		probs, wrong, first := decompressorSharingAlgo("rle", triggers, 16, 10)
		in := map[string]any{"first": []string{"a corrupt compressed request", "a request that inflates beyond the read limit", "one of each", "two corrupt requests and an oversize one"}[round%4] + " (each refused with invalid_argument)", "then": "16 goroutines x 10 valid compressed unary requests on the same handler"}
		r.Eval("after_refused_compressed", fmt.Sprint(round))
		r.Sample("after_refused_compressed", map[string]any{"in": in, "calls_with_a_wrong_answer": wrong, "tracker_findings": len(probs)})
		for _, pr := range probs {
			r.Fail(h.Failure{Key: "serve/pooled-decompressor-shared", Family: "after_refused_compressed", What: pr, Input: in})
		}
		if wrong > 0 {
			r.Fail(h.Failure{Key: "serve/wrong-message-served", Family: "after_refused_compressed", What: fmt.Sprintf("%d valid request(s) were not answered with the echo of their own message (user code ran on another message, or on none)", wrong), Input: in, Actual: first})
		}
	}
	c07InvalidUTF8JSON(r)
	for i := 0; i < r.N(700, 9000); i++ {
		proto := protos[rng.Intn(3)]
		kind := kinds[rng.Intn(4)]
		ki := map[string]int{"unary": 0, "client": 1, "server": 2, "bidi": 3}[kind]
		cfg := envCfg{Proto: proto}
		if rng.Intn(3) == 0 {
			cfg.Max = []int{7, 16, 512}[rng.Intn(3)]
		}
		unary := kind == "unary"
		// ---- request ----
		method := "POST"
		if rng.Intn(12) == 0 {
			method = []string{"GET", "PUT", "OPTIONS", "post"}[rng.Intn(4)]
		}
		major, minor := 2, 0
		if rng.Intn(6) == 0 {
			major, minor = 1, 1
		}
		ct := cfg.contentType(unary)
		if rng.Intn(10) == 0 {
			ct = []string{"", "text/plain", ct + "x", strings.ToUpper(ct), "application/grpc", "application/json", "application/proto",
				ct + "; charset=utf-8", ct + ";", ct + " ", " " + ct, ct + ",", strings.ToUpper(ct[:1]) + ct[1:]}[rng.Intn(13)]
		}
		th := timeouts[rng.Intn(len(timeouts))]
		if th != "" && proto != "connect" && rng.Intn(2) == 0 {
			th = []string{"5S", "1n", "99999999H", "5s", "S", "+5S", "100000000n", "12345678m", ""}[rng.Intn(9)]
		}
		if unary && (th == "1" || th == "1n") {
			th = map[string]string{"1": "5000", "1n": "5S"}[th] // a positive timeout that expires while serving would race with the ctx check
		}
		sent := sents[rng.Intn(len(sents))]
		accept := accepts[rng.Intn(len(accepts))]
		cfg.Algo = ""
		if sent == "tagA" || sent == "rle" {
			cfg.Algo = sent
		}
		malformed := rng.Intn(2) == 0
		var body []byte
		var what string
		if unary && proto == "connect" {
			p := genPayload(rng, []int{0, 1, 5, 20, 600}[rng.Intn(5)])
			if malformed && rng.Intn(3) == 0 && len(p) > 0 {
				p[0] = 0xFF
				what = "undecodable payload"
			}
			body = compressToy(cfg.Algo, p)
			if malformed && rng.Intn(4) == 0 {
				body = rng.Bytes(rng.Intn(12))
				what = "garbage"
			}
		} else {
			body, _, _, what = genBody(rng, cfg, 1+rng.Intn(2), malformed, rng.Bool())
		}
		if declaredTooLarge(body, cfg.Max) {
			continue
		}
		fin := []h.FinKind{h.FinCleanEOF, h.FinCleanEOF, h.FinCleanEOF, h.FinUnexpectedEOF, h.FinOther}[rng.Intn(5)]
		var chunks [][]byte
		if len(body) > 2 && rng.Bool() {
			chunks = h.SplitAt(body, []int{1 + rng.Intn(len(body)-1)})
		} else {
			chunks = [][]byte{body}
		}
		var userErr error
		userCoq := "None"
		if rng.Intn(4) == 0 {
			c := connect.Code(1 + rng.Intn(16))
			userErr = connect.NewError(c, errors.New("user"))
			userCoq = fmt.Sprintf("(Some %d)", uint32(c))
		}
		// ---- handler ----
		calls := 0
		var got [][]byte
		hopts := cfg.handlerOpts()
		var handler *connect.Handler
		switch kind {
		case "unary":
			handler = connect.NewUnaryHandler("/verif.Svc/M", func(_ context.Context, req *connect.Request[h.Raw]) (*connect.Response[h.Raw], error) {
				calls++
				got = append(got, append([]byte(nil), req.Msg.B...))
				if userErr != nil {
					return nil, userErr
				}
				return connect.NewResponse(&h.Raw{B: []byte("ok")}), nil
			}, hopts...)
		case "client":
			handler = connect.NewClientStreamHandler("/verif.Svc/M", func(_ context.Context, s *connect.ClientStream[h.Raw]) (*connect.Response[h.Raw], error) {
				calls++
				for s.Receive() {
					got = append(got, append([]byte(nil), s.Msg().B...))
				}
				if err := s.Err(); err != nil {
					return nil, err
				}
				if userErr != nil {
					return nil, userErr
				}
				return connect.NewResponse(&h.Raw{B: []byte("ok")}), nil
			}, hopts...)
		case "server":
			handler = connect.NewServerStreamHandler("/verif.Svc/M", func(_ context.Context, req *connect.Request[h.Raw], s *connect.ServerStream[h.Raw]) error {
				calls++
				got = append(got, append([]byte(nil), req.Msg.B...))
				_ = s.Send(&h.Raw{B: []byte("one")})
				return userErr
			}, hopts...)
		default:
			handler = connect.NewBidiStreamHandler("/verif.Svc/M", func(_ context.Context, s *connect.BidiStream[h.Raw, h.Raw]) error {
				calls++
				for {
					m, err := s.Receive()
					if err != nil {
						if errors.Is(err, io.EOF) {
							break
						}
						return err
					}
					got = append(got, append([]byte(nil), m.B...))
				}
				_ = s.Send(&h.Raw{B: []byte("one")})
				return userErr
			}, hopts...)
		}
		req := httptest.NewRequest("POST", "/verif.Svc/M", nil)
		req.Method = method
		req.ProtoMajor, req.ProtoMinor = major, minor
		req.Body = h.NewChunkBody(chunks, fin)
		req.Header["Content-Type"] = []string{ct}
		thName := "Connect-Timeout-Ms"
		if proto != "connect" {
			thName = "Grpc-Timeout"
		}
		if th != "" {
			req.Header[thName] = []string{th}
		}
		if sent != "" {
			req.Header[cfg.encodingHeader(unary)] = []string{sent}
		}
		accName := "Grpc-Accept-Encoding"
		if proto == "connect" {
			accName = "Connect-Accept-Encoding"
			if unary {
				accName = "Accept-Encoding"
			}
		}
		if accept != "" {
			req.Header[accName] = []string{accept}
		}
		rec := httptest.NewRecorder()
		timedOut, p := withWatchdog(5*time.Second, func() { handler.ServeHTTP(rec, req) })
		in := map[string]any{"proto": proto, "kind": kind, "limit": cfg.Max, "method": method, "http_major": major, "content_type": ct, "timeout": th,
			"request_encoding": sent, "accept_encoding": accept, "body_hex": h.Hex(body), "chunk_sizes": chunkSizes(chunks), "fin": fin.Coq(), "what": what}
		r.Eval("serve", fmt.Sprint(i))
		if timedOut || p != nil {
			r.Fail(h.Failure{Key: "serve/hang-or-panic", Family: "serve", What: fmt.Sprint("hang or panic: ", p, " timeout=", timedOut), Input: in})
			continue
		}
		if calls > 1 {
			r.Fail(h.Failure{Key: "serve/ran-twice", Family: "serve", What: "user code ran more than once", Input: in, Actual: calls})
		}
		for _, m := range got {
			if len(m) > 0 && m[0] == 0xFF {
				r.Fail(h.Failure{Key: "serve/undecodable-delivered", Family: "serve", What: "user code received a message that does not decode", Input: in, Actual: h.Hex(m)})
			}
			if cfg.Max > 0 && len(m) > cfg.Max {
				r.Fail(h.Failure{Key: "serve/oversize-delivered", Family: "serve", What: "user code received a message beyond the read limit", Input: in, Actual: len(m)})
			}
		}
		if !(unary && proto == "connect") {
			// enveloped request: user code cannot have received more messages than
			// the body holds data frames (flags 0 or 1) before its first special or
			// malformed frame
			dataFrames, rest := 0, body
			for len(rest) >= 5 && (rest[0] == 0 || rest[0] == 1) {
				n := int(rest[1])<<24 | int(rest[2])<<16 | int(rest[3])<<8 | int(rest[4])
				if n < 0 || len(rest)-5 < n {
					break
				}
				dataFrames++
				rest = rest[5+n:]
			}
			if len(got) > dataFrames {
				r.Fail(h.Failure{Key: "serve/phantom-message", Family: "serve", What: fmt.Sprintf("user code received %d message(s) but the request holds only %d data frame(s) before its first special or malformed frame", len(got), dataFrames), Input: in})
			}
		}
		status := rec.Code
		bare := status == 505 || status == 405 || status == 415
		advertised := map[string]bool{}
		for _, n := range []string{"proto", "json", "toy"} {
			if unary {
				advertised["application/"+n] = true
			} else {
				advertised["application/connect+"+n] = true
			}
			advertised["application/grpc+"+n], advertised["application/grpc-web+"+n] = true, true
		}
		advertised["application/grpc"], advertised["application/grpc-web"] = true, true
		selected := method == "POST" && advertised[ct] && !(kind == "bidi" && major < 2)
		if bare != !selected {
			r.Fail(h.Failure{Key: "serve/dispatch", Family: "serve", What: "bare 405/415/505 exactly when no protocol is selected", Input: in, Actual: status})
			continue
		}
		if bare {
			if calls != 0 || rec.Body.Len() != 0 {
				r.Fail(h.Failure{Key: "serve/bare-not-bare", Family: "serve", What: "rejected request ran user code or produced a body", Input: in})
			}
		}
		peerKind := kind
		if kind == "client" || kind == "bidi" {
			peerKind = "server"
		}
		selProto := proto
		switch {
		case strings.HasPrefix(ct, "application/grpc-web"):
			selProto = "grpcweb"
		case strings.HasPrefix(ct, "application/grpc"):
			selProto = "grpc"
		case selected:
			selProto = "connect"
		}
		selUnary := unary && selProto == "connect"
		if selUnary {
			peerKind = "unary"
		} else if peerKind == "unary" {
			peerKind = "server"
		}
		code, _ := "", ""
		if selected {
			code, _ = peerError(selProto, peerKind, rec)
		}
		// documented codes
		hasAlgo := sent == "" || sent == "identity" || sent == "gzip" || sent == "tagA" || sent == "tagB" || sent == "rle"
		if selected && !hasAlgo && selProto == proto {
			if code != "unimplemented" || calls != 0 {
				r.Fail(h.Failure{Key: "serve/unknown-compression", Family: "serve", What: "unknown request compression not rejected as unimplemented before user code", Input: in, Actual: fmt.Sprint(code, " calls=", calls)})
			}
		} else if selected && th != "" && selProto == proto && timeoutInvalid(selProto, th) {
			if code != "invalid_argument" || calls != 0 {
				r.Fail(h.Failure{Key: "serve/invalid-timeout", Family: "serve", What: "invalid timeout not rejected as invalid_argument before user code", Input: in, Actual: fmt.Sprint(code, " calls=", calls)})
			}
		}
		if selected && calls == 0 && code == "" {
			r.Fail(h.Failure{Key: "serve/silent-success", Family: "serve", What: "user code did not run and yet the peer sees success", Input: in})
		}
		if i < 12 {
			r.Sample("serve", map[string]any{"in": in, "status": status, "peer_code": code, "user_calls": calls})
		}
		// ---- model: ServeCase for unary and server-streaming kinds under the protocol the request names ----
		// (only when the request names the toy codec, which is the codec the model instantiates, or is rejected outright)
		if (kind == "unary" || kind == "server") && len(body) < 1500 && selProto == proto && (bare || ct == cfg.contentType(unary)) {
			names := []string{h.CoqStr("proto"), h.CoqStr("json"), h.CoqStr("toy")}
			regs := []string{h.CoqStr("gzip"), h.CoqStr("tagA"), h.CoqStr("tagB"), h.CoqStr("rle")}
			bareN := 0
			if bare {
				bareN = status
			}
			pc := "None"
			if code != "" {
				var c connect.Code
				if err := c.UnmarshalText([]byte(code)); err == nil {
					pc = fmt.Sprintf("(Some %d)", uint32(c))
				} else {
					pc = "(Some 999)"
				}
			}
			if sent == "gzip" {
				// gzip is not modelled in Coq: skip the model case
			} else {
				r.Case("serve", fmt.Sprintf("ServeCase %s %s %d %d %d %s %s %s %s %s %s %s %s (SObs %d %s %d)", h.CoqList(names), h.CoqList(regs), ki, cfg.Max, major,
					h.CoqStr(method), h.CoqStr(ct), h.CoqStr(th), h.CoqStr(sent), h.CoqStr(accept), h.CoqBytesList(chunks), fin.Coq(), userCoq, bareN, pc, calls),
					map[string]any{"in": in, "impl_status": status, "impl_peer_code": code, "impl_user_calls": calls})
			}
		}
		// ---- spec well-formedness of the response ----
		if selected {
			hdr, trailer := splitTrailers(rec)
			raw := rec.Body.Bytes()
			k, js := "WGrpc", "JNoError"
			switch {
			case selUnary:
				k = "WConnectUnary"
				if status != 200 {
					js = jsumOf(raw, false)
				}
			case selProto == "connect":
				k = "WConnectStream"
				if fl, pay, ok := lastFrameFlags(raw); ok && fl&0x02 != 0 {
					js = jsumOf(toyInflate(hdr.Get("Connect-Content-Encoding"), fl, pay), true)
				}
			case selProto == "grpcweb":
				k = "WGrpcWeb"
			}
			r.Case("wellformed", fmt.Sprintf("WellFormed %s %s %d %s %s %s %s", k, h.CoqStr(ct), status, coqHeaderAll(hdr, ""), coqHeaderAll(trailer, ""), h.CoqBytes(raw), js),
				map[string]any{"in": in, "impl_status": status, "impl_header": hdr, "impl_trailer": trailer, "impl_body_hex": h.Hex(raw)})
		}
	}
}

func timeoutInvalid(proto, th string) bool {
	if proto == "connect" {
		if len(th) > 10 {
			return true
		}
		s := strings.TrimLeft(th, "+-")
		return !allDigits(s) || len(th)-len(s) > 1
	}
	if len(th) < 1 {
		return false
	}
	if _, ok := unitSize(th[len(th)-1]); !ok {
		return true
	}
	num := th[:len(th)-1]
	if strings.HasPrefix(num, "-") && strings.Trim(num, "-0") != "" {
		return true // negative
	}
	s := strings.TrimLeft(num, "+-")
	if !allDigits(s) || len(num)-len(s) > 1 {
		return true
	}
	return len(strings.TrimLeft(s, "0")) > 8
}

// c07GzipTruncated: a message compressed with the real gzip whose stream has lost the last
// 1..8 bytes (its CRC-32 / length trailer) is not a message that decoded successfully: user code
// must not receive it and the peer must see invalid_argument. The complete stream (cut 0) is the
// control: it must be delivered.
func c07GzipTruncated(r *h.Run, rng *h.Rng) {
	for _, proto := range []string{"connect", "grpc", "grpcweb"} {
		for _, kind := range []string{"unary", "client", "server", "bidi"} {
			// cut -1: the complete stream in a frame flagged compressed, but the request names NO
			// encoding (or identity) — it merely ACCEPTS gzip for the response
			for _, cut := range []int{0, 1, 4, 7, 8, -1, -2} {
				payload := genPayload(rng, 20+rng.Intn(200))
				var zb bytes.Buffer
				zw := gzip.NewWriter(&zb)
				_, _ = zw.Write(payload)
				_ = zw.Close()
				undeclared := cut < 0
				declared := "gzip"
				if undeclared {
					declared = map[int]string{-1: "", -2: "identity"}[cut]
					cut = 0
				}
				wire := zb.Bytes()[:zb.Len()-cut]
				cfg := envCfg{Proto: proto}
				unary := kind == "unary"
				if undeclared && unary && proto == "connect" {
					continue // (no envelope flag there: the body would simply be an undecodable message)
				}
				body := h.Frame(1, wire)
				if unary && proto == "connect" {
					body = wire
				}
				calls := 0
				var got [][]byte
				hopts := []connect.HandlerOption{connect.WithCodec(h.ToyCodec{})}
				var handler *connect.Handler
				switch kind {
				case "unary":
					handler = connect.NewUnaryHandler("/verif.Svc/M", func(_ context.Context, req *connect.Request[h.Raw]) (*connect.Response[h.Raw], error) {
						calls++
						got = append(got, append([]byte(nil), req.Msg.B...))
						return connect.NewResponse(&h.Raw{B: []byte("ok")}), nil
					}, hopts...)
				case "client":
					handler = connect.NewClientStreamHandler("/verif.Svc/M", func(_ context.Context, s *connect.ClientStream[h.Raw]) (*connect.Response[h.Raw], error) {
						calls++
						for s.Receive() {
							got = append(got, append([]byte(nil), s.Msg().B...))
						}
						if err := s.Err(); err != nil {
							return nil, err
						}
						return connect.NewResponse(&h.Raw{B: []byte("ok")}), nil
					}, hopts...)
				case "server":
					handler = connect.NewServerStreamHandler("/verif.Svc/M", func(_ context.Context, req *connect.Request[h.Raw], s *connect.ServerStream[h.Raw]) error {
						calls++
						got = append(got, append([]byte(nil), req.Msg.B...))
						return s.Send(&h.Raw{B: []byte("one")})
					}, hopts...)
				default:
					handler = connect.NewBidiStreamHandler("/verif.Svc/M", func(_ context.Context, s *connect.BidiStream[h.Raw, h.Raw]) error {
						calls++
						for {
							m, err := s.Receive()
							if err != nil {
								if errors.Is(err, io.EOF) {
									break
								}
								return err
							}
							got = append(got, append([]byte(nil), m.B...))
						}
						return s.Send(&h.Raw{B: []byte("one")})
					}, hopts...)
				}
				req := httptest.NewRequest("POST", "/verif.Svc/M", nil)
				req.ProtoMajor, req.ProtoMinor = 2, 0
				req.Body = h.NewChunkBody([][]byte{body}, h.FinCleanEOF)
				req.Header.Set("Content-Type", cfg.contentType(unary))
				if declared != "" {
					req.Header.Set(cfg.encodingHeader(unary), declared)
				}
				if undeclared {
					req.Header.Set(map[bool]string{true: "Connect-Accept-Encoding", false: "Grpc-Accept-Encoding"}[proto == "connect"], "gzip")
				}
				rec := httptest.NewRecorder()
				timedOut, p := withWatchdog(5*time.Second, func() { handler.ServeHTTP(rec, req) })
				in := map[string]any{"proto": proto, "kind": kind, "request_encoding": declared, "accepts_gzip_for_the_response": undeclared, "frame_flagged_compressed": true, "gzip_stream_bytes_removed_from_end": cut, "message_bytes": len(payload), "body_hex": h.Hex(body)}
				r.Eval("gzip_truncated", fmt.Sprint(proto, kind, cut))
				if timedOut || p != nil {
					r.Fail(h.Failure{Key: "serve/hang-or-panic", Family: "gzip_truncated", What: fmt.Sprint("hang or panic: ", p, " timeout=", timedOut), Input: in})
					continue
				}
				peerKind := "server"
				if unary && proto == "connect" {
					peerKind = "unary"
				}
				code, _ := peerError(proto, peerKind, rec)
				r.Sample("gzip_truncated", map[string]any{"in": in, "peer_code": code, "user_calls": calls, "delivered": len(got)})
				if undeclared {
					if len(got) != 0 || code != "invalid_argument" {
						r.Fail(h.Failure{Key: "serve/compressed-without-encoding-accepted", Family: "gzip_truncated", What: "a frame flagged compressed in a request that names no encoding was inflated and served (the request merely accepts gzip responses)", Input: in, Actual: fmt.Sprint(code, " delivered=", len(got))})
					}
					continue
				}
				if cut == 0 {
					if len(got) != 1 || !bytes.Equal(got[0], payload) || code != "" {
						r.Fail(h.Failure{Key: "serve/valid-compressed-refused", Family: "gzip_truncated", What: "a message compressed with a complete gzip stream was not delivered intact", Input: in, Actual: fmt.Sprint(code, " delivered=", len(got))})
					}
					continue
				}
				if len(got) != 0 {
					r.Fail(h.Failure{Key: "serve/undecodable-delivered", Family: "gzip_truncated", What: "user code received a message whose gzip stream is incomplete (checksum trailer missing)", Input: in, Actual: hexList(got)})
				}
				if code != "invalid_argument" {
					r.Fail(h.Failure{Key: "serve/undecodable-not-invalid-argument", Family: "gzip_truncated", What: "an incomplete gzip stream did not reach the peer as invalid_argument", Input: in, Actual: code})
				}
			}
		}
	}
}

// c07NilCompression: a handler configured with WithCompression(name, nil, nil) — documented as
// a no-op — serves every request as a handler without that option would: no panic, gzip (the
// default) still works, an unregistered name is still refused as unimplemented.
func c07NilCompression(r *h.Run) {
	var zb bytes.Buffer
	zw := gzip.NewWriter(&zb)
	_, _ = zw.Write([]byte("payload"))
	_ = zw.Close()
	for _, name := range []string{"gzip", "br"} {
		for _, proto := range []string{"connect", "grpc", "grpcweb"} {
			for _, mode := range []string{"request compressed with it", "response asked in it", "neither"} {
				cfg := envCfg{Proto: proto}
				calls := 0
				var got []byte
				handler := connect.NewUnaryHandler("/verif.Svc/M", func(_ context.Context, req *connect.Request[h.Raw]) (*connect.Response[h.Raw], error) {
					calls++
					got = append([]byte(nil), req.Msg.B...)
					return connect.NewResponse(&h.Raw{B: bytes.Repeat([]byte("r"), 64)}), nil
				}, connect.WithCodec(h.ToyCodec{}), connect.WithCompression(name, nil, nil))
				unary := proto == "connect"
				wire, flag := []byte("payload"), byte(0)
				if mode == "request compressed with it" {
					wire, flag = zb.Bytes(), 1
				}
				body := wire
				if !unary {
					body = h.Frame(flag, wire)
				}
				req := httptest.NewRequest("POST", "/verif.Svc/M", bytes.NewReader(body))
				req.Header.Set("Content-Type", cfg.contentType(unary))
				switch mode {
				case "request compressed with it":
					req.Header.Set(cfg.encodingHeader(unary), name)
				case "response asked in it":
					acc := "Grpc-Accept-Encoding"
					if unary {
						acc = "Accept-Encoding"
					}
					req.Header.Set(acc, name)
				}
				rec := httptest.NewRecorder()
				timedOut, p := withWatchdog(5*time.Second, func() { handler.ServeHTTP(rec, req) })
				in := map[string]any{"proto": proto, "kind": "unary", "handler_option": fmt.Sprintf("WithCompression(%q, nil, nil)", name), "request": mode}
				r.Eval("nil_compression", fmt.Sprint(name, proto, mode))
				if timedOut || p != nil {
					r.Fail(h.Failure{Key: "serve/hang-or-panic", Family: "nil_compression", What: fmt.Sprint("hang or panic: ", p, " timeout=", timedOut), Input: in})
					continue
				}
				peerKind := "server"
				if unary {
					peerKind = "unary"
				}
				code, _ := peerError(proto, peerKind, rec)
				r.Sample("nil_compression", map[string]any{"in": in, "peer_code": code, "user_calls": calls})
				switch {
				case name == "br" && mode == "request compressed with it":
					if code != "unimplemented" || calls != 0 {
						r.Fail(h.Failure{Key: "serve/unknown-compression", Family: "nil_compression", What: "unknown request compression not rejected as unimplemented before user code", Input: in, Actual: fmt.Sprint(code, " calls=", calls)})
					}
				default:
					if code != "" || calls != 1 || !bytes.Equal(got, []byte("payload")) {
						r.Fail(h.Failure{Key: "serve/no-op-option-changed-behaviour", Family: "nil_compression", What: "the documented no-op changed how the request is served", Input: in, Actual: fmt.Sprint(code, " calls=", calls, " got=", string(got))})
					}
				}
			}
		}
	}
}

// c07ReceiveAfterFailure: a client-streaming handler that goes on calling Receive after it has
// returned false (a "drain the rest" loop before returning): nothing behind the malformed frame
// is handed to it, and the failure is what the peer sees.
func c07ReceiveAfterFailure(r *h.Run) {
	bads := map[string][]byte{
		"undecodable payload":                  h.Frame(0, []byte{0xFF, 1, 2}),
		"compressed flag without an encoding":  h.Frame(1, []byte{9, 9}),
		"message beyond the read limit":        h.Frame(0, bytes.Repeat([]byte{3}, 40)),
		"frame shorter than its prefix claims": h.FrameLie(0, 9, []byte{1, 2}),
	}
	for _, proto := range []string{"connect", "grpc", "grpcweb"} {
		for what, bad := range bads {
			cfg := envCfg{Proto: proto, Max: 16}
			var seen [][]byte
			late := 0
			var finalErr error
			handler := connect.NewClientStreamHandler("/verif.Svc/M", func(_ context.Context, s *connect.ClientStream[h.Raw]) (*connect.Response[h.Raw], error) {
				for s.Receive() {
					seen = append(seen, append([]byte(nil), s.Msg().B...))
				}
				for i := 0; i < 3; i++ { // drain: Receive keeps returning false
					if s.Receive() {
						late++
						seen = append(seen, append([]byte(nil), s.Msg().B...))
					}
				}
				finalErr = s.Err()
				if finalErr != nil {
					return nil, finalErr
				}
				return connect.NewResponse(&h.Raw{B: []byte("ok")}), nil
			}, cfg.handlerOpts()...)
			body := append(append(h.Frame(0, []byte{7}), bad...), h.Frame(0, []byte{5})...)
			req := httptest.NewRequest("POST", "/verif.Svc/M", nil)
			req.ProtoMajor, req.ProtoMinor = 2, 0
			req.Body = h.NewChunkBody([][]byte{body}, h.FinCleanEOF)
			req.Header.Set("Content-Type", cfg.contentType(false))
			rec := httptest.NewRecorder()
			timedOut, p := withWatchdog(5*time.Second, func() { handler.ServeHTTP(rec, req) })
			in := map[string]any{"proto": proto, "kind": "client", "read_limit": 16, "request": "message {07}, then: " + what + ", then message {05}", "handler": "loops on Receive; after it returned false calls it three more times; returns Err()"}
			r.Eval("receive_after_failure", fmt.Sprint(proto, what))
			if timedOut || p != nil {
				r.Fail(h.Failure{Key: "serve/hang-or-panic", Family: "receive_after_failure", What: fmt.Sprint("hang or panic: ", p), Input: in})
				continue
			}
			code, _ := peerError(proto, "server", rec)
			r.Sample("receive_after_failure", map[string]any{"in": in, "seen": hexList(seen), "late_receives_that_succeeded": late, "peer_code": code})
			if late > 0 || len(seen) != 1 || !bytes.Equal(seen[0], []byte{7}) {
				r.Fail(h.Failure{Key: "serve/undecodable-delivered", Family: "receive_after_failure", What: "after Receive had returned false a further Receive handed user code what lies behind the malformed frame", Input: in, Expected: []string{"07"}, Actual: hexList(seen)})
			}
			if finalErr == nil || code != "invalid_argument" {
				r.Fail(h.Failure{Key: "serve/silent-success", Family: "receive_after_failure", What: "the malformed request did not reach the peer as invalid_argument", Input: in, Actual: fmt.Sprint("Err()=", finalErr, " peer=", code)})
			}
		}
	}
}

// c07InvalidUTF8JSON: a JSON payload that is not even valid UTF-8 is an undecodable payload like
// any other: invalid_argument, in a response that is well-formed for the protocol (the error the
// library builds quotes the offending bytes; it must still be able to send it).
func c07InvalidUTF8JSON(r *h.Run) {
	payloads := map[string][]byte{
		"bare invalid bytes":           []byte("\xff\xfe"),
		"object with invalid bytes":    []byte("{\"value\":\xff\xfe}"),
		"string holding invalid bytes": []byte("\"ab\xffcd\""),
	}
	for _, proto := range []string{"connect", "grpc", "grpcweb"} {
		for _, kind := range []string{"unary", "client"} {
			for what, payload := range payloads {
				calls := 0
				var handler *connect.Handler
				if kind == "unary" {
					handler = connect.NewUnaryHandler("/verif.Svc/M", func(context.Context, *connect.Request[wrapperspb.StringValue]) (*connect.Response[wrapperspb.StringValue], error) {
						calls++
						return connect.NewResponse(&wrapperspb.StringValue{}), nil
					})
				} else {
					handler = connect.NewClientStreamHandler("/verif.Svc/M", func(_ context.Context, s *connect.ClientStream[wrapperspb.StringValue]) (*connect.Response[wrapperspb.StringValue], error) {
						for s.Receive() {
							calls++
						}
						if err := s.Err(); err != nil {
							return nil, err
						}
						return connect.NewResponse(&wrapperspb.StringValue{}), nil
					})
				}
				unary := kind == "unary" && proto == "connect"
				ct := map[string]string{"connect": "application/connect+json", "grpc": "application/grpc+json", "grpcweb": "application/grpc-web+json"}[proto]
				body := h.Frame(0, payload)
				if unary {
					ct, body = "application/json", payload
				}
				req := httptest.NewRequest("POST", "/verif.Svc/M", bytes.NewReader(body))
				req.ProtoMajor, req.ProtoMinor = 2, 0
				req.Header.Set("Content-Type", ct)
				rec := httptest.NewRecorder()
				timedOut, p := withWatchdog(5*time.Second, func() { handler.ServeHTTP(rec, req) })
				in := map[string]any{"proto": proto, "kind": kind, "codec": "json", "payload": what, "payload_hex": h.Hex(payload)}
				r.Eval("json_invalid_utf8", fmt.Sprint(proto, kind, what))
				if timedOut || p != nil {
					r.Fail(h.Failure{Key: "serve/hang-or-panic", Family: "json_invalid_utf8", What: fmt.Sprint("hang or panic: ", p), Input: in})
					continue
				}
				peerKind := "server"
				if unary {
					peerKind = "unary"
				}
				code, msg := peerError(proto, peerKind, rec)
				r.Sample("json_invalid_utf8", map[string]any{"in": in, "status": rec.Code, "peer_code": code, "peer_message": msg, "body_hex": h.Hex(rec.Body.Bytes())})
				if calls != 0 {
					r.Fail(h.Failure{Key: "serve/undecodable-delivered", Family: "json_invalid_utf8", What: "user code received a message from a payload that is not valid UTF-8", Input: in})
				}
				wellFormed := true
				switch {
				case unary:
					wellFormed = rec.Code != 200 && json.Valid(rec.Body.Bytes())
				case proto == "connect":
					fl, _, ok := lastFrameFlags(rec.Body.Bytes())
					wellFormed = ok && fl&0x02 != 0
				}
				if code != "invalid_argument" || !wellFormed {
					r.Fail(h.Failure{Key: "serve/undecodable-not-invalid-argument", Family: "json_invalid_utf8", What: "a JSON payload that is not valid UTF-8 did not reach the peer as invalid_argument in a well-formed response", Input: in,
						Actual: fmt.Sprintf("HTTP %d, peer code %q, body %q", rec.Code, code, rec.Body.String())})
				}
			}
		}
	}
}

// c07RepeatedHeaders: a request may carry a header field more than once (a proxy appending its
// own, a client library that adds rather than sets). The handler decides on the first value —
// and the response it writes is well-formed: one Content-Type.
func c07RepeatedHeaders(r *h.Run) {
	for _, proto := range []string{"connect", "grpc", "grpcweb"} {
		for _, kind := range []string{"unary", "server", "client"} {
			for _, second := range []string{"text/plain", "application/octet-stream", "application/json; charset=utf-8"} {
				for _, outcome := range []string{"ok", "error", "unknown-encoding"} {
					cfg := envCfg{Proto: proto}
					body := h.Frame(0, []byte("q"))
					if proto == "connect" && kind == "unary" {
						body = []byte("q")
					}
					req := httptest.NewRequest("POST", "/verif.Svc/M", bytes.NewReader(body))
					req.ProtoMajor, req.ProtoMinor = 2, 0
					ct := cfg.contentType(kind == "unary")
					req.Header["Content-Type"] = []string{ct, second}
					if outcome == "unknown-encoding" {
						req.Header.Set(cfg.encodingHeader(kind == "unary" && proto == "connect"), "zstd")
					}
					var herr error
					if outcome == "error" {
						herr = connect.NewError(connect.CodeAborted, errors.New("no"))
					}
					var handler *connect.Handler
					switch kind {
					case "unary":
						handler = connect.NewUnaryHandler("/verif.Svc/M", func(context.Context, *connect.Request[h.Raw]) (*connect.Response[h.Raw], error) {
							return connect.NewResponse(&h.Raw{B: []byte("a")}), herr
						}, connect.WithCodec(h.ToyCodec{}))
					case "server":
						handler = connect.NewServerStreamHandler("/verif.Svc/M", func(_ context.Context, _ *connect.Request[h.Raw], s *connect.ServerStream[h.Raw]) error {
							_ = s.Send(&h.Raw{B: []byte("a")})
							return herr
						}, connect.WithCodec(h.ToyCodec{}))
					default:
						handler = connect.NewClientStreamHandler("/verif.Svc/M", func(_ context.Context, s *connect.ClientStream[h.Raw]) (*connect.Response[h.Raw], error) {
							for s.Receive() {
							}
							return connect.NewResponse(&h.Raw{B: []byte("a")}), herr
						}, connect.WithCodec(h.ToyCodec{}))
					}
					rec := httptest.NewRecorder()
					p := safely(func() { handler.ServeHTTP(rec, req) })
					in := map[string]any{"proto": proto, "kind": kind, "request Content-Type values": []string{ct, second}, "handler": outcome}
					r.Eval("repeated_headers", fmt.Sprint(proto, kind, second, outcome))
					if p != nil {
						r.Fail(h.Failure{Key: "handler/panic", Family: "repeated_headers", What: fmt.Sprint("panic: ", p), Input: in})
						continue
					}
					got := rec.Header().Values("Content-Type")
					r.Sample("repeated_headers", map[string]any{"in": in, "status": rec.Code, "response Content-Type values": got})
					if len(got) != 1 {
						r.Fail(h.Failure{Key: "handler/response-content-type-values", Family: "repeated_headers", What: "the response carries Content-Type " + fmt.Sprint(len(got)) + " times: not a well-formed response of the protocol", Input: in, Actual: got})
					}
				}
			}
		}
	}
}
