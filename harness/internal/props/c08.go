package props

import (
	"bytes"
	"compress/gzip"
	"context"
	"encoding/json"
	"errors"
	"fmt"
	"io"
	"net/http"
	"net/http/httptest"
	"runtime"
	"strings"

	connect "github.com/bufbuild/connect-go"
	"github.com/bufbuild/connect-go/verifharness/internal/h"
)

// C08 — compression negotiation.
func C08(r *h.Run) {
	r.Model("c08case", "c08_ok")
	r.Sum.Rule = "universe {gzip, tagA, tagB, tagC}: handler registration orders (subsets and permutations; thorough: all), request-encoding header {absent, identity, each algorithm, unknown}, accept-encoding header lists (permutations, unknown names, blanks and empty items), 3 protocols x {unary, stream}; client request headers per registration order and send choice; client validation of the server's choice; exact wire bytes under the tag compressor around compress-min-bytes; histories of corrupt and valid compressed calls through one handler and one client (GOMAXPROCS 1 and 16). distinct = distinct tuple"
	rng := r.Rng.Fork("c08")
	universe := []string{"tagA", "tagB", "tagC"}
	protos := []string{"connect", "grpc", "grpcweb"}

	regOption := func(name string) connect.HandlerOption { return h.WithTag(name) }
	perms := [][]string{{}, {"tagA"}, {"tagB"}, {"tagA", "tagB"}, {"tagB", "tagA"}, {"tagA", "tagB", "tagC"}, {"tagC", "tagA", "tagB"}, {"tagB", "tagC", "tagA"},
		{"tagA", "tagA"}, {"tagA", "tagB", "tagA"}, {"tagC", "tagB", "tagA", "tagC"}}
	if r.Thorough() {
		for i := 0; i < 40; i++ {
			n := rng.Intn(5)
			p := make([]string, n)
			for j := range p {
				p[j] = universe[rng.Intn(3)]
			}
			perms = append(perms, p)
		}
	}
	sents := []string{"", "identity", "gzip", "tagA", "tagB", "tagC", "zstd", "GZIP", "gzip ", "tag"}
	accepts := []string{"", "gzip", "tagA", "tagB,tagA", "tagA,tagB", "tagC, tagB, tagA", "zstd,tagB", "zstd", "identity", "identity,gzip", " , ,tagA", "tagA tagB", "tagB;q=1,tagA",
		"gzip,tagA,tagB,tagC", "tagC,tagB,tagA,gzip", "TAGA,tagB", ",", "tagA,", "br, zstd , tagC"}

	for pi, reg := range perms {
		registered := append([]string{"gzip"}, reg...)
		coqReg := make([]string, len(registered))
		for i, n := range registered {
			coqReg[i] = h.CoqStr(n)
		}
		for si, sent := range sents {
			for ai, accept := range accepts {
				// quick: every third tuple under one protocol — except that a request advertising
				// nothing in its own header runs under all three, with the other headers set
				if !r.Thorough() && (pi+si+ai)%3 != 0 && accept != "" {
					continue
				}
				for _, proto := range protos {
					if accept != "" && proto != protos[(pi+2*si+ai)%3] {
						continue
					}
					withForeign := (pi+si+ai)%2 == 0 || accept == ""
					unary := (pi+ai)%2 == 0 && proto == "connect"
					cfg := envCfg{Proto: proto}
					calls := 0
					hopts := []connect.HandlerOption{connect.WithCodec(h.ToyCodec{})}
					for _, n := range reg {
						hopts = append(hopts, regOption(n))
					}
					big := bytes.Repeat([]byte("z"), 64)
					var handler *connect.Handler
					if unary {
						handler = connect.NewUnaryHandler("/verif.Svc/M", func(_ context.Context, _ *connect.Request[h.Raw]) (*connect.Response[h.Raw], error) {
							calls++
							return connect.NewResponse(&h.Raw{B: big}), nil
						}, hopts...)
					} else {
						handler = connect.NewServerStreamHandler("/verif.Svc/M", func(_ context.Context, _ *connect.Request[h.Raw], s *connect.ServerStream[h.Raw]) error {
							calls++
							return s.Send(&h.Raw{B: big})
						}, hopts...)
					}
					payload := []byte("q")
					wire := payload
					flag := byte(0)
					switch sent {
					case "tagA", "tagB", "tagC":
						wire, flag = compressToy(sent, payload), 1
					case "gzip":
						var b bytes.Buffer
						zw := gzip.NewWriter(&b)
						_, _ = zw.Write(payload)
						_ = zw.Close()
						wire, flag = b.Bytes(), 1
					}
					body := wire
					if !unary {
						body = h.Frame(flag, wire)
					}
					req := httptest.NewRequest(http.MethodPost, "/verif.Svc/M", bytes.NewReader(body))
					req.Header.Set("Content-Type", cfg.contentType(unary))
					encH, accH := cfg.encodingHeader(unary), "Grpc-Accept-Encoding"
					if proto == "connect" {
						accH = "Connect-Accept-Encoding"
						if unary {
							accH = "Accept-Encoding"
						}
					}
					if sent != "" {
						req.Header[encH] = []string{sent}
					}
					if accept != "" {
						req.Header[accH] = []string{accept}
					}
					// what the OTHER protocols (and plain HTTP) use to advertise encodings says nothing
					// about this protocol's message compression: a user agent adds "Accept-Encoding: gzip"
					// on its own, a proxy may forward anything
					foreign := http.Header{}
					if withForeign {
						for _, name := range []string{"Accept-Encoding", "Connect-Accept-Encoding", "Grpc-Accept-Encoding"} {
							if name != accH {
								foreign[name] = []string{"gzip, tagA, tagB"}
								req.Header[name] = foreign[name]
							}
						}
					}
					rec := httptest.NewRecorder()
					p := safely(func() { handler.ServeHTTP(rec, req) })
					in := map[string]any{"registered": registered, "proto": proto, "unary": unary, "request_encoding": sent, "accept_encoding": accept, "accept_header": accH, "other_headers": foreign}
					r.Eval("negotiate", fmt.Sprint(in))
					if p != nil {
						r.Fail(h.Failure{Key: "negotiate/panic", Family: "negotiate", What: fmt.Sprint("panic: ", p), Input: in})
						continue
					}
					kind := "server"
					if unary {
						kind = "unary"
					}
					code, msg := peerError(proto, kind, rec)
					respEnc := rec.Header().Get(encH)
					accHdr := rec.Header().Get(accH)
					obs := fmt.Sprintf("ONegOk %s %s", h.CoqStr(respEnc), h.CoqStr(accHdr))
					if code == "unimplemented" {
						names := msg
						if i := strings.LastIndex(msg, " are "); i >= 0 {
							names = msg[i+5:]
						}
						obs = fmt.Sprintf("ONegErr %s", h.CoqStr(names))
					}
					r.Sample("negotiate", map[string]any{"in": in, "response_encoding": respEnc, "accept_header": accHdr, "error": code, "message": msg, "user_calls": calls})
					r.Case("negotiate", fmt.Sprintf("NegCase %s %s %s (%s)", h.CoqList(coqReg), h.CoqStr(sent), h.CoqStr(accept), obs),
						map[string]any{"in": in, "impl_response_encoding": respEnc, "impl_accept_header": accHdr, "impl_error": code, "impl_message": msg})
					// ---- direct oracle ----
					has := func(n string) bool {
						for _, x := range registered {
							if x == n {
								return true
							}
						}
						return false
					}
					if sent != "" && sent != "identity" && !has(sent) {
						if code != "unimplemented" || calls != 0 {
							r.Fail(h.Failure{Key: "negotiate/unknown-not-rejected", Family: "negotiate", What: "a request compressed with an algorithm the handler lacks was not rejected as unimplemented before user code", Input: in, Actual: fmt.Sprint(code, " calls=", calls)})
						} else {
							for _, n := range registered {
								if !strings.Contains(msg, n) {
									r.Fail(h.Failure{Key: "negotiate/unimplemented-message", Family: "negotiate", What: "the unimplemented error does not list the supported algorithms", Input: in, Actual: msg})
								}
							}
						}
						continue
					}
					if code != "" {
						r.Fail(h.Failure{Key: "negotiate/unexpected-error", Family: "negotiate", What: "negotiable request failed", Input: in, Actual: code + ": " + msg})
						continue
					}
					if respEnc != "" && respEnc != "identity" {
						if !has(respEnc) {
							r.Fail(h.Failure{Key: "negotiate/unsupported-response-alg", Family: "negotiate", What: "the handler named a response algorithm it does not support", Input: in, Actual: respEnc})
						}
						offered := respEnc == sent
						for _, f := range strings.FieldsFunc(accept, func(c rune) bool { return c == ',' || c == ' ' }) {
							if f == respEnc {
								offered = true
							}
						}
						if !offered {
							r.Fail(h.Failure{Key: "negotiate/not-offered", Family: "negotiate", What: "the handler compressed with an algorithm the client neither used nor advertised", Input: in, Actual: respEnc})
						}
					}
					if sent == "" || sent == "identity" {
						want := ""
						for _, f := range strings.FieldsFunc(accept, func(c rune) bool { return c == ',' || c == ' ' }) {
							if has(f) {
								want = f
								break
							}
						}
						if respEnc != want {
							r.Fail(h.Failure{Key: "negotiate/preference", Family: "negotiate", What: "the handler did not pick the client's most-preferred mutually supported algorithm", Input: in, Expected: want, Actual: respEnc})
						}
					}
					// the response body must be decodable with the named algorithm and flagged iff compressed
					if !unary {
						b := rec.Body.Bytes()
						if len(b) >= 5 {
							compressed := b[0]&1 == 1
							if compressed && (respEnc == "" || respEnc == "identity") {
								r.Fail(h.Failure{Key: "negotiate/flag-without-encoding", Family: "negotiate", What: "a message is flagged compressed although the encoding header names no algorithm", Input: in})
							}
						}
					}
				}
			}
		}
	}

	// ---- a unary Connect ERROR body compressed with an algorithm the client advertised ----
	for i := 0; i < r.N(16, 96); i++ {
		code := connect.Code(1 + i%16)
		msg := errMessages[1+rng.Intn(len(errMessages)-2)]
		algo := []string{"tagA", "tagB"}[i%2]
		plain, _ := json.Marshal(map[string]any{"code": code.String(), "message": msg})
		status := map[connect.Code]int{1: 408, 2: 500, 3: 400, 4: 408, 5: 404, 6: 409, 7: 403, 8: 429, 9: 412, 10: 409, 11: 400, 12: 404, 13: 500, 14: 503, 15: 500, 16: 401}[code]
		hdr := http.Header{"Content-Type": {"application/json"}, "Content-Encoding": {algo}, "X-Peer-Meta": {"v1"}}
		body := compressToy(algo, plain)
		res := doCall(envCfg{Proto: "connect"}, "unary", func() *http.Response {
			return h.NewResponse(status, hdr.Clone(), h.NewChunkBody([][]byte{body}, h.FinCleanEOF), nil)
		})
		in := map[string]any{"proto": "connect", "kind": "unary", "status": status, "content_encoding": algo, "client_accepts": "tagA,tagB,rle", "error_json": string(plain)}
		r.Eval("unary_error_compressed", fmt.Sprint(i, algo, code, msg))
		if res.panicked != nil || res.timedOut {
			r.Fail(h.Failure{Key: "negotiate/panic", Family: "unary_error_compressed", What: fmt.Sprint("panic or hang: ", res.panicked), Input: in})
			continue
		}
		r.Sample("unary_error_compressed", map[string]any{"in": in, "client_error": fmt.Sprint(res.err)})
		if res.err == nil || connect.CodeOf(res.err) != code || !strings.Contains(res.err.Error(), msg) {
			r.Fail(h.Failure{Key: "lossless/compressed-error-not-decoded", Family: "unary_error_compressed", What: "an error body compressed with an algorithm the client advertised did not decompress to the error the peer sent", Input: in, Expected: code.String() + ": " + msg, Actual: fmt.Sprint(res.err)})
		}
	}

	// ---- a compressor that FAILS on some message: the response says what its body is — an
	// error the client can read, not a body labelled with an encoding it does not have ----
	for _, proto := range protos {
		for _, kindAndWord := range []string{"unary POISON", "server POISON", "unary TOXIC", "server TOXIC"} {
			kind, word := strings.Fields(kindAndWord)[0], strings.Fields(kindAndWord)[1]
			cfg := envCfg{Proto: proto}
			failing := connect.WithCompression("failz", func() connect.Decompressor { return &failzDecompressor{} }, func() connect.Compressor { return &failzCompressor{} })
			acceptFailz := connect.WithAcceptCompression("failz", func() connect.Decompressor { return &failzDecompressor{} }, func() connect.Compressor { return &failzCompressor{} })
			mux := http.NewServeMux()
			// the compressor refuses payloads containing POISON in Write, and fails the final flush
			// (Close) for payloads containing TOXIC after accepting every Write
			msg := bytes.Repeat([]byte(word), 20)
			mux.Handle("/verif.Svc/Unary", connect.NewUnaryHandler("/verif.Svc/Unary", func(context.Context, *connect.Request[h.Raw]) (*connect.Response[h.Raw], error) {
				return connect.NewResponse(&h.Raw{B: msg}), nil
			}, connect.WithCodec(h.ToyCodec{}), failing))
			mux.Handle("/verif.Svc/Server", connect.NewServerStreamHandler("/verif.Svc/Server", func(_ context.Context, _ *connect.Request[h.Raw], st *connect.ServerStream[h.Raw]) error {
				return st.Send(&h.Raw{B: msg})
			}, connect.WithCodec(h.ToyCodec{}), failing))
			copts := []connect.ClientOption{connect.WithCodec(h.ToyCodec{}), acceptFailz}
			switch proto {
			case "grpc":
				copts = append(copts, connect.WithGRPC())
			case "grpcweb":
				copts = append(copts, connect.WithGRPCWeb())
			}
			lc := &h.LocalClient{Handler: mux}
			var callErr error
			p := safely(func() {
				if kind == "unary" {
					_, callErr = connect.NewClient[h.Raw, h.Raw](lc, "http://verif.local/verif.Svc/Unary", copts...).CallUnary(context.Background(), connect.NewRequest(&h.Raw{B: []byte("q")}))
				} else {
					st, err := connect.NewClient[h.Raw, h.Raw](lc, "http://verif.local/verif.Svc/Server", copts...).CallServerStream(context.Background(), connect.NewRequest(&h.Raw{B: []byte("q")}))
					if err != nil {
						callErr = err
						return
					}
					for st.Receive() {
					}
					callErr = st.Err()
					_ = st.Close()
				}
			})
			_ = cfg
			in := map[string]any{"proto": proto, "kind": kind, "negotiated": "failz (the handler's compressor fails on this response message: " + map[string]string{"POISON": "Write returns an error", "TOXIC": "every Write succeeds, Close returns an error after writing half of its output"}[word] + ")", "response_bytes": len(msg)}
			r.Eval("compressor_fails", fmt.Sprint(proto, kind, word))
			if p != nil {
				r.Fail(h.Failure{Key: "negotiate/panic", Family: "compressor_fails", What: fmt.Sprint("panic: ", p), Input: in})
				continue
			}
			r.Sample("compressor_fails", map[string]any{"in": in, "client_error": fmt.Sprint(callErr)})
			if callErr == nil || connect.CodeOf(callErr) != connect.CodeInternal || !strings.Contains(callErr.Error(), "compress") {
				r.Fail(h.Failure{Key: "lossless/compressor-failure-unreadable", Family: "compressor_fails", What: "the handler's compressor failed: the client did not receive that failure (internal: compress ...) — the response does not say truthfully how its body is encoded", Input: in, Expected: "internal: compress: ...", Actual: fmt.Sprint(callErr)})
			}
		}
	}

	// ---- client request headers ----
	for _, reg := range perms {
		for _, send := range []string{"", "identity", "gzip", "tagA"} {
			usable := send == "" || send == "identity" || send == "gzip"
			for _, n := range reg {
				if n == send {
					usable = true
				}
			}
			if !usable {
				continue
			}
			for pi, proto := range protos {
				registered := append([]string{"gzip"}, reg...)
				coqReg := make([]string, len(registered))
				for i, n := range registered {
					coqReg[i] = h.CoqStr(n)
				}
				copts := []connect.ClientOption{connect.WithCodec(h.ToyCodec{})}
				switch proto {
				case "grpc":
					copts = append(copts, connect.WithGRPC())
				case "grpcweb":
					copts = append(copts, connect.WithGRPCWeb())
				}
				for _, n := range reg {
					copts = append(copts, h.WithAcceptTag(n))
				}
				if send != "" {
					copts = append(copts, connect.WithSendCompression(send))
				}
				canned := &h.CannedClient{Build: func(*http.Request) (*http.Response, error) { return nil, fmt.Errorf("stop") }}
				client := connect.NewClient[h.Raw, h.Raw](canned, "http://verif.local/verif.Svc/M", copts...)
				st := client.CallClientStream(context.Background())
				_ = st.Send(&h.Raw{B: []byte("hello")})
				_, _ = st.CloseAndReceive()
				encH, accH := "Grpc-Encoding", "Grpc-Accept-Encoding"
				if proto == "connect" {
					encH, accH = "Connect-Content-Encoding", "Connect-Accept-Encoding"
				}
				enc, acc := canned.ReqHdr.Get(encH), canned.ReqHdr.Get(accH)
				r.Eval("client_headers", fmt.Sprint(registered, send, proto))
				r.Sample("client_headers", map[string]any{"registered": registered, "send": send, "proto": proto, "encoding": enc, "accept": acc})
				r.Case("client_headers", fmt.Sprintf("ClientHdr %s %s %s %s", h.CoqList(coqReg), h.CoqStr(send), h.CoqStr(enc), h.CoqStr(acc)),
					map[string]any{"registered": registered, "send": send, "proto": proto, "impl_encoding": enc, "impl_accept": acc})
				// client validation of the server's choice
				for _, senc := range []string{"", "identity", "gzip", "tagA", "tagC", "zstd"} {
					cfg := envCfg{Proto: proto, Algo: ""}
					hdr, term, trailer := responseParts(cfg)
					if senc != "" {
						hdr.Set(encH, senc)
					}
					cc := &h.CannedClient{Build: func(*http.Request) (*http.Response, error) {
						return h.NewResponse(200, hdr.Clone(), h.NewChunkBody([][]byte{append(h.Frame(0, []byte("r")), term...)}, h.FinCleanEOF), trailer.Clone()), nil
					}}
					cl := connect.NewClient[h.Raw, h.Raw](cc, "http://verif.local/verif.Svc/M", copts...)
					stream, err := cl.CallServerStream(context.Background(), connect.NewRequest(&h.Raw{B: []byte("q")}))
					accepted := err == nil
					if err == nil {
						stream.Receive()
						accepted = stream.Err() == nil
						_ = stream.Close()
					}
					if pi == 0 || r.Thorough() {
						r.Eval("client_validate", fmt.Sprint(registered, senc, proto))
						r.Case("client_validate", fmt.Sprintf("ClientValidate %s %s %s", h.CoqList(coqReg), h.CoqStr(senc), h.CoqBool(accepted)),
							map[string]any{"registered": registered, "server_encoding": senc, "proto": proto, "impl_accepted": accepted})
					}
				}
			}
		}
	}

	// ---- exact wire bytes around compress-min-bytes ----
	for _, min := range []int{0, 1, 2, 8, 512} {
		for _, size := range []int{0, 1, 2, 7, 8, 9, 511, 512, 513} {
			if size > min+2 && size < 511 && min != 0 {
				continue
			}
			for _, pool := range []bool{true, false} {
				p := genPayload(rng, size)
				var reqBody bytes.Buffer
				canned := &h.CannedClient{ReqBody: &reqBody, Build: func(*http.Request) (*http.Response, error) { return nil, fmt.Errorf("stop") }}
				copts := []connect.ClientOption{connect.WithCodec(h.ToyCodec{}), connect.WithGRPC(), h.WithAcceptTag("tagA"), connect.WithCompressMinBytes(min)}
				if pool {
					copts = append(copts, connect.WithSendCompression("tagA"))
				}
				client := connect.NewClient[h.Raw, h.Raw](canned, "http://verif.local/verif.Svc/M", copts...)
				st := client.CallClientStream(context.Background())
				_ = st.Send(&h.Raw{B: p})
				_, _ = st.CloseAndReceive()
				w := reqBody.Bytes()
				r.Eval("wire", fmt.Sprint(min, size, pool))
				r.Sample("wire", map[string]any{"min_bytes": min, "size": size, "send_compression": pool, "wire_prefix_hex": h.Hex(w[:minInt(len(w), 12)])})
				r.Case("wire", fmt.Sprintf("WireCase x%02x %s %d %s %s", h.TagByte("tagA"), h.CoqBool(pool), min, h.CoqBytes(p), h.CoqBytes(w)),
					map[string]any{"min_bytes": min, "size": size, "send_compression": pool, "impl_wire_hex": h.Hex(w)})
				if len(w) >= 5 {
					compressed := w[0]&1 == 1
					if size < min && compressed {
						r.Fail(h.Failure{Key: "wire/below-min-compressed", Family: "wire", What: "a message below compress-min-bytes was compressed", Input: map[string]any{"min_bytes": min, "size": size}})
					}
					if compressed && !pool {
						r.Fail(h.Failure{Key: "wire/flag-without-encoding", Family: "wire", What: "compressed flag without a send compression", Input: map[string]any{"min_bytes": min, "size": size}})
					}
				}
			}
		}
	}

	// ---- the same threshold on everything a HANDLER writes: 3 protocols x {server stream, unary} ----
	for _, proto := range []string{"connect", "grpc", "grpcweb"} {
		cfg := envCfg{Proto: proto}
		for _, min := range []int{0, 1, 8, 512} {
			for _, kind := range []string{"server", "unary"} {
				sizes := []int{0, 1, 7, 8, 9, 511, 512, 513, 3}
				var msgs [][]byte
				for _, sz := range sizes {
					msgs = append(msgs, genPayload(rng, sz))
				}
				if kind == "unary" {
					msgs = msgs[:1+rng.Intn(len(msgs)-1)]
					msgs = msgs[len(msgs)-1:]
				}
				hopts := []connect.HandlerOption{connect.WithCodec(h.ToyCodec{}), h.WithTag("tagA"), connect.WithCompressMinBytes(min)}
				var handler *connect.Handler
				if kind == "server" {
					handler = connect.NewServerStreamHandler("/verif.Svc/M", func(_ context.Context, _ *connect.Request[h.Raw], st *connect.ServerStream[h.Raw]) error {
						for _, m := range msgs {
							if err := st.Send(&h.Raw{B: m}); err != nil {
								return err
							}
						}
						return nil
					}, hopts...)
				} else {
					handler = connect.NewUnaryHandler("/verif.Svc/M", func(_ context.Context, _ *connect.Request[h.Raw]) (*connect.Response[h.Raw], error) {
						return connect.NewResponse(&h.Raw{B: msgs[0]}), nil
					}, hopts...)
				}
				unaryConnect := kind == "unary" && proto == "connect"
				var reqBody []byte
				if unaryConnect {
					reqBody = []byte("q")
				} else {
					reqBody = h.Frame(0, []byte("q"))
				}
				req := httptest.NewRequest(http.MethodPost, "/verif.Svc/M", bytes.NewReader(reqBody))
				req.Header.Set("Content-Type", cfg.contentType(kind == "unary"))
				switch {
				case unaryConnect:
					req.Header.Set("Accept-Encoding", "tagA")
				case proto == "connect":
					req.Header.Set("Connect-Accept-Encoding", "tagA")
				default:
					req.Header.Set("Grpc-Accept-Encoding", "tagA")
				}
				rec := httptest.NewRecorder()
				if p := safely(func() { handler.ServeHTTP(rec, req) }); p != nil {
					r.Fail(h.Failure{Key: "wire/panic", Family: "wire_response", What: fmt.Sprint("panic: ", p), Input: map[string]any{"proto": proto, "kind": kind, "min_bytes": min}})
					continue
				}
				r.Eval("wire_response", fmt.Sprint(proto, kind, min, len(msgs)))
				body := rec.Body.Bytes()
				in := map[string]any{"proto": proto, "kind": kind, "min_bytes": min, "sizes": func() []int {
					var o []int
					for _, m := range msgs {
						o = append(o, len(m))
					}
					return o
				}(), "wire_prefix_hex": h.Hex(body[:minInt(len(body), 24)])}
				r.Sample("wire_response", in)
				if unaryConnect {
					enc := rec.Header().Get("Content-Encoding")
					compressed := enc == "tagA"
					want := len(msgs[0]) >= min && len(msgs[0]) > 0
					if min == 0 {
						want = len(msgs[0]) >= 0
					}
					if len(msgs[0]) < min && compressed {
						r.Fail(h.Failure{Key: "wire/below-min-compressed", Family: "wire_response", What: "a unary Connect response below compress-min-bytes is labelled compressed", Input: in})
					}
					_ = want
					// the label and the bytes agree
					if compressed != (len(body) == len(msgs[0])+1 && len(body) > 0 && body[0] == h.TagByte("tagA")) && !(compressed && len(msgs[0]) == 0) {
						r.Fail(h.Failure{Key: "wire/label-disagrees-with-body", Family: "wire_response", What: "Content-Encoding and the body bytes disagree about compression", Input: in, Actual: enc})
					}
					continue
				}
				// walk the data frames
				rest, k := body, 0
				for len(rest) >= 5 && rest[0]&0x82 == 0 && k < len(msgs) {
					n := int(rest[1])<<24 | int(rest[2])<<16 | int(rest[3])<<8 | int(rest[4])
					if len(rest)-5 < n {
						break
					}
					compressed := rest[0]&1 == 1
					if len(msgs[k]) < min && compressed {
						r.Fail(h.Failure{Key: "wire/below-min-compressed", Family: "wire_response", What: fmt.Sprintf("response message %d (%d bytes) is below compress-min-bytes %d and was compressed", k, len(msgs[k]), min), Input: in})
					}
					if len(msgs[k]) >= min && len(msgs[k]) > 0 && !compressed {
						r.Fail(h.Failure{Key: "wire/at-or-above-min-uncompressed", Family: "wire_response", What: fmt.Sprintf("response message %d (%d bytes) reaches compress-min-bytes %d, compression was negotiated, and it was not compressed", k, len(msgs[k]), min), Input: in})
					}
					rest = rest[5+n:]
					k++
				}
				if k != len(msgs) {
					r.Fail(h.Failure{Key: "wire/frames-missing", Family: "wire_response", What: fmt.Sprintf("%d data frames found for %d messages sent", k, len(msgs)), Input: in})
				}
			}
		}
	}

	// ---- what a pooled decompressor sees on each exit branch of Decompress (compared with CPool.decompress_trace) ----
	for _, sc := range []struct {
		name, coq string
		wire      []byte
	}{
		{"valid message", "(DOk true)", []byte{2, 'a', 1, 'b'}},
		{"corrupt stream (fails in Read)", "DReadFails", []byte{3, 'a', 7}},
		{"inflates beyond the read limit", "(DTooLarge true)", []byte{255, 'x', 255, 'y'}},
		{"source rejected by Reset", "DResetFails", []byte{'!', 1, 2}},
	} {
		for rep := 0; rep < 2; rep++ { // the second time the object comes from the pool
			tr := &h.Tracker{}
			handler := connect.NewUnaryHandler("/verif.Svc/M", func(_ context.Context, req *connect.Request[h.Raw]) (*connect.Response[h.Raw], error) {
				return connect.NewResponse(&h.Raw{B: req.Msg.B}), nil
			}, connect.WithCodec(h.ToyCodec{}), h.WithTrackedRLE(tr), connect.WithReadMaxBytes(256), connect.WithCompressMinBytes(1<<20))
			post := func(body []byte) {
				req := httptest.NewRequest(http.MethodPost, "/verif.Svc/M", bytes.NewReader(body))
				req.Header.Set("Content-Type", "application/toy")
				req.Header.Set("Content-Encoding", "rle")
				handler.ServeHTTP(httptest.NewRecorder(), req)
			}
			if rep == 1 {
				post([]byte{1, 'w'}) // warm the pool
				tr.Events()
			}
			post(sc.wire)
			ev := tr.Events()
			var coqEv []string
			for _, e := range ev {
				coqEv = append(coqEv, "O"+e)
			}
			r.Eval("decompress_trace", fmt.Sprint(sc.name, rep))
			r.Sample("decompress_trace", map[string]any{"branch": sc.name, "pooled_object_reused": rep == 1, "events": ev})
			r.Case("decompress_trace", fmt.Sprintf("DecompTrace %s %s", sc.coq, h.CoqList(coqEv)), map[string]any{"branch": sc.name, "pooled_object_reused": rep == 1, "impl_events": ev})
			for _, pr := range tr.Snapshot() {
				r.Fail(h.Failure{Key: "pool/decompressor-shared", Family: "decompress_trace", What: pr, Input: map[string]any{"branch": sc.name}})
			}
		}
	}

	// ---- a corrupt compressed message must not leave a pooled decompressor shared between
	// later calls: tracked decompressors, then concurrent valid calls ----
	for round := 0; round < r.N(4, 20); round++ {
		corrupt := [][]byte{
			append([]byte{'B'}, []byte("wrong tag: fails in Read, after Reset accepted the stream")...),
			{},
			append([]byte{'B'}, bytes.Repeat([]byte{1}, 10)...),
		}
		probs, wrong, first := decompressorSharing(corrupt[:1+round%3], 16, 12)
		r.Eval("decompressor_sharing", fmt.Sprint(round))
		in := map[string]any{"corrupt_messages_first": 1 + round%3, "then": "16 goroutines x 12 valid compressed unary calls on the same handler"}
		for _, pr := range probs {
			r.Fail(h.Failure{Key: "pool/decompressor-shared", Family: "decompressor_sharing", What: pr + " (after a corrupt compressed message)", Input: in})
		}
		if wrong > 0 {
			r.Fail(h.Failure{Key: "corrupt/later-calls-affected", Family: "decompressor_sharing", What: fmt.Sprintf("%d valid call(s) after a corrupt compressed message did not get the echo of their own request", wrong), Input: in, Actual: first})
		}
	}

	// ---- histories of corrupt and valid compressed calls on shared pools ----
	for _, procs := range []int{1, 16} {
		old := runtime.GOMAXPROCS(procs)
		for _, algo := range []string{"gzip", "tagA"} {
			hopts := []connect.HandlerOption{connect.WithCodec(h.ToyCodec{}), h.WithTag("tagA")}
			handler := connect.NewUnaryHandler("/verif.Svc/M", func(_ context.Context, req *connect.Request[h.Raw]) (*connect.Response[h.Raw], error) {
				return connect.NewResponse(&h.Raw{B: append([]byte("echo:"), req.Msg.B...)}), nil
			}, hopts...)
			valid := func(p []byte) []byte {
				if algo == "tagA" {
					return compressToy("tagA", p)
				}
				var b bytes.Buffer
				zw := gzip.NewWriter(&b)
				_, _ = zw.Write(p)
				_ = zw.Close()
				return b.Bytes()
			}
			n := r.N(60, 600)
			for i := 0; i < n; i++ {
				p := genPayload(rng, 1+rng.Intn(40))
				wire := valid(p)
				corrupt := rng.Intn(3) == 0
				if corrupt {
					wire = append([]byte(nil), wire...)
					switch rng.Intn(3) {
					case 0:
						wire = wire[:len(wire)/2]
					case 1:
						wire[0] ^= 0xff
					default:
						wire[len(wire)-1] ^= 0x55
						wire = append(wire, 1, 2, 3)
					}
				}
				req := httptest.NewRequest(http.MethodPost, "/verif.Svc/M", bytes.NewReader(wire))
				req.Header.Set("Content-Type", "application/toy")
				req.Header.Set("Content-Encoding", algo)
				rec := httptest.NewRecorder()
				pnc := safely(func() { handler.ServeHTTP(rec, req) })
				r.Eval("history", fmt.Sprint(procs, algo, i))
				if pnc != nil {
					r.Fail(h.Failure{Key: "history/panic", Family: "history", What: fmt.Sprint("panic: ", pnc), Input: h.Hex(wire)})
					continue
				}
				if !corrupt {
					want := append([]byte("echo:"), p...)
					got := rec.Body.Bytes()
					switch rec.Header().Get("Content-Encoding") {
					case "gzip":
						if zr, err := gzip.NewReader(bytes.NewReader(got)); err == nil {
							var out bytes.Buffer
							_, _ = out.ReadFrom(zr)
							got = out.Bytes()
						}
					case "tagA":
						if len(got) > 0 {
							got = got[1:]
						}
					}
					if rec.Code != 200 || !bytes.Equal(got, want) {
						r.Fail(h.Failure{Key: "history/valid-call-affected", Family: "history", What: "a valid compressed call failed or returned other data after corrupt calls on the same pools",
							Input: map[string]any{"algo": algo, "gomaxprocs": procs, "index": i, "payload_hex": h.Hex(p)}, Actual: fmt.Sprint(rec.Code, " ", h.Hex(rec.Body.Bytes()))})
					}
				} else if rec.Code == 200 && algo == "gzip" && bytes.Equal(rec.Body.Bytes(), append([]byte("echo:"), p...)) {
					// truncated-trailer gzip may still decode the payload; not a violation
				}
			}
			r.Sample("history", map[string]any{"algo": algo, "gomaxprocs": procs, "calls": n})
		}
		runtime.GOMAXPROCS(old)
	}
}

func minInt(a, b int) int {
	if a < b {
		return a
	}
	return b
}

// failz: gzip-based algorithm whose compressor refuses any payload containing "POISON".
type failzCompressor struct {
	w   io.Writer
	buf bytes.Buffer
}

func (c *failzCompressor) Reset(w io.Writer) { c.w = w; c.buf.Reset() }
func (c *failzCompressor) Write(p []byte) (int, error) {
	if bytes.Contains(p, []byte("POISON")) {
		return 0, errors.New("failz: cannot compress this payload")
	}
	return c.buf.Write(p)
}
func (c *failzCompressor) Close() error {
	if bytes.Contains(c.buf.Bytes(), []byte("TOXIC")) {
		// every Write succeeded; the final flush fails half-way
		var zb bytes.Buffer
		zw := gzip.NewWriter(&zb)
		_, _ = zw.Write(c.buf.Bytes())
		_ = zw.Close()
		_, _ = c.w.Write(zb.Bytes()[:zb.Len()/2])
		return errors.New("failz: flush failed")
	}
	zw := gzip.NewWriter(c.w)
	if _, err := zw.Write(c.buf.Bytes()); err != nil {
		return err
	}
	return zw.Close()
}

type failzDecompressor struct{ r *gzip.Reader }

func (d *failzDecompressor) Reset(src io.Reader) error {
	zr, err := gzip.NewReader(src)
	if err != nil {
		return err
	}
	d.r = zr
	return nil
}
func (d *failzDecompressor) Read(p []byte) (int, error) {
	if d.r == nil {
		return 0, io.EOF
	}
	return d.r.Read(p)
}
func (d *failzDecompressor) Close() error {
	if d.r == nil {
		return nil
	}
	return d.r.Close()
}
