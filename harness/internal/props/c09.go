package props

import (
	"bytes"
	"compress/gzip"
	"context"
	"errors"
	"fmt"
	"io"
	"math"
	"net/http"
	"net/http/httptest"
	"runtime"
	"strings"
	"time"

	connect "github.com/bufbuild/connect-go"
	"github.com/bufbuild/connect-go/verifharness/internal/h"
	"google.golang.org/protobuf/proto"
	"google.golang.org/protobuf/types/known/wrapperspb"
)

// C09 — read limits.
func C09(r *h.Run) {
	r.Model("envcase", "env_ok")
	r.Sum.Rule = "read limit N in {1,7,512,1024,65536} x message sizes {N-1,N,N+1,>>N} x {uncompressed, compressed with wire size <= N < decompressed size (rle bomb, gzip of zeros)} x declared length vs bytes present (lies both ways, up to 2^32-1) x position {first, middle, last} x 3 protocols x {handler reading requests (model cases), client reading responses (oracle)}; unary Connect bodies; allocation measured with runtime.MemStats as supporting data. distinct = distinct (cfg, body)"
	rng := r.Rng.Fork("c09")
	protos := []string{"connect", "grpc", "grpcweb"}
	limits := []int{1, 7, 512, 1024, 65536}

	// ---- allocation probe first: a prefix declaring 64 MiB against a small limit must not make
	// the receiver allocate anything like that (if it does, the 4 GiB lies below are skipped:
	// they would only crash the harness) ----
	hugeLiesSafe := true
	for _, protoName := range []string{"grpc", "connect", "grpcweb"} {
		n := 1024
		cfg := envCfg{Proto: protoName, Max: n}
		var m0, m1 runtime.MemStats
		runtime.GC()
		runtime.ReadMemStats(&m0)
		_, _, _, p := serveStream(cfg, h.NewChunkBody([][]byte{h.FrameLie(0, 64<<20, []byte("abc"))}, h.FinCleanEOF))
		// the same lie in envelopes that are not plain messages (end-of-stream, trailers, undefined bits)
		for _, fl := range []byte{0x02, 0x80, 0x04, 0x03, 0x81} {
			_, _, _, p2 := serveStream(cfg, h.NewChunkBody([][]byte{h.FrameLie(fl, 64<<20, []byte("abc"))}, h.FinCleanEOF))
			if p == nil {
				p = p2
			}
			hdr, _, trailer := responseParts(cfg)
			_, p3 := clientStreamRecv(cfg, 200, hdr, h.NewChunkBody([][]byte{h.FrameLie(fl, 64<<20, []byte("abc"))}, h.FinCleanEOF), trailer)
			if p == nil {
				p = p3
			}
		}
		runtime.ReadMemStats(&m1)
		alloc := m1.TotalAlloc - m0.TotalAlloc
		r.Eval("length_lie_alloc", fmt.Sprintf("%s|%d|64MiB", protoName, n))
		in := map[string]any{"proto": protoName, "limit": n, "declared": 64 << 20, "present": 3, "envelope_flags_tried": "00 (handler), then 02 80 04 03 81 (handler and client)"}
		r.Sample("length_lie_alloc", map[string]any{"in": in, "total_alloc_delta": alloc})
		if p != nil {
			r.Fail(h.Failure{Key: "limit/panic", Family: "length_lie_alloc", What: fmt.Sprint("panic: ", p), Input: in})
		}
		if alloc > uint64(11*(8*n+256*1024)) {
			hugeLiesSafe = false
			r.Fail(h.Failure{Key: "limit/buffers-far-more-than-limit", Family: "length_lie_alloc", What: "a false length prefix made the receiver allocate substantially more than the read limit", Input: in, Actual: alloc})
		}
	}

	// the same for the length a unary Connect body declares in Content-Length: 8 MiB declared
	// against a limit of 1 KiB, three bytes present, in both directions
	for _, dir := range []string{"client reads a response", "handler reads a request"} {
		n := 1024
		declared := int64(8 << 20)
		var m0, m1 runtime.MemStats
		var p any
		runtime.GC()
		runtime.ReadMemStats(&m0)
		if dir == "client reads a response" {
			res := doCall(envCfg{Proto: "connect", Max: n}, "unary", func() *http.Response {
				resp := h.NewResponse(200, http.Header{"Content-Type": {"application/toy"}, "Content-Length": {fmt.Sprint(declared)}}, h.NewChunkBody([][]byte{[]byte("abc")}, h.FinUnexpectedEOF), nil)
				resp.ContentLength = declared
				return resp
			})
			p = res.panicked
		} else {
			handler := connect.NewUnaryHandler("/verif.Svc/Unary", func(_ context.Context, req *connect.Request[h.Raw]) (*connect.Response[h.Raw], error) {
				return connect.NewResponse(&h.Raw{B: []byte("ok")}), nil
			}, envCfg{Proto: "connect", Max: n}.handlerOpts()...)
			req := httptest.NewRequest(http.MethodPost, "/verif.Svc/Unary", nil)
			req.Body = h.NewChunkBody([][]byte{[]byte("abc")}, h.FinUnexpectedEOF)
			req.ContentLength = declared
			req.Header.Set("Content-Length", fmt.Sprint(declared))
			req.Header.Set("Content-Type", "application/toy")
			p = safely(func() { handler.ServeHTTP(httptest.NewRecorder(), req) })
		}
		runtime.ReadMemStats(&m1)
		alloc := m1.TotalAlloc - m0.TotalAlloc
		in := map[string]any{"proto": "connect", "kind": "unary", "direction": dir, "limit": n, "declared_content_length": declared, "present": 3}
		r.Eval("length_lie_alloc", fmt.Sprint("content-length", dir))
		r.Sample("length_lie_alloc", map[string]any{"in": in, "total_alloc_delta": alloc})
		if p != nil {
			r.Fail(h.Failure{Key: "limit/panic", Family: "length_lie_alloc", What: fmt.Sprint("panic: ", p), Input: in})
		}
		if alloc > uint64(8*n+256*1024) {
			r.Fail(h.Failure{Key: "limit/buffers-far-more-than-limit", Family: "length_lie_alloc", What: "a false Content-Length made the receiver allocate substantially more than the read limit", Input: in, Actual: alloc})
		}
	}

	// one compression OPTION VALUE shared by two handlers (and two clients) with different read
	// limits: each enforces its own limit on the decompressed size, whichever was built last
	{
		shared := h.WithRLE()
		sharedAccept := h.WithAcceptRLE()
		bomb := []byte{200, 'a', 200, 'a', 200, 'a'} // RLE: 600 bytes from 6
		for _, order := range []string{"small limit built first", "small limit built last"} {
			limits := []int{64, 1 << 20}
			if order == "small limit built last" {
				limits = []int{1 << 20, 64}
			}
			ran := map[int]int{}
			mk := func(max int) *connect.Handler {
				return connect.NewUnaryHandler("/verif.Svc/Unary", func(_ context.Context, req *connect.Request[h.Raw]) (*connect.Response[h.Raw], error) {
					ran[max] = len(req.Msg.B)
					return connect.NewResponse(&h.Raw{B: []byte("ok")}), nil
				}, connect.WithCodec(h.ToyCodec{}), shared, connect.WithReadMaxBytes(max))
			}
			handlers := map[int]*connect.Handler{}
			for _, max := range limits {
				handlers[max] = mk(max)
			}
			for _, proto := range protos {
				cfg := envCfg{Proto: proto}
				unary := proto == "connect"
				body := h.Frame(1, bomb)
				if unary {
					body = bomb
				}
				req := httptest.NewRequest(http.MethodPost, "/verif.Svc/Unary", bytes.NewReader(body))
				req.Header.Set("Content-Type", cfg.contentType(true))
				req.Header.Set(cfg.encodingHeader(unary), "rle")
				delete(ran, 64)
				p := safely(func() { handlers[64].ServeHTTP(httptest.NewRecorder(), req) })
				in := map[string]any{"proto": proto, "direction": "handler", "limits_of_the_two_handlers_sharing_the_option": limits, "order": order, "wire_bytes": len(bomb), "decompressed_bytes": 600, "served_by": "the handler with limit 64"}
				r.Eval("shared_compression_option", fmt.Sprint(proto, order))
				if p != nil {
					r.Fail(h.Failure{Key: "limit/panic", Family: "shared_compression_option", What: fmt.Sprint("panic: ", p), Input: in})
				}
				if n, ok := ran[64]; ok {
					r.Fail(h.Failure{Key: "limit/delivered-beyond-limit", Family: "shared_compression_option", What: fmt.Sprintf("a message that decompresses to %d bytes reached the user code of a handler limited to 64", n), Input: in})
				}
			}
			// clients
			for _, proto := range protos {
				cfg := envCfg{Proto: proto}
				mkc := func(max int) []connect.ClientOption {
					opts := []connect.ClientOption{connect.WithCodec(h.ToyCodec{}), sharedAccept, connect.WithReadMaxBytes(max)}
					switch proto {
					case "grpc":
						opts = append(opts, connect.WithGRPC())
					case "grpcweb":
						opts = append(opts, connect.WithGRPCWeb())
					}
					return opts
				}
				hdr, term, trailer := responseParts(cfg)
				hdr.Set(cfg.encodingHeader(false), "rle")
				body := append(h.Frame(1, bomb), term...)
				var got [][]byte
				canned := &h.CannedClient{Build: func(*http.Request) (*http.Response, error) {
					return h.NewResponse(200, hdr.Clone(), h.NewChunkBody([][]byte{body}, h.FinCleanEOF), trailer.Clone()), nil
				}}
				clients := map[int]*connect.Client[h.Raw, h.Raw]{}
				for _, max := range limits { // both are built before either is used
					clients[max] = connect.NewClient[h.Raw, h.Raw](canned, "http://verif.local/verif.Svc/Stream", mkc(max)...)
				}
				if st, err := clients[64].CallServerStream(context.Background(), connect.NewRequest(&h.Raw{B: []byte("q")})); err == nil {
					for st.Receive() {
						got = append(got, st.Msg().B)
					}
					_ = st.Close()
				}
				in := map[string]any{"proto": proto, "direction": "client", "limits_of_the_two_clients_sharing_the_option": limits, "order": order}
				r.Eval("shared_compression_option", fmt.Sprint("client", proto, order))
				for _, m := range got {
					if len(m) > 64 {
						r.Fail(h.Failure{Key: "limit/delivered-beyond-limit", Family: "shared_compression_option", What: fmt.Sprintf("a message that decompresses to %d bytes was delivered by a client limited to 64", len(m)), Input: in})
					}
				}
			}
		}
	}

	type item struct {
		frame   []byte
		deliver []byte // nil slice with ok=false means "must be refused"
		ok      bool
		what    string
	}
	mkItems := func(n int, algo string) []item {
		var out []item
		for _, sz := range []int{n - 1, n, n + 1, 3*n + 17} {
			if sz < 0 {
				continue
			}
			p := genPayload(rng, sz)
			out = append(out, item{h.Frame(0, p), p, sz <= n, fmt.Sprintf("plain %d bytes", sz)})
		}
		// length lies
		out = append(out, item{h.FrameLie(0, uint32(n+1), genPayload(rng, 2)), nil, false, "declares N+1, carries 2"})
		if hugeLiesSafe {
			out = append(out, item{h.FrameLie(0, 0xFFFFFFFF, genPayload(rng, 3)), nil, false, "declares 2^32-1"})
		}
		if algo == "rle" {
			// bomb: wire <= N < decompressed
			reps := (n / 255) + 2
			var wire []byte
			var plain []byte
			for i := 0; i < reps; i++ {
				wire = append(wire, 255, 0x41)
				plain = append(plain, bytes.Repeat([]byte{0x41}, 255)...)
			}
			if len(wire) <= n {
				out = append(out, item{h.Frame(1, wire), nil, false, fmt.Sprintf("rle bomb wire %d -> %d", len(wire), len(plain))})
			}
			// compressed and fine
			small := bytes.Repeat([]byte{0x42}, min(n, 200))
			if w := compressToy("rle", small); len(w) <= n {
				out = append(out, item{h.Frame(1, w), small, true, "rle within limit"})
			}
		}
		if algo == "tagA" {
			p := genPayload(rng, n) // decompressed N, wire N+1 > N: refused on the wire
			out = append(out, item{h.Frame(1, compressToy("tagA", p)), nil, false, "tag: wire N+1"})
			if n > 1 {
				q := genPayload(rng, n-1)
				out = append(out, item{h.Frame(1, compressToy("tagA", q)), q, true, "tag: wire N"})
			}
		}
		return out
	}

	for _, n := range limits {
		for pi, protoName := range protos {
			for _, algo := range []string{"", "rle", "tagA"} {
				cfg := envCfg{Proto: protoName, Max: n, Algo: algo}
				items := mkItems(n, algo)
				for ii, it := range items {
					for _, pos := range []string{"first", "middle", "last"} {
						if n >= 65536 && pos != "middle" && !r.Thorough() {
							continue
						}
						good := genPayload(rng, min(n, 3))
						var body []byte
						var want []obsItem
						pre := 0
						if pos != "first" {
							body = append(body, h.Frame(0, good)...)
							want = append(want, obsItem{Kind: "msg", B: good})
							pre = 1
						}
						body = append(body, it.frame...)
						if it.ok {
							want = append(want, obsItem{Kind: "msg", B: it.deliver})
							if pos != "last" {
								body = append(body, h.Frame(0, good)...)
								want = append(want, obsItem{Kind: "msg", B: good})
							}
							want = append(want, obsItem{Kind: "eof"})
						} else {
							if pos != "last" {
								body = append(body, h.Frame(0, good)...)
							}
							want = append(want, obsItem{Kind: "err", Code: connect.CodeInvalidArgument})
						}
						model := n <= 1024 && (ii+pi)%2 == 0
						obs := envRun(r, "handler_limit", cfg, false, [][]byte{body}, h.FinCleanEOF, model, it.what+" @"+pos)
						if obs == nil {
							continue
						}
						in := map[string]any{"cfg": cfg, "what": it.what, "position": pos}
						if it.ok {
							if !obsEqual(obs, want) {
								r.Fail(h.Failure{Key: "limit/within-limit-refused", Family: "handler_limit", What: "a message of at most N bytes was not accepted (or the stream around it was disturbed)", Input: in, Expected: obsStrings(want), Actual: obsStrings(obs)})
							}
						} else {
							// the messages before are delivered, then a failure; the oversize content never is
							bad := len(obs) != pre+1 || obs[len(obs)-1].Kind != "err"
							for i := 0; !bad && i < pre; i++ {
								bad = obs[i].Kind != "msg" || !bytes.Equal(obs[i].B, good)
							}
							if bad {
								r.Fail(h.Failure{Key: "limit/oversize-delivered", Family: "handler_limit", What: "a message beyond the read limit (wire or decompressed, true or declared) reached user code, or messages after it were delivered", Input: in, Actual: obsStrings(obs)})
							} else if obs[len(obs)-1].Code != connect.CodeInvalidArgument {
								r.Fail(h.Failure{Key: "limit/wrong-code", Family: "handler_limit", What: "over-limit message refused with a code other than the documented invalid_argument", Input: in, Actual: obsStrings(obs)})
							}
						}
						// client side: same frames as a response body (direct oracle)
						// (limits below the size of the protocol's own terminator envelope are
						// not meaningful on the response side: the limit applies to every envelope)
						if pos == "middle" && n >= 512 {
							hdr, term, trailer := responseParts(cfg)
							cobs, p := clientStreamRecv(cfg, 200, hdr, h.NewChunkBody([][]byte{append(append([]byte(nil), body...), term...)}, h.FinCleanEOF), trailer)
							r.Eval("client_limit", fmt.Sprintf("%v|%s", cfg, it.what))
							if p != nil {
								r.Fail(h.Failure{Key: "limit/panic", Family: "client_limit", What: fmt.Sprint("panic: ", p), Input: in})
							} else if it.ok && !obsEqual(cobs, want) {
								r.Fail(h.Failure{Key: "limit/within-limit-refused", Family: "client_limit", What: "client: a message of at most N bytes was not accepted", Input: in, Expected: obsStrings(want), Actual: obsStrings(cobs)})
							} else if !it.ok && (len(cobs) != 2 || cobs[1].Kind != "err") {
								r.Fail(h.Failure{Key: "limit/oversize-delivered", Family: "client_limit", What: "client: a message beyond the read limit reached user code", Input: in, Actual: obsStrings(cobs)})
							}
						}
					}
				}
				// unary Connect bodies
				if protoName == "connect" {
					for _, sz := range []int{n - 1, n, n + 1, 2*n + 5} {
						if sz < 0 {
							continue
						}
						p := genPayload(rng, sz)
						wire := compressToy(algo, p)
						o := envRunUnary(r, "unary_limit", cfg, [][]byte{wire}, h.FinCleanEOF, n <= 1024, fmt.Sprintf("unary %d bytes (wire %d)", sz, len(wire)))
						within := len(wire) <= n && sz <= n
						if within && (o.Kind != "msg" || !bytes.Equal(o.B, p)) {
							r.Fail(h.Failure{Key: "limit/within-limit-refused", Family: "unary_limit", What: "unary body within the limit not accepted", Input: map[string]any{"cfg": cfg, "size": sz}, Actual: o.String()})
						}
						if !within && o.Kind == "msg" {
							r.Fail(h.Failure{Key: "limit/oversize-delivered", Family: "unary_limit", What: "unary body beyond the limit reached user code", Input: map[string]any{"cfg": cfg, "size": sz}, Actual: o.String()})
						}
					}
				}
			}
		}
	}

	// ---- gzip bomb end to end + allocation (supporting data) ----
	for _, n := range []int{512, 65536} {
		var gz bytes.Buffer
		zw := gzip.NewWriter(&gz)
		plain := make([]byte, 64*n)
		_, _ = zw.Write(plain)
		_ = zw.Close()
		called := 0
		handler := connect.NewUnaryHandler("/verif.Svc/Unary",
			func(_ context.Context, _ *connect.Request[wrapperspb.BytesValue]) (*connect.Response[wrapperspb.BytesValue], error) {
				called++
				return connect.NewResponse(&wrapperspb.BytesValue{}), nil
			}, connect.WithReadMaxBytes(n))
		msg, _ := proto.Marshal(&wrapperspb.BytesValue{Value: plain})
		var gz2 bytes.Buffer
		zw = gzip.NewWriter(&gz2)
		_, _ = zw.Write(msg)
		_ = zw.Close()
		for _, protoName := range protos {
			req := httptest.NewRequest(http.MethodPost, "/verif.Svc/Unary", nil)
			switch protoName {
			case "connect":
				req.Body = h.NewChunkBody([][]byte{gz2.Bytes()}, h.FinCleanEOF)
				req.Header.Set("Content-Type", "application/proto")
				req.Header.Set("Content-Encoding", "gzip")
			case "grpc":
				req.Body = h.NewChunkBody([][]byte{h.Frame(1, gz2.Bytes())}, h.FinCleanEOF)
				req.Header.Set("Content-Type", "application/grpc")
				req.Header.Set("Grpc-Encoding", "gzip")
			default:
				req.Body = h.NewChunkBody([][]byte{h.Frame(1, gz2.Bytes())}, h.FinCleanEOF)
				req.Header.Set("Content-Type", "application/grpc-web")
				req.Header.Set("Grpc-Encoding", "gzip")
			}
			rec := httptest.NewRecorder()
			var m0, m1 runtime.MemStats
			runtime.GC()
			runtime.ReadMemStats(&m0)
			called = 0
			p := safely(func() { handler.ServeHTTP(rec, req) })
			runtime.ReadMemStats(&m1)
			alloc := m1.TotalAlloc - m0.TotalAlloc
			r.Eval("gzip_bomb", fmt.Sprintf("%s|%d", protoName, n))
			in := map[string]any{"proto": protoName, "limit": n, "wire_bytes": gz2.Len(), "decompressed_bytes": len(msg)}
			r.Sample("gzip_bomb", map[string]any{"in": in, "total_alloc_delta": alloc, "user_code_ran": called})
			if p != nil {
				r.Fail(h.Failure{Key: "limit/panic", Family: "gzip_bomb", What: fmt.Sprint("panic: ", p), Input: in})
			}
			if called != 0 {
				r.Fail(h.Failure{Key: "limit/oversize-delivered", Family: "gzip_bomb", What: "a payload decompressing far beyond the limit reached user code", Input: in})
			}
			if alloc > uint64(8*n+256*1024) {
				r.Fail(h.Failure{Key: "limit/buffers-far-more-than-limit", Family: "gzip_bomb", What: "the receiver allocated substantially more than the read limit for one message", Input: in, Actual: alloc})
			}
			r.Note("gzip bomb %s N=%d: TotalAlloc delta %d bytes (wire %d, decompressed %d)", protoName, n, alloc, gz2.Len(), len(msg))
		}
		// lying length prefix 2^32-1 with a limit: allocation stays small
		for _, protoName := range []string{"grpc", "connect"} {
			if !hugeLiesSafe {
				break
			}
			cfg := envCfg{Proto: protoName, Max: n}
			var m0, m1 runtime.MemStats
			runtime.GC()
			runtime.ReadMemStats(&m0)
			_, _, _, p := serveStream(cfg, h.NewChunkBody([][]byte{h.FrameLie(0, 0xFFFFFFFF, []byte("abc"))}, h.FinCleanEOF))
			runtime.ReadMemStats(&m1)
			alloc := m1.TotalAlloc - m0.TotalAlloc
			r.Eval("length_lie_alloc", fmt.Sprintf("%s|%d", protoName, n))
			in := map[string]any{"proto": protoName, "limit": n, "declared": uint32(0xFFFFFFFF)}
			r.Sample("length_lie_alloc", map[string]any{"in": in, "total_alloc_delta": alloc})
			if p != nil {
				r.Fail(h.Failure{Key: "limit/panic", Family: "length_lie_alloc", What: fmt.Sprint("panic: ", p), Input: in})
			}
			if alloc > uint64(8*n+256*1024) {
				r.Fail(h.Failure{Key: "limit/buffers-far-more-than-limit", Family: "length_lie_alloc", What: "a false length prefix made the receiver allocate substantially more than the read limit", Input: in, Actual: alloc})
			}
		}
	}
	// ---- very large limits (N >= 2^32): every message of at most N bytes is accepted for ALL N,
	// so the limit must not be narrowed to 32 bits anywhere; handler side (model cases) and
	// client side (oracle) ----
	for _, protoName := range protos {
		for _, n := range []int{1 << 32, 1<<32 + 100, 1 << 33, 1<<40 + 7, 1<<62 + 1, 1<<31 - 1, 1 << 31, 1<<32 - 1, math.MaxInt64, math.MaxInt64 - 1} {
			for _, algo := range []string{"", "tagA"} {
				cfg := envCfg{Proto: protoName, Max: n, Algo: algo}
				p1, p2 := genPayload(rng, 200), genPayload(rng, 3)
				var body []byte
				for _, p := range [][]byte{p1, p2} {
					if algo != "" {
						body = append(body, h.Frame(1, compressToy(algo, p))...)
					} else {
						body = append(body, h.Frame(0, p)...)
					}
				}
				in := map[string]any{"proto": protoName, "limit": n, "algo": algo, "sizes": []int{200, 3}}
				obs := envRun(r, "huge_limit", cfg, false, [][]byte{body}, h.FinCleanEOF, true, "limit of 2^32 or more")
				if obs != nil && !(len(obs) == 3 && obs[0].Kind == "msg" && bytes.Equal(obs[0].B, p1) && obs[1].Kind == "msg" && bytes.Equal(obs[1].B, p2) && obs[2].Kind == "eof") {
					r.Fail(h.Failure{Key: "limit/within-limit-refused", Family: "huge_limit", What: "a message of at most N bytes was not accepted (handler, N >= 2^31)", Input: in, Actual: obsStrings(obs)})
				}
				hdr, term, trailer := responseParts(cfg)
				cobs, pn := clientStreamRecv(cfg, 200, hdr, h.NewChunkBody([][]byte{append(append([]byte(nil), body...), term...)}, h.FinCleanEOF), trailer)
				r.Eval("huge_limit", fmt.Sprint("client", protoName, n, algo))
				if pn != nil {
					r.Fail(h.Failure{Key: "limit/panic", Family: "huge_limit", What: fmt.Sprint("panic: ", pn), Input: in})
				} else if !(len(cobs) == 3 && cobs[0].Kind == "msg" && bytes.Equal(cobs[0].B, p1) && cobs[1].Kind == "msg" && cobs[2].Kind == "eof") {
					r.Fail(h.Failure{Key: "limit/within-limit-refused", Family: "huge_limit", What: "client: a message of at most N bytes was not accepted (N >= 2^31)", Input: in, Actual: obsStrings(cobs)})
				}
			}
		}
	}

	c09AfterRefusal(r)
}

// c09AfterRefusal: "at every position in a stream". A reader that goes on after a refusal (a bidi
// handler; a raw conn) finds the stream positioned on the next envelope: the refused message's
// bytes — all of them, whatever their number — are never handed to user code, and the messages of
// at most N bytes that follow are accepted.
func c09AfterRefusal(r *h.Run) {
	sizes := []int{17, 300, 2000, 70000, 4 << 20, 4<<20 + 1, 5<<20 + 7}
	if r.Thorough() {
		sizes = append(sizes, 4<<20-1, 8<<20+1, 12<<20)
	}
	for si, size := range sizes {
		for _, proto := range []string{"connect", "grpc", "grpcweb"} {
			if !r.Thorough() && size > 1<<20 && (si+len(proto))%2 != 0 {
				continue
			}
			cfg := envCfg{Proto: proto, Max: 16}
			// the refused payload: zeros, with what looks like envelopes of small messages {66 66}
			// wherever a reader that lost its position might resume
			refused := make([]byte, size)
			for _, off := range []int{4 << 20, 4<<20 - 5, 65536, 32768, 512, 16, 17} {
				if off+7 <= size {
					copy(refused[off:], h.Frame(0, []byte{0x66, 0x66}))
				}
			}
			body := append(append(h.Frame(0, []byte{1}), h.Frame(0, refused)...), h.Frame(0, []byte{7})...)
			var obs []string
			var items []obsItem
			handler := connect.NewBidiStreamHandler("/verif.Svc/M", func(_ context.Context, s *connect.BidiStream[h.Raw, h.Raw]) error {
				for i := 0; i < 12; i++ {
					m, err := s.Receive()
					if errors.Is(err, io.EOF) {
						obs = append(obs, "eof")
						items = append(items, obsItem{Kind: "eof"})
						return nil
					}
					if err != nil {
						obs = append(obs, "err "+connect.CodeOf(err).String())
						items = append(items, obsItem{Kind: "err", Code: connect.CodeOf(err)})
						continue
					}
					obs = append(obs, "msg "+h.Hex(m.B))
					items = append(items, obsItem{Kind: "msg", B: append([]byte(nil), m.B...)})
				}
				return nil
			}, cfg.handlerOpts()...)
			req := httptest.NewRequest("POST", "/verif.Svc/M", nil)
			req.ProtoMajor, req.ProtoMinor = 2, 0
			req.Body = h.NewChunkBody([][]byte{body}, h.FinCleanEOF)
			req.Header.Set("Content-Type", cfg.contentType(false))
			rec := httptest.NewRecorder()
			timedOut, p := withWatchdog(20*time.Second, func() { handler.ServeHTTP(rec, req) })
			in := map[string]any{"proto": proto, "kind": "bidi", "read_limit": 16, "request": fmt.Sprintf("message {01}, then a message of %d bytes, then message {07}", size), "handler": "calls Receive until io.EOF, going on after errors"}
			r.Eval("after_refusal", fmt.Sprint(proto, size))
			if timedOut || p != nil {
				r.Fail(h.Failure{Key: "limit/panic", Family: "after_refusal", What: fmt.Sprint("hang or panic: ", p), Input: in})
				continue
			}
			r.Sample("after_refusal", map[string]any{"in": in, "observed": obs})
			if size <= 4096 {
				// the model's reader (Envelope.recv_n: Receive after Receive, errors included) on the
				// same bytes: theorem refusal_skips_exactly_the_refused_frame is about this function
				coqItems := make([]string, len(items))
				for i, o := range items {
					coqItems[i] = o.coq()
				}
				r.Case("after_refusal", fmt.Sprintf("HRecv %s %d %s %s %s %s %s", cfg.coqProto(), cfg.Max, cfg.coqAlgo(), h.CoqBool(true),
					h.CoqBytesList([][]byte{body}), h.FinCleanEOF.Coq(), h.CoqList(coqItems)),
					map[string]any{"in": in, "impl_observed": obs})
			}
			ok := len(obs) == 4 && obs[0] == "msg 01" && strings.HasPrefix(obs[1], "err ") && obs[2] == "msg 07" && obs[3] == "eof"
			if !ok {
				key := "limit/within-limit-refused"
				for _, o := range obs {
					if strings.HasPrefix(o, "msg ") && o != "msg 01" && o != "msg 07" {
						key = "limit/oversize-delivered"
					}
				}
				r.Fail(h.Failure{Key: key, Family: "after_refusal", What: "after a message beyond the limit was refused, the reader is not positioned on the next envelope: bytes of the refused message reach user code as messages, or the valid messages that follow are lost",
					Input: in, Expected: []string{"msg 01", "err <the refusal>", "msg 07", "eof"}, Actual: obs})
			}
		}
	}
}

func min(a, b int) int {
	if a < b {
		return a
	}
	return b
}
