package props

import (
	"bytes"
	"context"
	"encoding/json"
	"fmt"
	"io"
	"math"
	"math/big"
	"net/http"
	"net/http/httptest"
	"strconv"
	"strings"
	"time"

	connect "github.com/bufbuild/connect-go"
	"github.com/bufbuild/connect-go/verifharness/internal/h"
	"google.golang.org/protobuf/types/known/wrapperspb"
)

type roundTripFunc func(*http.Request) (*http.Response, error)

func (f roundTripFunc) Do(r *http.Request) (*http.Response, error) { return f(r) }

var grpcUnits = []struct {
	ch   byte
	size int64
}{{'n', 1}, {'u', 1e3}, {'m', 1e6}, {'S', 1e9}, {'M', 60e9}, {'H', 3600e9}}

func unitSize(c byte) (int64, bool) {
	for _, u := range grpcUnits {
		if u.ch == c {
			return u.size, true
		}
	}
	return 0, false
}

func allDigits(s string) bool {
	if s == "" {
		return false
	}
	for i := 0; i < len(s); i++ {
		if s[i] < '0' || s[i] > '9' {
			return false
		}
	}
	return true
}

// C10 — deadlines.
func C10(r *h.Run) {
	r.Model("c10case", "c10_ok")
	r.Sum.Rule = "gRPC encode: every unit x digit-count boundary (10^k-1,10^k,10^k+1 in each unit, +-1ns), 2^63-1, 0, negatives, log-uniform random; " +
		"gRPC/Connect parse: grammatical strings (1..8 / 1..10 digits incl. leading zeros), every single-character mutation of a grammatical seed set, sign/space/underscore variants, arbitrary bytes; " +
		"client end-to-end: header captured in HTTPClient.Do for deadlines from 200us to 400 days; handler end-to-end: ctx.Deadline() inside a served handler for crafted headers. distinct = distinct (family,input)"
	rng := r.Rng

	// ---------- grpcEncodeTimeout ----------
	var durs []int64
	durs = append(durs, 0, -1, -1e9, math.MinInt64, math.MaxInt64, math.MaxInt64-1, 1, 2)
	for _, u := range grpcUnits {
		p := int64(1)
		for k := 0; k <= 9; k++ {
			for _, m := range []int64{p - 1, p, p + 1} {
				if m <= 0 {
					continue
				}
				hi, lo := new(big.Int).Mul(big.NewInt(m), big.NewInt(u.size)), big.NewInt(math.MaxInt64)
				if hi.Cmp(lo) > 0 {
					continue
				}
				d := m * u.size
				durs = append(durs, d)
				if d > 1 {
					durs = append(durs, d-1)
				}
				if d < math.MaxInt64 {
					durs = append(durs, d+1)
				}
			}
			p *= 10
		}
	}
	er := rng.Fork("enc")
	for i := 0; i < r.N(600, 20000); i++ {
		bits := 1 + er.Intn(63)
		d := int64(er.U64() >> uint(64-bits))
		if d > 0 {
			durs = append(durs, d)
		}
	}
	for _, d := range durs {
		var s string
		var err error
		if p := safely(func() { s, err = connect.VerifGRPCEncodeTimeout(time.Duration(d)) }); p != nil {
			r.Fail(h.Failure{Key: "grpc-encode/panic", Family: "grpc_encode", What: fmt.Sprint("panic: ", p), Input: d})
			continue
		}
		r.Eval("grpc_encode", fmt.Sprint(d))
		r.Sample("grpc_encode", map[string]any{"ns": d, "encoded": s})
		r.Case("grpc_encode", fmt.Sprintf("GrpcEnc %s %s", h.CoqZ(d), h.CoqOptBytes([]byte(s), err == nil)),
			map[string]any{"ns": d, "impl": s, "impl_err": err != nil})
		if d > 0 {
			why := ""
			if err != nil {
				why = "encoder failed"
			} else if len(s) < 2 || len(s) > 9 || !allDigits(s[:len(s)-1]) || len(s)-1 > 8 {
				why = "encoded timeout outside the grammar (1..8 digits + unit)"
			} else if usz, ok := unitSize(s[len(s)-1]); !ok {
				why = "unknown unit"
			} else {
				n, _ := strconv.ParseInt(s[:len(s)-1], 10, 64)
				back := new(big.Int).Mul(big.NewInt(n), big.NewInt(usz))
				diff := new(big.Int).Sub(big.NewInt(d), back)
				if diff.Sign() < 0 {
					why = "timeout sent is longer than the time remaining"
				} else if new(big.Int).Mul(diff, big.NewInt(10000)).Cmp(big.NewInt(d)) >= 0 {
					why = "timeout sent is shorter than the remaining time by 0.01% or more"
				}
				// what the implementation's own parser makes of it
				pd, nt, perr := connect.VerifGRPCParseTimeout(s)
				if why == "" && (perr != nil || nt || big.NewInt(int64(pd)).Cmp(back) != 0) {
					why = "the library's parser does not read back what its encoder wrote"
				}
			}
			if why != "" {
				r.Fail(h.Failure{Key: "grpc-encode/unsound", Family: "grpc_encode", What: why, Input: d, Actual: s})
			}
		}
	}

	// ---------- grpcParseTimeout ----------
	var texts []string
	seeds := []string{"1n", "0n", "5S", "99999999H", "2562047H", "2562048H", "00000005S", "12345678m", "1u", "7M", "10000000n", "99999999n", "100000000n", "1H"}
	texts = append(texts, seeds...)
	texts = append(texts, "", "n", "S", "5", "55", "5s", "5h", "5N", "5U", "5 S", " 5S", "5S ", "+5S", "-5S", "-0S", "+0n", "00000000005S", "000000000S",
		"999999999S", "1_0S", "0x5S", "5.0S", "5e3S", "５S", "5SS", "5mS", "S5", "-", "+", "+S", "-S", "9223372036854775807n", "9223372036854775808n",
		"18446744073709551616n", "1\x00S", "1S\x00", "\xff", "١S", "1µ")
	mutAlpha := []byte("0129nuSMH+- _x\x00")
	for _, s := range seeds {
		b := []byte(s)
		for i := 0; i <= len(b); i++ {
			for _, c := range mutAlpha {
				ins := append(append(append([]byte{}, b[:i]...), c), b[i:]...)
				texts = append(texts, string(ins))
				if i < len(b) {
					rep := append([]byte{}, b...)
					rep[i] = c
					texts = append(texts, string(rep))
				}
			}
			if i < len(b) {
				texts = append(texts, string(append(append([]byte{}, b[:i]...), b[i+1:]...)))
			}
		}
	}
	pr := rng.Fork("parse")
	for i := 0; i < r.N(300, 5000); i++ {
		switch pr.Intn(3) {
		case 0: // grammatical
			nd := 1 + pr.Intn(8)
			b := make([]byte, nd+1)
			for j := 0; j < nd; j++ {
				b[j] = byte('0' + pr.Intn(10))
			}
			b[nd] = grpcUnits[pr.Intn(6)].ch
			texts = append(texts, string(b))
		case 1:
			texts = append(texts, string(pr.Bytes(pr.Intn(6))))
		default:
			nd := pr.Intn(14)
			b := make([]byte, nd+1)
			for j := 0; j < nd; j++ {
				b[j] = byte('0' + pr.Intn(10))
			}
			b[nd] = "nuSMHmx"[pr.Intn(7)]
			texts = append(texts, string(b))
		}
	}
	seen := map[string]bool{}
	for _, s := range texts {
		if seen[s] {
			continue
		}
		seen[s] = true
		var d time.Duration
		var nt bool
		var err error
		if p := safely(func() { d, nt, err = connect.VerifGRPCParseTimeout(s) }); p != nil {
			r.Fail(h.Failure{Key: "grpc-parse/panic", Family: "grpc_parse", What: fmt.Sprint("panic: ", p), Input: h.Hex([]byte(s))})
			continue
		}
		obs, cls := "PInvalid", "invalid"
		if nt {
			obs, cls = "PNone", "none"
		} else if err == nil {
			obs, cls = fmt.Sprintf("(PDur %s)", h.CoqZ(int64(d))), "dur"
		}
		r.Eval("grpc_parse", s)
		r.Sample("grpc_parse", map[string]any{"text": s, "class": cls, "ns": int64(d)})
		r.Case("grpc_parse", fmt.Sprintf("GrpcParse %s %s", h.CoqStr(s), obs), map[string]any{"text_hex": h.Hex([]byte(s)), "text": s, "impl": cls, "impl_ns": int64(d)})
		// direct oracle
		if s == "" {
			if cls != "none" {
				r.Fail(h.Failure{Key: "grpc-parse/empty", Family: "grpc_parse", What: "absent timeout not treated as no timeout", Input: s, Actual: cls})
			}
			continue
		}
		num, unit := s[:len(s)-1], s[len(s)-1]
		usz, uok := unitSize(unit)
		switch {
		case uok && allDigits(num) && len(num) <= 8: // grammatical: honoured exactly
			n, _ := strconv.ParseInt(num, 10, 64)
			want := new(big.Int).Mul(big.NewInt(n), big.NewInt(usz))
			if want.Cmp(big.NewInt(math.MaxInt64)) > 0 {
				if cls != "none" {
					r.Fail(h.Failure{Key: "grpc-parse/unbounded", Family: "grpc_parse", What: "grammatical timeout beyond the representable range not treated as unbounded", Input: s, Actual: cls})
				}
			} else if cls != "dur" || int64(d) != want.Int64() {
				r.Fail(h.Failure{Key: "grpc-parse/grammatical", Family: "grpc_parse", What: "grammatical timeout not honoured exactly", Input: s, Expected: want.String(), Actual: fmt.Sprint(cls, " ", int64(d))})
			}
		case !uok, num == "", strings.IndexFunc(num, func(c rune) bool { return (c < '0' || c > '9') && c != '+' && c != '-' }) >= 0:
			// missing/unknown unit, empty number, or a non-decimal character in the number
			if cls != "invalid" {
				r.Fail(h.Failure{Key: "grpc-parse/accepts-malformed", Family: "grpc_parse", What: "malformed timeout (bad unit / empty or non-decimal number) accepted", Input: s, Actual: cls})
			}
		case allDigits(num) && len(strings.TrimLeft(num, "0")) > 8:
			if cls != "invalid" {
				r.Fail(h.Failure{Key: "grpc-parse/accepts-too-long", Family: "grpc_parse", What: "magnitude beyond the 8-digit limit accepted", Input: s, Actual: cls})
			}
		}
	}

	// ---------- client end-to-end: header seen by HTTPClient.Do ----------
	type capture struct {
		hdr       http.Header
		remaining time.Duration
		has       bool
	}
	// the same *connect.Request sent twice (a retry interceptor, a caller re-sending it), and a
	// request whose header already carries a timeout: each attempt must carry exactly one timeout
	// value, the one for the time remaining NOW
	for _, proto := range []string{"connect", "grpc", "grpcweb"} {
		for _, stale := range []bool{false, true} {
			var seen [][]string
			var remaining []time.Duration
			var deadline time.Time
			hname := "Connect-Timeout-Ms"
			var opts []connect.ClientOption
			if proto == "grpc" {
				opts, hname = append(opts, connect.WithGRPC()), "Grpc-Timeout"
			} else if proto == "grpcweb" {
				opts, hname = append(opts, connect.WithGRPCWeb()), "Grpc-Timeout"
			}
			doer := roundTripFunc(func(req *http.Request) (*http.Response, error) {
				seen = append(seen, append([]string(nil), req.Header.Values(hname)...))
				remaining = append(remaining, time.Until(deadline))
				return nil, fmt.Errorf("verif: stop here")
			})
			client := connect.NewClient[wrapperspb.BytesValue, wrapperspb.BytesValue](doer, "http://verif.invalid/verif.Svc/Do", opts...)
			req := connect.NewRequest(&wrapperspb.BytesValue{})
			if stale {
				req.Header().Set(hname, map[string]string{"Connect-Timeout-Ms": "3600000", "Grpc-Timeout": "1H"}[hname])
			}
			for _, d := range []time.Duration{5 * time.Hour, 200 * time.Millisecond} {
				deadline = time.Now().Add(d)
				ctx, cancel := context.WithDeadline(context.Background(), deadline)
				_, _ = client.CallUnary(ctx, req)
				cancel()
			}
			// third attempt: no deadline at all; fourth: one too far away to express (Connect: more
			// than 10 digits of milliseconds). Neither may announce a timeout — least of all the
			// one left in the header by an earlier attempt
			// (each of the two directly after an attempt that did announce one)
			deadline = time.Now().Add(1 << 62)
			farCtx, farCancel := context.WithDeadline(context.Background(), deadline)
			_, _ = client.CallUnary(farCtx, req)
			farCancel()
			deadline = time.Now().Add(3 * time.Second)
			nearCtx, nearCancel := context.WithDeadline(context.Background(), deadline)
			_, _ = client.CallUnary(nearCtx, req)
			nearCancel()
			deadline = time.Now().Add(1 << 62)
			_, _ = client.CallUnary(context.Background(), req)
			if len(seen) == 5 {
				seen[2], seen[3], seen[4] = seen[4], seen[2], seen[3] // [.., .., none, far, near]
				if len(seen[2]) != 0 {
					r.Fail(h.Failure{Key: proto + "-client/timeout-without-deadline", Family: "client_reuse", What: "a request re-sent on a context without a deadline announces a timeout (left over from an earlier attempt): the handler's context gets a deadline the client does not have",
						Input: map[string]any{"proto": proto, "request_header_preset": stale, "attempts": "deadline in 5h, in 200ms, 146 years away, in 3s, then the same request with no deadline"}, Actual: seen})
				}
				if hname == "Connect-Timeout-Ms" && len(seen[3]) != 0 {
					r.Fail(h.Failure{Key: proto + "-client/inexpressible-not-omitted", Family: "client_reuse", What: "a remaining time too large to express was not sent as 'no timeout' (an earlier attempt's value went out instead)",
						Input: map[string]any{"proto": proto, "request_header_preset": stale, "attempts": "deadline in 5h, in 200ms, then the same request with a deadline 146 years away"}, Actual: seen})
				}
				seen, remaining = seen[:2], remaining[:2]
			}
			in := map[string]any{"proto": proto, "request_header_preset": stale, "attempts": "deadline in 5h, then the same request with a deadline in 200ms"}
			r.Eval("client_reuse", fmt.Sprint(proto, stale))
			r.Sample("client_reuse", map[string]any{"in": in, "timeout_headers_per_attempt": seen})
			for i, vals := range seen {
				if len(vals) != 1 {
					r.Fail(h.Failure{Key: proto + "-client/timeout-header-count", Family: "client_reuse", What: fmt.Sprintf("attempt %d carries %d timeout values (the receiver honours the first)", i+1, len(vals)), Input: in, Actual: seen})
					continue
				}
				// the value sent must not exceed the time remaining for THIS attempt
				var sent time.Duration
				if hname == "Connect-Timeout-Ms" {
					n, err := strconv.ParseInt(vals[0], 10, 64)
					if err != nil {
						continue
					}
					sent = time.Duration(n) * time.Millisecond
				} else if len(vals[0]) >= 2 {
					n, err := strconv.ParseInt(vals[0][:len(vals[0])-1], 10, 64)
					usz, ok := unitSize(vals[0][len(vals[0])-1])
					if err != nil || !ok {
						continue
					}
					sent = time.Duration(n * usz)
				}
				if i < len(remaining) && sent > remaining[i]+5*time.Millisecond {
					r.Fail(h.Failure{Key: proto + "-client/extended", Family: "client_reuse", What: fmt.Sprintf("attempt %d announces %v although only %v remain", i+1, sent, remaining[i]), Input: in, Actual: seen})
				}
			}
		}
	}
	// a stream created some time before its first Send (the request is made then, not when the
	// stream is created): the timeout announced must be the time remaining when the request
	// leaves, not when the stream object was made
	for _, proto := range []string{"connect", "grpc", "grpcweb"} {
		for _, kind := range []string{"client", "bidi", "client-no-message", "bidi-no-message"} {
			hname := "Connect-Timeout-Ms"
			var opts []connect.ClientOption
			if proto == "grpc" {
				opts, hname = append(opts, connect.WithGRPC()), "Grpc-Timeout"
			} else if proto == "grpcweb" {
				opts, hname = append(opts, connect.WithGRPCWeb()), "Grpc-Timeout"
			}
			var vals []string
			var remaining time.Duration
			var deadline time.Time
			doer := roundTripFunc(func(req *http.Request) (*http.Response, error) {
				vals = append([]string(nil), req.Header.Values(hname)...)
				remaining = time.Until(deadline)
				return nil, fmt.Errorf("verif: stop here")
			})
			client := connect.NewClient[wrapperspb.BytesValue, wrapperspb.BytesValue](doer, "http://verif.invalid/verif.Svc/Do", opts...)
			deadline = time.Now().Add(2 * time.Second)
			ctx, cancel := context.WithDeadline(context.Background(), deadline)
			const idle = 400 * time.Millisecond
			switch kind {
			case "client-no-message": // the request is made by closing the request side, not by a Send
				st := client.CallClientStream(ctx)
				time.Sleep(idle)
				_, _ = st.CloseAndReceive()
			case "bidi-no-message":
				st := client.CallBidiStream(ctx)
				time.Sleep(idle)
				_ = st.CloseRequest()
				_, _ = st.Receive()
				_ = st.CloseResponse()
			}
			if kind == "client" {
				st := client.CallClientStream(ctx)
				time.Sleep(idle)
				_ = st.Send(&wrapperspb.BytesValue{})
				_, _ = st.CloseAndReceive()
			} else if kind == "bidi" {
				st := client.CallBidiStream(ctx)
				time.Sleep(idle)
				_ = st.Send(&wrapperspb.BytesValue{})
				_ = st.CloseRequest()
				_, _ = st.Receive()
				_ = st.CloseResponse()
			}
			cancel()
			in := map[string]any{"proto": proto, "kind": kind, "deadline": "2s", "idle_between_creating_the_stream_and_the_first_Send_ms": idle.Milliseconds()}
			r.Eval("client_stream_idle", fmt.Sprint(proto, kind))
			r.Sample("client_stream_idle", map[string]any{"in": in, "timeout_header": vals, "remaining_when_sent_ms": remaining.Milliseconds()})
			if len(vals) != 1 {
				r.Fail(h.Failure{Key: proto + "-client/timeout-header-count", Family: "client_stream_idle", What: fmt.Sprintf("the request carries %d timeout values", len(vals)), Input: in, Actual: vals})
				continue
			}
			var sent time.Duration
			if hname == "Connect-Timeout-Ms" {
				n, _ := strconv.ParseInt(vals[0], 10, 64)
				sent = time.Duration(n) * time.Millisecond
			} else if len(vals[0]) >= 2 {
				n, _ := strconv.ParseInt(vals[0][:len(vals[0])-1], 10, 64)
				usz, _ := unitSize(vals[0][len(vals[0])-1])
				sent = time.Duration(n * usz)
			}
			if sent > remaining+5*time.Millisecond {
				r.Fail(h.Failure{Key: proto + "-client/extended", Family: "client_stream_idle", What: fmt.Sprintf("the request announces %v although only %v remained when it was sent: the handler's deadline is later than the client's", sent, remaining), Input: in, Actual: vals})
			}
		}
	}
	// a deadline imposed by a client INTERCEPTOR (the interceptor hands a context with a shorter
	// deadline down the chain): it is the call's deadline, for streaming calls as for unary ones
	for _, proto := range []string{"connect", "grpc", "grpcweb"} {
		for _, kind := range []string{"unary", "client", "server", "bidi"} {
			for _, callerHasDeadline := range []bool{false, true} {
				hname := "Connect-Timeout-Ms"
				var opts []connect.ClientOption
				if proto == "grpc" {
					opts, hname = append(opts, connect.WithGRPC()), "Grpc-Timeout"
				} else if proto == "grpcweb" {
					opts, hname = append(opts, connect.WithGRPCWeb()), "Grpc-Timeout"
				}
				opts = append(opts, connect.WithInterceptors(deadlineIcpt{2 * time.Second}))
				var vals []string
				doer := roundTripFunc(func(req *http.Request) (*http.Response, error) {
					vals = append([]string(nil), req.Header.Values(hname)...)
					return nil, fmt.Errorf("verif: stop here")
				})
				client := connect.NewClient[wrapperspb.BytesValue, wrapperspb.BytesValue](doer, "http://verif.invalid/verif.Svc/Do", opts...)
				ctx, cancel := context.Background(), context.CancelFunc(func() {})
				if callerHasDeadline {
					ctx, cancel = context.WithTimeout(ctx, time.Hour)
				}
				switch kind {
				case "unary":
					_, _ = client.CallUnary(ctx, connect.NewRequest(&wrapperspb.BytesValue{}))
				case "client":
					st := client.CallClientStream(ctx)
					_ = st.Send(&wrapperspb.BytesValue{})
					_, _ = st.CloseAndReceive()
				case "server":
					st, err := client.CallServerStream(ctx, connect.NewRequest(&wrapperspb.BytesValue{}))
					if err == nil {
						_ = st.Close()
					}
				default:
					st := client.CallBidiStream(ctx)
					_ = st.Send(&wrapperspb.BytesValue{})
					_ = st.CloseRequest()
					_, _ = st.Receive()
					_ = st.CloseResponse()
				}
				cancel()
				in := map[string]any{"proto": proto, "kind": kind, "interceptor_deadline": "2s", "caller_deadline": map[bool]string{false: "none", true: "1h"}[callerHasDeadline]}
				r.Eval("client_interceptor_deadline", fmt.Sprint(proto, kind, callerHasDeadline))
				r.Sample("client_interceptor_deadline", map[string]any{"in": in, "timeout_header": vals})
				var sent time.Duration
				ok := len(vals) == 1
				if ok {
					if hname == "Connect-Timeout-Ms" {
						n, err := strconv.ParseInt(vals[0], 10, 64)
						sent, ok = time.Duration(n)*time.Millisecond, err == nil
					} else if len(vals[0]) >= 2 {
						n, err := strconv.ParseInt(vals[0][:len(vals[0])-1], 10, 64)
						usz, uok := unitSize(vals[0][len(vals[0])-1])
						sent, ok = time.Duration(n*usz), err == nil && uok
					}
				}
				if !ok || sent > 2*time.Second+5*time.Millisecond || sent < 1500*time.Millisecond {
					r.Fail(h.Failure{Key: proto + "-client/interceptor-deadline-not-announced", Family: "client_interceptor_deadline", What: "the deadline a client interceptor put on the call's context is not what the request announces", Input: in, Expected: "about 2s", Actual: vals})
				}
			}
		}
	}
	// a retry interceptor: it calls next twice for one CallUnary — first under a short deadline of
	// its own, then (the first attempt having failed) on the caller's context, which has no
	// deadline or one too far away to express: the second attempt announces what ITS context says
	for _, proto := range []string{"connect", "grpc", "grpcweb"} {
		for _, second := range []string{"no deadline", "a deadline 146 years away"} {
			hname := "Connect-Timeout-Ms"
			var opts []connect.ClientOption
			if proto == "grpc" {
				opts, hname = append(opts, connect.WithGRPC()), "Grpc-Timeout"
			} else if proto == "grpcweb" {
				opts, hname = append(opts, connect.WithGRPCWeb()), "Grpc-Timeout"
			}
			var seen [][]string
			doer := roundTripFunc(func(req *http.Request) (*http.Response, error) {
				seen = append(seen, append([]string(nil), req.Header.Values(hname)...))
				return nil, fmt.Errorf("verif: stop here")
			})
			retry := connect.UnaryInterceptorFunc(func(next connect.UnaryFunc) connect.UnaryFunc {
				return func(ctx context.Context, req connect.AnyRequest) (connect.AnyResponse, error) {
					short, cancel := context.WithTimeout(ctx, 150*time.Millisecond)
					_, _ = next(short, req)
					cancel()
					return next(ctx, req)
				}
			})
			client := connect.NewClient[wrapperspb.BytesValue, wrapperspb.BytesValue](doer, "http://verif.invalid/verif.Svc/Do", append(opts, connect.WithInterceptors(retry))...)
			ctx := context.Background()
			if second != "no deadline" {
				var cancel context.CancelFunc
				ctx, cancel = context.WithDeadline(ctx, time.Now().Add(1<<62))
				defer cancel()
			}
			_, _ = client.CallUnary(ctx, connect.NewRequest(&wrapperspb.BytesValue{}))
			in := map[string]any{"proto": proto, "interceptor": "calls next under a 150 ms deadline, then again on the caller's context", "caller's context": second}
			r.Eval("client_retry_interceptor", fmt.Sprint(proto, second))
			r.Sample("client_retry_interceptor", map[string]any{"in": in, "timeout_headers_per_attempt": seen})
			expressible := second != "no deadline" && hname == "Grpc-Timeout" // (gRPC can say 146 years: in hours)
			if len(seen) != 2 || len(seen[0]) != 1 {
				r.Fail(h.Failure{Key: proto + "-client/timeout-header-count", Family: "client_retry_interceptor", What: "the first attempt does not carry exactly one timeout value", Input: in, Actual: seen})
			} else if !expressible && len(seen[1]) != 0 {
				r.Fail(h.Failure{Key: proto + "-client/timeout-without-deadline", Family: "client_retry_interceptor", What: "the second attempt announces a timeout its context does not have (the first attempt's)", Input: in, Actual: seen})
			} else if expressible && (len(seen[1]) != 1 || seen[1][0] == seen[0][0]) {
				r.Fail(h.Failure{Key: proto + "-client/extended", Family: "client_retry_interceptor", What: "the second attempt does not announce the time remaining on ITS context", Input: in, Actual: seen})
			}
		}
	}
	clientCase := func(proto string, d time.Duration) {
		var cap capture
		var deadline time.Time
		doer := roundTripFunc(func(req *http.Request) (*http.Response, error) {
			cap.hdr = req.Header.Clone()
			cap.remaining = time.Until(deadline)
			cap.has = true
			return nil, fmt.Errorf("verif: stop here")
		})
		var opts []connect.ClientOption
		hname := "Connect-Timeout-Ms"
		if proto == "grpc" {
			opts = append(opts, connect.WithGRPC())
			hname = "Grpc-Timeout"
		} else if proto == "grpcweb" {
			opts = append(opts, connect.WithGRPCWeb())
			hname = "Grpc-Timeout"
		}
		client := connect.NewClient[wrapperspb.BytesValue, wrapperspb.BytesValue](doer, "http://verif.invalid/verif.Svc/Do", opts...)
		ctx := context.Background()
		var cancel context.CancelFunc = func() {}
		var before time.Duration
		if d != 0 {
			deadline = time.Now().Add(d)
			ctx, cancel = context.WithDeadline(ctx, deadline)
			before = time.Until(deadline)
		}
		_, _ = client.CallUnary(ctx, connect.NewRequest(&wrapperspb.BytesValue{}))
		cancel()
		if !cap.has {
			return
		}
		vals := cap.hdr.Values(hname)
		val, present := "", len(vals) > 0
		if present {
			val = vals[0]
		}
		fam := "client_" + proto
		r.Eval(fam, fmt.Sprint(d))
		r.Sample(fam, map[string]any{"deadline_in": d.String(), "header": val, "present": present})
		if d == 0 {
			if present {
				r.Fail(h.Failure{Key: "client/header-without-deadline", Family: fam, What: "timeout header sent although the context has no deadline", Input: "no deadline", Actual: val})
			}
			return
		}
		ctor := "ClientConnect"
		if proto != "connect" {
			ctor = "ClientGrpc"
		}
		r.Case(fam, fmt.Sprintf("%s %s %s %s", ctor, h.CoqZ(int64(cap.remaining)), h.CoqZ(int64(before)), h.CoqOptBytes([]byte(val), present)),
			map[string]any{"remaining_at_capture_ns": int64(cap.remaining), "remaining_before_ns": int64(before), "impl_header": val, "present": present})
		// direct oracle: never longer than the time remaining; shorter by at most the granularity
		if !present {
			expressible := (proto != "connect") || (before/time.Millisecond < 10000000000)
			if cap.remaining > 0 && expressible {
				key := proto + "-client/no-header"
				if proto == "connect" && before < time.Millisecond {
					key = "connect-client/submilli-deadline"
				}
				r.Fail(h.Failure{Key: key, Family: fam, What: "deadline with time remaining, but no timeout header was sent (an absent header is an unbounded timeout)",
					Input: map[string]any{"remaining_ns_when_sent": int64(cap.remaining)}})
			}
			return
		}
		var sent *big.Int
		gran := new(big.Int)
		if proto == "connect" {
			if !allDigits(val) || len(val) > 10 {
				r.Fail(h.Failure{Key: "connect-client/ungrammatical", Family: fam, What: "Connect-Timeout-Ms outside the grammar", Input: d.String(), Actual: val})
				return
			}
			n, _ := strconv.ParseInt(val, 10, 64)
			sent = new(big.Int).Mul(big.NewInt(n), big.NewInt(1e6))
			gran.SetInt64(1e6)
		} else {
			if len(val) < 2 || len(val) > 9 || !allDigits(val[:len(val)-1]) {
				r.Fail(h.Failure{Key: "grpc-client/ungrammatical", Family: fam, What: "Grpc-Timeout outside the grammar", Input: d.String(), Actual: val})
				return
			}
			usz, ok := unitSize(val[len(val)-1])
			if !ok {
				r.Fail(h.Failure{Key: "grpc-client/ungrammatical", Family: fam, What: "Grpc-Timeout with unknown unit", Input: d.String(), Actual: val})
				return
			}
			n, _ := strconv.ParseInt(val[:len(val)-1], 10, 64)
			sent = new(big.Int).Mul(big.NewInt(n), big.NewInt(usz))
			gran.Div(big.NewInt(int64(before)), big.NewInt(10000))
			gran.Add(gran, big.NewInt(1))
		}
		if before > 0 && sent.Cmp(big.NewInt(int64(before))) > 0 {
			r.Fail(h.Failure{Key: proto + "-client/extended", Family: fam, What: "timeout sent is longer than the time remaining", Input: map[string]any{"remaining_before_ns": int64(before)}, Actual: val})
		}
		lower := new(big.Int).Sub(big.NewInt(int64(cap.remaining)), gran)
		if sent.Cmp(lower) < 0 {
			r.Fail(h.Failure{Key: proto + "-client/too-short", Family: fam, What: "timeout sent is shorter than the remaining time by more than the granularity", Input: map[string]any{"remaining_at_capture_ns": int64(cap.remaining)}, Actual: val})
		}
	}
	cdur := []time.Duration{0, 600 * time.Microsecond, 900 * time.Microsecond, 999 * time.Microsecond, time.Millisecond + 200*time.Microsecond, 1500 * time.Microsecond,
		2 * time.Millisecond, 10 * time.Millisecond, 999 * time.Millisecond, time.Second, 9999999 * time.Millisecond, 10000 * time.Second, 100000 * time.Second,
		time.Hour, 24 * time.Hour, 2777 * time.Hour, 2778 * time.Hour, 2777*time.Hour + 46*time.Minute + 39*time.Second, 2777*time.Hour + 46*time.Minute + 41*time.Second,
		9000 * time.Hour, 200 * 365 * 24 * time.Hour, time.Duration(math.MaxInt64 - 1e12)}
	cr := rng.Fork("client")
	for i := 0; i < r.N(40, 400); i++ {
		bits := 18 + cr.Intn(45)
		cdur = append(cdur, time.Duration(cr.U64()>>uint(64-bits)))
	}
	for _, proto := range []string{"connect", "grpc", "grpcweb"} {
		for _, d := range cdur {
			reps := 1
			if d > 0 && d < 2*time.Millisecond {
				reps = 5
			}
			for k := 0; k < reps; k++ {
				clientCase(proto, d)
			}
		}
	}

	// ---------- handler end-to-end: ctx.Deadline() for crafted headers ----------
	type seenCtx struct {
		calls    int
		has      bool
		deadline time.Time
	}
	var sc seenCtx
	handler := connect.NewClientStreamHandler("/verif.Svc/Do",
		func(ctx context.Context, stream *connect.ClientStream[wrapperspb.BytesValue]) (*connect.Response[wrapperspb.BytesValue], error) {
			sc.calls++
			sc.deadline, sc.has = ctx.Deadline()
			return connect.NewResponse(&wrapperspb.BytesValue{}), nil
		})
	handlerCase := func(proto, val string, set bool) {
		sc = seenCtx{}
		req := httptest.NewRequest(http.MethodPost, "/verif.Svc/Do", bytes.NewReader(nil))
		hname := "Connect-Timeout-Ms"
		if proto == "connect" {
			req.Header.Set("Content-Type", "application/connect+proto")
		} else {
			req.Header.Set("Content-Type", "application/grpc")
			hname = "Grpc-Timeout"
		}
		if set {
			req.Header[hname] = []string{val}
		}
		rec := httptest.NewRecorder()
		t0 := time.Now()
		if p := safely(func() { handler.ServeHTTP(rec, req) }); p != nil {
			r.Fail(h.Failure{Key: "handler-timeout/panic", Family: "handler_" + proto, What: fmt.Sprint("panic: ", p), Input: h.Hex([]byte(val))})
			return
		}
		t1 := time.Now()
		// error code the peer sees
		code := ""
		if proto == "connect" {
			body, _ := io.ReadAll(rec.Body)
			if len(body) >= 5 {
				var end struct {
					Error *struct {
						Code string `json:"code"`
					} `json:"error"`
				}
				_ = json.Unmarshal(body[5:], &end)
				if end.Error != nil {
					code = end.Error.Code
				}
			}
		} else {
			code = rec.Header().Get(http.TrailerPrefix + "Grpc-Status")
			if code == "0" {
				code = ""
			} else if code == "3" {
				code = "invalid_argument"
			}
		}
		fam := "handler_" + proto
		r.Eval(fam, val)
		obs, cls := "HNone", "no-deadline"
		switch {
		case sc.calls == 0:
			obs, cls = "HRejected", "rejected:"+code
		case sc.has:
			lo, hi := sc.deadline.Sub(t1), sc.deadline.Sub(t0)
			obs, cls = fmt.Sprintf("(HDur %s %s)", h.CoqZ(int64(lo)), h.CoqZ(int64(hi))), "deadline"
		}
		r.Sample(fam, map[string]any{"header": val, "set": set, "class": cls})
		ctor := "HandlerConnect"
		if proto != "connect" {
			ctor = "HandlerGrpc"
		}
		hv := []byte(val)
		if !set {
			hv = nil
		}
		r.Case(fam, fmt.Sprintf("%s %s %s", ctor, h.CoqBytes(hv), obs), map[string]any{"header_hex": h.Hex(hv), "header": val, "set": set, "impl": cls})
		if sc.calls > 1 {
			r.Fail(h.Failure{Key: "handler-timeout/ran-twice", Family: fam, What: "user code ran more than once", Input: val})
		}
		if sc.calls == 0 && code != "invalid_argument" {
			r.Fail(h.Failure{Key: "handler-timeout/reject-code", Family: fam, What: "timeout rejected, but not as invalid_argument", Input: val, Actual: code})
		}
		if !set && (sc.calls != 1 || sc.has) {
			r.Fail(h.Failure{Key: "handler-timeout/deadline-without-header", Family: fam, What: "no timeout header, yet the handler context has a deadline (or user code did not run)", Input: val, Actual: cls})
		}
		// values outside even the lenient reading of the grammar (an optional sign,
		// decimal digits, for gRPC one unit letter; bounded length) must be rejected
		if set && sc.calls != 0 {
			lenient := false
			body := val
			if proto != "connect" && len(body) > 0 {
				if _, ok := unitSize(body[len(body)-1]); ok {
					body = body[:len(body)-1]
				} else {
					body = "x"
				}
			}
			if len(body) > 0 && (body[0] == '+' || body[0] == '-') {
				body = body[1:]
			}
			if body != "" && allDigits(body) {
				lenient = true
			}
			if !lenient && val != "" {
				r.Fail(h.Failure{Key: "handler-timeout/accepts-malformed", Family: fam, What: "a timeout that is not a decimal integer (with the protocol's unit) was accepted and user code ran", Input: val, Actual: cls})
			}
		}
		// grammatical values are honoured exactly
		if set {
			var want *big.Int
			gram := false
			if proto == "connect" && allDigits(val) && len(val) <= 10 {
				n, _ := strconv.ParseInt(val, 10, 64)
				want, gram = new(big.Int).Mul(big.NewInt(n), big.NewInt(1e6)), true
			} else if proto != "connect" && len(val) >= 2 && len(val) <= 9 && allDigits(val[:len(val)-1]) {
				if usz, ok := unitSize(val[len(val)-1]); ok {
					n, _ := strconv.ParseInt(val[:len(val)-1], 10, 64)
					want, gram = new(big.Int).Mul(big.NewInt(n), big.NewInt(usz)), true
				}
			}
			if gram {
				if want.Cmp(big.NewInt(math.MaxInt64)) > 0 {
					if sc.calls != 1 || sc.has {
						r.Fail(h.Failure{Key: "handler-timeout/unbounded", Family: fam, What: "grammatical timeout beyond the representable range not treated as unbounded", Input: val, Actual: cls})
					}
				} else if sc.calls != 1 || !sc.has {
					r.Fail(h.Failure{Key: "handler-timeout/not-honoured", Family: fam, What: "grammatical timeout not honoured (no deadline on the handler context or user code not run)", Input: val, Actual: cls})
				} else {
					lo, hi := sc.deadline.Sub(t1), sc.deadline.Sub(t0)
					w := time.Duration(want.Int64())
					if w < lo-time.Millisecond || w > hi+time.Millisecond {
						r.Fail(h.Failure{Key: "handler-timeout/not-honoured", Family: fam, What: "handler deadline does not correspond to the timeout sent", Input: val, Expected: w.String(), Actual: fmt.Sprint(lo, "..", hi)})
					}
				}
			}
		}
	}
	handlerCase("connect", "", false)
	handlerCase("grpc", "", false)
	for _, s := range []string{"1", "0", "5000", "9999999999", "10000000000", "0000000005", "00000000005", "99999999999", "abc", "5s", "-5", "+5", " 5", "5 ", "5.0", "1e3", "", "0x10",
		"9223372036854", "1_000", "٥", "5\x00",
		"1.5", ".5", "60000.0", "1h30", "5m5", "1s1", "2us1", "1m", "5ms", "1e2", "0.", "1h", "5µs1", "1ns1"} {
		handlerCase("connect", s, true)
	}
	for _, s := range []string{"1n", "5S", "99999999H", "2562047H", "2562048H", "00000005S", "5", "S", "5s", "+5S", "-5S", "-0S", "100000000n", "000000000S", "00000000005S", "5 S", "", "x", "5µ", "12345678m", "1u", "7M"} {
		handlerCase("grpc", s, true)
	}
	hr := rng.Fork("handler")
	for i := 0; i < r.N(120, 2000); i++ {
		nd := 1 + hr.Intn(11)
		b := make([]byte, nd)
		for j := range b {
			b[j] = byte('0' + hr.Intn(10))
		}
		if hr.Intn(4) == 0 {
			b[hr.Intn(nd)] = "+-x _.hmsun"[hr.Intn(11)]
		}
		handlerCase("connect", string(b), true)
		nd = 1 + hr.Intn(9)
		b = make([]byte, nd+1)
		for j := 0; j < nd; j++ {
			b[j] = byte('0' + hr.Intn(10))
		}
		b[nd] = "nuSMHmhx"[hr.Intn(8)]
		handlerCase("grpc", string(b), true)
	}
}

// deadlineIcpt hands a context with a deadline of its own down the chain.
type deadlineIcpt struct{ d time.Duration }

func (i deadlineIcpt) WrapUnary(next connect.UnaryFunc) connect.UnaryFunc {
	return func(ctx context.Context, req connect.AnyRequest) (connect.AnyResponse, error) {
		ctx, cancel := context.WithTimeout(ctx, i.d)
		defer cancel()
		return next(ctx, req)
	}
}
func (i deadlineIcpt) WrapStreamingClient(next connect.StreamingClientFunc) connect.StreamingClientFunc {
	return func(ctx context.Context, spec connect.Spec) connect.StreamingClientConn {
		ctx, cancel := context.WithTimeout(ctx, i.d)
		_ = cancel // released when the deadline passes
		return next(ctx, spec)
	}
}
func (i deadlineIcpt) WrapStreamingHandler(next connect.StreamingHandlerFunc) connect.StreamingHandlerFunc {
	return next
}
