package props

import (
	"bytes"
	"context"
	"encoding/json"
	"errors"
	"fmt"
	"net/http"
	"net/http/httptest"
	"sort"
	"strings"

	connect "github.com/bufbuild/connect-go"
	"github.com/bufbuild/connect-go/verifharness/internal/h"
)

func genMeta(rng *h.Rng, prefix string) http.Header {
	out := http.Header{}
	nk := 1 + rng.Intn(6)
	for i := 0; i < nk; i++ {
		// plain names, and names that merely CONTAIN what the protocols treat as a prefix
		// ("Trailer-", "Grpc-", "Connect-") somewhere after their start
		key := fmt.Sprintf("%s-%s%d", prefix, []string{"Key", "Alpha", "Z", "Multi-Part-Name", "Trailer-Id", "Has-Trailer-Sum", "Grpc-Status", "Connect-Timeout-Ms", "Content-Type", "Trailer"}[rng.Intn(10)], rng.Intn(3))
		bin := rng.Intn(4) == 0
		if bin {
			key += "-Bin"
		}
		nv := 1 + rng.Intn(3)
		for j := 0; j < nv; j++ {
			if bin {
				out.Add(key, connect.EncodeBinaryHeader(rng.Bytes(rng.Intn(20))))
				continue
			}
			n := 1 + rng.Intn(16)
			b := make([]byte, n)
			for x := range b {
				b[x] = byte(0x21 + rng.Intn(0x5e)) // printable, no blanks at the ends
			}
			if n > 3 && rng.Bool() {
				b[n/2] = ' '
			}
			out.Add(key, string(b))
		}
	}
	return out
}

func coqHmap(hd http.Header, keys []string) string {
	var items []string
	for _, k := range keys {
		if vs, ok := hd[k]; ok {
			vals := make([]string, len(vs))
			for i, v := range vs {
				vals[i] = h.CoqStr(v)
			}
			items = append(items, fmt.Sprintf("(%s, %s)", h.CoqStr(k), h.CoqList(vals)))
		}
	}
	return h.CoqList(items)
}

// C11 — headers and trailers.
func C11(r *h.Run) {
	r.Model("c11case", "c11_ok")
	r.Sum.Rule = "random multimaps (1..6 keys, 1..3 values, -Bin keys with random bytes, blanks inside values) for request headers, response headers and response trailers x 3 protocols x 4 RPC kinds x {success with messages, success without messages, error before the first message, error after messages} over the in-process transport and real HTTP/1.1 + HTTP/2 servers; unary Connect Trailer- mapping at the HTTP boundary (model cases); binary-header helpers on all strings of length <= 2 and padded/unpadded variants. distinct = distinct (multimaps, cfg)"
	rng := r.Rng.Fork("c11")
	protos := []string{"connect", "grpc", "grpcweb"}
	kinds := []string{"unary", "client", "server", "bidi"}
	outcomes := []string{"success", "success-empty", "error-first", "error-after"}

	checkSub := func(fam, what string, in any, want http.Header, have ...http.Header) {
		for k, vs := range want {
			var got []string
			for _, hd := range have {
				got = append(got, hd.Values(k)...)
			}
			if !sublist(vs, got) {
				r.Fail(h.Failure{Key: "metadata/" + what, Family: fam, What: "values attached by one side are not all visible to the other, unchanged and in order (" + what + ")", Input: in, Expected: map[string]any{k: vs}, Actual: got})
			}
		}
	}

	n := 0
	total := r.N(220, 2400)
	for n < total {
		for _, proto := range protos {
			for _, kind := range kinds {
				for _, outcome := range outcomes {
					n++
					if n > total {
						break
					}
					if (kind == "unary" || kind == "client") && (outcome == "success-empty" || outcome == "error-after") {
						continue // these kinds answer with exactly one message or an error
					}
					reqH, resH, resT := genMeta(rng, "X-Req"), genMeta(rng, "X-Res"), genMeta(rng, "X-Trl")
					errMeta := genMeta(rng, "X-Err")
					if rng.Intn(3) == 0 {
						// one key used for a header, a trailer and the error's metadata at once
						resH.Add("X-Shared", "from-header")
						resT.Add("X-Shared", "from-trailer")
						errMeta.Add("X-Shared", "from-error")
					}
					var copts []connect.ClientOption
					switch proto {
					case "grpc":
						copts = append(copts, connect.WithGRPC())
					case "grpcweb":
						copts = append(copts, connect.WithGRPCWeb())
					}
					if n%5 == 0 {
						copts = append(copts, connect.WithProtoJSON())
					}
					// a client interceptor attaches a header too — under a name the caller also uses
					icptKey := ""
					if rng.Intn(3) == 0 {
						for k := range reqH {
							if icptKey == "" || k < icptKey {
								icptKey = k
							}
						}
						if icptKey != "" {
							copts = append(copts, connect.WithInterceptors(hdrIcpt{icptKey, "from-interceptor"}))
						}
					}
					via := viaLocal
					if n%9 == 0 {
						via = viaHTTP2
					} else if n%14 == 0 && kind != "bidi" {
						via = viaHTTP1
					}
					var retErr error
					resMsgs := [][]byte{{1}, {2}}
					switch outcome {
					case "success-empty":
						resMsgs = [][]byte{}
					case "error-first":
						resMsgs = [][]byte{}
						retErr = mkError(connect.CodeAborted, "stop", 0, errMeta)
					case "error-after":
						retErr = mkError(connect.CodeAborted, "stop", 0, errMeta)
					}
					wrapped := retErr != nil && rng.Intn(3) == 0
					if wrapped {
						// the coded error is not the outermost one: errors.As finds it all the same
						retErr = fmt.Errorf("handler: %w", retErr)
					}
					if (kind == "unary" || kind == "client") && retErr == nil {
						resMsgs = [][]byte{{1}}
					}
					ex := &e2eExtras{ReqHeader: reqH, ResHeader: resH, ResTrailer: resT}
					send := resMsgs
					if len(send) == 0 && (kind == "unary" || kind == "client") {
						send = [][]byte{{1}}
					}
					res := runE2E(bytesValueKind, kind, via, copts, nil, [][]byte{{9}}, send, retErr, 0, ex)
					in := map[string]any{"proto": proto, "kind": kind, "outcome": outcome, "via": via, "request_header": reqH, "response_header": resH, "response_trailer": resT, "error_meta": errMeta, "client_interceptor_adds_header_under": icptKey, "error_wrapped_in_plain_error": wrapped}
					r.Eval("e2e_metadata", fmt.Sprint(n))
					if res.Panic != nil {
						r.Fail(h.Failure{Key: "metadata/panic-or-hang", Family: "e2e_metadata", What: fmt.Sprint(res.Panic), Input: in})
						continue
					}
					if n < 40 {
						r.Sample("e2e_metadata", map[string]any{"in": in, "client_end": res.ClientEnd})
					}
					// every header the client attached is visible to the handler
					if res.Calls > 0 {
						checkSub("e2e_metadata", "request-header", in, reqH, ex.HandlerSawHeader)
						if icptKey != "" {
							checkSub("e2e_metadata", "request-header(interceptor)", in, http.Header{icptKey: {"from-interceptor"}}, ex.HandlerSawHeader)
						}
					}
					if retErr == nil {
						if res.ClientEnd != "eof" {
							r.Fail(h.Failure{Key: "metadata/call-failed", Family: "e2e_metadata", What: "successful call failed", Input: in, Actual: res.ClientEnd})
							continue
						}
						if len(res.ClientGot) >= 1 {
							// at least one message: headers under headers, trailers under trailers
							checkSub("e2e_metadata", "response-header", in, resH, res.ResHeader)
							checkSub("e2e_metadata", "response-trailer", in, resT, res.ResTrailer)
						} else {
							checkSub("e2e_metadata", "response-header-or-trailer", in, resH, res.ResHeader, res.ResTrailer)
							checkSub("e2e_metadata", "response-header-or-trailer", in, resT, res.ResHeader, res.ResTrailer)
						}
					} else {
						var ce *connect.Error
						if ex.ClientErr == nil || !errors.As(ex.ClientErr, &ce) {
							r.Fail(h.Failure{Key: "metadata/error-lost", Family: "e2e_metadata", What: "handler error not delivered as a *connect.Error", Input: in, Actual: fmt.Sprint(ex.ClientErr)})
							continue
						}
						checkSub("e2e_metadata", "error-metadata", in, errMeta, ce.Meta())
						if kind == "server" || kind == "bidi" {
							// streaming handlers set headers/trailers on the stream before failing
							// ("on failure at least in the error's metadata")
							checkSub("e2e_metadata", "error-metadata(header)", in, resH, ce.Meta())
							checkSub("e2e_metadata", "error-metadata(trailer)", in, resT, ce.Meta())
						}
					}
				}
			}
		}
	}

	// ---- the first Send of a call fails before anything is written (the codec refuses the
	// message): the handler's trailers and the error's metadata still reach the client ----
	for _, proto := range protos {
		for _, kind := range []string{"unary", "server"} {
			for _, via := range []e2eTransport{viaLocal, viaHTTP1, viaHTTP2} {
				var copts []connect.ClientOption
				switch proto {
				case "grpc":
					copts = append(copts, connect.WithGRPC())
				case "grpcweb":
					copts = append(copts, connect.WithGRPCWeb())
				}
				copts = append(copts, connect.WithCodec(h.ToyCodec{}))
				hopts := []connect.HandlerOption{connect.WithCodec(h.ToyCodec{})}
				unmarshalable := []byte{0xEE, 0xEE, 0xEE}
				mux := http.NewServeMux()
				mux.Handle("/verif.Svc/Unary", connect.NewUnaryHandler("/verif.Svc/Unary", func(_ context.Context, _ *connect.Request[h.Raw]) (*connect.Response[h.Raw], error) {
					res := connect.NewResponse(&h.Raw{B: unmarshalable})
					res.Trailer().Set("X-T", "t1")
					res.Header().Set("X-H", "h1")
					return res, nil
				}, hopts...))
				mux.Handle("/verif.Svc/Server", connect.NewServerStreamHandler("/verif.Svc/Server", func(_ context.Context, _ *connect.Request[h.Raw], st *connect.ServerStream[h.Raw]) error {
					st.ResponseTrailer().Set("X-T", "t1")
					st.ResponseHeader().Set("X-H", "h1")
					if err := st.Send(&h.Raw{B: unmarshalable}); err != nil {
						e := connect.NewError(connect.CodeInternal, err)
						e.Meta().Set("X-E", "e1")
						return e
					}
					return nil
				}, hopts...))
				var hc connect.HTTPClient = &h.LocalClient{Handler: mux}
				base := "http://verif.local"
				var srv *httptest.Server
				if via != viaLocal {
					srv = httptest.NewUnstartedServer(mux)
					if via == viaHTTP2 {
						srv.EnableHTTP2 = true
						srv.StartTLS()
					} else {
						srv.Start()
					}
					hc, base = srv.Client(), srv.URL
				}
				var callErr error
				p := safely(func() {
					if kind == "unary" {
						_, callErr = connect.NewClient[h.Raw, h.Raw](hc, base+"/verif.Svc/Unary", copts...).CallUnary(context.Background(), connect.NewRequest(&h.Raw{B: []byte("q")}))
					} else {
						st, err := connect.NewClient[h.Raw, h.Raw](hc, base+"/verif.Svc/Server", copts...).CallServerStream(context.Background(), connect.NewRequest(&h.Raw{B: []byte("q")}))
						if err != nil {
							callErr = err
							return
						}
						for st.Receive() {
						}
						callErr = st.Err()
						_ = st.Close()
					}
				})
				if srv != nil {
					srv.Close()
				}
				in := map[string]any{"proto": proto, "kind": kind, "via": via, "handler": "sets header X-H and trailer X-T, then its first (only) response message cannot be marshalled"}
				r.Eval("first_send_fails", fmt.Sprint(proto, kind, via))
				if p != nil {
					r.Fail(h.Failure{Key: "metadata/panic-or-hang", Family: "first_send_fails", What: fmt.Sprint(p), Input: in})
					continue
				}
				var ce *connect.Error
				if callErr == nil || !errors.As(callErr, &ce) {
					r.Fail(h.Failure{Key: "metadata/error-lost", Family: "first_send_fails", What: "the failure did not arrive as a *connect.Error", Input: in, Actual: fmt.Sprint(callErr)})
					continue
				}
				r.Sample("first_send_fails", map[string]any{"in": in, "client_error": callErr.Error(), "meta": ce.Meta()})
				want := http.Header{"X-T": {"t1"}, "X-H": {"h1"}}
				if kind == "server" {
					want["X-E"] = []string{"e1"}
				}
				checkSub("first_send_fails", "error-metadata", in, want, ce.Meta())
				if ce.Code() != connect.CodeInternal {
					r.Fail(h.Failure{Key: "metadata/error-lost", Family: "first_send_fails", What: "the marshalling failure did not arrive with its code (internal)", Input: in, Actual: callErr.Error()})
				}
			}
		}
	}

	// ---- names that net/http does not allow as HTTP trailers (RFC 7230 4.1.2: routing,
	// request modifiers, authentication, caching controls) are still valid header names for an
	// application to use as response trailers or error metadata ----
	for _, proto := range protos {
		for _, via := range []e2eTransport{viaHTTP1, viaHTTP2} {
			for _, failing := range []bool{false, true} {
				var copts []connect.ClientOption
				switch proto {
				case "grpc":
					copts = append(copts, connect.WithGRPC())
				case "grpcweb":
					copts = append(copts, connect.WithGRPCWeb())
				}
				names := http.Header{"Cache-Control": {"no-store"}, "Www-Authenticate": {"Bearer realm=x"}, "If-Match": {"abc"}, "Max-Forwards": {"3"}}
				ex := &e2eExtras{ResTrailer: names}
				var retErr error
				if failing {
					ex.ResTrailer = http.Header{}
					retErr = mkError(connect.CodeUnauthenticated, "who are you", 0, names)
				}
				res := runE2E(bytesValueKind, "server", via, copts, nil, [][]byte{{9}}, [][]byte{{1}}, retErr, 0, ex)
				in := map[string]any{"proto": proto, "kind": "server", "via": via, "names": names, "carried_as": map[bool]string{false: "response trailers", true: "error metadata"}[failing]}
				r.Eval("trailer_names", fmt.Sprint(proto, via, failing))
				if res.Panic != nil {
					r.Fail(h.Failure{Key: "metadata/panic-or-hang", Family: "trailer_names", What: fmt.Sprint(res.Panic), Input: in})
					continue
				}
				var have []http.Header
				if failing {
					var ce *connect.Error
					if errors.As(ex.ClientErr, &ce) {
						have = []http.Header{ce.Meta()}
					}
				} else {
					have = []http.Header{res.ResTrailer}
				}
				var missing []string
				for k, vs := range names {
					var got []string
					for _, hd := range have {
						got = append(got, hd.Values(k)...)
					}
					if !sublist(vs, got) {
						missing = append(missing, k)
					}
				}
				sort.Strings(missing)
				r.Sample("trailer_names", map[string]any{"in": in, "missing": missing})
				if len(missing) > 0 {
					key := "metadata/trailer-names"
					if proto == "grpc" && via == viaHTTP2 {
						key = "metadata/grpc-http2/forbidden-trailer-names"
					}
					r.Fail(h.Failure{Key: key, Family: "trailer_names", What: "metadata the handler attached under these names did not reach the client", Input: in, Actual: missing})
				}
			}
		}
	}

	// ---- a receiver that calls Receive again after the stream has ended (it keeps reporting
	// the end): the trailers it can then look at are what the handler set, each value once ----
	for _, proto := range protos {
		for _, failing := range []bool{false, true} {
			var copts []connect.ClientOption
			switch proto {
			case "grpc":
				copts = append(copts, connect.WithGRPC())
			case "grpcweb":
				copts = append(copts, connect.WithGRPCWeb())
			}
			copts = append(copts, connect.WithCodec(h.ToyCodec{}))
			mux := http.NewServeMux()
			mux.Handle("/verif.Svc/Bidi", connect.NewBidiStreamHandler("/verif.Svc/Bidi", func(_ context.Context, st *connect.BidiStream[h.Raw, h.Raw]) error {
				st.ResponseTrailer().Add("X-T", "a")
				st.ResponseTrailer().Add("X-T", "b")
				for {
					if _, err := st.Receive(); err != nil {
						break
					}
				}
				_ = st.Send(&h.Raw{B: []byte("m")})
				if failing {
					e := connect.NewError(connect.CodeAborted, errors.New("stop"))
					e.Meta().Add("X-E", "e1")
					return e
				}
				return nil
			}, connect.WithCodec(h.ToyCodec{})))
			cl := connect.NewClient[h.Raw, h.Raw](&h.LocalClient{Handler: mux}, "http://verif.local/verif.Svc/Bidi", copts...)
			var trailerVals, metaVals, metaE []string
			var extra int
			p := safely(func() {
				st := cl.CallBidiStream(context.Background())
				_ = st.Send(&h.Raw{B: []byte("q")})
				_ = st.CloseRequest()
				var last error
				for i := 0; i < 6; i++ {
					if _, err := st.Receive(); err != nil {
						last = err
						extra++
					}
				}
				trailerVals = st.ResponseTrailer().Values("X-T")
				var ce *connect.Error
				if errors.As(last, &ce) {
					metaVals, metaE = ce.Meta().Values("X-T"), ce.Meta().Values("X-E")
				}
				_ = st.CloseResponse()
			})
			in := map[string]any{"proto": proto, "kind": "bidi", "handler": "sets trailer X-T: a, b; sends one message; " + map[bool]string{false: "returns nil", true: "returns aborted with metadata X-E: e1"}[failing],
				"client": "Send, CloseRequest, then Receive six times (the last five report the end of the stream)"}
			r.Eval("receive_after_end", fmt.Sprint(proto, failing))
			r.Sample("receive_after_end", map[string]any{"in": in, "response_trailer_X-T": trailerVals, "error_meta_X-T": metaVals, "failed_receives": extra})
			if p != nil {
				r.Fail(h.Failure{Key: "metadata/panic-or-hang", Family: "receive_after_end", What: fmt.Sprint(p), Input: in})
				continue
			}
			want := []string{"a", "b"}
			if fmt.Sprint(trailerVals) != fmt.Sprint(want) {
				r.Fail(h.Failure{Key: "metadata/response-trailer", Family: "receive_after_end", What: "after further Receive calls at the end of the stream the response trailers are not the values the handler set (each once, in order)", Input: in, Expected: want, Actual: trailerVals})
			}
			if failing && (fmt.Sprint(metaVals) != fmt.Sprint(want) || fmt.Sprint(metaE) != fmt.Sprint([]string{"e1"})) {
				r.Fail(h.Failure{Key: "metadata/error-metadata", Family: "receive_after_end", What: "the metadata of the error reported by a later Receive is not what the handler set (each value once)", Input: in, Expected: map[string]any{"X-T": want, "X-E": []string{"e1"}}, Actual: map[string]any{"X-T": metaVals, "X-E": metaE}})
			}
		}
	}

	// ---- unary Connect at the HTTP boundary: the Trailer- mapping (model cases) ----
	for i := 0; i < r.N(60, 600); i++ {
		resH, resT := genMeta(rng, "X-Res"), genMeta(rng, "X-Trl")
		if i%7 == 0 { // same key under headers and trailers
			for k, vs := range resH {
				resT[k] = append([]string(nil), vs...)
				break
			}
		}
		handler := connect.NewUnaryHandler("/verif.Svc/M", func(_ context.Context, _ *connect.Request[h.Raw]) (*connect.Response[h.Raw], error) {
			resp := connect.NewResponse(&h.Raw{B: []byte("ok")})
			copyHeader(resp.Header(), resH)
			copyHeader(resp.Trailer(), resT)
			return resp, nil
		}, connect.WithCodec(h.ToyCodec{}))
		req := httptest.NewRequest(http.MethodPost, "/verif.Svc/M", bytes.NewReader([]byte("q")))
		req.Header.Set("Content-Type", "application/toy")
		rec := httptest.NewRecorder()
		handler.ServeHTTP(rec, req)
		// what a real client makes of exactly this response
		raw := rec.Header().Clone()
		body := rec.Body.Bytes()
		res := doCall(envCfg{Proto: "connect"}, "unary", func() *http.Response {
			return h.NewResponse(rec.Code, raw.Clone(), h.NewChunkBody([][]byte{body}, h.FinCleanEOF), nil)
		})
		r.Eval("unary_split", fmt.Sprint(i))
		if res.err != nil {
			r.Fail(h.Failure{Key: "metadata/call-failed", Family: "unary_split", What: "unary call failed", Actual: res.err.Error()})
			continue
		}
		var keys, rawKeys []string
		seen := map[string]bool{}
		for k := range resH {
			if !seen[k] {
				seen[k] = true
				keys = append(keys, k)
			}
		}
		for k := range resT {
			if !seen[k] {
				seen[k] = true
				keys = append(keys, k)
			}
		}
		sort.Strings(keys)
		for k := range raw {
			if strings.HasPrefix(k, "X-") || strings.HasPrefix(k, "Trailer-X-") {
				rawKeys = append(rawKeys, k)
			}
		}
		sort.Strings(rawKeys)
		ckeys := make([]string, len(keys))
		for j, k := range keys {
			ckeys[j] = h.CoqStr(k)
		}
		r.Sample("unary_split", map[string]any{"raw_header": raw, "client_header": res.header, "client_trailer": res.trailer})
		r.Case("unary_split", fmt.Sprintf("UnarySplit %s %s %s %s", coqHmap(raw, rawKeys), h.CoqList(ckeys), coqHmap(res.header, keys), coqHmap(res.trailer, keys)),
			map[string]any{"raw_header": raw, "impl_client_header": res.header, "impl_client_trailer": res.trailer})
		checkSub("unary_split", "response-header", nil, resH, res.header)
		checkSub("unary_split", "response-trailer", nil, resT, res.trailer)
	}

	errorMetaWritten(r, rng, true, "metadata/error-meta-written")
	c11LongValues(r, rng.Fork("long-values"))

	// ---- binary header helpers ----
	for a := 0; a < 256; a++ {
		b := []byte{byte(a)}
		enc := connect.EncodeBinaryHeader(b)
		r.Eval("bin", enc)
		if a%8 == 0 {
			r.Case("bin", fmt.Sprintf("BinEncode %s %s", h.CoqBytes(b), h.CoqStr(enc)), map[string]any{"in_hex": h.Hex(b), "impl": enc})
		}
		for c := 0; c < 256; c++ {
			bb := []byte{byte(a), byte(c)}
			e2 := connect.EncodeBinaryHeader(bb)
			for _, form := range []string{e2, e2 + "="} {
				d, err := connect.DecodeBinaryHeader(form)
				if err != nil || !bytes.Equal(d, bb) {
					r.Fail(h.Failure{Key: "bin/roundtrip", Family: "bin", What: "binary header helper does not round-trip (padded or unpadded)", Input: h.Hex(bb), Actual: form})
				}
			}
			r.Sum.Evaluations++
		}
	}
	r.Sum.Exhaustive["binary header helpers: all byte strings of length <= 2, padded and unpadded"] = true
	for i := 0; i < r.N(80, 800); i++ {
		b := rng.Bytes(rng.Intn(40))
		enc := connect.EncodeBinaryHeader(b)
		padded := enc
		for len(padded)%4 != 0 {
			padded += "="
		}
		for _, form := range []string{enc, padded} {
			d, err := connect.DecodeBinaryHeader(form)
			r.Eval("bin", form)
			r.Case("bin", fmt.Sprintf("BinDecode %s %s", h.CoqStr(form), h.CoqOptBytes(d, err == nil)), map[string]any{"in": form, "impl_ok": err == nil, "impl_hex": h.Hex(d)})
			if err != nil || !bytes.Equal(d, b) {
				r.Fail(h.Failure{Key: "bin/roundtrip", Family: "bin", What: "binary header helper does not round-trip (padded or unpadded)", Input: h.Hex(b), Actual: form})
			}
		}
	}
}

// hdrIcpt is a client interceptor that attaches one request header (as auth and tracing
// interceptors do): before the unary call goes on, and on the conn of a streaming call when it
// is constructed.
type hdrIcpt struct{ key, val string }

func (i hdrIcpt) WrapUnary(next connect.UnaryFunc) connect.UnaryFunc {
	return func(ctx context.Context, req connect.AnyRequest) (connect.AnyResponse, error) {
		if req.Spec().IsClient {
			req.Header().Add(i.key, i.val)
		}
		return next(ctx, req)
	}
}
func (i hdrIcpt) WrapStreamingClient(next connect.StreamingClientFunc) connect.StreamingClientFunc {
	return func(ctx context.Context, spec connect.Spec) connect.StreamingClientConn {
		conn := next(ctx, spec)
		conn.RequestHeader().Add(i.key, i.val)
		return conn
	}
}
func (i hdrIcpt) WrapStreamingHandler(next connect.StreamingHandlerFunc) connect.StreamingHandlerFunc {
	return next
}

// errorContainer returns the map a handler writes an error's metadata into, as it left the
// handler: the response headers (unary Connect), the HTTP trailers (gRPC), the trailer frame
// (gRPC-Web) or the metadata of the end-of-stream message (Connect streaming).
func errorContainer(proto string, unary bool, rec *httptest.ResponseRecorder) (http.Header, bool) {
	hdr, trailer := splitTrailers(rec)
	switch {
	case proto == "connect" && unary:
		return hdr, true
	case proto == "connect":
		flags, payload, ok := lastFrameFlags(rec.Body.Bytes())
		if !ok || flags&2 == 0 {
			return nil, false
		}
		var end struct {
			Metadata http.Header `json:"metadata"`
		}
		if err := json.Unmarshal(payload, &end); err != nil {
			return nil, false
		}
		if end.Metadata == nil {
			end.Metadata = http.Header{}
		}
		return end.Metadata, true
	case proto == "grpc":
		if len(trailer) == 0 {
			return hdr, true // trailers-only
		}
		return trailer, true
	default:
		flags, payload, ok := lastFrameFlags(rec.Body.Bytes())
		if !ok || flags&0x80 == 0 {
			return hdr, true // trailers-only
		}
		out := http.Header{}
		for _, line := range strings.Split(string(payload), "\r\n") {
			kv := strings.SplitN(line, ": ", 2)
			if len(kv) == 2 {
				out.Add(kv[0], kv[1])
			}
		}
		return out, true
	}
}

// errorMetaWritten (C11 with model cases, C02 for its direct oracle) ties Header.v's merge_metadata (the model of mergeMetadataHeaders, whose
// list of names is extracted from the source) to what real handlers write: an error whose
// metadata mixes application keys, the names that describe an HTTP message, and near misses of
// those names, on a call whose handler also set trailers of its own under some of the keys.
func errorMetaWritten(r *h.Run, rng *h.Rng, modelCase bool, failKey string) {
	names := []string{"Content-Type", "Content-Length", "Content-Encoding", "Host", "User-Agent", "Trailer", "Date",
		"Content-Typ", "Content-Types", "X-Content-Type", "Content-Language", "Dates", "Hosted", "Accept-Encoding", "Server",
		"X-Upstream", "X-Err-Key", "X-Err-Multi", "Trailers", "User-Agents", "Content-Disposition", "Vary", "Etag"}
	token := func() string {
		b := make([]byte, 1+rng.Intn(8))
		for i := range b {
			b[i] = "abcdefghijklmnopqrstuvwxyz0123456789"[rng.Intn(36)]
		}
		return string(b)
	}
	for i := 0; i < r.N(48, 600); i++ {
		proto := []string{"connect", "grpc", "grpcweb"}[i%3]
		kind := []string{"unary", "server"}[rng.Intn(2)]
		meta := http.Header{}
		for j, nk := 0, 2+rng.Intn(6); j < nk; j++ {
			k := names[rng.Intn(len(names))]
			for x, nv := 0, 1+rng.Intn(2); x < nv; x++ {
				meta.Add(k, token())
			}
		}
		own := http.Header{}
		if kind == "server" {
			for j, nk := 0, rng.Intn(3); j < nk; j++ {
				// the handler's own trailers: application names only, some of them also in the error
				k := names[15+rng.Intn(3)]
				own.Add(k, token())
			}
		}
		run := func(withMeta bool) (*httptest.ResponseRecorder, any) {
			mkErr := func() error {
				e := connect.NewError(connect.CodeNotFound, errors.New("relayed"))
				if withMeta {
					for k, vs := range meta {
						e.Meta()[k] = append([]string(nil), vs...)
					}
				}
				return e
			}
			var handler *connect.Handler
			if kind == "unary" {
				handler = connect.NewUnaryHandler("/verif.Svc/M", func(context.Context, *connect.Request[h.Raw]) (*connect.Response[h.Raw], error) {
					return nil, mkErr()
				}, connect.WithCodec(h.ToyCodec{}))
			} else {
				handler = connect.NewServerStreamHandler("/verif.Svc/M", func(_ context.Context, _ *connect.Request[h.Raw], s *connect.ServerStream[h.Raw]) error {
					for k, vs := range own {
						for _, v := range vs {
							s.ResponseTrailer().Add(k, v)
						}
					}
					_ = s.Send(&h.Raw{B: []byte("m")})
					return mkErr()
				}, connect.WithCodec(h.ToyCodec{}))
			}
			cfg := envCfg{Proto: proto}
			unary := kind == "unary" && proto == "connect"
			body := h.Frame(0, []byte("q"))
			if unary {
				body = []byte("q")
			}
			req := httptest.NewRequest(http.MethodPost, "/verif.Svc/M", bytes.NewReader(body))
			req.ProtoMajor, req.ProtoMinor = 2, 0
			req.Header.Set("Content-Type", cfg.contentType(kind == "unary"))
			rec := httptest.NewRecorder()
			p := safely(func() { handler.ServeHTTP(rec, req) })
			return rec, p
		}
		in := map[string]any{"proto": proto, "kind": kind, "error_metadata": meta, "handler_trailers": own}
		r.Eval("error_meta_written", fmt.Sprint(proto, kind, meta, own))
		twinRec, p1 := run(false)
		rec, p2 := run(true)
		if p1 != nil || p2 != nil {
			r.Fail(h.Failure{Key: "metadata/panic", Family: "error_meta_written", What: fmt.Sprint("panic: ", p1, p2), Input: in})
			continue
		}
		unary := kind == "unary" && proto == "connect"
		twin, ok1 := errorContainer(proto, unary, twinRec)
		obs, ok2 := errorContainer(proto, unary, rec)
		if !ok1 || !ok2 {
			r.Fail(h.Failure{Key: "metadata/no-error-container", Family: "error_meta_written", What: "the response has no readable end-of-stream message / trailer frame", Input: in, Actual: h.Hex(rec.Body.Bytes())})
			continue
		}
		var keys []string
		seen := map[string]bool{}
		for _, m := range []http.Header{meta, own} {
			for k := range m {
				if !seen[k] {
					seen[k] = true
					keys = append(keys, k)
				}
			}
		}
		sort.Strings(keys)
		ckeys := make([]string, len(keys))
		for j, k := range keys {
			ckeys[j] = h.CoqStr(k)
		}
		r.Sample("error_meta_written", map[string]any{"in": in, "container": obs, "container_without_error_metadata": twin})
		if modelCase {
			r.Case("error_meta_written", fmt.Sprintf("ErrMetaWritten %s %s %s %s", coqHmap(twin, keys), coqHmap(meta, keys), h.CoqList(ckeys), coqHmap(obs, keys)),
				map[string]any{"in": in, "impl_container": obs, "impl_container_without_error_metadata": twin})
		}
		// the property itself, decided directly: an application key of the error's metadata arrives
		// after the handler's own values, in order
		for k, vs := range meta {
			if k == "Content-Type" || k == "Content-Length" || k == "Content-Encoding" || k == "Host" || k == "User-Agent" || k == "Trailer" || k == "Date" {
				continue // names that describe the HTTP message a header travels in: not metadata of the call
			}
			want := append(append([]string(nil), own.Values(k)...), vs...)
			if got := obs.Values(k); !sublist(want, got) {
				r.Fail(h.Failure{Key: failKey, Family: "error_meta_written", What: "an application key of the error's metadata is not written after the handler's own values, unchanged and in order", Input: in, Expected: map[string]any{k: want}, Actual: got})
			}
		}
	}
}

// c11LongValues: one long value (tens to hundreds of KiB: a serialised token, a -Bin blob) as
// response header, response trailer and error metadata, over the in-process transport (no
// net/http size limits in the way): visible to the client unchanged, in every protocol.
func c11LongValues(r *h.Run, rng *h.Rng) {
	lengths := []int{4000, 65523, 70000, 200000}
	if r.Thorough() {
		lengths = append(lengths, 65535, 65536, 65537, 1<<20 + 1)
	}
	for _, proto := range []string{"connect", "grpc", "grpcweb"} {
		for li, n := range lengths {
			for _, outcome := range []string{"success", "error-after"} {
				if !r.Thorough() && (li+len(outcome))%2 == 0 && proto != "grpcweb" {
					continue
				}
				b := make([]byte, n)
				for i := range b {
					b[i] = "abcdefghijklmnopqrstuvwxyzABCDEFGHIJKLMNOPQRSTUVWXYZ0123456789+/"[rng.Intn(64)]
				}
				long := string(b)
				mux := http.NewServeMux()
				mux.Handle("/verif.Svc/M", connect.NewServerStreamHandler("/verif.Svc/M", func(_ context.Context, _ *connect.Request[h.Raw], s *connect.ServerStream[h.Raw]) error {
					s.ResponseHeader().Set("X-Long-Header", long)
					s.ResponseTrailer().Set("X-Long-Trailer", long)
					s.ResponseTrailer().Set("X-Short", "s")
					_ = s.Send(&h.Raw{B: []byte("m")})
					if outcome == "success" {
						return nil
					}
					e := connect.NewError(connect.CodeAborted, errors.New("no"))
					e.Meta().Set("X-Long-Meta", long)
					return e
				}, connect.WithCodec(h.ToyCodec{})))
				copts := []connect.ClientOption{connect.WithCodec(h.ToyCodec{})}
				switch proto {
				case "grpc":
					copts = append(copts, connect.WithGRPC())
				case "grpcweb":
					copts = append(copts, connect.WithGRPCWeb())
				}
				var hdr, trl, meta http.Header
				var callErr error
				msgs := 0
				p := safely(func() {
					st, err := connect.NewClient[h.Raw, h.Raw](&h.LocalClient{Handler: mux}, "http://verif.local/verif.Svc/M", copts...).CallServerStream(context.Background(), connect.NewRequest(&h.Raw{B: []byte("q")}))
					if err != nil {
						callErr = err
						return
					}
					for st.Receive() {
						msgs++
					}
					callErr = st.Err()
					hdr, trl = st.ResponseHeader(), st.ResponseTrailer()
					_ = st.Close()
				})
				in := map[string]any{"proto": proto, "kind": "server", "outcome": outcome, "value_length": n, "keys": "X-Long-Header (header), X-Long-Trailer and X-Short (trailers), X-Long-Meta (error metadata)"}
				r.Eval("long_values", fmt.Sprint(proto, n, outcome))
				if p != nil {
					r.Fail(h.Failure{Key: "metadata/panic", Family: "long_values", What: fmt.Sprint("panic: ", p), Input: in})
					continue
				}
				var ce *connect.Error
				if errors.As(callErr, &ce) {
					meta = ce.Meta()
				}
				brief := func(hd http.Header, k string) string {
					vs := hd.Values(k)
					if len(vs) == 0 {
						return "absent"
					}
					return fmt.Sprintf("%d value(s), first of %d bytes, equal=%v", len(vs), len(vs[0]), vs[0] == long)
				}
				obs := map[string]any{"messages": msgs, "error": fmt.Sprint(callErr)}
				if len(obs["error"].(string)) > 300 {
					obs["error"] = obs["error"].(string)[:300] + "..."
				}
				r.Sample("long_values", map[string]any{"in": in, "observed": obs})
				bad := ""
				switch {
				case outcome == "success" && callErr != nil:
					bad = "a call the handler completed fails on the client"
				case outcome == "success" && (hdr.Get("X-Long-Header") != long || trl.Get("X-Long-Trailer") != long || trl.Get("X-Short") != "s"):
					bad = "header / trailers not visible unchanged: header " + brief(hdr, "X-Long-Header") + ", trailer " + brief(trl, "X-Long-Trailer") + ", short trailer " + brief(trl, "X-Short")
				case outcome != "success" && (callErr == nil || connect.CodeOf(callErr) != connect.CodeAborted):
					bad = "the handler's error (aborted) does not arrive"
				case outcome != "success" && (meta.Get("X-Long-Meta") != long || meta.Get("X-Long-Trailer") != long):
					bad = "error metadata / trailers not in the error's metadata: " + brief(meta, "X-Long-Meta") + ", trailer " + brief(meta, "X-Long-Trailer")
				}
				if bad != "" {
					r.Fail(h.Failure{Key: "metadata/long-value", Family: "long_values", What: bad, Input: in, Actual: obs})
				}
			}
		}
	}
}
