package props

import (
	"bytes"
	"context"
	"fmt"
	"net/http"
	"net/http/httptest"
	"strings"

	connect "github.com/bufbuild/connect-go"
	"github.com/bufbuild/connect-go/verifharness/internal/h"
	"google.golang.org/protobuf/types/known/wrapperspb"
)

// laxCodec accepts any message type: Marshal yields one byte, Unmarshal ignores the data.
type laxCodec struct{ name string }

func (c laxCodec) Name() string                { return c.name }
func (c laxCodec) Marshal(any) ([]byte, error) { return []byte("x"), nil }
func (c laxCodec) Unmarshal([]byte, any) error { return nil }

type countIcpt struct {
	n     *int
	specs *[]connect.Spec
}

func (c countIcpt) WrapUnary(next connect.UnaryFunc) connect.UnaryFunc {
	return func(ctx context.Context, req connect.AnyRequest) (connect.AnyResponse, error) {
		*c.n++
		*c.specs = append(*c.specs, req.Spec())
		return next(ctx, req)
	}
}
func (c countIcpt) WrapStreamingClient(next connect.StreamingClientFunc) connect.StreamingClientFunc {
	return func(ctx context.Context, spec connect.Spec) connect.StreamingClientConn {
		*c.n++
		*c.specs = append(*c.specs, spec)
		return next(ctx, spec)
	}
}
func (c countIcpt) WrapStreamingHandler(next connect.StreamingHandlerFunc) connect.StreamingHandlerFunc {
	return func(ctx context.Context, conn connect.StreamingHandlerConn) error {
		*c.n++
		*c.specs = append(*c.specs, conn.Spec())
		return next(ctx, conn)
	}
}

// C12 — dispatch.
func C12(r *h.Run) {
	r.Model("c12case", "c12_ok")
	r.Sum.Rule = "11 HTTP methods x {HTTP/1.0, 1.1, 2} x Content-Types (every advertised one, every single-character deletion/insertion/case change of it, parameters, blanks, random) x codec sets (default, +custom, custom named like a protocol suffix, custom names with '+', ',' and ' ') x 4 RPC kinds, counters in user code and interceptors; URL shapes for extractProtoPath and the Spec seen on both sides. distinct = distinct (codec set, kind, version, method, content-type)"
	rng := r.Rng.Fork("c12")
	type wb = wrapperspb.BytesValue
	codecSets := [][]string{{}, {"toy"}, {"toy", "grpc"}, {"grpc-web", "connect+x"}, {"a,b", "c d"}, {"json+x", "proto "},
		// names that begin like a protocol's media type: unary Connect serves application/<name>
		{"grpcx", "grpc-webx", "connectx"}}
	kinds := []string{"unary", "client", "server", "bidi"}
	methods := []string{"POST", "GET", "PUT", "DELETE", "HEAD", "OPTIONS", "PATCH", "CONNECT", "TRACE", "post", "POSTX"}
	versions := [][2]int{{1, 0}, {1, 1}, {2, 0}}

	for si, set := range codecSets {
		for ki, kind := range kinds {
			userCalls, icptCalls := 0, 0
			var specs []connect.Spec
			var hopts []connect.HandlerOption
			for _, n := range set {
				hopts = append(hopts, connect.WithCodec(laxCodec{n}))
			}
			hopts = append(hopts, connect.WithInterceptors(countIcpt{&icptCalls, &specs}))
			procedure := "/verif.v1.Svc/" + strings.Title(kind)
			var handler *connect.Handler
			switch kind {
			case "unary":
				handler = connect.NewUnaryHandler(procedure, func(_ context.Context, _ *connect.Request[wb]) (*connect.Response[wb], error) {
					userCalls++
					return connect.NewResponse(&wb{}), nil
				}, hopts...)
			case "client":
				handler = connect.NewClientStreamHandler(procedure, func(_ context.Context, s *connect.ClientStream[wb]) (*connect.Response[wb], error) {
					userCalls++
					for s.Receive() {
					}
					return connect.NewResponse(&wb{}), nil
				}, hopts...)
			case "server":
				handler = connect.NewServerStreamHandler(procedure, func(_ context.Context, _ *connect.Request[wb], s *connect.ServerStream[wb]) error {
					userCalls++
					return nil
				}, hopts...)
			default:
				handler = connect.NewBidiStreamHandler(procedure, func(_ context.Context, s *connect.BidiStream[wb, wb]) error {
					userCalls++
					return nil
				}, hopts...)
			}
			names := append([]string{"proto", "json"}, set...)
			var advertised []string
			for _, n := range names {
				if kind == "unary" {
					advertised = append(advertised, "application/"+n)
				} else {
					advertised = append(advertised, "application/connect+"+n)
				}
				advertised = append(advertised, "application/grpc+"+n, "application/grpc-web+"+n)
			}
			advertised = append(advertised, "application/grpc", "application/grpc-web")
			isAdvertised := map[string]bool{}
			for _, a := range advertised {
				isAdvertised[a] = true
			}
			cts := append([]string(nil), advertised...)
			for _, a := range advertised {
				i := rng.Intn(len(a))
				cts = append(cts, a[:i]+a[i+1:], a[:i]+"x"+a[i:], strings.ToUpper(a[:1])+a[1:], a+"; charset=utf-8", " "+a, a+" ", a+"+")
			}
			cts = append(cts, "", "application/", "application/connect+", "application/grpc+", "text/plain", "application/octet-stream", "application/connect", "application/grpc-web-text", "APPLICATION/GRPC", "application/x-protobuf")
			// the bare codec names, and each advertised type with its prefix cut off at every '/' and '+'
			for _, n := range names {
				cts = append(cts, n, "+"+n, "/"+n)
			}
			for _, a := range advertised {
				for i := 0; i < len(a); i++ {
					if a[i] == '/' || a[i] == '+' || a[i] == '-' {
						cts = append(cts, a[i+1:], a[:i])
					}
				}
			}
			for i := 0; i < 6; i++ {
				cts = append(cts, string(rng.Bytes(rng.Intn(20))))
			}
			bodyFor := func(ct string) []byte {
				var payload []byte
				switch {
				case strings.HasSuffix(ct, "json"):
					payload = []byte(`""`)
				case strings.HasSuffix(ct, "proto") || ct == "application/grpc" || ct == "application/grpc-web":
					payload = nil
				default:
					payload = []byte("x")
				}
				if kind == "unary" && !strings.HasPrefix(ct, "application/grpc") {
					return payload
				}
				return h.Frame(0, payload)
			}
			coqNames := make([]string, len(names))
			for i, n := range names {
				coqNames[i] = h.CoqStr(n)
			}
			expired := false // the request announces a timeout of zero: its context is over when the handler starts
			run := func(method string, ver [2]int, ct string, model bool) {
				userCalls, icptCalls, specs = 0, 0, specs[:0]
				req := httptest.NewRequest("POST", procedure, bytes.NewReader(bodyFor(ct)))
				req.Method = method
				req.ProtoMajor, req.ProtoMinor = ver[0], ver[1]
				req.Header["Content-Type"] = []string{ct}
				if expired {
					req.Header.Set("Connect-Timeout-Ms", "0")
					req.Header.Set("Grpc-Timeout", "0n")
					model = false
				}
				rec := httptest.NewRecorder()
				p := safely(func() { handler.ServeHTTP(rec, req) })
				in := map[string]any{"codecs": names, "kind": kind, "method": method, "version": ver, "content_type": ct, "announces_timeout_zero": expired}
				r.Eval("dispatch", fmt.Sprintf("%d|%d|%s|%v|%q|%v", si, ki, method, ver, ct, expired))
				if p != nil {
					r.Fail(h.Failure{Key: "dispatch/panic", Family: "dispatch", What: fmt.Sprint("panic: ", p), Input: in})
					return
				}
				status := rec.Code
				served := status != 505 && status != 405 && status != 415
				st := status
				if served {
					st = 0
				}
				allow, ap := rec.Header().Get("Allow"), rec.Header().Get("Accept-Post")
				r.Sample("dispatch", map[string]any{"in": in, "status": status, "allow": allow, "accept_post": ap, "user_calls": userCalls, "interceptor_calls": icptCalls})
				if model {
					r.Case("dispatch", fmt.Sprintf("DispCase %s %d %d %s %s %d %s %s %d", h.CoqList(coqNames), ki, ver[0], h.CoqStr(method), h.CoqStr(ct), st, h.CoqStr(allow), h.CoqStr(ap), userCalls),
						map[string]any{"in": in, "impl_status": status, "impl_allow": allow, "impl_accept_post": ap, "impl_user_calls": userCalls})
				}
				// ---- direct oracle ----
				want := 0
				switch {
				case kind == "bidi" && ver[0] < 2:
					want = 505
				case method != "POST":
					want = 405
				case !isAdvertised[ct]:
					want = 415
				}
				if want != 0 && status != want {
					r.Fail(h.Failure{Key: "dispatch/status", Family: "dispatch", What: "wrong rejection status", Input: in, Expected: want, Actual: status})
				}
				if want == 0 && !served {
					r.Fail(h.Failure{Key: "dispatch/advertised-not-served", Family: "dispatch", What: "a POST with an advertised Content-Type was rejected", Input: in, Actual: status})
				}
				if want == 405 && allow != "POST" {
					r.Fail(h.Failure{Key: "dispatch/allow", Family: "dispatch", What: "405 without Allow: POST", Input: in, Actual: allow})
				}
				if want == 415 {
					got := strings.Split(ap, ", ")
					ok := len(got) == len(isAdvertised)
					seen := map[string]bool{}
					for _, g := range got {
						seen[g] = true
					}
					for _, a := range advertised {
						ok = ok && seen[a]
					}
					// names containing ", " make the header ambiguous; compare as a set only when they do not
					if !strings.Contains(strings.Join(names, ""), ",") && !ok {
						r.Fail(h.Failure{Key: "dispatch/accept-post", Family: "dispatch", What: "Accept-Post does not list exactly the accepted content types", Input: in, Expected: advertised, Actual: ap})
					}
				}
				if want != 0 && (userCalls != 0 || icptCalls != 0) {
					r.Fail(h.Failure{Key: "dispatch/rejected-ran-user-code", Family: "dispatch", What: "user code or interceptors ran for a rejected request", Input: in, Actual: fmt.Sprint(userCalls, icptCalls)})
				}
				if want == 0 && served && expired {
					// the call is accepted and its deadline has passed: interceptors see it (once, with the
					// handler's Spec); whether user code still runs is C15's business
					if icptCalls != 1 || userCalls > 1 {
						r.Fail(h.Failure{Key: "dispatch/served-not-once", Family: "dispatch", What: "an accepted request whose announced timeout is zero: interceptors did not run exactly once", Input: in, Actual: fmt.Sprint(userCalls, icptCalls)})
					}
				} else if want == 0 && served && (userCalls != 1 || icptCalls != 1) {
					r.Fail(h.Failure{Key: "dispatch/served-not-once", Family: "dispatch", What: "user code and interceptors did not run exactly once for a served request", Input: in, Actual: fmt.Sprint(userCalls, icptCalls)})
				}
				if want == 0 && served && len(specs) == 1 && (specs[0].Procedure != procedure || specs[0].IsClient || int(specs[0].StreamType) != []int{0, 1, 2, 3}[ki]) {
					r.Fail(h.Failure{Key: "dispatch/spec", Family: "dispatch", What: "the Spec seen by the interceptor does not carry the handler's procedure and stream type", Input: in, Actual: fmt.Sprint(specs[0])})
				}
			}
			for ci, ct := range cts {
				run("POST", [2]int{2, 0}, ct, true)
				if ci%5 == 0 {
					run("POST", versions[ci%3], ct, true)
				}
			}
			for _, m := range methods {
				for _, v := range versions {
					run(m, v, advertised[rng.Intn(len(advertised))], true)
				}
				run(m, [2]int{2, 0}, "text/plain", true)
			}
			expired = true
			for _, ct := range advertised {
				run("POST", [2]int{2, 0}, ct, false)
			}
			run("GET", [2]int{2, 0}, advertised[0], false)
			run("POST", [2]int{2, 0}, "text/plain", false)
			expired = false
		}
	}

	// ---- extractProtoPath + Spec on the client side ----
	urls := []string{"http://h/verif.v1.Svc/Do", "http://h/prefix/verif.v1.Svc/Do", "https://h:8080/a/b/c/verif.v1.Svc/Do", "/verif.v1.Svc/Do", "verif.v1.Svc/Do",
		"http://h//verif.v1.Svc/Do", "http://h/verif.v1.Svc/Do/", "http://h/", "http://h", "", "/", "//", "a", "a/", "/a", "http://h/Svc/Do?x=1", "http://h/a%2Fb/Do"}
	for i := 0; i < r.N(60, 600); i++ {
		n := rng.Intn(5)
		parts := make([]string, n)
		for j := range parts {
			parts[j] = []string{"", "a", "pkg.Svc", "Do", "x.y", "h:80"}[rng.Intn(6)]
		}
		urls = append(urls, strings.Join(parts, "/"))
	}
	for _, u := range urls {
		var got string
		if p := safely(func() { got = connect.VerifExtractProtoPath(u) }); p != nil {
			r.Fail(h.Failure{Key: "extract/panic", Family: "extract", What: fmt.Sprint("panic: ", p), Input: u})
			continue
		}
		r.Eval("extract", u)
		r.Sample("extract", map[string]any{"url": u, "path": got})
		r.Case("extract", fmt.Sprintf("ExtractCase %s %s", h.CoqStr(u), h.CoqStr(got)), map[string]any{"url": u, "impl": got})
	}
	for _, base := range []string{"http://h", "http://h/", "http://h/api/v2", "http://h/api/v2///", "https://h:1/x"} {
		for _, svc := range []string{"verif.v1.Svc", "Svc", "a.b.c.D"} {
			url := strings.TrimRight(base, "/") + "/" + svc + "/Do"
			var n int
			var specs []connect.Spec
			cl := connect.NewClient[wb, wb](roundTripFunc(func(*http.Request) (*http.Response, error) { return nil, fmt.Errorf("stop") }), url,
				connect.WithInterceptors(countIcpt{&n, &specs}))
			_, _ = cl.CallUnary(context.Background(), connect.NewRequest(&wb{}))
			_ = cl.CallClientStream(context.Background())
			r.Eval("client_spec", url)
			want := "/" + svc + "/Do"
			for _, s := range specs {
				if s.Procedure != want || !s.IsClient {
					r.Fail(h.Failure{Key: "dispatch/client-spec", Family: "client_spec", What: "client interceptors see a Spec whose procedure differs from the handler's canonical path", Input: url, Expected: want, Actual: fmt.Sprint(s)})
				}
			}
			if len(specs) != 2 {
				r.Fail(h.Failure{Key: "dispatch/client-spec", Family: "client_spec", What: "client interceptor did not run once per call", Input: url, Actual: len(specs)})
			}
		}
	}
	// one *Request value sent through several clients in turn (a retry against another
	// backend; a relay handler passing on the request it received): each client's interceptors
	// see that client's procedure, and a client's Spec
	for _, proto := range []string{"connect", "grpc", "grpcweb"} {
		var copts []connect.ClientOption
		switch proto {
		case "grpc":
			copts = append(copts, connect.WithGRPC())
		case "grpcweb":
			copts = append(copts, connect.WithGRPCWeb())
		}
		stop := roundTripFunc(func(*http.Request) (*http.Response, error) { return nil, fmt.Errorf("stop") })
		req := connect.NewRequest(&wb{})
		for k, svc := range []string{"verif.v1.First", "verif.v1.Second", "verif.v1.First"} {
			var n int
			var specs []connect.Spec
			url := "http://h/" + svc + "/Do"
			cl := connect.NewClient[wb, wb](stop, url, append(copts, connect.WithInterceptors(countIcpt{&n, &specs}))...)
			_, _ = cl.CallUnary(context.Background(), req)
			r.Eval("client_spec_reuse", fmt.Sprint(proto, k))
			want := "/" + svc + "/Do"
			in := map[string]any{"proto": proto, "url": url, "the_same_request_value_was_sent_before_through_n_other_clients": k}
			if len(specs) != 1 || specs[0].Procedure != want || !specs[0].IsClient || specs[0].StreamType != connect.StreamTypeUnary || req.Spec().Procedure != want {
				r.Fail(h.Failure{Key: "dispatch/client-spec", Family: "client_spec_reuse", What: "a Request value that went through another client before: this client's interceptors see a Spec that is not this client's", Input: in, Expected: want, Actual: fmt.Sprint(specs, " request.Spec()=", req.Spec())})
			}
		}
		// the request a handler received, forwarded to an upstream client
		var upstreamSpecs []connect.Spec
		var un int
		upstream := connect.NewClient[wb, wb](stop, "http://h/verif.v1.Upstream/Do", append(copts, connect.WithInterceptors(countIcpt{&un, &upstreamSpecs}))...)
		front := connect.NewUnaryHandler("/verif.v1.Front/Do", func(ctx context.Context, in *connect.Request[wb]) (*connect.Response[wb], error) {
			_, _ = upstream.CallUnary(ctx, in)
			return connect.NewResponse(&wb{}), nil
		})
		hreq := httptest.NewRequest(http.MethodPost, "/verif.v1.Front/Do", strings.NewReader(""))
		hreq.Header.Set("Content-Type", "application/proto")
		if p := safely(func() { front.ServeHTTP(httptest.NewRecorder(), hreq) }); p != nil {
			r.Fail(h.Failure{Key: "dispatch/panic", Family: "client_spec_reuse", What: fmt.Sprint("panic: ", p), Input: proto})
			continue
		}
		r.Eval("client_spec_reuse", fmt.Sprint(proto, "relay"))
		if len(upstreamSpecs) != 1 || upstreamSpecs[0].Procedure != "/verif.v1.Upstream/Do" || !upstreamSpecs[0].IsClient {
			r.Fail(h.Failure{Key: "dispatch/client-spec", Family: "client_spec_reuse", What: "a relay handler passed the request it received to an upstream client: that client's interceptors do not see the upstream procedure with IsClient set", Input: map[string]any{"proto": proto, "front": "/verif.v1.Front/Do", "upstream": "/verif.v1.Upstream/Do"}, Actual: fmt.Sprint(upstreamSpecs)})
		}
	}
}
