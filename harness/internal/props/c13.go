package props

import (
	"bytes"
	"context"
	"errors"
	"fmt"
	"io"
	"net/http"
	"net/http/httptest"
	"reflect"
	"strings"
	"sync"
	"sync/atomic"
	"time"

	connect "github.com/bufbuild/connect-go"
	"github.com/bufbuild/connect-go/verifharness/internal/h"
)

type poolTrace struct {
	mu       sync.Mutex
	gets     int
	puts     int
	state    map[*bytes.Buffer]int // 1 = handed out by Get, 2 = returned by Put
	problems []string
}

func (t *poolTrace) hooks(poison bool) *connect.VerifPoolHooks {
	return &connect.VerifPoolHooks{
		Poison: poison,
		Get: func(b *bytes.Buffer) {
			t.mu.Lock()
			t.gets++
			if t.state[b] == 1 {
				t.problems = append(t.problems, "Get returned a buffer that is still held by another operation")
			}
			t.state[b] = 1
			if b.Len() != 0 {
				t.problems = append(t.problems, fmt.Sprintf("Get returned a non-empty buffer (%d bytes)", b.Len()))
			}
			t.mu.Unlock()
		},
		Put: func(b *bytes.Buffer) {
			t.mu.Lock()
			t.puts++
			if t.state[b] == 2 {
				t.problems = append(t.problems, "the same buffer was Put twice without a Get in between")
			}
			t.state[b] = 2
			t.mu.Unlock()
		},
	}
}

// C13 — concurrent calls never interfere.
func C13(r *h.Run) {
	r.Model("c13case", "c13_ok")
	r.Sum.Rule = "(1) single-threaded scenarios with the pool hooks counting Get/Put, compared with the skeletons of Pool.v; (2) G goroutines x K calls with pairwise-distinct payloads of mixed protocols, codecs (toy with input poisoning, proto, json), compressions, RPC kinds and sizes over ONE client set and ONE handler set, pooled buffers poisoned on release and Get/Put identity tracked, one bidi stream sent on and received from concurrently — under the race detector (the binary is built with -race); each call's result must equal its expected solo result. distinct = distinct (scenario) + distinct call payloads"
	rng := r.Rng.Fork("c13")

	// ---------- (1) pool traces ----------
	type scenario struct {
		name   string
		proto  string
		unary  bool
		algo   string // request compression
		accept string
		nmsgs  int
		errMsg string // non-empty: handler returns an error with this message
		sks    []string
	}
	rep := func(s string, n int) []string {
		out := make([]string, n)
		for i := range out {
			out[i] = s
		}
		return out
	}
	cat := func(parts ...[]string) []string {
		var out []string
		for _, p := range parts {
			out = append(out, p...)
		}
		return out
	}
	var scs []scenario
	for k := 0; k <= 3; k++ {
		scs = append(scs,
			scenario{"connect client-stream plain", "connect", false, "", "", k, "", cat(rep("SkUnmarshalPlain", k), []string{"SkUnmarshalEnd", "SkMarshalPlain", "SkEndStream"})},
			scenario{"grpc client-stream plain", "grpc", false, "", "", k, "", cat(rep("SkUnmarshalPlain", k), []string{"SkUnmarshalEnd", "SkMarshalPlain"})},
			scenario{"grpcweb client-stream plain", "grpcweb", false, "", "", k, "", cat(rep("SkUnmarshalPlain", k), []string{"SkUnmarshalEnd", "SkMarshalPlain", "SkWebTrailers"})},
			scenario{"connect client-stream compressed in", "connect", false, "tagA", "", k, "", cat(rep("SkUnmarshalCompressed", k), []string{"SkUnmarshalEnd", "SkMarshalCompressed", "SkMarshalCompressed"})},
			scenario{"grpc client-stream compressed both", "grpc", false, "tagA", "tagA", k, "", cat(rep("SkUnmarshalCompressed", k), []string{"SkUnmarshalEnd", "SkMarshalCompressed"})},
		)
	}
	scs = append(scs,
		scenario{"connect unary plain", "connect", true, "", "", 1, "", []string{"SkUnaryUnmarshalPlain", "SkUnaryMarshalPlain"}},
		scenario{"connect unary compressed", "connect", true, "tagA", "", 1, "", []string{"SkUnaryUnmarshalCompressed", "SkUnaryMarshalCompressed"}},
		scenario{"grpc error with escapes", "grpc", false, "", "", 1, "needs escaping: é%", []string{"SkUnmarshalPlain", "SkUnmarshalEnd", "SkPercentSlow"}},
		scenario{"grpcweb error with escapes, no message sent", "grpcweb", false, "", "", 0, "needs escaping: é%", []string{"SkUnmarshalEnd", "SkPercentSlow"}},
	)
	for _, sc := range scs {
		cfg := envCfg{Proto: sc.proto, Algo: sc.algo}
		var retErr error
		if sc.errMsg != "" {
			retErr = connect.NewError(connect.CodeInternal, errors.New(sc.errMsg))
		}
		hopts := append(cfg.handlerOpts(), connect.WithCompressMinBytes(0))
		var handler *connect.Handler
		if sc.unary {
			handler = connect.NewUnaryHandler("/verif.Svc/M", func(_ context.Context, req *connect.Request[h.Raw]) (*connect.Response[h.Raw], error) {
				return connect.NewResponse(&h.Raw{B: []byte("response")}), nil
			}, hopts...)
		} else {
			handler = connect.NewClientStreamHandler("/verif.Svc/M", func(_ context.Context, s *connect.ClientStream[h.Raw]) (*connect.Response[h.Raw], error) {
				for s.Receive() {
				}
				if retErr != nil {
					return nil, retErr
				}
				return connect.NewResponse(&h.Raw{B: []byte("response")}), nil
			}, hopts...)
		}
		var body []byte
		for k := 0; k < sc.nmsgs; k++ {
			p := genPayload(rng, 3+k)
			switch {
			case sc.unary:
				body = compressToy(sc.algo, p)
			case sc.algo != "":
				body = append(body, h.Frame(1, compressToy(sc.algo, p))...)
			default:
				body = append(body, h.Frame(0, p)...)
			}
		}
		req := httptest.NewRequest(http.MethodPost, "/verif.Svc/M", bytes.NewReader(body))
		req.Header.Set("Content-Type", cfg.contentType(sc.unary))
		if sc.algo != "" {
			req.Header.Set(cfg.encodingHeader(sc.unary), sc.algo)
		}
		if sc.accept != "" {
			req.Header.Set("Grpc-Accept-Encoding", sc.accept)
		}
		tr := &poolTrace{state: map[*bytes.Buffer]int{}}
		connect.VerifSetPoolHooks(tr.hooks(false))
		rec := httptest.NewRecorder()
		p := safely(func() { handler.ServeHTTP(rec, req) })
		connect.VerifSetPoolHooks(nil)
		r.Eval("pool_trace", sc.name+fmt.Sprint(sc.nmsgs))
		if p != nil {
			r.Fail(h.Failure{Key: "pool/panic", Family: "pool_trace", What: fmt.Sprint("panic: ", p), Input: sc.name})
			continue
		}
		for _, pr := range tr.problems {
			r.Fail(h.Failure{Key: "pool/ownership", Family: "pool_trace", What: pr, Input: sc.name})
		}
		r.Sample("pool_trace", map[string]any{"scenario": sc.name, "messages": sc.nmsgs, "gets": tr.gets, "puts": tr.puts, "skeletons": sc.sks})
		r.Case("pool_trace", fmt.Sprintf("PoolTrace %s %d %d", h.CoqList(sc.sks), tr.gets, tr.puts),
			map[string]any{"scenario": sc.name, "messages": sc.nmsgs, "impl_gets": tr.gets, "impl_puts": tr.puts, "skeletons": sc.sks})
	}
	// the same for streams that END BADLY (the paths that leave envelopeReader / the unmarshalers
	// early): no model case, the ownership discipline only — a buffer put back twice sits in the
	// pool twice and is later handed to two overlapping calls
	for _, proto := range []string{"connect", "grpc", "grpcweb"} {
		for _, algo := range []string{"", "tagA"} {
			bads := map[string][]byte{
				"compressed flag, no encoding negotiated": h.Frame(1, []byte{9, 9, 9}),
				"compressed flag, empty payload":          h.Frame(1, nil),
				"undecodable payload":                     h.Frame(0, []byte{0xFF, 1, 2}),
				"message beyond the read limit":           h.Frame(0, bytes.Repeat([]byte{3}, 80)),
				"payload shorter than declared":           h.FrameLie(0, 9, []byte{1, 2}),
				"prefix cut":                              {0, 0, 0},
				"garbage under the compressed flag":       h.Frame(1, []byte{0x42, 1, 2, 3}),
				"end-of-stream flags in a request":        h.Frame(0x82, []byte("{}")),
			}
			for what, bad := range bads {
				for _, kind := range []string{"client", "unary"} {
					cfg := envCfg{Proto: proto, Algo: algo, Max: 64}
					hopts := append(cfg.handlerOpts(), connect.WithCompressMinBytes(0))
					var handler *connect.Handler
					if kind == "unary" {
						handler = connect.NewUnaryHandler("/verif.Svc/M", func(_ context.Context, req *connect.Request[h.Raw]) (*connect.Response[h.Raw], error) {
							return connect.NewResponse(&h.Raw{B: []byte("response")}), nil
						}, hopts...)
					} else {
						handler = connect.NewClientStreamHandler("/verif.Svc/M", func(_ context.Context, s *connect.ClientStream[h.Raw]) (*connect.Response[h.Raw], error) {
							for s.Receive() {
							}
							if err := s.Err(); err != nil {
								return nil, err
							}
							return connect.NewResponse(&h.Raw{B: []byte("response")}), nil
						}, hopts...)
					}
					body := bad
					if kind == "client" {
						body = append(h.Frame(0, []byte{1, 2, 3}), bad...)
					} else if proto == "connect" {
						body = bad[min(5, len(bad)):] // unary Connect has no envelopes: the payload alone
					}
					req := httptest.NewRequest(http.MethodPost, "/verif.Svc/M", bytes.NewReader(body))
					req.Header.Set("Content-Type", cfg.contentType(kind == "unary"))
					if algo != "" {
						req.Header.Set(cfg.encodingHeader(kind == "unary"), algo)
					}
					tr := &poolTrace{state: map[*bytes.Buffer]int{}}
					connect.VerifSetPoolHooks(tr.hooks(false))
					rec := httptest.NewRecorder()
					p := safely(func() { handler.ServeHTTP(rec, req) })
					connect.VerifSetPoolHooks(nil)
					in := map[string]any{"proto": proto, "kind": kind, "request_encoding": algo, "read_limit": 64, "request": what, "body_hex": h.Hex(body)}
					r.Eval("pool_trace_bad_stream", fmt.Sprint(proto, algo, what, kind))
					if p != nil {
						r.Fail(h.Failure{Key: "pool/panic", Family: "pool_trace_bad_stream", What: fmt.Sprint("panic: ", p), Input: in})
						continue
					}
					r.Sample("pool_trace_bad_stream", map[string]any{"in": in, "gets": tr.gets, "puts": tr.puts})
					for _, pr := range tr.problems {
						r.Fail(h.Failure{Key: "pool/ownership", Family: "pool_trace_bad_stream", What: pr, Input: in})
					}
				}
			}
		}
	}

	// ---------- (2) concurrency ----------
	tr := &poolTrace{state: map[*bytes.Buffer]int{}}
	connect.VerifSetPoolHooks(&connect.VerifPoolHooks{Poison: true, Get: tr.hooks(true).Get, Put: tr.hooks(true).Put})
	defer connect.VerifSetPoolHooks(nil)

	// one handler set, shared by everything
	sentinel := connect.NewError(connect.CodeNotFound, errors.New("shared sentinel"))
	sharedRes := connect.NewResponse(&h.Raw{B: []byte("cached answer")})
	sentinelMetaIsNil := func() bool {
		f := reflect.ValueOf(sentinel).Elem().FieldByName("meta")
		return !f.IsValid() || f.IsNil()
	}
	mux := http.NewServeMux()
	hopts := []connect.HandlerOption{connect.WithCodec(h.ToyCodec{Poison: true}), h.WithTag("tagA"), connect.WithCompressMinBytes(8)}
	mux.Handle("/verif.Svc/Unary", connect.NewUnaryHandler("/verif.Svc/Unary", func(_ context.Context, req *connect.Request[h.Raw]) (*connect.Response[h.Raw], error) {
		res := connect.NewResponse(&h.Raw{B: append([]byte("u:"), req.Msg.B...)})
		res.Header().Set("X-Echo", h.Hex(req.Msg.B[:minInt(len(req.Msg.B), 16)]))
		if len(req.Msg.B) > 0 && req.Msg.B[0] == 'R' {
			// one pre-built *Response VALUE (a cached answer) returned by every such call
			return sharedRes, nil
		}
		if len(req.Msg.B) > 0 && req.Msg.B[0] == 'N' {
			// one error VALUE returned by every such call (a package-level sentinel): the library
			// may read it from many calls at once, it must not write to it
			if len(req.Msg.B)%2 == 0 {
				return nil, fmt.Errorf("lookup: %w", sentinel)
			}
			return nil, sentinel
		}
		if len(req.Msg.B) > 0 && req.Msg.B[0] == 'E' {
			return nil, connect.NewError(connect.CodeAborted, fmt.Errorf("err:%s", h.Hex(req.Msg.B[:minInt(len(req.Msg.B), 16)])))
		}
		return res, nil
	}, hopts...))
	mux.Handle("/verif.Svc/Client", connect.NewClientStreamHandler("/verif.Svc/Client", func(_ context.Context, s *connect.ClientStream[h.Raw]) (*connect.Response[h.Raw], error) {
		var all []byte
		for s.Receive() {
			all = append(all, s.Msg().B...)
			all = append(all, '|')
		}
		return connect.NewResponse(&h.Raw{B: all}), s.Err()
	}, hopts...))
	mux.Handle("/verif.Svc/Server", connect.NewServerStreamHandler("/verif.Svc/Server", func(_ context.Context, req *connect.Request[h.Raw], s *connect.ServerStream[h.Raw]) error {
		for i := 0; i < 3; i++ {
			if err := s.Send(&h.Raw{B: append([]byte{byte('0' + i), ':'}, req.Msg.B...)}); err != nil {
				return err
			}
		}
		return nil
	}, hopts...))
	mux.Handle("/verif.Svc/FailFirst", connect.NewServerStreamHandler("/verif.Svc/FailFirst", func(_ context.Context, req *connect.Request[h.Raw], s *connect.ServerStream[h.Raw]) error {
		s.ResponseTrailer().Set("X-Trl", h.Hex(req.Msg.B[:minInt(len(req.Msg.B), 16)]))
		return connect.NewError(connect.CodeAborted, errors.New("failed before the first message"))
	}, hopts...))
	mux.Handle("/verif.Svc/Bidi", connect.NewBidiStreamHandler("/verif.Svc/Bidi", func(_ context.Context, s *connect.BidiStream[h.Raw, h.Raw]) error {
		for {
			m, err := s.Receive()
			if err != nil {
				return nil
			}
			if err := s.Send(&h.Raw{B: append([]byte("b:"), m.B...)}); err != nil {
				return err
			}
		}
	}, hopts...))
	srv := httptest.NewUnstartedServer(mux)
	srv.EnableHTTP2 = true
	srv.StartTLS()
	defer srv.Close()
	// one client set
	type cset struct {
		name   string
		unary  *connect.Client[h.Raw, h.Raw]
		client *connect.Client[h.Raw, h.Raw]
		server *connect.Client[h.Raw, h.Raw]
		bidi   *connect.Client[h.Raw, h.Raw]
		failer *connect.Client[h.Raw, h.Raw]
	}
	mk := func(name string, opts ...connect.ClientOption) cset {
		opts = append(opts, connect.WithCodec(h.ToyCodec{Poison: true}), h.WithAcceptTag("tagA"), connect.WithCompressMinBytes(8))
		return cset{name,
			connect.NewClient[h.Raw, h.Raw](srv.Client(), srv.URL+"/verif.Svc/Unary", opts...),
			connect.NewClient[h.Raw, h.Raw](srv.Client(), srv.URL+"/verif.Svc/Client", opts...),
			connect.NewClient[h.Raw, h.Raw](srv.Client(), srv.URL+"/verif.Svc/Server", opts...),
			connect.NewClient[h.Raw, h.Raw](srv.Client(), srv.URL+"/verif.Svc/Bidi", opts...),
			connect.NewClient[h.Raw, h.Raw](srv.Client(), srv.URL+"/verif.Svc/FailFirst", opts...)}
	}
	sets := []cset{mk("connect"), mk("connect+tagA", connect.WithSendCompression("tagA")), mk("grpc", connect.WithGRPC()),
		mk("grpc+tagA", connect.WithGRPC(), connect.WithSendCompression("tagA")), mk("grpcweb", connect.WithGRPCWeb()), mk("connect+gzip", connect.WithSendGzip())}
	G, K := r.N(16, 32), r.N(40, 200)
	var failures atomic.Int64
	var calls atomic.Int64
	var firstFail atomic.Value
	fail := func(what string, in any) {
		if failures.Add(1) == 1 {
			firstFail.Store(map[string]any{"what": what, "input": in})
		}
	}
	payload := func(g, k, size int, prefix byte) []byte {
		b := make([]byte, size)
		tag := fmt.Sprintf("%c%d/%d;", prefix, g, k)
		for i := range b {
			b[i] = tag[i%len(tag)]
		}
		return b
	}
	sizes := []int{3, 9, 40, 511, 512, 513, 5000}
	workload := map[string]any{"goroutines": G, "calls_per_goroutine": K, "client_sets": len(sets), "server": "one HTTP/2 TLS server, four handlers shared by all calls",
		"calls": "unary (success, per-call error, one shared sentinel error value), client stream, server stream, bidi stream sent on and received from concurrently, every third bidi stream cancelled in mid-flight"}
	r.Attempt(h.Failure{Key: "concurrency/library-panic", Family: "concurrent_calls", What: "the process died during the concurrent workload (a panic on one of the library's own goroutines cannot be recovered by the caller)", Input: workload})
	var wg sync.WaitGroup
	for g := 0; g < G; g++ {
		wg.Add(1)
		go func(g int) {
			defer wg.Done()
			lr := h.NewRng(r.Seed*1000 + uint64(g))
			for k := 0; k < K; k++ {
				cs := sets[lr.Intn(len(sets))]
				size := sizes[lr.Intn(len(sizes))]
				in := map[string]any{"goroutine": g, "call": k, "client": cs.name, "size": size}
				calls.Add(1)
				switch lr.Intn(8) {
				case 7:
					p := payload(g, k, size, 'R') // handler answers with one shared, pre-built *Response
					res, err := cs.unary.CallUnary(context.Background(), connect.NewRequest(&h.Raw{B: p}))
					if err != nil || string(res.Msg.B) != "cached answer" {
						fail("unary call answered with a shared pre-built response: wrong result", in)
					}
				case 6:
					// the caller looks at the header and trailer maps it is handed BEFORE its first
					// Receive; the handler fails before its first message (trailers-only over gRPC-Web)
					p := payload(g, k, size, 'F')
					st, err := cs.failer.CallServerStream(context.Background(), connect.NewRequest(&h.Raw{B: p}))
					if err != nil {
						break
					}
					n := 0
					for _, vs := range st.ResponseTrailer() {
						n += len(vs)
					}
					for _, vs := range st.ResponseHeader() {
						n += len(vs)
					}
					_ = n
					for st.Receive() {
					}
					var ce *connect.Error
					if err := st.Err(); err == nil || !errors.As(err, &ce) || ce.Code() != connect.CodeAborted || ce.Meta().Get("X-Trl") != h.Hex(p[:minInt(len(p), 16)]) {
						fail("server stream failing before its first message: the error or its trailer belongs to another call", in)
					}
					_ = st.Close()
				case 5:
					p := payload(g, k, size, 'N') // handler answers with the shared sentinel error
					_, err := cs.unary.CallUnary(context.Background(), connect.NewRequest(&h.Raw{B: p}))
					var ce *connect.Error
					if err == nil || !errors.As(err, &ce) || ce.Code() != connect.CodeNotFound || !strings.Contains(ce.Message(), "shared sentinel") {
						fail("unary error: the handler's shared sentinel error did not arrive", in)
					}
				case 0:
					p := payload(g, k, size, 'P')
					res, err := cs.unary.CallUnary(context.Background(), connect.NewRequest(&h.Raw{B: p}))
					if err != nil || !bytes.Equal(res.Msg.B, append([]byte("u:"), p...)) || res.Header().Get("X-Echo") != h.Hex(p[:minInt(len(p), 16)]) {
						fail("unary call: result differs from the solo result (message or header of another call?)", in)
					}
				case 1:
					p := payload(g, k, size, 'E') // handler answers with an error naming the payload
					_, err := cs.unary.CallUnary(context.Background(), connect.NewRequest(&h.Raw{B: p}))
					var ce *connect.Error
					if err == nil || !errors.As(err, &ce) || ce.Code() != connect.CodeAborted || ce.Message() != "err:"+h.Hex(p[:minInt(len(p), 16)]) {
						fail("unary error: the error text belongs to another call", in)
					}
				case 2:
					st := cs.client.CallClientStream(context.Background())
					var want []byte
					for i := 0; i < 3; i++ {
						p := payload(g, k*10+i, size, 'C')
						want = append(append(want, p...), '|')
						if err := st.Send(&h.Raw{B: p}); err != nil {
							break
						}
					}
					res, err := st.CloseAndReceive()
					if err != nil || !bytes.Equal(res.Msg.B, want) {
						fail("client stream: the handler received other messages than this call sent", in)
					}
				case 3:
					p := payload(g, k, size, 'S')
					st, err := cs.server.CallServerStream(context.Background(), connect.NewRequest(&h.Raw{B: p}))
					if err != nil {
						fail("server stream: call failed", in)
						break
					}
					i := 0
					for st.Receive() {
						if !bytes.Equal(st.Msg().B, append([]byte{byte('0' + i), ':'}, p...)) {
							fail("server stream: received a message of another call", in)
						}
						i++
					}
					if st.Err() != nil || i != 3 {
						fail("server stream: wrong count or error", in)
					}
					_ = st.Close()
				default:
					// one bidi stream, sent on and received from concurrently; every third one is
					// cancelled in mid-flight (its results are not judged, only its memory accesses)
					ctx, cancel := context.WithCancel(context.Background())
					cancelled := lr.Intn(3) == 0
					st := cs.bidi.CallBidiStream(ctx)
					n := 4
					if cancelled {
						n = 40
					}
					var inner sync.WaitGroup
					inner.Add(1)
					go func() {
						defer inner.Done()
						for i := 0; i < n; i++ {
							m, err := st.Receive()
							if cancelled && err != nil {
								return
							}
							if err != nil || !bytes.Equal(m.B, append([]byte("b:"), payload(g, k*10+i, size, 'B')...)) {
								fail("bidi stream: received a message of another call or an error", in)
								return
							}
						}
					}()
					for i := 0; i < n; i++ {
						if cancelled && i == 2+lr.Intn(10) {
							cancel()
						}
						if err := st.Send(&h.Raw{B: payload(g, k*10+i, size, 'B')}); err != nil {
							if !cancelled {
								fail("bidi stream: send failed", in)
							}
							break
						}
					}
					if cancelled {
						cancel()
					}
					inner.Wait()
					cancel()
					_ = st.CloseRequest()
					_ = st.CloseResponse()
				}
			}
		}(g)
	}
	wg.Wait()
	r.Survived()
	if !sentinelMetaIsNil() {
		r.Fail(h.Failure{Key: "concurrency/shared-error-written", Family: "concurrent_calls", What: "the library wrote to an error value the handler returns from many concurrent calls (its metadata field went from nil to a map): an unsynchronised write to memory shared between calls", Input: workload})
	}
	r.Sum.Evaluations += int(calls.Load())
	r.Sum.Distribution["concurrent_calls"] = int(calls.Load())
	// handlers may still be finishing on the servers' goroutines: read the counters under the trace's lock
	tr.mu.Lock()
	gets, puts := tr.gets, tr.puts
	tr.mu.Unlock()
	r.Sample("concurrent_calls", map[string]any{"goroutines": G, "calls_per_goroutine": K, "client_sets": len(sets), "pool_gets": gets, "pool_puts": puts, "race_detector": raceEnabled})
	if failures.Load() > 0 {
		ff, _ := firstFail.Load().(map[string]any)
		r.Fail(h.Failure{Key: "concurrency/cross-talk", Family: "concurrent_calls", What: fmt.Sprintf("%d call(s) did not produce their solo result under concurrency: %v", failures.Load(), ff["what"]), Input: ff["input"]})
	}
	tr.mu.Lock()
	for i, pr := range tr.problems {
		if i < 3 {
			r.Fail(h.Failure{Key: "pool/ownership", Family: "concurrent_calls", What: pr, Input: "concurrent run"})
		}
	}
	tr.mu.Unlock()
	// ---------- (2a) headers handed to user code: a client interceptor appends to the request
	// headers the library wrote (User-Agent, Accept-Encoding, Te); what one call appends must
	// never show up in another call's request ----------
	{
		hmux := http.NewServeMux()
		hmux.Handle("/verif.Svc/Seen", connect.NewUnaryHandler("/verif.Svc/Seen", func(_ context.Context, req *connect.Request[h.Raw]) (*connect.Response[h.Raw], error) {
			res := connect.NewResponse(&h.Raw{B: req.Msg.B})
			for _, k := range []string{"User-Agent", "Accept-Encoding", "Content-Type", "Te", "Grpc-Accept-Encoding"} {
				res.Header().Set("X-Seen-"+k, strings.Join(req.Header().Values(k), "|"))
			}
			return res, nil
		}, connect.WithCodec(h.ToyCodec{})))
		lc := &h.LocalClient{Handler: hmux}
		var bad atomic.Int64
		var firstBad atomic.Value
		for _, proto := range []string{"connect", "grpc", "grpcweb"} {
			opts := []connect.ClientOption{connect.WithCodec(h.ToyCodec{}), connect.WithInterceptors(appendIcpt{})}
			switch proto {
			case "grpc":
				opts = append(opts, connect.WithGRPC())
			case "grpcweb":
				opts = append(opts, connect.WithGRPCWeb())
			}
			cl := connect.NewClient[h.Raw, h.Raw](lc, "http://verif.local/verif.Svc/Seen", opts...)
			var wg3 sync.WaitGroup
			for g := 0; g < 8; g++ {
				wg3.Add(1)
				go func(g int) {
					defer wg3.Done()
					for k := 0; k < r.N(12, 60); k++ {
						id := fmt.Sprintf("app-%s-%d-%d", proto, g, k)
						req := connect.NewRequest(&h.Raw{B: []byte(id)})
						req.Header().Set("X-Append-Id", id)
						res, err := cl.CallUnary(context.Background(), req)
						if err != nil {
							continue
						}
						for _, k := range []string{"User-Agent", "Accept-Encoding", "Content-Type", "Te", "Grpc-Accept-Encoding"} {
							seen := res.Header().Get("X-Seen-" + k)
							for _, part := range strings.Split(seen, "|") {
								if strings.HasPrefix(part, "app-") && part != id {
									if bad.Add(1) == 1 {
										firstBad.Store(map[string]any{"proto": proto, "call": id, "header": k, "handler_saw": seen})
									}
								}
							}
						}
					}
				}(g)
			}
			wg3.Wait()
		}
		r.Eval("appended_headers", "3 protocols x 8 goroutines")
		if bad.Load() > 0 {
			r.Fail(h.Failure{Key: "concurrency/cross-talk", Family: "appended_headers", What: fmt.Sprintf("%d request(s) carried a header value that another call's interceptor had appended", bad.Load()),
				Input: map[string]any{"clients": "one per protocol, shared by 8 goroutines", "interceptor": "appends the call's id to User-Agent, Accept-Encoding and Te with Header.Add"}, Actual: firstBad.Load()})
		}
	}

	// ---------- (2a') values the HANDLER hands to the library from many calls at once: one
	// pre-built *Response (a cached answer), fresh for each round so that every round has a
	// "first use"; the library may read it, not write to it ----------
	{
		var cur atomic.Pointer[connect.Response[h.Raw]]
		smux := http.NewServeMux()
		smux.Handle("/verif.Svc/Cached", connect.NewUnaryHandler("/verif.Svc/Cached", func(context.Context, *connect.Request[h.Raw]) (*connect.Response[h.Raw], error) {
			return cur.Load(), nil
		}, connect.WithCodec(h.ToyCodec{})))
		lc := &h.LocalClient{Handler: smux}
		cl := connect.NewClient[h.Raw, h.Raw](lc, "http://verif.local/verif.Svc/Cached", connect.WithCodec(h.ToyCodec{}))
		rounds := r.N(30, 200)
		for round := 0; round < rounds; round++ {
			cur.Store(connect.NewResponse(&h.Raw{B: []byte("cached answer")}))
			var wg4 sync.WaitGroup
			startGun := make(chan struct{})
			for g := 0; g < 8; g++ {
				wg4.Add(1)
				go func() {
					defer wg4.Done()
					<-startGun
					_, _ = cl.CallUnary(context.Background(), connect.NewRequest(&h.Raw{B: []byte("q")}))
				}()
			}
			close(startGun)
			wg4.Wait()
		}
		r.Eval("shared_response", fmt.Sprint(rounds, " rounds x 8 simultaneous calls"))
	}

	// ---------- (2b) the two sides of ONE call ending it at the same instant: the transport
	// fails the request (the library's request goroutine records the error and closes the
	// request pipe) while the caller closes the request side. A library goroutine that panics
	// here takes the process down; nothing the caller does can recover it ----------
	{
		failing := roundTripFunc(func(req *http.Request) (*http.Response, error) {
			if req.Body != nil {
				_ = req.Body.Close()
			}
			return nil, errors.New("connection refused")
		})
		cl := connect.NewClient[h.Raw, h.Raw](failing, "http://verif.local/verif.Svc/Bidi", connect.WithCodec(h.ToyCodec{}))
		dur := time.Duration(r.N(1200, 12000)) * time.Millisecond
		stress := map[string]any{"goroutines": 16, "duration_ms": dur.Milliseconds(), "transport": "Do closes the request body and fails",
			"each_call": "CallBidiStream; Send; CloseRequest; Receive; CloseResponse — the caller's CloseRequest and the request goroutine's failure meet"}
		r.Attempt(h.Failure{Key: "concurrency/library-panic", Family: "close_vs_failure", What: "the process died while calls were being ended from both sides at once (a panic on one of the library's own goroutines cannot be recovered by the caller)", Input: stress})
		var n atomic.Int64
		deadline := time.Now().Add(dur)
		var wg2 sync.WaitGroup
		for g := 0; g < 16; g++ {
			wg2.Add(1)
			go func() {
				defer wg2.Done()
				for time.Now().Before(deadline) {
					st := cl.CallBidiStream(context.Background())
					_ = st.Send(&h.Raw{B: []byte("x")})
					_ = st.CloseRequest()
					_, _ = st.Receive()
					_ = st.CloseResponse()
					n.Add(1)
				}
			}()
		}
		wg2.Wait()
		r.Survived()
		r.Sum.Evaluations += int(n.Load())
		r.Sum.Distribution["close_vs_failure"] = int(n.Load())
		r.Sample("close_vs_failure", map[string]any{"in": stress, "calls_completed": n.Load()})
	}

	// ---------- (2c) a client whose construction failed (an option named a compression that is
	// not registered): every call fails with that error. Callers on G goroutines each read the
	// error's metadata and note something there — as they may with any error they are handed ----
	{
		bad := connect.NewClient[h.Raw, h.Raw](&h.CannedClient{Build: func(*http.Request) (*http.Response, error) { return nil, errors.New("unreachable") }},
			"http://verif.local/verif.Svc/M", connect.WithCodec(h.ToyCodec{}), connect.WithSendCompression("zstd"))
		const G = 8
		var wg sync.WaitGroup
		start := make(chan struct{})
		foreign := make([][]string, G)
		codes := make([]connect.Code, G)
		for g := 0; g < G; g++ {
			wg.Add(1)
			go func(g int) {
				defer wg.Done()
				<-start
				var err error
				switch g % 4 {
				case 0:
					_, err = bad.CallUnary(context.Background(), connect.NewRequest(&h.Raw{B: []byte("q")}))
				case 1:
					_, err = bad.CallServerStream(context.Background(), connect.NewRequest(&h.Raw{B: []byte("q")}))
				case 2:
					st := bad.CallClientStream(context.Background())
					err = st.Send(&h.Raw{B: []byte("q")})
					if err == nil || errors.Is(err, io.EOF) {
						_, err = st.CloseAndReceive()
					}
				default:
					st := bad.CallBidiStream(context.Background())
					err = st.Send(&h.Raw{B: []byte("q")})
					if err == nil || errors.Is(err, io.EOF) {
						_, err = st.Receive()
					}
				}
				codes[g] = connect.CodeOf(err)
				var ce *connect.Error
				if errors.As(err, &ce) {
					foreign[g] = append([]string(nil), ce.Meta().Values("X-Seen-By")...)
					ce.Meta().Add("X-Seen-By", fmt.Sprint("goroutine-", g))
				}
			}(g)
		}
		close(start)
		wg.Wait()
		in := map[string]any{"client": "NewClient(..., WithSendCompression(\"zstd\")) — zstd is not registered: construction failed", "goroutines": G, "each": "makes one call (unary / server / client / bidi by turns), reads the error's Meta() and adds X-Seen-By there"}
		r.Eval("misconfigured_client", "shared construction error")
		r.Sample("misconfigured_client", map[string]any{"in": in, "codes": fmt.Sprint(codes), "metadata_found_by_each": foreign})
		for g := 0; g < G; g++ {
			if len(foreign[g]) > 0 {
				r.Fail(h.Failure{Key: "concurrency/error-value-shared", Family: "misconfigured_client", What: "the error one call returned carries what the caller of ANOTHER call noted in its error's metadata: the calls share one mutable error value", Input: in, Actual: map[string]any{"goroutine": g, "found": foreign[g]}})
				break
			}
		}
	}

	// ---------- (2d) the request header map belongs to the caller (RequestHeader()): whatever the
	// library writes into it when the request is sent, it writes on the caller's goroutine,
	// before the call that triggered the send returns — a caller may read the map right after.
	// Streams whose request is started by CloseRequest (no Send), context with a deadline ----
	for i := 0; i < r.N(24, 200); i++ {
		proto := []string{"connect", "grpc", "grpcweb"}[i%3]
		opts := []connect.ClientOption{connect.WithCodec(h.ToyCodec{})}
		hname := "Connect-Timeout-Ms"
		switch proto {
		case "grpc":
			opts, hname = append(opts, connect.WithGRPC()), "Grpc-Timeout"
		case "grpcweb":
			opts, hname = append(opts, connect.WithGRPCWeb()), "Grpc-Timeout"
		}
		release := make(chan struct{})
		doer := roundTripFunc(func(req *http.Request) (*http.Response, error) {
			<-release
			return nil, errors.New("verif: stop here")
		})
		client := connect.NewClient[h.Raw, h.Raw](doer, "http://verif.invalid/verif.Svc/M", opts...)
		ctx, cancel := context.WithTimeout(context.Background(), 5*time.Second)
		var announced []string
		st := client.CallBidiStream(ctx)
		_ = st.CloseRequest()
		announced = st.RequestHeader().Values(hname)
		close(release)
		_ = st.CloseResponse()
		cancel()
		r.Eval("request_header_after_send", fmt.Sprint(proto, i))
		in := map[string]any{"proto": proto, "program": "CallBidiStream(ctx with a deadline); CloseRequest; read RequestHeader() while the request goroutine is inside HTTPClient.Do"}
		if i < 6 {
			r.Sample("request_header_after_send", map[string]any{"in": in, "timeout_header_seen_by_the_caller": announced})
		}
		if len(announced) != 1 {
			r.Fail(h.Failure{Key: "concurrency/request-header-written-late", Family: "request_header_after_send", What: "after CloseRequest returned the caller does not find the announced timeout in its request header map: it is written later, by another goroutine", Input: in, Actual: announced})
			break
		}
	}

	// ---------- (3) pooled decompressors: after messages that end in each early-exit
	// branch of Decompress (corrupt stream; decompressed size beyond the read limit),
	// concurrent calls must never be handed the same decompressor ----------
	connect.VerifSetPoolHooks(nil)
	for round := 0; round < r.N(6, 30); round++ {
		// run-length pairs (count, value): 4 wire bytes that inflate to 510 bytes, beyond the limit of 256
		bomb := []byte{255, 'x', 255, 'y'}
		bomb2 := []byte{255, 'x', 2, 'y'} // one byte beyond the limit
		corrupt := []byte{3, 'a', 7}      // dangling count: fails in Read
		triggers := [][][]byte{{bomb}, {bomb2}, {corrupt}, {bomb, corrupt, bomb2}}[round%4]
		probs, wrong, first := decompressorSharingAlgo("rle", triggers, 16, 10)
		r.Eval("decompressor_sharing", fmt.Sprint(round))
		in := map[string]any{"first": []string{"4 wire bytes that inflate beyond the read limit", "a message that inflates to one byte beyond the read limit", "a corrupt compressed message", "all three"}[round%4], "then": "16 goroutines x 10 valid compressed unary calls on the same handler"}
		for _, pr := range probs {
			r.Fail(h.Failure{Key: "pool/decompressor-shared", Family: "decompressor_sharing", What: pr, Input: in})
		}
		if wrong > 0 {
			r.Fail(h.Failure{Key: "concurrency/cross-talk", Family: "decompressor_sharing", What: fmt.Sprintf("%d call(s) did not get the echo of their own request", wrong), Input: in, Actual: first})
		}
	}
	r.Note("race detector enabled in this binary: %v", raceEnabled)
}

// appendIcpt appends the call's id (request header X-Append-Id) to headers the library wrote.
type appendIcpt struct{}

func (appendIcpt) WrapUnary(next connect.UnaryFunc) connect.UnaryFunc {
	return func(ctx context.Context, req connect.AnyRequest) (connect.AnyResponse, error) {
		if req.Spec().IsClient {
			id := req.Header().Get("X-Append-Id")
			for _, k := range []string{"User-Agent", "Accept-Encoding", "Te"} {
				req.Header().Add(k, id)
			}
		}
		return next(ctx, req)
	}
}
func (appendIcpt) WrapStreamingClient(next connect.StreamingClientFunc) connect.StreamingClientFunc {
	return next
}
func (appendIcpt) WrapStreamingHandler(next connect.StreamingHandlerFunc) connect.StreamingHandlerFunc {
	return next
}
